(* C18  Relative paths and generated include directives lead to the file they name. *)
From Coq Require Import String.   (* string literals of the examples; imported first so the list names win *)
From Coq Require Import NArith ZArith List Bool.
From DictIO Require Import Chars Str Value Scalar Paths MiscSpec PathsProofs.
Import ListNotations.

Module C18_ex.
  Definition a : comps := [of_string "t"; of_string "d1"; of_string "s1"; of_string "deep"].
  Definition b : comps := [of_string "t"; of_string "d1"; of_string "s2"; of_string "x.y"; of_string "b"].
  Definition c : comps := [of_string "t"; of_string "d1"; of_string "s1"; of_string "deep"; of_string "er"; of_string "..."].
  Definition d : comps := [of_string "t"; of_string "d1"].
End C18_ex.
Ltac nodots_tac := repeat (constructor; [reflexivity|]); constructor.

(* the relative path joined to the start location denotes the target: below, above and beside the start *)
Theorem C18_rel_join : forall from to, nodots from -> nodots to -> norm_join from (relative_path from to) = to.
Proof. exact rel_join. Qed.
Print Assumptions C18_rel_join.

(* non-vacuity: target beside, below and above the start *)
Example C18_rel_join_nonvacuous :
  nodots C18_ex.a /\ nodots C18_ex.b /\ nodots C18_ex.c /\ nodots C18_ex.d /\
  (relative_path C18_ex.a C18_ex.b = [dotdot; dotdot; of_string "s2"; of_string "x.y"; of_string "b"] /\
   norm_join C18_ex.a (relative_path C18_ex.a C18_ex.b) = C18_ex.b) /\
  (relative_path C18_ex.a C18_ex.c = [of_string "er"; of_string "..."] /\ norm_join C18_ex.a (relative_path C18_ex.a C18_ex.c) = C18_ex.c) /\
  (relative_path C18_ex.a C18_ex.d = [dotdot; dotdot] /\ norm_join C18_ex.a (relative_path C18_ex.a C18_ex.d) = C18_ex.d).
Proof.
  assert (Ha : nodots C18_ex.a) by nodots_tac. assert (Hb : nodots C18_ex.b) by nodots_tac.
  assert (Hc : nodots C18_ex.c) by nodots_tac. assert (Hd : nodots C18_ex.d) by nodots_tac.
  refine (conj Ha (conj Hb (conj Hc (conj Hd (conj (conj _ (C18_rel_join _ _ Ha Hb))
            (conj (conj _ (C18_rel_join _ _ Ha Hc)) (conj _ (C18_rel_join _ _ Ha Hd)))))))); vm_compute; reflexivity.
Qed.

(* the common root is an ancestor of every path ... *)
Theorem C18_hcr_ancestor : forall l x, In x l -> is_prefix (common_prefix_all l) x = true.
Proof. exact hcr_ancestor. Qed.
Print Assumptions C18_hcr_ancestor.

Example C18_hcr_ancestor_nonvacuous :
  let l := [C18_ex.a; C18_ex.b; C18_ex.c] in
  In C18_ex.b l /\ common_prefix_all l = [of_string "t"; of_string "d1"] /\ is_prefix (common_prefix_all l) C18_ex.b = true.
Proof.
  intros l. assert (H : In C18_ex.b l) by (right; left; reflexivity).
  refine (conj H (conj _ (C18_hcr_ancestor l _ H))). vm_compute. reflexivity.
Qed.

(* ... and no deeper common ancestor exists *)
Theorem C18_hcr_deepest : forall l p, l <> [] -> (forall x, In x l -> is_prefix p x = true) ->
  is_prefix p (common_prefix_all l) = true.
Proof. exact hcr_deepest. Qed.
Print Assumptions C18_hcr_deepest.

Example C18_hcr_deepest_nonvacuous :
  let l := [C18_ex.a; C18_ex.b; C18_ex.c] in let p := [of_string "t"] in
  l <> [] /\ (forall x, In x l -> is_prefix p x = true) /\ is_prefix p (common_prefix_all l) = true.
Proof.
  intros l p. assert (H1 : l <> []) by discriminate.
  assert (H2 : forall x, In x l -> is_prefix p x = true).
  { intros x Hx. cbn [l In] in Hx. destruct Hx as [<-|[<-|[<-|[]]]]; vm_compute; reflexivity. }
  exact (conj H1 (conj H2 (C18_hcr_deepest l p H1 H2))).
Qed.

(* the directive written for an include names, when read again, exactly the relative path that was registered *)
Theorem C18_directive : forall n, has_char c_dollar n = false -> (has_char c_sq n && has_char c_dq n) = false ->
  directive_name (of_string "#include " ++ format_string n) = Some n.
Proof. exact directive_roundtrip. Qed.
Print Assumptions C18_directive.

(* non-vacuity: a relative path with a blank (written in single quotes), one with an apostrophe (double quotes), a
   plain one (bare) *)
Example C18_directive_nonvacuous :
  let n1 := of_string "../s 2/x.y/b" in let n2 := of_string "../it's/b" in let n3 := of_string "sub/b.dict" in
  (has_char c_dollar n1 = false /\ (has_char c_sq n1 && has_char c_dq n1) = false /\
   of_string "#include " ++ format_string n1 = of_string "#include '../s 2/x.y/b'" /\
   directive_name (of_string "#include " ++ format_string n1) = Some n1) /\
  (has_char c_dollar n2 = false /\ (has_char c_sq n2 && has_char c_dq n2) = false /\
   of_string "#include " ++ format_string n2 = of_string "#include ""../it's/b""" /\
   directive_name (of_string "#include " ++ format_string n2) = Some n2) /\
  (has_char c_dollar n3 = false /\ (has_char c_sq n3 && has_char c_dq n3) = false /\
   directive_name (of_string "#include " ++ format_string n3) = Some n3).
Proof.
  intros n1 n2 n3.
  assert (A1 : has_char c_dollar n1 = false) by (vm_compute; reflexivity).
  assert (B1 : (has_char c_sq n1 && has_char c_dq n1) = false) by (vm_compute; reflexivity).
  assert (A2 : has_char c_dollar n2 = false) by (vm_compute; reflexivity).
  assert (B2 : (has_char c_sq n2 && has_char c_dq n2) = false) by (vm_compute; reflexivity).
  assert (A3 : has_char c_dollar n3 = false) by (vm_compute; reflexivity).
  assert (B3 : (has_char c_sq n3 && has_char c_dq n3) = false) by (vm_compute; reflexivity).
  refine (conj (conj A1 (conj B1 (conj _ (C18_directive n1 A1 B1))))
         (conj (conj A2 (conj B2 (conj _ (C18_directive n2 A2 B2)))) (conj A3 (conj B3 (C18_directive n3 A3 B3)))));
  vm_compute; reflexivity.
Qed.

Example C18_example :
  let a := [of_string "t"; of_string "d1"; of_string "s1"; of_string "deep"] in
  let b := [of_string "t"; of_string "d1"; of_string "s2"; of_string "x.y"; of_string "b"] in
  relative_path a b = [dotdot; dotdot; of_string "s2"; of_string "x.y"; of_string "b"] /\ norm_join a (relative_path a b) = b.
Proof. vm_compute. split; reflexivity. Qed.

(* ================================================================================================== *)
(* added from Properties/C18_add.v (2026-10-01)                                              *)
(* ================================================================================================== *)
(* C18 additions: the chain from SDict.include + dump to the read, end to end on the model
   (proofs: Proofs/IncludeChainProofs.v).
   1. path STRINGS of the reader (norm_path, dir_of, path_join) against the component lists of C18_rel_join;
   2. the text the writer produces for a dict with one registered include, and what the lexer's include stage registers
      for the directive line of that text;
   3. reading the dumped file merges the included file, wherever the two files are. *)
From Coq Require Import NArith ZArith List Bool.
From DictIO Require Import Chars Str Value Scalar KeyPath SDict Layout Lexer TokParser Reader Paths TreeSpec MiscSpec.
From DictIO Require Import E2EHoles RereadStr PathsProofs IncludeChainProofs.
Import ListNotations.

(* ---- 1. strings <-> components -------------------------------------------------------------------------- *)
(* a normalised absolute path string is the string of its components, and these are ordinary components (not empty,
   not dot, not dot-dot, free of slashes); conversely such a component list is the component list of its string *)
Theorem C18_path_string_components : forall p, norm_path p = p -> p = path_str (comps_of p) /\ comps_ok (comps_of p) = true.
Proof. exact path_string_components. Qed.
Print Assumptions C18_path_string_components.

Theorem C18_components_path_string : forall c, comps_ok c = true -> norm_path (path_str c) = path_str c /\ comps_of (path_str c) = c.
Proof. exact components_path_string. Qed.
Print Assumptions C18_components_path_string.

Example C18_path_string_components_nonvacuous :
  let p := of_string "/r/run 1/v1.2/a.dict" in
  norm_path p = p /\ comps_of p = [of_string "r"; of_string "run 1"; of_string "v1.2"; of_string "a.dict"] /\
  p = path_str (comps_of p) /\ comps_ok (comps_of p) = true /\
  norm_path (path_str (comps_of p)) = path_str (comps_of p) /\ comps_of (path_str (comps_of p)) = comps_of p.
Proof.
  intros p. assert (H : norm_path p = p) by (vm_compute; reflexivity).
  destruct (C18_path_string_components p H) as [H1 H2]. destruct (C18_components_path_string _ H2) as [H3 H4].
  refine (conj H (conj _ (conj H1 (conj H2 (conj H3 H4))))). vm_compute. reflexivity.
Qed.

(* the reader's resolution of a relative name (textual join with the folder, then os.path.normpath) is norm_join on
   the components: dot-dot components of the name climb *)
Theorem C18_join_normalises : forall d rel, comps_ok d = true -> rel_ok rel = true ->
  norm_path (path_join (path_str d) (join_slash rel)) = path_str (norm_join d rel).
Proof. exact norm_path_joined. Qed.
Print Assumptions C18_join_normalises.

Example C18_join_normalises_nonvacuous :
  let d := [of_string "r"; of_string "run 1"; of_string "v1.2"] in
  let rel := [dotdot; dotdot; of_string "other dir"; of_string "b.dict"] in
  comps_ok d = true /\ rel_ok rel = true /\
  path_join (path_str d) (join_slash rel) = of_string "/r/run 1/v1.2/../../other dir/b.dict" /\
  norm_path (path_join (path_str d) (join_slash rel)) = path_str (norm_join d rel) /\
  path_str (norm_join d rel) = of_string "/r/other dir/b.dict".
Proof.
  intros d rel. assert (H1 : comps_ok d = true) by (vm_compute; reflexivity).
  assert (H2 : rel_ok rel = true) by (vm_compute; reflexivity).
  refine (conj H1 (conj H2 (conj _ (conj (C18_join_normalises d rel H1 H2) _)))); vm_compute; reflexivity.
Qed.

(* C18_rel_join lifted to the reader's string functions: the include name computed by SDict.include for the dict file
   pb in the dict file pa (relative path from pa's folder, POSIX separators), joined to pa's folder as the reader does
   and normalised, is pb.  For any two normalised absolute paths: same folder, below, above, beside. *)
Theorem C18_rel_join_strings : forall pa pb, norm_path pa = pa -> norm_path pb = pb ->
  norm_path (path_join (dir_of pa) (include_name pa pb)) = pb.
Proof. exact rel_join_str. Qed.
Print Assumptions C18_rel_join_strings.

(* the five placements of the non-vacuity checks; folder names with a blank and with a dot *)
Module C18_chain_ex.
  Definition a_top := of_string "/r/run 1/a.dict".
  Definition a_deep := of_string "/r/run 1/v1.2/a.dict".
  Definition b_same := of_string "/r/run 1/b.dict".                (* same folder as a_top; parent folder of a_deep *)
  Definition b_child := of_string "/r/run 1/v1.2/b.dict".          (* below a_top *)
  Definition b_sibling := of_string "/r/other dir/b.dict".         (* beside a_top *)
  Definition b_cousin := of_string "/r/other dir/v1.2/b.dict".     (* beside a_deep, two levels up and down *)
  (* the data of the including dict (a) and of the included file (b): x is in both *)
  Definition da : list (key * tree) :=
    [(KS (of_string "x"), Leaf (SInt 1)); (KS (of_string "d"), Dict [(KS (of_string "y"), Leaf (SStr (of_string "two words")))])].
  Definition db : list (key * tree) := [(KS (of_string "x"), Leaf (SInt 9)); (KS (of_string "z"), Leaf (SInt 3))].
  Definition tb : str := to_string_plain db.
End C18_chain_ex.
Import C18_chain_ex.

Example C18_rel_join_strings_nonvacuous :
  (norm_path a_top = a_top /\ norm_path a_deep = a_deep /\ norm_path b_same = b_same /\ norm_path b_child = b_child /\
   norm_path b_sibling = b_sibling /\ norm_path b_cousin = b_cousin) /\
  (include_name a_top b_same = of_string "b.dict" /\ norm_path (path_join (dir_of a_top) (include_name a_top b_same)) = b_same) /\
  (include_name a_top b_child = of_string "v1.2/b.dict" /\ norm_path (path_join (dir_of a_top) (include_name a_top b_child)) = b_child) /\
  (include_name a_deep b_same = of_string "../b.dict" /\ norm_path (path_join (dir_of a_deep) (include_name a_deep b_same)) = b_same) /\
  (include_name a_top b_sibling = of_string "../other dir/b.dict" /\
   norm_path (path_join (dir_of a_top) (include_name a_top b_sibling)) = b_sibling) /\
  (include_name a_deep b_cousin = of_string "../../other dir/v1.2/b.dict" /\
   path_join (dir_of a_deep) (include_name a_deep b_cousin) = of_string "/r/run 1/v1.2/../../other dir/v1.2/b.dict" /\
   norm_path (path_join (dir_of a_deep) (include_name a_deep b_cousin)) = b_cousin).
Proof.
  assert (A1 : norm_path a_top = a_top) by (vm_compute; reflexivity).
  assert (A2 : norm_path a_deep = a_deep) by (vm_compute; reflexivity).
  assert (B1 : norm_path b_same = b_same) by (vm_compute; reflexivity).
  assert (B2 : norm_path b_child = b_child) by (vm_compute; reflexivity).
  assert (B3 : norm_path b_sibling = b_sibling) by (vm_compute; reflexivity).
  assert (B4 : norm_path b_cousin = b_cousin) by (vm_compute; reflexivity).
  refine (conj (conj A1 (conj A2 (conj B1 (conj B2 (conj B3 B4)))))
         (conj (conj _ (C18_rel_join_strings _ _ A1 B1)) (conj (conj _ (C18_rel_join_strings _ _ A1 B2))
         (conj (conj _ (C18_rel_join_strings _ _ A2 B1)) (conj (conj _ (C18_rel_join_strings _ _ A1 B3))
         (conj _ (conj _ (C18_rel_join_strings _ _ A2 B4)))))))); vm_compute; reflexivity.
Qed.

(* ---- 2. the dumped text and the lexer's include stage ---------------------------------------------------- *)
(* sd_with_include da i name path: what SDict.include leaves in a dict built in memory (the placeholder entry
   INCLUDE<i> appended to the data da, the entry (directive, name, path) in the include table; no comments).
   NativeFormatter.to_string writes the default header, the directive line `#include <formatted name>` and then the
   text of the data.  Side conditions: name_ok = no line break in the name (the only condition on the name in this chain:
   dollars, blanks, dots, hashes, quotes of both kinds are fine, C18_include_dump_read_nonvacuous_quotes_dollar; a line
   break cuts the directive, C18_line_break_finding); i below a million (six-digit placeholders);
   plain_top da: no top-level key of da spells a block comment or include placeholder (the writer moves such entries to
   the front); the data text of da does not spell the placeholder INCLUDE<i> itself. *)
Theorem C18_dumped_text : forall da i name path,
  name_ok name = true -> (i < 1000000)%N -> plain_top da = true -> contains (iph i) (native_body da) = false ->
  to_string_sd (sd_with_include da i name path) =
  native_header ++ (of_string "#include " ++ format_string name) ++ c_lf :: to_string_plain da.
Proof. exact sd_include_text. Qed.
Print Assumptions C18_dumped_text.

Example C18_dumped_text_nonvacuous :
  let name := include_name a_top b_sibling in
  name_ok name = true /\ (7 < 1000000)%N /\ plain_top da = true /\ contains (iph 7) (native_body da) = false /\
  to_string_sd (sd_with_include da 7 name b_sibling) =
    native_header ++ (of_string "#include " ++ format_string name) ++ c_lf :: to_string_plain da /\
  to_string_sd (sd_with_include da 7 name b_sibling) = of_string
"/*---------------------------------*- C++ -*----------------------------------*\
filetype dictionary; coding utf-8; version 0.1; local --; purpose --;
\*----------------------------------------------------------------------------*/
#include '../other dir/b.dict'
x                             1;
d
{
    y                         'two words';
}
".
Proof.
  intros name. assert (H1 : name_ok name = true) by (vm_compute; reflexivity).
  assert (H2 : (7 < 1000000)%N) by reflexivity. assert (H3 : plain_top da = true) by (vm_compute; reflexivity).
  assert (H4 : contains (iph 7) (native_body da) = false) by (vm_compute; reflexivity).
  refine (conj H1 (conj H2 (conj H3 (conj H4 (conj (C18_dumped_text da 7 name b_sibling H1 H2 H3 H4) _))))).
  vm_compute. reflexivity.
Qed.

(* the include stage of the lexer (any comments flag, any counter) on a text made of complete lines P, the directive
   line written for the relative path rel, and a rest T: it registers exactly one include, with the directive text, the
   name  join_slash rel  and the path  path_join dir name  anchored at the folder of the file being read.
   Side conditions: no other hash sign in the text (a hash may start another directive) and no double slash (the line
   comment stage runs first and would cut the line there). *)
Theorem C18_lexer_registers_directive : forall com dir c P T rel,
  name_ok (join_slash rel) = true ->
  ends_lf P -> has_char c_cr P = false -> has_char c_hash P = false -> has_char c_hash T = false ->
  nopair c_slash c_slash (P ++ include_directive_text rel ++ c_lf :: T) = true ->
  lxd_inc (lex com dir c (P ++ include_directive_text rel ++ c_lf :: T)) =
    [(Z.to_N (counter_next c), (include_directive_text rel, join_slash rel, path_join dir (join_slash rel)))].
Proof. exact lex_include_directive. Qed.
Print Assumptions C18_lexer_registers_directive.

Example C18_lexer_registers_directive_nonvacuous :
  let rel := [dotdot; of_string "other dir"; of_string "b.dict"] in
  let P := native_header in let T := to_string_plain da in let dir := of_string "/r/run 1" in
  name_ok (join_slash rel) = true /\ ends_lf P /\ has_char c_cr P = false /\ has_char c_hash P = false /\
  has_char c_hash T = false /\ nopair c_slash c_slash (P ++ include_directive_text rel ++ c_lf :: T) = true /\
  lxd_inc (lex true dir 41 (P ++ include_directive_text rel ++ c_lf :: T)) =
    [(42%N, (of_string "#include '../other dir/b.dict'", of_string "../other dir/b.dict", of_string "/r/run 1/../other dir/b.dict"))].
Proof.
  intros rel P T dir. assert (H1 : name_ok (join_slash rel) = true) by (vm_compute; reflexivity).
  assert (H2 : ends_lf P) by (right; exists (removelast P); vm_compute; reflexivity).
  assert (H3 : has_char c_cr P = false) by (vm_compute; reflexivity).
  assert (H4 : has_char c_hash P = false) by (vm_compute; reflexivity).
  assert (H5 : has_char c_hash T = false) by (vm_compute; reflexivity).
  assert (H6 : nopair c_slash c_slash (P ++ include_directive_text rel ++ c_lf :: T) = true) by (vm_compute; reflexivity).
  refine (conj H1 (conj H2 (conj H3 (conj H4 (conj H5 (conj H6 _)))))).
  rewrite (C18_lexer_registers_directive true dir 41%Z P T rel H1 H2 H3 H4 H5 H6). vm_compute. reflexivity.
Qed.

(* ---- 3. reading the dumped file merges the included file ---------------------------------------------------- *)
(* Given the include entry in the table of the parsed file a (name = the relative path computed by SDict.include, path =
   that name joined to a's folder: what the include stage registers), for ANY two normalised absolute paths pa, pb:
   the entry resolves to pb, so the read of a parses the file at pb and every ordinary top-level key of it is a key of
   the result, and every ordinary leaf of a itself is kept (the including file wins).  C06 composed with
   C18_rel_join_strings. *)
Theorem C18_include_read : forall fs pa pb com c s c' ua pra i d ub,
  norm_path pa = pa -> norm_path pb = pb ->
  read_plain fs pa true com c = Ok (s, c') ->
  fs_lookup pa fs = Some ua -> parse_unit com pa c ua = Ok pra ->
  In (i, (d, include_name pa pb, path_join (dir_of pa) (include_name pa pb))) (sd_inc (pr_sd pra)) ->
  fs_lookup pb fs = Some ub ->
  (exists c1 prb, parse_unit com (path_join (dir_of pa) (include_name pa pb)) c1 ub = Ok prb /\
     forall k, ordinary_key k = true -> alookup k (sd_data (pr_sd prb)) <> None -> alookup k (sd_data s) <> None) /\
  (forall k v, ordinary_key k = true -> ordinary_leaf v = true ->
     alookup k (sd_data (pr_sd pra)) = Some (Leaf v) -> alookup k (sd_data s) = Some (Leaf v)).
Proof. exact include_read_merges. Qed.
Print Assumptions C18_include_read.

(* non-vacuity: a hand-written including file (no header, short layout) beside the included one *)
Example C18_include_read_nonvacuous :
  let ta := of_string "#include '../other dir/b.dict'
x 1;
" in
  let fs := [(a_top, FNative ta); (b_sibling, FNative tb)] in
  exists s c' pra i d,
    norm_path a_top = a_top /\ norm_path b_sibling = b_sibling /\
    read_plain fs a_top true true 0 = Ok (s, c') /\ fs_lookup a_top fs = Some (FNative ta) /\
    parse_unit true a_top 0 (FNative ta) = Ok pra /\
    In (i, (d, include_name a_top b_sibling, path_join (dir_of a_top) (include_name a_top b_sibling))) (sd_inc (pr_sd pra)) /\
    fs_lookup b_sibling fs = Some (FNative tb) /\
    ((exists c1 prb, parse_unit true (path_join (dir_of a_top) (include_name a_top b_sibling)) c1 (FNative tb) = Ok prb /\
        forall k, ordinary_key k = true -> alookup k (sd_data (pr_sd prb)) <> None -> alookup k (sd_data s) <> None) /\
     (forall k v, ordinary_key k = true -> ordinary_leaf v = true ->
        alookup k (sd_data (pr_sd pra)) = Some (Leaf v) -> alookup k (sd_data s) = Some (Leaf v))) /\
    alookup (KS (of_string "z")) (sd_data s) = Some (Leaf (SInt 3)) /\ alookup (KS (of_string "x")) (sd_data s) = Some (Leaf (SInt 1)).
Proof.
  intros ta fs.
  destruct (read_plain fs a_top true true 0) as [[s c']|e] eqn:E; [|vm_compute in E; discriminate E].
  destruct (parse_unit true a_top 0 (FNative ta)) as [pra|e] eqn:Epa; [|vm_compute in Epa; discriminate Epa].
  exists s, c', pra, 1%N, (of_string "#include '../other dir/b.dict'").
  assert (H1 : norm_path a_top = a_top) by (vm_compute; reflexivity).
  assert (H2 : norm_path b_sibling = b_sibling) by (vm_compute; reflexivity).
  assert (H4 : fs_lookup a_top fs = Some (FNative ta)) by (vm_compute; reflexivity).
  assert (H7 : fs_lookup b_sibling fs = Some (FNative tb)) by (vm_compute; reflexivity).
  assert (H6 : In (1%N, (of_string "#include '../other dir/b.dict'", include_name a_top b_sibling,
                         path_join (dir_of a_top) (include_name a_top b_sibling))) (sd_inc (pr_sd pra))).
  { pose proof Epa as Epa'. vm_compute in Epa'. injection Epa' as Epa'. rewrite <- Epa'. vm_compute. left. reflexivity. }
  refine (conj H1 (conj H2 (conj eq_refl (conj H4 (conj eq_refl (conj H6 (conj H7
            (conj (C18_include_read fs a_top b_sibling true 0%Z s c' _ pra _ _ _ H1 H2 E H4 Epa H6 H7) _)))))))).
  vm_compute in E. injection E as Es _. rewrite <- Es. vm_compute. split; reflexivity.
Qed.

(* FULL STATEMENT (C18_include_dump_read): the theorem below without the hypothesis  sd_inc (pr_sd pra) <> [].
   It is FALSE of the model and of the library as it stands (C18_include_dropped_finding below): the clean-up that the
   parser runs on the parsed dict (_clean: duplicate placeholder entries are dropped) deletes the only include entry
   when two keys of one nested dict of a's data spell an INCLUDE placeholder with the id the directive is given on
   re-reading.  The hypothesis says that the include table of the parsed file is not empty (boolean on examples); with it
   the lexer stage theorem fixes the entry.  Proved here: everything else of the chain.  Missing for discharging the
   hypothesis on the class "no key of da at any level spells an INCLUDE placeholder": the token parser on the token
   stream  header-comment token, include token, tokens of da  (RereadParse.dict_spec needs its prefix to end in a
   semicolon, a closing brace or a comment token; an include token also stops the look-back but is not among the tokens allowed there).

   pa, pb: any two normalised absolute paths (same folder, child, parent, sibling, cousin).  The dict a is built in
   memory with ordinary data da, b is included (SDict.include: id i, name include_name pa pb, path pb), a is dumped
   (NativeFormatter) to pa; fs holds that text at pa and any unit ub at pb.  Reading pa with include merging:
   every ordinary top-level key of b's parse is a key of the result, every ordinary leaf of a's parse is kept.
   Side conditions: name_ok (no line break in folder / file names; blanks, dots, dollars, hashes, quotes of both kinds
   are fine: the reader strips one leading and one trailing quote character whatever is between), i < 10^6, plain_top da, da's text does not spell INCLUDE<i>, contains no hash sign
   (another directive) and no double slash (cut as a line comment before the include stage), the read and the parse of
   a succeed. *)
Theorem C18_include_dump_read_partial : forall fs pa pb da i c s c' pra ub,
  norm_path pa = pa -> norm_path pb = pb -> name_ok (include_name pa pb) = true ->
  (i < 1000000)%N -> plain_top da = true -> contains (iph i) (native_body da) = false ->
  has_char c_hash (to_string_plain da) = false -> nopair c_slash c_slash (to_string_plain da) = true ->
  let ta := to_string_sd (sd_with_include da i (include_name pa pb) pb) in
  fs_lookup pa fs = Some (FNative ta) -> fs_lookup pb fs = Some ub ->
  parse_unit true pa c (FNative ta) = Ok pra -> sd_inc (pr_sd pra) <> [] ->
  read_plain fs pa true true c = Ok (s, c') ->
  (exists c1 prb, parse_unit true (path_join (dir_of pa) (include_name pa pb)) c1 ub = Ok prb /\
     forall k, ordinary_key k = true -> alookup k (sd_data (pr_sd prb)) <> None -> alookup k (sd_data s) <> None) /\
  (forall k v, ordinary_key k = true -> ordinary_leaf v = true ->
     alookup k (sd_data (pr_sd pra)) = Some (Leaf v) -> alookup k (sd_data s) = Some (Leaf v)).
Proof. exact include_dump_read_sd_partial. Qed.
Print Assumptions C18_include_dump_read_partial.

(* one placement: every hypothesis of the theorem, its conclusion, and what the read returns concretely: z (only in b)
   arrives, x (in both) keeps a's value, the nested entry of a is kept *)
Definition C18_chain_case (pa pb : str) : Prop :=
  let ta := to_string_sd (sd_with_include da 7 (include_name pa pb) pb) in
  let fs := [(pa, FNative ta); (pb, FNative tb)] in
  exists s c' pra,
    norm_path pa = pa /\ norm_path pb = pb /\ name_ok (include_name pa pb) = true /\
    (7 < 1000000)%N /\ plain_top da = true /\ contains (iph 7) (native_body da) = false /\
    has_char c_hash (to_string_plain da) = false /\ nopair c_slash c_slash (to_string_plain da) = true /\
    fs_lookup pa fs = Some (FNative ta) /\ fs_lookup pb fs = Some (FNative tb) /\
    parse_unit true pa 0 (FNative ta) = Ok pra /\ sd_inc (pr_sd pra) <> [] /\
    read_plain fs pa true true 0 = Ok (s, c') /\
    ((exists c1 prb, parse_unit true (path_join (dir_of pa) (include_name pa pb)) c1 (FNative tb) = Ok prb /\
        forall k, ordinary_key k = true -> alookup k (sd_data (pr_sd prb)) <> None -> alookup k (sd_data s) <> None) /\
     (forall k v, ordinary_key k = true -> ordinary_leaf v = true ->
        alookup k (sd_data (pr_sd pra)) = Some (Leaf v) -> alookup k (sd_data s) = Some (Leaf v))) /\
    alookup (KS (of_string "z")) (sd_data s) = Some (Leaf (SInt 3)) /\
    alookup (KS (of_string "x")) (sd_data s) = Some (Leaf (SInt 1)) /\
    alookup (KS (of_string "d")) (sd_data s) = Some (Dict [(KS (of_string "y"), Leaf (SStr (of_string "two words")))]).

Ltac C18_chain_tac :=
  unfold C18_chain_case; cbv zeta;
  let E := fresh "E" in let Epa := fresh "Epa" in let Epa' := fresh "Epa'" in let Es := fresh "Es" in
  let s := fresh "s" in let c' := fresh "c'" in let pra := fresh "pra" in
  let H1 := fresh "H" in let H2 := fresh "H" in let H3 := fresh "H" in let H4 := fresh "H" in let H5 := fresh "H" in
  let H6 := fresh "H" in let H7 := fresh "H" in let H8 := fresh "H" in let H9 := fresh "H" in let H10 := fresh "H" in
  let H12 := fresh "H" in let Hn := fresh "Hn" in
  match goal with
  | |- exists _ _ _, _ /\ _ /\ _ /\ _ /\ _ /\ _ /\ _ /\ _ /\ _ /\ _ /\ parse_unit true ?pa 0%Z ?ua = _ /\ _ /\ read_plain ?fs _ _ _ _ = _ /\ _ =>
      destruct (read_plain fs pa true true 0%Z) as [[s c']|?] eqn:E; [|vm_compute in E; discriminate E];
      destruct (parse_unit true pa 0%Z ua) as [pra|?] eqn:Epa; [|vm_compute in Epa; discriminate Epa];
      exists s, c', pra
  end;
  match goal with
  | |- ?h1 /\ ?h2 /\ ?h3 /\ ?h4 /\ ?h5 /\ ?h6 /\ ?h7 /\ ?h8 /\ ?h9 /\ ?h10 /\ _ /\ ?h12 /\ _ /\ _ =>
      assert (H1 : h1) by (vm_compute; reflexivity); assert (H2 : h2) by (vm_compute; reflexivity);
      assert (H3 : h3) by (vm_compute; reflexivity); assert (H4 : h4) by reflexivity;
      assert (H5 : h5) by (vm_compute; reflexivity); assert (H6 : h6) by (vm_compute; reflexivity);
      assert (H7 : h7) by (vm_compute; reflexivity); assert (H8 : h8) by (vm_compute; reflexivity);
      assert (H9 : h9) by (vm_compute; reflexivity); assert (H10 : h10) by (vm_compute; reflexivity);
      assert (H12 : h12) by (intro Hn; pose proof Epa as Epa'; vm_compute in Epa';
                             injection Epa' as Epa'; rewrite <- Epa' in Hn; vm_compute in Hn; discriminate Hn)
  end;
  refine (conj H1 (conj H2 (conj H3 (conj H4 (conj H5 (conj H6 (conj H7 (conj H8 (conj H9 (conj H10 (conj eq_refl (conj H12
            (conj eq_refl (conj (C18_include_dump_read_partial _ _ _ _ _ _ _ _ _ _ H1 H2 H3 H4 H5 H6 H7 H8 H9 H10 Epa H12 E) _))))))))))))));
  vm_compute in E; injection E as Es _; rewrite <- Es; vm_compute; repeat split; reflexivity.

(* non-vacuity: the five placements *)
Example C18_include_dump_read_nonvacuous_same_folder : C18_chain_case a_top b_same.
Proof. C18_chain_tac. Qed.
Example C18_include_dump_read_nonvacuous_child : C18_chain_case a_top b_child.
Proof. C18_chain_tac. Qed.
Example C18_include_dump_read_nonvacuous_parent : C18_chain_case a_deep b_same.
Proof. C18_chain_tac. Qed.
Example C18_include_dump_read_nonvacuous_sibling : C18_chain_case a_top b_sibling.
Proof. C18_chain_tac. Qed.
Example C18_include_dump_read_nonvacuous_cousin : C18_chain_case a_deep b_cousin.
Proof. C18_chain_tac. Qed.

(* folder names with a dollar, an apostrophe and double quotes, a hash: the name is written in single quotes although it
   contains one; the reader strips the outer pair only *)
Example C18_include_dump_read_nonvacuous_quotes_dollar :
  C18_chain_case (of_string "/r/$v/a#1/a.dict") (of_string "/r/it's ""q""/b.dict") /\
  include_name (of_string "/r/$v/a#1/a.dict") (of_string "/r/it's ""q""/b.dict") = of_string "../../it's ""q""/b.dict" /\
  format_string (of_string "../../it's ""q""/b.dict") = of_string "'../../it's ""q""/b.dict'".
Proof. split; [C18_chain_tac|split; vm_compute; reflexivity]. Qed.

(* the dumped text and the read result of the cousin placement, computed *)
Example C18_include_dump_read_computed :
  let ta := to_string_sd (sd_with_include da 7 (include_name a_deep b_cousin) b_cousin) in
  ta = of_string
"/*---------------------------------*- C++ -*----------------------------------*\
filetype dictionary; coding utf-8; version 0.1; local --; purpose --;
\*----------------------------------------------------------------------------*/
#include '../../other dir/v1.2/b.dict'
x                             1;
d
{
    y                         'two words';
}
" /\
  match read_plain [(a_deep, FNative ta); (b_cousin, FNative tb)] a_deep true true 0 with
  | Ok (s, c) => map fst (sd_data s) = [KS (of_string "BLOCKCOMMENT000000"); KS (of_string "INCLUDE000001"); KS (of_string "x");
                                        KS (of_string "d"); KS (of_string "z")] /\
                 sd_inc s = [(1%N, (of_string "#include '../../other dir/v1.2/b.dict'", of_string "../../other dir/v1.2/b.dict",
                                    of_string "/r/run 1/v1.2/../../other dir/v1.2/b.dict"))] /\ c = 2%Z
  | Raise _ => False
  end.
Proof. vm_compute. repeat split; reflexivity. Qed.

(* FINDING (same on the library: DictReader.read returns includes == {} and no key of b): every hypothesis of
   C18_include_dump_read_partial except the non-empty include table holds, and the included file is NOT merged.
   a's data has a nested dict with two keys that spell INCLUDE000001, the id the directive gets when the dumped file is
   read with the counter at 0; _clean takes the second for a doublette of the first and deletes the table entry. *)
Example C18_include_dropped_finding :
  let da' := [(KS (of_string "x"), Leaf (SInt 1));
              (KS (of_string "d"), Dict [(KS (of_string "aINCLUDE000001"), Leaf (SInt 1)); (KS (of_string "bINCLUDE000001"), Leaf (SInt 2))])] in
  let pa := a_top in let pb := b_same in
  let ta := to_string_sd (sd_with_include da' 7 (include_name pa pb) pb) in
  let fs := [(pa, FNative ta); (pb, FNative tb)] in
  norm_path pa = pa /\ norm_path pb = pb /\ name_ok (include_name pa pb) = true /\
  plain_top da' = true /\ contains (iph 7) (native_body da') = false /\
  has_char c_hash (to_string_plain da') = false /\ nopair c_slash c_slash (to_string_plain da') = true /\
  match parse_unit true pa 0 (FNative ta), read_plain fs pa true true 0 with
  | Ok pra, Ok (s, _) => sd_inc (pr_sd pra) = [] /\ alookup (KS (of_string "z")) (sd_data s) = None /\
                         alookup (KS (of_string "z")) db = Some (Leaf (SInt 3))
  | _, _ => False
  end.
Proof. vm_compute. repeat split; reflexivity. Qed.

(* FINDING (same on the library): a line break in a folder name.  name_ok fails, the directive is cut at the line break,
   the include stage registers the name up to there, nothing is merged and a's own entry x is lost as well. *)
Example C18_line_break_finding :
  let pa := a_top in let pb := of_string "/r/run 1/li
ne/b.dict" in
  let ta := to_string_sd (sd_with_include da 7 (include_name pa pb) pb) in
  let fs := [(pa, FNative ta); (pb, FNative tb)] in
  norm_path pa = pa /\ norm_path pb = pb /\ name_ok (include_name pa pb) = false /\
  match parse_unit true pa 0 (FNative ta), read_plain fs pa true true 0 with
  | Ok pra, Ok (s, _) => map (fun e => snd (fst (snd e))) (sd_inc (pr_sd pra)) = [of_string "li"] /\
                         alookup (KS (of_string "z")) (sd_data s) = None /\ alookup (KS (of_string "x")) (sd_data s) = None
  | _, _ => False
  end.
Proof. vm_compute. repeat split; reflexivity. Qed.

(* ---- added from Properties/C18_add2.v: composition with the document-level include theorem of C12 ---- *)
(* C18 additions, part 2: the chain SDict.include + dump + read end to end WITHOUT a hypothesis on the parsed include
   table (proof: Proofs/IncludeChainFull.v = Proofs/IncludeChainProofs.v composed with the document-level include
   theorem of C12 / C03, Proofs/RereadIncProofs.v).  To be appended behind C18_add.v once Proofs/RereadInc*.v are in. *)
From Coq Require Import NArith ZArith List Bool.
From DictIO Require Import Chars Str Value Scalar KeyPath SDict Layout Lexer TokParser Reader Paths TreeSpec NativeSpec MiscSpec E2ESpec.
From DictIO Require RereadTree RereadProofs RereadIncWrite RereadIncProofs.
From DictIO Require Import IncludeChainProofs IncludeChainFull.
Import ListNotations.

(* pa, pb: ANY two normalised absolute paths (same folder, below, above, beside).  The dict a is built in memory with
   data da, b is included (SDict.include: placeholder entry INCLUDE<i>, table entry (directive, name, pb) with
   name = the relative path from pa's folder to pb), a is dumped with NativeFormatter to pa; fs holds the dumped text at
   pa and any unit ub at pb.  Then: the dumped text parses; reading pa with include merging parses the unit at pb
   (through the path  pa's folder / name, which normalises to pb) and every ordinary top-level key of it is a key of the
   result; every ordinary leaf of the parsed a is kept (the including file wins); and the data of the parsed a, comment
   and include entries aside, are da with every leaf as written and re-read.
   Side conditions: rereadable_inc (the class of C12_includes_survive_partial: da in the writer's re-readable class -
   simple keys without the reserved words, hence none spelling a placeholder, which excludes C18_include_dropped_finding;
   the name without line break, double slash or placeholder word, which the class needs for its second write/read cycle;
   id below a million), plain_top da (da has no include entry of its own), the counter at least -1, at most a million
   comments / quoted literals.  No hypothesis on the parse result. *)
Theorem C18_include_dump_read : forall fs pa pb da i c s c' ub,
  norm_path pa = pa -> norm_path pb = pb ->
  let sa := sd_with_include da i (include_name pa pb) pb in
  plain_top da = true -> RereadIncWrite.rereadable_inc sa = true -> (-1 <= c)%Z ->
  (Z.of_nat (List.length (RereadProofs.lc_list (RereadIncProofs.written_doc_inc sa))) <= 1000000)%Z ->
  (Z.of_nat (List.length (RereadProofs.bc_list (RereadIncProofs.written_doc_inc sa))) <= 1000000)%Z ->
  (Z.of_nat (List.length (RereadProofs.lit_list (RereadIncProofs.written_doc_inc sa))) <= 1000000)%Z ->
  fs_lookup pa fs = Some (FNative (to_string_sd sa)) -> fs_lookup pb fs = Some ub ->
  read_plain fs pa true true c = Ok (s, c') ->
  exists pra,
    parse_unit true pa c (FNative (to_string_sd sa)) = Ok pra /\
    (exists c1 prb, parse_unit true (path_join (dir_of pa) (include_name pa pb)) c1 ub = Ok prb /\
       forall k, ordinary_key k = true -> alookup k (sd_data (pr_sd prb)) <> None -> alookup k (sd_data s) <> None) /\
    (forall k v, ordinary_key k = true -> ordinary_leaf v = true ->
       alookup k (sd_data (pr_sd pra)) = Some (Leaf v) -> alookup k (sd_data s) = Some (Leaf v)) /\
    RereadTree.cstrip (Dict (sd_data (RereadIncWrite.strip_inc (pr_sd pra)))) =
      map_leaves written_value (RereadTree.cstrip (Dict da)).
Proof. exact include_dump_read_full. Qed.
Print Assumptions C18_include_dump_read.

(* the five placements again (self-contained copy of the example data of part 1) *)
Module C18_full_ex.
  Definition a_top := of_string "/r/run 1/a.dict".
  Definition a_deep := of_string "/r/run 1/v1.2/a.dict".
  Definition b_same := of_string "/r/run 1/b.dict".
  Definition b_child := of_string "/r/run 1/v1.2/b.dict".
  Definition b_sibling := of_string "/r/other dir/b.dict".
  Definition b_cousin := of_string "/r/other dir/v1.2/b.dict".
  Definition da : list (key * tree) :=
    [(KS (of_string "x"), Leaf (SInt 1)); (KS (of_string "d"), Dict [(KS (of_string "y"), Leaf (SStr (of_string "two words")))])].
  Definition db : list (key * tree) := [(KS (of_string "x"), Leaf (SInt 9)); (KS (of_string "z"), Leaf (SInt 3))].
  Definition tb : str := to_string_plain db.
End C18_full_ex.

(* one placement: every hypothesis, the conclusion, and the concrete result (z of b arrives, x keeps a's value) *)
Definition C18_full_case (pa pb : str) : Prop :=
  let sa := sd_with_include C18_full_ex.da 7 (include_name pa pb) pb in
  let fs := [(pa, FNative (to_string_sd sa)); (pb, FNative C18_full_ex.tb)] in
  exists s c',
    norm_path pa = pa /\ norm_path pb = pb /\ plain_top C18_full_ex.da = true /\ RereadIncWrite.rereadable_inc sa = true /\
    (-1 <= 0)%Z /\
    (Z.of_nat (List.length (RereadProofs.lc_list (RereadIncProofs.written_doc_inc sa))) <= 1000000)%Z /\
    (Z.of_nat (List.length (RereadProofs.bc_list (RereadIncProofs.written_doc_inc sa))) <= 1000000)%Z /\
    (Z.of_nat (List.length (RereadProofs.lit_list (RereadIncProofs.written_doc_inc sa))) <= 1000000)%Z /\
    fs_lookup pa fs = Some (FNative (to_string_sd sa)) /\ fs_lookup pb fs = Some (FNative C18_full_ex.tb) /\
    read_plain fs pa true true 0 = Ok (s, c') /\
    (exists pra,
      parse_unit true pa 0 (FNative (to_string_sd sa)) = Ok pra /\
      (exists c1 prb, parse_unit true (path_join (dir_of pa) (include_name pa pb)) c1 (FNative C18_full_ex.tb) = Ok prb /\
         forall k, ordinary_key k = true -> alookup k (sd_data (pr_sd prb)) <> None -> alookup k (sd_data s) <> None) /\
      (forall k v, ordinary_key k = true -> ordinary_leaf v = true ->
         alookup k (sd_data (pr_sd pra)) = Some (Leaf v) -> alookup k (sd_data s) = Some (Leaf v)) /\
      RereadTree.cstrip (Dict (sd_data (RereadIncWrite.strip_inc (pr_sd pra)))) =
        map_leaves written_value (RereadTree.cstrip (Dict C18_full_ex.da))) /\
    alookup (KS (of_string "z")) (sd_data s) = Some (Leaf (SInt 3)) /\
    alookup (KS (of_string "x")) (sd_data s) = Some (Leaf (SInt 1)).

Ltac C18_full_tac :=
  unfold C18_full_case; cbv zeta;
  let E := fresh "E" in let Es := fresh "Es" in let s := fresh "s" in let c' := fresh "c'" in
  let H1 := fresh "H" in let H2 := fresh "H" in let H3 := fresh "H" in let H4 := fresh "H" in let H5 := fresh "H" in
  let H6 := fresh "H" in let H7 := fresh "H" in let H8 := fresh "H" in let H9 := fresh "H" in let H10 := fresh "H" in
  match goal with
  | |- exists _ _, _ /\ _ /\ _ /\ _ /\ _ /\ _ /\ _ /\ _ /\ _ /\ _ /\ read_plain ?fs ?pa _ _ _ = _ /\ _ =>
      destruct (read_plain fs pa true true 0%Z) as [[s c']|?] eqn:E; [|vm_compute in E; discriminate E];
      exists s, c'
  end;
  match goal with
  | |- ?h1 /\ ?h2 /\ ?h3 /\ ?h4 /\ ?h5 /\ ?h6 /\ ?h7 /\ ?h8 /\ ?h9 /\ ?h10 /\ _ /\ _ =>
      assert (H1 : h1) by (vm_compute; reflexivity); assert (H2 : h2) by (vm_compute; reflexivity);
      assert (H3 : h3) by (vm_compute; reflexivity); assert (H4 : h4) by (vm_compute; reflexivity);
      assert (H5 : h5) by (vm_compute; discriminate); assert (H6 : h6) by (vm_compute; discriminate);
      assert (H7 : h7) by (vm_compute; discriminate); assert (H8 : h8) by (vm_compute; discriminate);
      assert (H9 : h9) by (vm_compute; reflexivity); assert (H10 : h10) by (vm_compute; reflexivity)
  end;
  refine (conj H1 (conj H2 (conj H3 (conj H4 (conj H5 (conj H6 (conj H7 (conj H8 (conj H9 (conj H10 (conj eq_refl
            (conj (C18_include_dump_read _ _ _ _ _ _ _ _ _ H1 H2 H3 H4 H5 H6 H7 H8 H9 H10 E) _))))))))))));
  vm_compute in E; injection E as Es _; rewrite <- Es; vm_compute; split; reflexivity.

(* non-vacuity: the five placements of C18_add.v *)
Example C18_include_dump_read_full_nonvacuous_same_folder : C18_full_case C18_full_ex.a_top C18_full_ex.b_same.
Proof. C18_full_tac. Qed.
Example C18_include_dump_read_full_nonvacuous_child : C18_full_case C18_full_ex.a_top C18_full_ex.b_child.
Proof. C18_full_tac. Qed.
Example C18_include_dump_read_full_nonvacuous_parent : C18_full_case C18_full_ex.a_deep C18_full_ex.b_same.
Proof. C18_full_tac. Qed.
Example C18_include_dump_read_full_nonvacuous_sibling : C18_full_case C18_full_ex.a_top C18_full_ex.b_sibling.
Proof. C18_full_tac. Qed.
Example C18_include_dump_read_full_nonvacuous_cousin : C18_full_case C18_full_ex.a_deep C18_full_ex.b_cousin.
Proof. C18_full_tac. Qed.
(* folder names with a dollar, a hash, an apostrophe and double quotes *)
Example C18_include_dump_read_full_nonvacuous_quotes_dollar :
  C18_full_case (of_string "/r/$v/a#1/a.dict") (of_string "/r/it's ""q""/b.dict").
Proof. C18_full_tac. Qed.
