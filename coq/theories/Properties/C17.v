(* C17  The dictParser command line does exactly what the API does (wiring and scope spellings; process
   behaviour is observed end to end by the check, not modelled). *)
From Coq Require Import NArith ZArith List Bool.
From DictIO Require Import Chars Str Value Scalar Cli MiscSpec CliProofs.
Import ListNotations.

(* every flag set reaches parse() with the documented meaning (negated flags included) *)
Theorem C17_wiring : forall f, cli_kwargs f = spec_kwargs f.
Proof. exact cli_wiring. Qed.
Print Assumptions C17_wiring.

(* a scope given as a word, as a bracketed list and as a bracketed list of quoted words selects the same keys *)
Theorem C17_scope_word : forall k, scope_word k -> validate_scope k = Ok [SStr k].
Proof. exact scope_word_ok. Qed.
Print Assumptions C17_scope_word.

Theorem C17_scope_list : forall ks, ks <> [] -> Forall scope_word ks -> validate_scope (bracketed ks) = Ok (map SStr ks).
Proof. exact scope_list_ok. Qed.
Print Assumptions C17_scope_list.

Theorem C17_scope_quoted : forall ks, ks <> [] -> Forall scope_word ks -> validate_scope (quoted_bracketed ks) = Ok (map SStr ks).
Proof. exact scope_quoted_ok. Qed.
Print Assumptions C17_scope_quoted.

Example C17_example : validate_scope (bracketed [of_string "scopeA"; of_string "sub"]) = Ok [SStr (of_string "scopeA"); SStr (of_string "sub")]
  /\ validate_scope (of_string "[scopeA, 12]") = Ok [SStr (of_string "scopeA"); SInt 12].
Proof. vm_compute. split; reflexivity. Qed.
