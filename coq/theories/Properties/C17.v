(* C17  The dictParser command line does exactly what the API does (wiring and scope spellings; process
   behaviour is observed end to end by the check, not modelled). *)
From Coq Require Import String.   (* string literals of the examples; imported first so the list names win *)
From Coq Require Import NArith ZArith List Bool.
From DictIO Require Import Chars Str Value Scalar Cli MiscSpec CliProofs.
Import ListNotations.

(* [scope_word] of a concrete word, for the non-vacuity examples *)
Ltac scope_word_tac := split; [discriminate | split; [repeat (constructor; [reflexivity|]); constructor | vm_compute; reflexivity]].

(* every flag set reaches parse() with the documented meaning (negated flags included) *)
Theorem C17_wiring : forall f, cli_kwargs f = spec_kwargs f.
Proof. exact cli_wiring. Qed.
Print Assumptions C17_wiring.

(* (no hypotheses) an instance with negated flags, a list scope and an output format *)
Example C17_wiring_example :
  cli_kwargs (mkFlags true false true true (Some OFoam) (Some (of_string "[a, 2]")) true false true) =
  mkKw false true false false (Some (Ok [SStr (of_string "a"); SInt 2])) OFoam.
Proof. vm_compute. reflexivity. Qed.

(* a scope given as a word, as a bracketed list and as a bracketed list of quoted words selects the same keys *)
Theorem C17_scope_word : forall k, scope_word k -> validate_scope k = Ok [SStr k].
Proof. exact scope_word_ok. Qed.
Print Assumptions C17_scope_word.

Example C17_scope_word_nonvacuous :
  scope_word (of_string "scope_A1") /\ validate_scope (of_string "scope_A1") = Ok [SStr (of_string "scope_A1")].
Proof. assert (H : scope_word (of_string "scope_A1")) by scope_word_tac. exact (conj H (C17_scope_word _ H)). Qed.
(* words the type table does not leave a string are not scope words (they select int / bool keys) *)
Example C17_scope_word_excludes :
  parse_value (of_string "12") = Ok (SInt 12) /\ parse_value (of_string "on") = Ok (SBool true).
Proof. vm_compute. split; reflexivity. Qed.

Theorem C17_scope_list : forall ks, ks <> [] -> Forall scope_word ks -> validate_scope (bracketed ks) = Ok (map SStr ks).
Proof. exact scope_list_ok. Qed.
Print Assumptions C17_scope_list.

Example C17_scope_list_nonvacuous :
  let ks := [of_string "scopeA"; of_string "sub_1"; of_string "x"] in
  ks <> [] /\ Forall scope_word ks /\ bracketed ks = of_string "[scopeA, sub_1, x]" /\
  validate_scope (bracketed ks) = Ok (map SStr ks).
Proof.
  intros ks. assert (H1 : ks <> []) by discriminate.
  assert (H2 : Forall scope_word ks) by (repeat (constructor; [scope_word_tac|]); constructor).
  refine (conj H1 (conj H2 (conj _ (C17_scope_list ks H1 H2)))). vm_compute. reflexivity.
Qed.

Theorem C17_scope_quoted : forall ks, ks <> [] -> Forall scope_word ks -> validate_scope (quoted_bracketed ks) = Ok (map SStr ks).
Proof. exact scope_quoted_ok. Qed.
Print Assumptions C17_scope_quoted.

Example C17_scope_quoted_nonvacuous :
  let ks := [of_string "scopeA"; of_string "sub_1"; of_string "x"] in
  ks <> [] /\ Forall scope_word ks /\ quoted_bracketed ks = of_string "['scopeA', 'sub_1', 'x']" /\
  validate_scope (quoted_bracketed ks) = Ok (map SStr ks).
Proof.
  intros ks. assert (H1 : ks <> []) by discriminate.
  assert (H2 : Forall scope_word ks) by (repeat (constructor; [scope_word_tac|]); constructor).
  refine (conj H1 (conj H2 (conj _ (C17_scope_quoted ks H1 H2)))). vm_compute. reflexivity.
Qed.

Example C17_example : validate_scope (bracketed [of_string "scopeA"; of_string "sub"]) = Ok [SStr (of_string "scopeA"); SStr (of_string "sub")]
  /\ validate_scope (of_string "[scopeA, 12]") = Ok [SStr (of_string "scopeA"); SInt 12].
Proof. vm_compute. split; reflexivity. Qed.

(* ================================================================================================== *)
(* added from Properties/C17_add.v (2026-10-01)  *)
(* ================================================================================================== *)
(* C17 (addition)  The scope spellings of the command line select the same sub-dict: on the workflow model
   (DictReader.read with options, DictParser.parse). *)
From Coq Require Import String.   (* string literals of the examples; imported first so the list names win *)
From Coq Require Import NArith ZArith List Bool.
From DictIO Require Import Chars Str Value Scalar KeyPath SDict Reader Cli Parse MiscSpec CliProofs WorkflowProofs.
Import ListNotations.

Module C17_wf_ex.
  (* nested dicts, an int key in the inner one *)
  Definition text := of_string "// top
a { b { c 1; 7 seven; } x 2; }
q 3;
".
  Definition root := of_string "/r/d.dict".
  Definition fs : fsys := [(root, FNative text)].
  Definition ks := [of_string "a"; of_string "b"].
  Ltac scope_word_tac := split; [discriminate | split; [repeat (constructor; [reflexivity|]); constructor | vm_compute; reflexivity]].
End C17_wf_ex.

(* --scope TEXT: the command validates TEXT and passes the list on (with_scope_arg).  For scope words ks, the bracketed
   list, the list of quoted words and (one key) the bare word give the outcome of the API call with the key list -- the
   same dict, side tables and counter from the reader, the same target name, text and counter from the parser. *)
Theorem C17_scope_spellings_same_subdict : forall ks, ks <> [] -> Forall scope_word ks ->
  (forall fs root inc order com c,
     let by_api := read_opts fs root inc order com (map SStr ks) c in
     with_scope_arg (bracketed ks) (fun sc => read_opts fs root inc order com sc c) = by_api /\
     with_scope_arg (quoted_bracketed ks) (fun sc => read_opts fs root inc order com sc c) = by_api /\
     (forall k, ks = [k] -> with_scope_arg k (fun sc => read_opts fs root inc order com sc c) = by_api)) /\
  (forall fs src inc app order com out c,
     let by_api := parse_model fs src inc app order com (map SStr ks) out c in
     with_scope_arg (bracketed ks) (fun sc => parse_model fs src inc app order com sc out c) = by_api /\
     with_scope_arg (quoted_bracketed ks) (fun sc => parse_model fs src inc app order com sc out c) = by_api /\
     (forall k, ks = [k] -> with_scope_arg k (fun sc => parse_model fs src inc app order com sc out c) = by_api)).
Proof. exact scope_spellings_same_subdict. Qed.
Print Assumptions C17_scope_spellings_same_subdict.

(* non-vacuity: "[a, b]" and "['a', 'b']" on a source with a { b { c 1; 7 seven; } ..}: the reader returns the content
   of a.b (int key included), the parser writes it to parsed.d_a_b.dict; the word "a" and "[a]" agree as well *)
Example C17_scope_spellings_same_subdict_nonvacuous :
  C17_wf_ex.ks <> [] /\ Forall scope_word C17_wf_ex.ks /\
  bracketed C17_wf_ex.ks = of_string "[a, b]" /\ quoted_bracketed C17_wf_ex.ks = of_string "['a', 'b']" /\
  (exists s k,
     with_scope_arg (of_string "[a, b]") (fun sc => read_opts C17_wf_ex.fs C17_wf_ex.root true false true sc 0) = Some (Ok (s, k)) /\
     with_scope_arg (of_string "['a', 'b']") (fun sc => read_opts C17_wf_ex.fs C17_wf_ex.root true false true sc 0) = Some (Ok (s, k)) /\
     sd_data s = [(KS (of_string "c"), Leaf (SInt 1)); (KI 7, Leaf (SStr (of_string "seven")))]) /\
  (exists txt k,
     with_scope_arg (of_string "[a, b]") (fun sc => parse_model C17_wf_ex.fs C17_wf_ex.root true false false true sc None 0)
       = Some (Ok (of_string "/r/parsed.d_a_b.dict", txt, k)) /\
     with_scope_arg (of_string "['a', 'b']") (fun sc => parse_model C17_wf_ex.fs C17_wf_ex.root true false false true sc None 0)
       = Some (Ok (of_string "/r/parsed.d_a_b.dict", txt, k))) /\
  with_scope_arg (of_string "a") (fun sc => read_opts C17_wf_ex.fs C17_wf_ex.root true false true sc 0) =
  with_scope_arg (of_string "[a]") (fun sc => read_opts C17_wf_ex.fs C17_wf_ex.root true false true sc 0).
Proof.
  assert (H1 : C17_wf_ex.ks <> []) by discriminate.
  assert (H2 : Forall scope_word C17_wf_ex.ks) by (repeat (constructor; [C17_wf_ex.scope_word_tac|]); constructor).
  assert (B : bracketed C17_wf_ex.ks = of_string "[a, b]") by (vm_compute; reflexivity).
  assert (Q : quoted_bracketed C17_wf_ex.ks = of_string "['a', 'b']") by (vm_compute; reflexivity).
  destruct (C17_scope_spellings_same_subdict _ H1 H2) as [R P].
  refine (conj H1 (conj H2 (conj B (conj Q (conj _ (conj _ _)))))).
  - destruct (R C17_wf_ex.fs C17_wf_ex.root true false true 0%Z) as (R1 & R2 & _). cbv zeta in R1, R2.
    rewrite <- B, <- Q, R1, R2.
    destruct (read_opts C17_wf_ex.fs C17_wf_ex.root true false true (map SStr C17_wf_ex.ks) 0) as [[[s k]|e]|] eqn:E;
      [|vm_compute in E; discriminate E|vm_compute in E; discriminate E].
    exists s, k. split; [reflexivity|split; [reflexivity|]]. vm_compute in E. injection E as <- _. reflexivity.
  - destruct (P C17_wf_ex.fs C17_wf_ex.root true false false true None 0%Z) as (P1 & P2 & _). cbv zeta in P1, P2.
    rewrite <- B, <- Q, P1, P2.
    destruct (parse_model C17_wf_ex.fs C17_wf_ex.root true false false true (map SStr C17_wf_ex.ks) None 0) as [[[[t txt] k]|e]|] eqn:E;
      [|vm_compute in E; discriminate E|vm_compute in E; discriminate E].
    exists txt, k. assert (Et : t = of_string "/r/parsed.d_a_b.dict") by (vm_compute in E; injection E as <- _ _; reflexivity).
    rewrite Et. split; reflexivity.
  - assert (H1' : [of_string "a"] <> []) by discriminate.
    assert (H2' : Forall scope_word [of_string "a"]) by (repeat (constructor; [C17_wf_ex.scope_word_tac|]); constructor).
    destruct (C17_scope_spellings_same_subdict _ H1' H2') as [R' _].
    destruct (R' C17_wf_ex.fs C17_wf_ex.root true false true 0%Z) as (R1 & _ & R3). cbv zeta in R1, R3.
    assert (B' : bracketed [of_string "a"] = of_string "[a]") by (vm_compute; reflexivity).
    rewrite <- B', R1. exact (R3 _ eq_refl).
Qed.

(* ================================================================================================== *)
(* non-vacuity examples added after the reviewer's audit (Properties/C17_nv.v, 2026-10-01)         *)
(* ================================================================================================== *)

(* ==== non-vacuity instance obtained BY APPLYING the theorem above (added after review) ================== *)

(* C17_wiring: negated flags, a list scope and an output format; all flags absent (the defaults); a scope that does not
   validate to a string list (the error is passed on to parse()) -- the theorem gives the meaning, the computation its value *)
Example C17_wiring_nonvacuous :
  let f1 := mkFlags true false true true (Some OFoam) (Some (of_string "[a, 2]")) true false true in
  let f2 := mkFlags false false false false None None false false false in
  let f3 := mkFlags false true false false None (Some (of_string "['a', b]")) false true false in
  (cli_kwargs f1 = spec_kwargs f1 /\ cli_kwargs f2 = spec_kwargs f2 /\ cli_kwargs f3 = spec_kwargs f3) /\
  spec_kwargs f1 = mkKw false true false false (Some (Ok [SStr (of_string "a"); SInt 2])) OFoam /\
  spec_kwargs f2 = mkKw true false false true None OCpp /\
  spec_kwargs f3 = mkKw true false true true (Some (validate_scope (of_string "['a', b]"))) OCpp.
Proof.
  intros f1 f2 f3. split; [exact (conj (C17_wiring f1) (conj (C17_wiring f2) (C17_wiring f3)))|].
  repeat split; vm_compute; reflexivity.
Qed.
