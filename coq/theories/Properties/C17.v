(* C17  The dictParser command line does exactly what the API does (wiring and scope spellings; process
   behaviour is observed end to end by the check, not modelled). *)
From Coq Require Import String.   (* string literals of the examples; imported first so the list names win *)
From Coq Require Import NArith ZArith List Bool.
From DictIO Require Import Chars Str Value Scalar Cli MiscSpec CliProofs.
Import ListNotations.

(* [scope_word] of a concrete word, for the non-vacuity examples *)
Ltac scope_word_tac := split; [discriminate | split; [repeat (constructor; [reflexivity|]); constructor | vm_compute; reflexivity]].

(* every flag set reaches parse() with the documented meaning (negated flags included) *)
Theorem C17_wiring : forall f, cli_kwargs f = spec_kwargs f.
Proof. exact cli_wiring. Qed.
Print Assumptions C17_wiring.

(* (no hypotheses) an instance with negated flags, a list scope and an output format *)
Example C17_wiring_example :
  cli_kwargs (mkFlags true false true true (Some OFoam) (Some (of_string "[a, 2]")) true false true) =
  mkKw false true false false (Some (Ok [SStr (of_string "a"); SInt 2])) OFoam.
Proof. vm_compute. reflexivity. Qed.

(* a scope given as a word, as a bracketed list and as a bracketed list of quoted words selects the same keys *)
Theorem C17_scope_word : forall k, scope_word k -> validate_scope k = Ok [SStr k].
Proof. exact scope_word_ok. Qed.
Print Assumptions C17_scope_word.

Example C17_scope_word_nonvacuous :
  scope_word (of_string "scope_A1") /\ validate_scope (of_string "scope_A1") = Ok [SStr (of_string "scope_A1")].
Proof. assert (H : scope_word (of_string "scope_A1")) by scope_word_tac. exact (conj H (C17_scope_word _ H)). Qed.
(* words the type table does not leave a string are not scope words (they select int / bool keys) *)
Example C17_scope_word_excludes :
  parse_value (of_string "12") = Ok (SInt 12) /\ parse_value (of_string "on") = Ok (SBool true).
Proof. vm_compute. split; reflexivity. Qed.

Theorem C17_scope_list : forall ks, ks <> [] -> Forall scope_word ks -> validate_scope (bracketed ks) = Ok (map SStr ks).
Proof. exact scope_list_ok. Qed.
Print Assumptions C17_scope_list.

Example C17_scope_list_nonvacuous :
  let ks := [of_string "scopeA"; of_string "sub_1"; of_string "x"] in
  ks <> [] /\ Forall scope_word ks /\ bracketed ks = of_string "[scopeA, sub_1, x]" /\
  validate_scope (bracketed ks) = Ok (map SStr ks).
Proof.
  intros ks. assert (H1 : ks <> []) by discriminate.
  assert (H2 : Forall scope_word ks) by (repeat (constructor; [scope_word_tac|]); constructor).
  refine (conj H1 (conj H2 (conj _ (C17_scope_list ks H1 H2)))). vm_compute. reflexivity.
Qed.

Theorem C17_scope_quoted : forall ks, ks <> [] -> Forall scope_word ks -> validate_scope (quoted_bracketed ks) = Ok (map SStr ks).
Proof. exact scope_quoted_ok. Qed.
Print Assumptions C17_scope_quoted.

Example C17_scope_quoted_nonvacuous :
  let ks := [of_string "scopeA"; of_string "sub_1"; of_string "x"] in
  ks <> [] /\ Forall scope_word ks /\ quoted_bracketed ks = of_string "['scopeA', 'sub_1', 'x']" /\
  validate_scope (quoted_bracketed ks) = Ok (map SStr ks).
Proof.
  intros ks. assert (H1 : ks <> []) by discriminate.
  assert (H2 : Forall scope_word ks) by (repeat (constructor; [scope_word_tac|]); constructor).
  refine (conj H1 (conj H2 (conj _ (C17_scope_quoted ks H1 H2)))). vm_compute. reflexivity.
Qed.

Example C17_example : validate_scope (bracketed [of_string "scopeA"; of_string "sub"]) = Ok [SStr (of_string "scopeA"); SStr (of_string "sub")]
  /\ validate_scope (of_string "[scopeA, 12]") = Ok [SStr (of_string "scopeA"); SInt 12].
Proof. vm_compute. split; reflexivity. Qed.
