(* C10  OpenFOAM output keeps content, drops private keys, carries the Foam header. *)
From Coq Require Import String.   (* string literals of the examples; imported first so the list names win *)
From Coq Require Import NArith ZArith List Bool.
From DictIO Require Import Chars Str Value Scalar KeyPath SDict Layout Lexer TokParser TreeSpec NativeSpec QuoteProofs.
Import ListNotations.

(* C10: Foam output *)
Theorem C10_no_underscore_keys : forall t, has_us_key (strip_us t) = false.
Proof. exact strip_us_removes_all. Qed.
Print Assumptions C10_no_underscore_keys.

(* (no hypotheses) an instance in which strip_us has work to do at three levels, also inside a list *)
Example C10_no_underscore_keys_example :
  let t := Dict [(KS (of_string "_top"), Leaf (SInt 1)); (KS (of_string "keep"), Dict [(KS (of_string "_in"), Leaf (SInt 2)); (KS (of_string "a_b"), Leaf (SInt 3))]);
                 (KS (of_string "l"), Lst [Dict [(KS (of_string "_x"), Leaf SNone); (KI 5, Leaf SNone)]])] in
  has_us_key t = true /\
  strip_us t = Dict [(KS (of_string "keep"), Dict [(KS (of_string "a_b"), Leaf (SInt 3))]); (KS (of_string "l"), Lst [Dict [(KI 5, Leaf SNone)]])] /\
  has_us_key (strip_us t) = false.
Proof. intros t. refine (conj _ (conj _ (C10_no_underscore_keys t))); vm_compute; reflexivity. Qed.

Theorem C10_strip_keeps_rest : forall t, has_us_key t = false -> strip_us t = t.
Proof. exact strip_us_identity. Qed.
Print Assumptions C10_strip_keeps_rest.

Example C10_strip_keeps_rest_nonvacuous :
  let t := Dict [(KS (of_string "keep"), Dict [(KS (of_string "a_b"), Leaf (SInt 3)); (KI (-1), Lst [Leaf (SStr (of_string "_v"))])]);
                 (KS (of_string "l"), Lst [Dict [(KS (of_string "x_"), Leaf SNone)]; Lst []])] in
  has_us_key t = false /\ strip_us t = t.
Proof. intros t. assert (H : has_us_key t = false) by (vm_compute; reflexivity). exact (conj H (C10_strip_keeps_rest t H)). Qed.

Theorem C10_no_single_quote : forall s, has_char c_sq s = false -> has_char c_sq (foam_format_string s) = false.
Proof. exact foam_no_single_quote. Qed.
Print Assumptions C10_no_single_quote.

(* non-vacuity: a string the native writer would wrap in single quotes (it has a double quote and blanks) *)
Example C10_no_single_quote_nonvacuous :
  let s := of_string "say ""hi"" now" in
  has_char c_sq s = false /\ format_string s = sq s /\ foam_format_string s = of_string """say \""hi\"" now""" /\
  has_char c_sq (foam_format_string s) = false.
Proof.
  intros s. assert (H : has_char c_sq s = false) by (vm_compute; reflexivity).
  refine (conj H (conj _ (conj _ (C10_no_single_quote s H)))); vm_compute; reflexivity.
Qed.

Theorem C10_foam_choice : forall s, has_char c_dollar s = false -> has_char c_dq s = false ->
  (foam_format_string s = dq s) \/
  (foam_format_string s = s /\ nonempty s = true /\ forallb (fun c => negb (is_struct_char c || is_quote c)) s = true).
Proof. exact foam_format_choice. Qed.
Print Assumptions C10_foam_choice.

Example C10_foam_choice_nonvacuous :
  let a := of_string "it's (a) list" in let b := of_string "uniform" in
  (has_char c_dollar a = false /\ has_char c_dq a = false /\ foam_format_string a = dq a) /\
  (has_char c_dollar b = false /\ has_char c_dq b = false /\ foam_format_string b = b) /\
  ((foam_format_string a = dq a) \/
   (foam_format_string a = a /\ nonempty a = true /\ forallb (fun c => negb (is_struct_char c || is_quote c)) a = true)).
Proof.
  intros a b.
  assert (H1 : has_char c_dollar a = false) by (vm_compute; reflexivity).
  assert (H2 : has_char c_dq a = false) by (vm_compute; reflexivity).
  refine (conj (conj H1 (conj H2 _)) (conj _ (C10_foam_choice a H1 H2))); vm_compute; repeat split; reflexivity.
Qed.

(* ================================================================================================================= *)
(* End to end: FoamFormatter.to_string, then the reader of .foam files (NativeParser.parse_string)                    *)
(* ================================================================================================================= *)
From DictIO Require Import E2ESpec E2EProofs E2EHoles E2EFullProofs FoamProofs.

(* The Foam writer domain (FoamProofs):
     foam_leaf v            := writable_leaf v (the native writer domain of C01) and, for a string, no double quote in it
                               (an apostrophe, blanks, delimiters, brackets, a backslash, the empty string are fine);
     foam_writable_tree t   := every leaf is a foam_leaf; every dict key either starts with an underscore (us_key: it
                               is dropped with its whole value, which is unconstrained) or is a simple_key;
     foam_written_value v   := the classifier applied to the content of the Foam-written form of v (the analogue of
                               written_value; C10_values_as_native: on the Foam domain the two coincide).
   Writing a dict in OpenFOAM format and reading the text back returns the dict without its underscore keys (at every
   level of dict nesting, also inside lists), same keys in the same order, same nesting, every leaf as the classifier
   reads the content of its written form.  The FoamFile header entry is not part of foam_to_string_plain (it comes with
   the default block comment of foam_to_string_sd) and so does not occur on either side.
   Side conditions as in C01_roundtrip (counter, number of quoted leaves, depth of quoted leaves). *)
Theorem C10_roundtrip : forall kvs dirc count,
  wf (Dict kvs) = true -> foam_writable_tree (Dict kvs) = true ->
  (-1 <= count)%Z -> (Z.of_nat (nq (Dict kvs)) <= 1000000)%Z -> quoted_within 11 (Dict kvs) = true ->
  exists count',
  parse_string true dirc count (foam_to_string_plain kvs) =
    Ok (mkParsed (mkSD (kvs_of (map_leaves foam_written_value (strip_us (Dict kvs)))) [] [] [] []) count').
Proof. exact roundtrip_foam. Qed.
Print Assumptions C10_roundtrip.

(* The side conditions, each needed (C10_side_conditions_needed below) and each met by the example:
     wf (Dict kvs)                 unique keys at every dict level (a Python dict);          example: vm_compute
     foam_writable_tree (Dict kvs) the value domain of the property;                          example: vm_compute
     -1 <= count                   BorgCounter starts at -1; below that two literals share placeholder 000000
     nq (Dict kvs) <= 1000000      placeholders carry six digits; the example has 8 quoted leaves (7 of them written)
     quoted_within 11 (Dict kvs)   a quoted leaf more than ten keys deep makes set_global_key raise RecursionError;
                                   the example's deepest quoted leaf sits 3 keys deep *)
Example C10_side_conditions_needed :
  (* counter below -1: both literals get number 0, the second value overwrites the first *)
  (wf (Dict ce_counter) = true /\ foam_writable_tree (Dict ce_counter) = true /\
   parse_string true [] (-2)%Z (foam_to_string_plain ce_counter) =
     Ok (mkParsed (mkSD [(KS (of_string "a"), Leaf (SStr (of_string "u v"))); (KS (of_string "b"), Leaf (SStr (of_string "u v")))] [] [] [] []) 0%Z) /\
   kvs_of (map_leaves foam_written_value (strip_us (Dict ce_counter))) = ce_counter) /\
  (* a quoted leaf eleven keys deep: RecursionError *)
  (wf (Dict ce_deep) = true /\ foam_writable_tree (Dict ce_deep) = true /\ quoted_within 11 (Dict ce_deep) = false /\
   parse_string true [] 0%Z (foam_to_string_plain ce_deep) = Raise E_Recursion).
Proof. vm_compute. repeat split; reflexivity. Qed.

Definition c10_S (s : string) : tree := Leaf (SStr (of_string s)).
Definition c10_K (s : string) : key := KS (of_string s).
(* depth 4; underscore keys at levels 1, 2 and 3 and inside a list; an apostrophe, blanks, the empty string,
   structural characters, a lone bracket, a padded word, a number-like string; int keys 7 and 5 *)
Definition c10_doc : list (key * tree) :=
  [(c10_K "_top", Leaf (SInt 1));
   (c10_K "keep", Dict [(c10_K "_in", c10_S "x y"); (c10_K "a_b", c10_S "two words");
                        (KI 7, Dict [(c10_K "_deep", Leaf SNone); (c10_K "apo", c10_S "it's"); (c10_K "e", c10_S "");
                                     (c10_K "st", c10_S "a;b {c}")])]);
   (c10_K "l", Lst [Dict [(c10_K "_x", Leaf SNone); (KI 5, c10_S "(")]; Lst [c10_S " true "; Leaf (SFloat (of_string "1.5"))];
                    c10_S "12"; c10_S "plain"])].
(* what comes back: the underscore keys are gone; " true " and "12" are re-typed by the classifier *)
Definition c10_back : list (key * tree) :=
  [(c10_K "keep", Dict [(c10_K "a_b", c10_S "two words");
                        (KI 7, Dict [(c10_K "apo", c10_S "it's"); (c10_K "e", c10_S ""); (c10_K "st", c10_S "a;b {c}")])]);
   (c10_K "l", Lst [Dict [(KI 5, c10_S "(")]; Lst [Leaf (SBool true); Leaf (SFloat (of_string "1.5"))];
                    Leaf (SInt 12); c10_S "plain"])].

Example C10_roundtrip_nonvacuous :
  (* the hypotheses *)
  wf (Dict c10_doc) = true /\ foam_writable_tree (Dict c10_doc) = true /\
  (Z.of_nat (nq (Dict c10_doc)) <= 1000000)%Z /\ quoted_within 11 (Dict c10_doc) = true /\
  (* strip_us has work to do *)
  has_us_key (Dict c10_doc) = true /\
  (* the written text *)
  foam_to_string_plain c10_doc = of_string
"keep
{
    a_b                       ""two words"";
    7
    {
        apo                   ""it's"";
        e                     """";
        st                    ""a;b {c}"";
    }
}
l
(

    {
        5                     ""("";
    }
    (
        "" true ""          1.5
    )
    12                plain
);
" /\
  (* computed *)
  parse_string true [] 7 (foam_to_string_plain c10_doc) = Ok (mkParsed (mkSD c10_back [] [] [] []) 13) /\
  kvs_of (map_leaves foam_written_value (strip_us (Dict c10_doc))) = c10_back /\
  (* by the theorem *)
  (exists count', parse_string true (of_string "/some/dir") 41 (foam_to_string_plain c10_doc) =
     Ok (mkParsed (mkSD (kvs_of (map_leaves foam_written_value (strip_us (Dict c10_doc)))) [] [] [] []) count')).
Proof.
  assert (H1 : wf (Dict c10_doc) = true) by (vm_compute; reflexivity).
  assert (H2 : foam_writable_tree (Dict c10_doc) = true) by (vm_compute; reflexivity).
  assert (H3 : (Z.of_nat (nq (Dict c10_doc)) <= 1000000)%Z) by (vm_compute; discriminate).
  assert (H4 : quoted_within 11 (Dict c10_doc) = true) by (vm_compute; reflexivity).
  refine (conj H1 (conj H2 (conj H3 (conj H4 (conj _ (conj _ (conj _ (conj _ _)))))))); try (vm_compute; reflexivity).
  exact (C10_roundtrip c10_doc _ 41%Z H1 H2 ltac:(discriminate) H3 H4).
Qed.

(* the same with the side conditions stated for the tree that is actually written (underscore keys removed): what
   hangs below an underscore key does not count *)
Theorem C10_roundtrip_written : forall kvs dirc count,
  wf (Dict kvs) = true -> foam_writable_tree (Dict kvs) = true ->
  (-1 <= count)%Z -> (Z.of_nat (nq (strip_us (Dict kvs))) <= 1000000)%Z -> quoted_within 11 (strip_us (Dict kvs)) = true ->
  exists count',
  parse_string true dirc count (foam_to_string_plain kvs) =
    Ok (mkParsed (mkSD (kvs_of (map_leaves foam_written_value (strip_us (Dict kvs)))) [] [] [] []) count').
Proof. exact roundtrip_foam_stripped. Qed.
Print Assumptions C10_roundtrip_written.

(* non-vacuity: a quoted string twelve keys deep (outside C10_roundtrip: quoted_within 11 fails) and a leaf outside the
   writer domain altogether (a string with both quote flavours) sit below underscore keys and are never written *)
Example C10_roundtrip_written_nonvacuous :
  let d := [(c10_K "_priv", ce_nest 11 (c10_S "x y")); (c10_K "_odd", c10_S "a'b""c");
            (c10_K "k", Dict [(c10_K "v", c10_S "it's here"); (c10_K "_w", Lst [c10_S "a""b"])])] in
  wf (Dict d) = true /\ foam_writable_tree (Dict d) = true /\ quoted_within 11 (Dict d) = false /\
  (Z.of_nat (nq (strip_us (Dict d))) <= 1000000)%Z /\ quoted_within 11 (strip_us (Dict d)) = true /\
  parse_string true [] (-1) (foam_to_string_plain d) =
    Ok (mkParsed (mkSD [(c10_K "k", Dict [(c10_K "v", c10_S "it's here")])] [] [] [] []) 0) /\
  (exists count', parse_string true [] (-1) (foam_to_string_plain d) =
     Ok (mkParsed (mkSD (kvs_of (map_leaves foam_written_value (strip_us (Dict d)))) [] [] [] []) count')).
Proof.
  intros d.
  assert (H1 : wf (Dict d) = true) by (vm_compute; reflexivity).
  assert (H2 : foam_writable_tree (Dict d) = true) by (vm_compute; reflexivity).
  assert (H3 : (Z.of_nat (nq (strip_us (Dict d))) <= 1000000)%Z) by (vm_compute; discriminate).
  assert (H4 : quoted_within 11 (strip_us (Dict d)) = true) by (vm_compute; reflexivity).
  refine (conj H1 (conj H2 (conj _ (conj H3 (conj H4 (conj _ _)))))); try (vm_compute; reflexivity).
  exact (C10_roundtrip_written d [] (-1)%Z H1 H2 ltac:(discriminate) H3 H4).
Qed.

(* on the Foam domain the value that comes back is the one the native route gives: the quote flavour does not matter *)
Theorem C10_values_as_native : forall kvs, foam_writable_tree (Dict kvs) = true ->
  map_leaves foam_written_value (strip_us (Dict kvs)) = map_leaves written_value (strip_us (Dict kvs)).
Proof. exact foam_values_as_native. Qed.
Print Assumptions C10_values_as_native.

(* a string leaf that the classifier does not re-type comes back as itself *)
Theorem C10_string_unchanged : forall s, foam_leaf (SStr s) = true -> parse_value s = Ok (SStr s) ->
  foam_written_value (SStr s) = SStr s.
Proof. exact foam_written_value_string. Qed.
Print Assumptions C10_string_unchanged.

Example C10_string_unchanged_nonvacuous :
  let s := of_string "it's (a) list; really" in
  foam_leaf (SStr s) = true /\ parse_value s = Ok (SStr s) /\ foam_written_value (SStr s) = SStr s.
Proof.
  intros s. assert (H1 : foam_leaf (SStr s) = true) by (vm_compute; reflexivity).
  assert (H2 : parse_value s = Ok (SStr s)) by (vm_compute; reflexivity).
  exact (conj H1 (conj H2 (C10_string_unchanged s H1 H2))).
Qed.

(* ---- no single-quoted literal ------------------------------------------------------------------------------------ *)
(* scan_trace (FoamProofs) is the lexer's literal scanner scan_literals made to report, for every literal it
   registers, which alternative matched (single- or double-quoted) and the matched text; its first component is
   scan_literals on every input: *)
Theorem C10_scan_trace_is_scanner : forall fuel pb count out tab s,
  fst (scan_trace fuel pb count out tab s) = scan_literals fuel pb count out tab s.
Proof. exact scan_trace_fst. Qed.
Print Assumptions C10_scan_trace_is_scanner.

(* On the written text of a Foam-domain tree (as the lexer hands it to the scanner: line endings removed; there are no
   comments or includes to take out) the scan registers exactly the quoted leaves of the written tree, in document
   order, every one matched by the DOUBLE-quote alternative; the literal table it builds is the one Lexer.lex
   returns.  A single quote character occurs in the text only inside such a double-quoted literal. *)
Theorem C10_no_single_quoted_literal : forall kvs dirc count, foam_writable_tree (Dict kvs) = true ->
  let text := foam_to_string_plain kvs in
  let scanned := remove_line_endings text in
  let run := scan_trace (S (length scanned)) false count [] [] scanned in
  lxd_lit (lex true dirc count text) = snd (fst run) /\
  snd run = map (fun s => (c_dq, dq s)) (qstrs (strip_us (Dict kvs))) /\
  Forall (fun e => fst e = c_dq) (snd run).
Proof. exact foam_literals_double_quoted. Qed.
Print Assumptions C10_no_single_quoted_literal.

(* the text: a skeleton free of quote characters whose holes (E2EHoles.expandL) are filled with the strings dq s *)
Theorem C10_text_shape : forall kvs, foam_writable_tree (Dict kvs) = true ->
  exists A, foam_to_string_plain kvs = expandL (map dq (qstrs (strip_us (Dict kvs)))) A /\
            forallb (fun c => negb (is_quote c)) A = true /\ nh A = length (qstrs (strip_us (Dict kvs))) /\
            Forall (fun s => no_dq s = true) (qstrs (strip_us (Dict kvs))).
Proof. exact foam_text_shape. Qed.
Print Assumptions C10_text_shape.

(* non-vacuity: the Foam text of c10_doc contains a single quote CHARACTER (the apostrophe of it's), six literals are
   registered, all double-quoted; the native text of the same data has single-quoted literals (so the trace does tell
   the flavours apart) *)
Example C10_no_single_quoted_literal_nonvacuous :
  let text := foam_to_string_plain c10_doc in
  let scanned := remove_line_endings text in
  let run := scan_trace (S (length scanned)) false 7 [] [] scanned in
  foam_writable_tree (Dict c10_doc) = true /\
  has_char c_sq text = true /\
  snd run = [(c_dq, of_string """two words"""); (c_dq, of_string """it's"""); (c_dq, of_string """""");
             (c_dq, of_string """a;b {c}"""); (c_dq, of_string """("""); (c_dq, of_string """ true """)] /\
  map fst (literal_trace 7 (remove_line_endings (to_string_plain (stripped c10_doc)))) = [c_sq; c_dq; c_sq; c_sq; c_sq; c_sq] /\
  (lxd_lit (lex true [] 7 text) = snd (fst run) /\
   snd run = map (fun s => (c_dq, dq s)) (qstrs (strip_us (Dict c10_doc))) /\
   Forall (fun e => fst e = c_dq) (snd run)).
Proof.
  intros text scanned run.
  assert (H : foam_writable_tree (Dict c10_doc) = true) by (vm_compute; reflexivity).
  refine (conj H (conj _ (conj _ (conj _ (C10_no_single_quoted_literal c10_doc [] 7%Z H))))); vm_compute; reflexivity.
Qed.

(* OUTSIDE the domain (the property restricts strings to those without double-quote characters): the writer escapes
   an inner double quote with a backslash, the reader's literal pattern stops at the escaped quote all the same
   (the literal registered is  "say \" ), the statement no longer has the shape key-value-semicolon and the entry
   is dropped without an error; the neighbouring entries survive *)
Example C10_inner_double_quote_not_in_domain :
  let d := [(c10_K "b", Leaf (SInt 1)); (c10_K "a", c10_S "say ""hi"" now"); (c10_K "c", Leaf (SInt 2))] in
  foam_writable_tree (Dict d) = false /\
  foam_to_string_plain d = of_string
"b                             1;
a                             ""say \""hi\"" now"";
c                             2;
" /\
  map snd (literal_trace 7 (remove_line_endings (foam_to_string_plain d))) = [of_string """say \"""] /\
  parse_string true [] 7 (foam_to_string_plain d) =
    Ok (mkParsed (mkSD [(c10_K "b", Leaf (SInt 1)); (c10_K "c", Leaf (SInt 2))] [] [] [] []) 8).
Proof. vm_compute. repeat split; reflexivity. Qed.

(* ================================================================================================== *)
(* added from Properties/C10_add.v (2026-10-01)                                              *)
(* ================================================================================================== *)
(* C10 (additions): the SDict route of the Foam writer -- banner and FoamFile block, literals, round trip. *)
From Coq Require Import String.   (* string literals of the examples; imported first so the list names win *)
From Coq Require Import NArith ZArith List Bool.
From DictIO Require Import Chars Str Value Scalar KeyPath SDict Layout Lexer TokParser TreeSpec NativeSpec QuoteProofs.
From DictIO Require Import E2ESpec E2EProofs E2EHoles E2EFullProofs FoamProofs RereadStr RereadTree FoamSdProofs.
Import ListNotations.

(* Vocabulary (FoamSdProofs):
     foam_banner / foam_file_block / foam_rule   the three pieces of the default header Layout.foam_header: the OpenFOAM
                                   banner (one block comment of seven lines), the text of the FoamFile dict, the rule line
                                   (a line comment);  C10_foam_header_pieces
     foam_file_dict                the FoamFile dict as data: version 2.0, format ascii, class dictionary, object foamDict
     sd_foam_body s                the body FoamFormatter lays out for s (underscore keys removed, placeholders still in)
     own_foam_header bc            bc carries the C++ mark AND the word OpenFOAM: it counts as the file's own header
     bph i / lph i (RereadTree)    the placeholder names BLOCKCOMMENTiiiiii / LINECOMMENTiiiiii
     hdr_mid n                     what is left of the header once the lexer has lifted the banner and the rule out:
                                   BLOCKCOMMENT000000, the FoamFile block, LINECOMMENTnnnnnn (each on its line)
     sd_reread_data n kvs          [BLOCKCOMMENT000000 entry; FoamFile -> foam_file_dict; LINECOMMENTnnnnnn entry] ++ kvs *)

Theorem C10_foam_header_pieces : foam_header = foam_banner ++ [c_lf] ++ foam_file_block ++ foam_rule ++ [c_lf].
Proof. exact foam_header_split. Qed.
Print Assumptions C10_foam_header_pieces.

(* ---- (1) the banner and the FoamFile block ------------------------------------------------------------------------ *)
(* Whenever the formatted body does not begin with the placeholder of a block comment of the table -- every SDict
   without block comments, every SDict whose first entry is not a block comment placeholder -- the text IS the default
   header (banner, FoamFile block, rule) followed by what the remaining passes make of the body; none of the later
   passes (block comments further down, includes, line comments, trailing spaces) touches the header.
   Any data (a FoamFile entry of the SDict's own is an ordinary entry: it is written a second time, further down:
   C10_sd_banner_default_nonvacuous), any tables. *)
Theorem C10_sd_banner_default : forall s, header_key (sd_bc s) (sd_foam_body s) = None ->
  foam_to_string_sd s =
  foam_header ++
  remove_trailing_spaces (insert_line_comments (sd_lc s) (insert_includes foam_format_string (sd_inc s)
    (insert_blocks foam_make_default_block_comment None (sd_bc s) [] (sd_foam_body s)))).
Proof. exact sd_banner_default. Qed.
Print Assumptions C10_sd_banner_default.

Definition c10s_S (s : string) : tree := Leaf (SStr (of_string s)).
Definition c10s_K (s : string) : key := KS (of_string s).
Definition c10s_ph (w : str) (i : N) : key * tree := (KS (placeholder w i), Leaf (SStr (placeholder w i))).

(* non-vacuity: a line comment first, a block comment further down (both in the tables), an underscore key, and a
   FoamFile entry of the SDict's own, NOT first: the header with the default FoamFile block, then the body with the
   own FoamFile block -- two FoamFile dicts in one file *)
Definition c10s_own : sdict :=
  mkSD [c10s_ph w_LINECOMMENT 7; (c10s_K "a", Leaf (SInt 1)); (c10s_K "_b", Leaf (SInt 2));
        (c10s_K "FoamFile", Dict [(c10s_K "version", Leaf (SFloat (of_string "2.0"))); (c10s_K "class", c10s_S "volScalarField")]);
        (c10s_K "sub", Dict [c10s_ph w_BLOCKCOMMENT 3])]
       [(7, of_string "// seven")] [(3, of_string "/* three */")] [] [].
Example C10_sd_banner_default_nonvacuous :
  header_key (sd_bc c10s_own) (sd_foam_body c10s_own) = None /\
  foam_to_string_sd c10s_own = foam_header ++ of_string
"// seven
a                             1;
FoamFile
{
    version                   2.0;
    class                     volScalarField;
}
sub
{
    /* three */
}
" /\
  foam_to_string_sd c10s_own =
  foam_header ++
  remove_trailing_spaces (insert_line_comments (sd_lc c10s_own) (insert_includes foam_format_string (sd_inc c10s_own)
    (insert_blocks foam_make_default_block_comment None (sd_bc c10s_own) [] (sd_foam_body c10s_own)))).
Proof.
  assert (H : header_key (sd_bc c10s_own) (sd_foam_body c10s_own) = None) by (vm_compute; reflexivity).
  refine (conj H (conj _ (C10_sd_banner_default c10s_own H))). vm_compute. reflexivity.
Qed.

(* the same with the own FoamFile entry FIRST *)
Example C10_sd_own_FoamFile_first :
  let s := mkSD [(c10s_K "FoamFile", Dict [(c10s_K "class", c10s_S "volScalarField")]); (c10s_K "a", Leaf (SInt 1))] [] [] [] [] in
  foam_to_string_sd s = foam_header ++ of_string
"FoamFile
{
    class                     volScalarField;
}
a                             1;
".
Proof. vm_compute. reflexivity. Qed.

(* The formatted body begins with the placeholder of the FIRST block comment of the table (what the reader returns for
   a file that begins with a block comment) and that comment is not itself an OpenFOAM header: the default header is
   put in front of it (it replaces it when the comment carries the C++ mark without the word OpenFOAM: the header of a
   dictIO native file). *)
Theorem C10_sd_banner_own_first : forall s i bc bcs, sd_bc s = (i, bc) :: bcs ->
  header_key (sd_bc s) (sd_foam_body s) = Some i -> own_foam_header bc = false ->
  exists rest, foam_to_string_sd s = foam_header ++ rest.
Proof. exact sd_banner_own_first. Qed.
Print Assumptions C10_sd_banner_own_first.

Example C10_sd_banner_own_first_nonvacuous :
  let s := mkSD [c10s_ph w_BLOCKCOMMENT 3; (c10s_K "a", Leaf (SInt 1))] [] [(3, of_string "/* mine */")] [] [] in
  let t := mkSD [c10s_ph w_BLOCKCOMMENT 3; (c10s_K "a", Leaf (SInt 1))] [] [(3, removelast native_header)] [] [] in
  (sd_bc s = [(3, of_string "/* mine */")] /\ header_key (sd_bc s) (sd_foam_body s) = Some 3 /\ own_foam_header (of_string "/* mine */") = false /\
   foam_to_string_sd s = foam_header ++ of_string "/* mine */
a                             1;
" /\
   exists rest, foam_to_string_sd s = foam_header ++ rest) /\
  (* the header of a native file is replaced *)
  (header_key (sd_bc t) (sd_foam_body t) = Some 3 /\ own_foam_header (removelast native_header) = false /\
   foam_to_string_sd t = foam_header ++ of_string "
a                             1;
").
Proof.
  intros s t.
  assert (H1 : sd_bc s = [(3, of_string "/* mine */")]) by reflexivity.
  assert (H2 : header_key (sd_bc s) (sd_foam_body s) = Some 3) by (vm_compute; reflexivity).
  assert (H3 : own_foam_header (of_string "/* mine */") = false) by (vm_compute; reflexivity).
  refine (conj (conj H1 (conj H2 (conj H3 (conj _ (C10_sd_banner_own_first s 3 _ [] H1 H2 H3))))) _); vm_compute; repeat split; reflexivity.
Qed.

(* FINDINGS (the side conditions of the two theorems are needed; both agree with the Python code):
   (a) a leading block comment that mentions " C++ " and "OpenFOAM" counts as the file's own header: NO banner and NO
       FoamFile block are written -- "whenever an SDict is written it starts with the OpenFOAM banner and FoamFile
       block" fails for it;
   (b) the header comment is not the first of the table and an earlier table entry contains the text the header would
       become: the "do not insert a block comment twice" rule drops the header; the text begins with an empty line. *)
Example C10_sd_banner_finding_own_header :
  let s := mkSD [c10s_ph w_BLOCKCOMMENT 3; (c10s_K "a", Leaf (SInt 1))] [] [(3, of_string "/* my C++ OpenFOAM */")] [] [] in
  header_key (sd_bc s) (sd_foam_body s) = Some 3 /\ own_foam_header (of_string "/* my C++ OpenFOAM */") = true /\
  foam_to_string_sd s = of_string "/* my C++ OpenFOAM */
a                             1;
" /\
  contains (of_string "FoamFile") (foam_to_string_sd s) = false.
Proof. vm_compute. repeat split; reflexivity. Qed.

Example C10_sd_banner_finding_header_dropped :
  let s := mkSD [c10s_ph w_BLOCKCOMMENT 0; c10s_ph w_BLOCKCOMMENT 1; (c10s_K "a", Leaf (SInt 1))] []
                [(1, foam_header ++ of_string "/* X */"); (0, of_string "/* X */")] [] [] in
  header_key (sd_bc s) (sd_foam_body s) = Some 0 /\ own_foam_header (of_string "/* X */") = false /\
  foam_to_string_sd s = [c_lf] ++ foam_header ++ of_string "/* X */
a                             1;
" /\
  starts_with foam_header (foam_to_string_sd s) = false.
Proof. vm_compute. repeat split; reflexivity. Qed.

(* ---- (3) no single-quoted literal on the SDict route ------------------------------------------------------------- *)
(* scan_input / scan_count (FoamSdProofs): the text and the counter value Lexer.lex hands to its literal scanner (after
   the comment, include and block comment passes and the removal of line endings).  For EVERY text the literal table of
   the lexer is the one the scan of scan_input builds: *)
Theorem C10_scan_input_is_lexers : forall comments dir count text,
  lxd_lit (lex comments dir count text) =
  snd (scan_literals (S (length (scan_input comments dir count text))) false (scan_count comments dir count text) [] []
         (scan_input comments dir count text)).
Proof. exact lex_lit_scan. Qed.
Print Assumptions C10_scan_input_is_lexers.

(* An SDict without comments and includes, data in the Foam writer domain: the lexer lifts the banner and the rule out
   (what is scanned is  BLOCKCOMMENT000000 FoamFile { .. } LINECOMMENTnnnnnn  followed by the plain Foam text), the
   scan (FoamProofs.scan_trace: scan_literals with a trace, C10_scan_trace_is_scanner) registers exactly the quoted
   leaves of the written tree, in document order, every one by the DOUBLE-quote alternative. *)
Theorem C10_sd_no_single_quote : forall s dirc count,
  sd_lc s = [] -> sd_bc s = [] -> sd_inc s = [] -> foam_writable_tree (Dict (sd_data s)) = true ->
  let text := foam_to_string_sd s in
  let scanned := scan_input true dirc count text in
  let run := scan_trace (S (length scanned)) false (scan_count true dirc count text) [] [] scanned in
  scanned = remove_line_endings (hdr_mid (Z.to_N (counter_next count)) ++ foam_to_string_plain (sd_data s)) /\
  scan_count true dirc count text = counter_next count /\
  lxd_lit (lex true dirc count text) = snd (fst run) /\
  snd run = map (fun x => (c_dq, dq x)) (qstrs (strip_us (Dict (sd_data s)))) /\
  Forall (fun e => fst e = c_dq) (snd run).
Proof. exact sd_literals_double_quoted. Qed.
Print Assumptions C10_sd_no_single_quote.

(* the text: the header (free of quote characters of either flavour) in front of a skeleton free of quote characters
   whose holes are filled with the strings dq s *)
Theorem C10_sd_text_shape : forall s, sd_lc s = [] -> sd_bc s = [] -> sd_inc s = [] -> foam_writable_tree (Dict (sd_data s)) = true ->
  exists A, foam_to_string_sd s = foam_header ++ expandL (map dq (qstrs (strip_us (Dict (sd_data s))))) A /\
            forallb (fun c => negb (is_quote c)) (foam_header ++ A) = true /\
            nh A = length (qstrs (strip_us (Dict (sd_data s)))) /\
            Forall (fun x => no_dq x = true) (qstrs (strip_us (Dict (sd_data s)))).
Proof. exact sd_text_shape. Qed.
Print Assumptions C10_sd_text_shape.

(* the example SDict: a nested dict two deep, underscore keys at levels 1, 2 and 3 and inside a list, strings with
   blanks, an apostrophe, a lone bracket, a number-like string, an int key *)
Definition c10s_doc : list (key * tree) :=
  [(c10s_K "_top", Leaf (SInt 1));
   (c10s_K "keep", Dict [(c10s_K "_in", c10s_S "x y"); (c10s_K "a_b", c10s_S "two words");
                         (c10s_K "n", Dict [(c10s_K "apo", c10s_S "it's"); (c10s_K "_deep", Leaf SNone)])]);
   (c10s_K "l", Lst [Dict [(c10s_K "_x", Leaf SNone); (KI 5, c10s_S "(")]; c10s_S "12"; c10s_S "plain"])].
Definition c10s_sd : sdict := mkSD c10s_doc [] [] [] [].
(* what comes back as ordinary data *)
Definition c10s_back : list (key * tree) :=
  [(c10s_K "keep", Dict [(c10s_K "a_b", c10s_S "two words"); (c10s_K "n", Dict [(c10s_K "apo", c10s_S "it's")])]);
   (c10s_K "l", Lst [Dict [(KI 5, c10s_S "(")]; Leaf (SInt 12); c10s_S "plain"])].

Example C10_sd_no_single_quote_nonvacuous :
  let text := foam_to_string_sd c10s_sd in
  let scanned := scan_input true [] 7 text in
  let run := scan_trace (S (length scanned)) false (scan_count true [] 7 text) [] [] scanned in
  foam_writable_tree (Dict c10s_doc) = true /\
  (* a single quote CHARACTER does occur in the text (the apostrophe) *)
  has_char c_sq text = true /\ has_char c_sq foam_header = false /\
  (* the beginning of what is scanned *)
  take_n 49 scanned = of_string "BLOCKCOMMENT000000 FoamFile {     version        " /\
  snd run = [(c_dq, of_string """two words"""); (c_dq, of_string """it's"""); (c_dq, of_string """(""")] /\
  (scanned = remove_line_endings (hdr_mid 8 ++ foam_to_string_plain c10s_doc) /\
   scan_count true [] 7 text = 8%Z /\
   lxd_lit (lex true [] 7 text) = snd (fst run) /\
   snd run = map (fun x => (c_dq, dq x)) (qstrs (strip_us (Dict c10s_doc))) /\
   Forall (fun e => fst e = c_dq) (snd run)).
Proof.
  intros text scanned run.
  assert (H : foam_writable_tree (Dict c10s_doc) = true) by (vm_compute; reflexivity).
  refine (conj H (conj _ (conj _ (conj _ (conj _ (C10_sd_no_single_quote c10s_sd [] 7%Z eq_refl eq_refl eq_refl H)))))); vm_compute; reflexivity.
Qed.

(* ---- (1) again, for the domain of the property ------------------------------------------------------------------- *)
(* Data in the Foam writer domain (no key of it can spell a placeholder), ANY tables: the default header is written. *)
Theorem C10_sd_banner_domain : forall s, foam_writable_tree (Dict (sd_data s)) = true ->
  foam_to_string_sd s =
  foam_header ++
  remove_trailing_spaces (insert_line_comments (sd_lc s) (insert_includes foam_format_string (sd_inc s)
    (insert_blocks foam_make_default_block_comment None (sd_bc s) [] (sd_foam_body s)))).
Proof. exact sd_banner_domain. Qed.
Print Assumptions C10_sd_banner_domain.

(* non-vacuity: the example data with tables that hold a line comment and a block comment that would count as an own
   header (C10_sd_banner_finding_own_header) -- no entry refers to them, the default header is written *)
Example C10_sd_banner_domain_nonvacuous :
  let s := mkSD c10s_doc [(1, of_string "// one")] [(0, of_string "/* my C++ OpenFOAM */")] [] [] in
  foam_writable_tree (Dict (sd_data s)) = true /\
  foam_to_string_sd s = foam_header ++ foam_to_string_plain c10s_doc /\
  foam_to_string_sd s =
  foam_header ++
  remove_trailing_spaces (insert_line_comments (sd_lc s) (insert_includes foam_format_string (sd_inc s)
    (insert_blocks foam_make_default_block_comment None (sd_bc s) [] (sd_foam_body s)))).
Proof.
  intros s. assert (H : foam_writable_tree (Dict (sd_data s)) = true) by (vm_compute; reflexivity).
  refine (conj H (conj _ (C10_sd_banner_domain s H))). vm_compute. reflexivity.
Qed.

(* ---- (2) the round trip on the SDict route ----------------------------------------------------------------------- *)
(* An SDict without comments and includes whose data is in the Foam writer domain (C10_roundtrip) and has no top-level
   key FoamFile: reading the written text back returns
     data   BLOCKCOMMENT000000 -> itself;  FoamFile -> {version 2.0; format ascii; class dictionary; object foamDict};
            LINECOMMENTnnnnnn -> itself (n = the next counter value);  then the data without its underscore keys (every
            level, also inside lists), same keys, same order, every leaf as the classifier reads its written form;
     line comments   {n: the rule};   block comments   {0: the banner};   no includes, no expressions.
   Side conditions as in C10_roundtrip; no_FoamFile_key is needed for THIS statement (C10_sd_roundtrip_finding_own_FoamFile:
   otherwise the FoamFile entry that comes back holds the fields of the SDict's own entry, not the documented ones). *)
Theorem C10_sd_roundtrip : forall s dirc count,
  sd_lc s = [] -> sd_bc s = [] -> sd_inc s = [] ->
  wf (Dict (sd_data s)) = true -> foam_writable_tree (Dict (sd_data s)) = true -> no_FoamFile_key (sd_data s) = true ->
  (-1 <= count)%Z -> (Z.of_nat (nq (Dict (sd_data s))) <= 1000000)%Z -> quoted_within 11 (Dict (sd_data s)) = true ->
  exists count',
  parse_string true dirc count (foam_to_string_sd s) =
    Ok (mkParsed (mkSD (sd_reread_data (Z.to_N (counter_next count))
                          (kvs_of (map_leaves foam_written_value (strip_us (Dict (sd_data s))))))
                       [(Z.to_N (counter_next count), foam_rule)] [(0, foam_banner)] [] []) count').
Proof. exact roundtrip_foam_sd. Qed.
Print Assumptions C10_sd_roundtrip.

Example C10_sd_roundtrip_nonvacuous :
  (* the hypotheses *)
  wf (Dict c10s_doc) = true /\ foam_writable_tree (Dict c10s_doc) = true /\ no_FoamFile_key c10s_doc = true /\
  (Z.of_nat (nq (Dict c10s_doc)) <= 1000000)%Z /\ quoted_within 11 (Dict c10s_doc) = true /\
  has_us_key (Dict c10s_doc) = true /\
  (* the written text: it begins with the banner ... *)
  take_n 80 (foam_to_string_sd c10s_sd) =
    of_string "/*--------------------------------*- C++ -*----------------------------------*\
" /\
  foam_to_string_sd c10s_sd = foam_header ++ of_string
"keep
{
    a_b                       ""two words"";
    n
    {
        apo                   ""it's"";
    }
}
l
(

    {
        5                     ""("";
    }
    12                plain
);
" /\
  (* computed *)
  parse_string true [] 7 (foam_to_string_sd c10s_sd) =
    Ok (mkParsed (mkSD ([c10s_ph w_BLOCKCOMMENT 0; (c10s_K "FoamFile", foam_file_dict); c10s_ph w_LINECOMMENT 8] ++ c10s_back)
                       [(8, foam_rule)] [(0, foam_banner)] [] []) 11) /\
  kvs_of (map_leaves foam_written_value (strip_us (Dict c10s_doc))) = c10s_back /\
  (* by the theorem *)
  (exists count', parse_string true (of_string "/some/dir") 41 (foam_to_string_sd c10s_sd) =
     Ok (mkParsed (mkSD (sd_reread_data 42 (kvs_of (map_leaves foam_written_value (strip_us (Dict c10s_doc)))))
                        [(42, foam_rule)] [(0, foam_banner)] [] []) count')).
Proof.
  assert (H1 : wf (Dict c10s_doc) = true) by (vm_compute; reflexivity).
  assert (H2 : foam_writable_tree (Dict c10s_doc) = true) by (vm_compute; reflexivity).
  assert (H3 : no_FoamFile_key c10s_doc = true) by (vm_compute; reflexivity).
  assert (H4 : (Z.of_nat (nq (Dict c10s_doc)) <= 1000000)%Z) by (vm_compute; discriminate).
  assert (H5 : quoted_within 11 (Dict c10s_doc) = true) by (vm_compute; reflexivity).
  refine (conj H1 (conj H2 (conj H3 (conj H4 (conj H5 (conj _ (conj _ (conj _ (conj _ (conj _ _)))))))))); try (vm_compute; reflexivity).
  exact (C10_sd_roundtrip c10s_sd (of_string "/some/dir") 41%Z eq_refl eq_refl eq_refl H1 H2 H3 ltac:(discriminate) H4 H5).
Qed.

(* FINDING: the SDict carries a FoamFile entry of its own (as every SDict read from an OpenFOAM file does, unless the
   file's banner is kept as its header: C10_sd_banner_finding_own_header).  Two FoamFile dicts are written; on reading,
   the second replaces the value of the first: the entry that comes back holds the OWN fields only (format and object are
   gone), in the position of the header's entry; the rest of the data is as in the theorem. *)
Example C10_sd_roundtrip_finding_own_FoamFile :
  let own := Dict [(c10s_K "version", Leaf (SFloat (of_string "2.0"))); (c10s_K "class", c10s_S "volScalarField")] in
  let d := [(c10s_K "a", Leaf (SInt 1)); (c10s_K "FoamFile", own); (c10s_K "b", c10s_S "x y")] in
  let s := mkSD d [] [] [] [] in
  wf (Dict d) = true /\ foam_writable_tree (Dict d) = true /\ no_FoamFile_key d = false /\
  parse_string true [] 7 (foam_to_string_sd s) =
    Ok (mkParsed (mkSD [c10s_ph w_BLOCKCOMMENT 0; (c10s_K "FoamFile", own); c10s_ph w_LINECOMMENT 8;
                        (c10s_K "a", Leaf (SInt 1)); (c10s_K "b", c10s_S "x y")]
                       [(8, foam_rule)] [(0, foam_banner)] [] []) 9).
Proof. vm_compute. repeat split; reflexivity. Qed.

(* ================================================================================================== *)
(* non-vacuity examples added after the reviewer's audit (Properties/C10_nv.v, 2026-10-01)         *)
(* ================================================================================================== *)

From Coq Require Import Lia.
(* ==== non-vacuity instances obtained BY APPLYING the theorems above (added after review) ================== *)

(* C10_values_as_native on c10_doc (depth 4, underscore keys at three levels and inside a list, strings with an apostrophe,
   blanks, structural characters, a padded word, a number-like string, int keys) *)
Example C10_values_as_native_nonvacuous :
  foam_writable_tree (Dict c10_doc) = true /\
  map_leaves foam_written_value (strip_us (Dict c10_doc)) = map_leaves written_value (strip_us (Dict c10_doc)) /\
  map_leaves written_value (strip_us (Dict c10_doc)) = Dict c10_back.
Proof.
  assert (H : foam_writable_tree (Dict c10_doc) = true) by (vm_compute; reflexivity).
  refine (conj H (conj (C10_values_as_native c10_doc H) _)). vm_compute. reflexivity.
Qed.

(* C10_scan_trace_is_scanner on the Foam text of c10_doc, the counter two steps before the wrap-around (six literals: the
   ids are 999998 999999 0 1 2 3), and on the native text of the same data (single-quoted literals) *)
Example C10_scan_trace_is_scanner_nonvacuous :
  let s1 := remove_line_endings (foam_to_string_plain c10_doc) in
  let s2 := remove_line_endings (to_string_plain (stripped c10_doc)) in
  fst (scan_trace (S (length s1)) false 999997 [] [] s1) = scan_literals (S (length s1)) false 999997 [] [] s1 /\
  fst (scan_trace (S (length s2)) false 999997 [] [] s2) = scan_literals (S (length s2)) false 999997 [] [] s2 /\
  snd (scan_literals (S (length s1)) false 999997 [] [] s1) =
    [(999998%N, of_string "two words"); (999999%N, of_string "it's"); (0%N, []); (1%N, of_string "a;b {c}"); (2%N, of_string "(");
     (3%N, of_string " true ")] /\
  snd (fst (scan_literals (S (length s1)) false 999997 [] [] s1)) = 3%Z /\
  map fst (snd (scan_trace (S (length s1)) false 999997 [] [] s1)) = [c_dq; c_dq; c_dq; c_dq; c_dq; c_dq] /\
  map fst (snd (scan_trace (S (length s2)) false 999997 [] [] s2)) = [c_sq; c_dq; c_sq; c_sq; c_sq; c_sq].
Proof.
  intros s1 s2.
  refine (conj (C10_scan_trace_is_scanner _ _ _ _ _ _) (conj (C10_scan_trace_is_scanner _ _ _ _ _ _) _)).
  repeat split; vm_compute; reflexivity.
Qed.

(* C10_text_shape on c10_doc: six holes *)
Example C10_text_shape_nonvacuous :
  foam_writable_tree (Dict c10_doc) = true /\
  qstrs (strip_us (Dict c10_doc)) = [of_string "two words"; of_string "it's"; []; of_string "a;b {c}"; of_string "("; of_string " true "] /\
  exists A, foam_to_string_plain c10_doc = expandL (map dq (qstrs (strip_us (Dict c10_doc)))) A /\
            forallb (fun c => negb (is_quote c)) A = true /\ nh A = length (qstrs (strip_us (Dict c10_doc))) /\
            Forall (fun s => no_dq s = true) (qstrs (strip_us (Dict c10_doc))).
Proof.
  assert (H : foam_writable_tree (Dict c10_doc) = true) by (vm_compute; reflexivity).
  refine (conj H (conj _ (C10_text_shape c10_doc H))). vm_compute. reflexivity.
Qed.

(* C10_foam_header_pieces is a closed statement; used here: the header is as long as its pieces, it begins with the
   banner, and each piece is what its name says *)
Example C10_foam_header_pieces_nonvacuous :
  length foam_header = (length foam_banner + 1 + length foam_file_block + length foam_rule + 1)%nat /\
  starts_with foam_banner foam_header = true /\
  (length foam_header, length foam_banner, length foam_file_block, length foam_rule) = (807, 559, 167, 79)%nat /\
  contains (of_string "OpenFOAM") foam_banner = true /\ contains (of_string "FoamFile") foam_file_block = true /\
  contains (of_string "FoamFile") foam_banner = false /\ starts_with (of_string "// ") foam_rule = true.
Proof.
  split; [rewrite C10_foam_header_pieces, !app_length; cbn [length]; lia|].
  split; [rewrite C10_foam_header_pieces; vm_compute; reflexivity|]. repeat split; vm_compute; reflexivity.
Qed.

(* C10_scan_input_is_lexers on a text with two line comments (one of them with a quoted text inside), an include directive,
   a block comment with a double-quoted text inside, literals of both flavours each containing the other quote character;
   counter 999995: the comments and the include take 999996 .. 999998, the literals 999999, 0, 1 *)
Definition c10nv_text : str := of_string "// first 'not a literal'
#include 'sub.dict'
a 1; /* blk ""x"" */ b 'lit one';
c { d ""two's""; e 2.5; } // second
f 'it is ""so""';
".
Example C10_scan_input_is_lexers_nonvacuous :
  let dir := of_string "/d" in
  lxd_lit (lex true dir 999995 c10nv_text) =
    snd (scan_literals (S (length (scan_input true dir 999995 c10nv_text))) false (scan_count true dir 999995 c10nv_text) [] []
           (scan_input true dir 999995 c10nv_text)) /\
  lxd_lit (lex false dir 999995 c10nv_text) =
    snd (scan_literals (S (length (scan_input false dir 999995 c10nv_text))) false (scan_count false dir 999995 c10nv_text) [] []
           (scan_input false dir 999995 c10nv_text)) /\
  scan_input true dir 999995 c10nv_text =
    of_string "LINECOMMENT999996 INCLUDE999998 a 1; BLOCKCOMMENT000000 b 'lit one'; c { d ""two's""; e 2.5; } LINECOMMENT999997 f 'it is ""so""';" /\
  scan_count true dir 999995 c10nv_text = 999998%Z /\
  lxd_lit (lex true dir 999995 c10nv_text) = [(999999%N, of_string "lit one"); (0%N, of_string "two's"); (1%N, of_string "it is ""so""")].
Proof.
  intros dir. refine (conj (C10_scan_input_is_lexers _ _ _ _) (conj (C10_scan_input_is_lexers _ _ _ _) _)).
  repeat split; vm_compute; reflexivity.
Qed.

(* C10_sd_text_shape on c10s_sd (nested dict two deep, underscore keys at three levels and inside a list, strings with
   blanks, an apostrophe, a lone bracket): the header and a quote-free skeleton with three holes *)
Example C10_sd_text_shape_nonvacuous :
  let s := c10s_sd in
  sd_lc s = [] /\ sd_bc s = [] /\ sd_inc s = [] /\ foam_writable_tree (Dict (sd_data s)) = true /\
  qstrs (strip_us (Dict (sd_data s))) = [of_string "two words"; of_string "it's"; of_string "("] /\
  has_char c_sq (foam_to_string_sd s) = true /\
  exists A, foam_to_string_sd s = foam_header ++ expandL (map dq (qstrs (strip_us (Dict (sd_data s))))) A /\
            forallb (fun c => negb (is_quote c)) (foam_header ++ A) = true /\
            nh A = length (qstrs (strip_us (Dict (sd_data s)))) /\
            Forall (fun x => no_dq x = true) (qstrs (strip_us (Dict (sd_data s)))).
Proof.
  intros s. assert (H : foam_writable_tree (Dict (sd_data s)) = true) by (vm_compute; reflexivity).
  refine (conj eq_refl (conj eq_refl (conj eq_refl (conj H (conj _ (conj _ (C10_sd_text_shape s eq_refl eq_refl eq_refl H))))))); vm_compute; reflexivity.
Qed.
