(* C10  OpenFOAM output keeps content, drops private keys, carries the Foam header. *)

From Coq Require Import NArith ZArith List Bool.
From DictIO Require Import Chars Str Value Scalar KeyPath SDict Layout Lexer TokParser TreeSpec NativeSpec QuoteProofs.
Import ListNotations.

(* C10: Foam output *)
Theorem C10_no_underscore_keys : forall t, has_us_key (strip_us t) = false.
Proof. exact strip_us_removes_all. Qed.
Print Assumptions C10_no_underscore_keys.

Theorem C10_strip_keeps_rest : forall t, has_us_key t = false -> strip_us t = t.
Proof. exact strip_us_identity. Qed.
Print Assumptions C10_strip_keeps_rest.

Theorem C10_no_single_quote : forall s, has_char c_sq s = false -> has_char c_sq (foam_format_string s) = false.
Proof. exact foam_no_single_quote. Qed.
Print Assumptions C10_no_single_quote.

Theorem C10_foam_choice : forall s, has_char c_dollar s = false -> has_char c_dq s = false ->
  (foam_format_string s = dq s) \/
  (foam_format_string s = s /\ nonempty s = true /\ forallb (fun c => negb (is_struct_char c || is_quote c)) s = true).
Proof. exact foam_format_choice. Qed.
Print Assumptions C10_foam_choice.
