(* C10  OpenFOAM output keeps content, drops private keys, carries the Foam header. *)
From Coq Require Import String.   (* string literals of the examples; imported first so the list names win *)
From Coq Require Import NArith ZArith List Bool.
From DictIO Require Import Chars Str Value Scalar KeyPath SDict Layout Lexer TokParser TreeSpec NativeSpec QuoteProofs.
Import ListNotations.

(* C10: Foam output *)
Theorem C10_no_underscore_keys : forall t, has_us_key (strip_us t) = false.
Proof. exact strip_us_removes_all. Qed.
Print Assumptions C10_no_underscore_keys.

(* (no hypotheses) an instance in which strip_us has work to do at three levels, also inside a list *)
Example C10_no_underscore_keys_example :
  let t := Dict [(KS (of_string "_top"), Leaf (SInt 1)); (KS (of_string "keep"), Dict [(KS (of_string "_in"), Leaf (SInt 2)); (KS (of_string "a_b"), Leaf (SInt 3))]);
                 (KS (of_string "l"), Lst [Dict [(KS (of_string "_x"), Leaf SNone); (KI 5, Leaf SNone)]])] in
  has_us_key t = true /\
  strip_us t = Dict [(KS (of_string "keep"), Dict [(KS (of_string "a_b"), Leaf (SInt 3))]); (KS (of_string "l"), Lst [Dict [(KI 5, Leaf SNone)]])] /\
  has_us_key (strip_us t) = false.
Proof. intros t. refine (conj _ (conj _ (C10_no_underscore_keys t))); vm_compute; reflexivity. Qed.

Theorem C10_strip_keeps_rest : forall t, has_us_key t = false -> strip_us t = t.
Proof. exact strip_us_identity. Qed.
Print Assumptions C10_strip_keeps_rest.

Example C10_strip_keeps_rest_nonvacuous :
  let t := Dict [(KS (of_string "keep"), Dict [(KS (of_string "a_b"), Leaf (SInt 3)); (KI (-1), Lst [Leaf (SStr (of_string "_v"))])]);
                 (KS (of_string "l"), Lst [Dict [(KS (of_string "x_"), Leaf SNone)]; Lst []])] in
  has_us_key t = false /\ strip_us t = t.
Proof. intros t. assert (H : has_us_key t = false) by (vm_compute; reflexivity). exact (conj H (C10_strip_keeps_rest t H)). Qed.

Theorem C10_no_single_quote : forall s, has_char c_sq s = false -> has_char c_sq (foam_format_string s) = false.
Proof. exact foam_no_single_quote. Qed.
Print Assumptions C10_no_single_quote.

(* non-vacuity: a string the native writer would wrap in single quotes (it has a double quote and blanks) *)
Example C10_no_single_quote_nonvacuous :
  let s := of_string "say ""hi"" now" in
  has_char c_sq s = false /\ format_string s = sq s /\ foam_format_string s = of_string """say \""hi\"" now""" /\
  has_char c_sq (foam_format_string s) = false.
Proof.
  intros s. assert (H : has_char c_sq s = false) by (vm_compute; reflexivity).
  refine (conj H (conj _ (conj _ (C10_no_single_quote s H)))); vm_compute; reflexivity.
Qed.

Theorem C10_foam_choice : forall s, has_char c_dollar s = false -> has_char c_dq s = false ->
  (foam_format_string s = dq s) \/
  (foam_format_string s = s /\ nonempty s = true /\ forallb (fun c => negb (is_struct_char c || is_quote c)) s = true).
Proof. exact foam_format_choice. Qed.
Print Assumptions C10_foam_choice.

Example C10_foam_choice_nonvacuous :
  let a := of_string "it's (a) list" in let b := of_string "uniform" in
  (has_char c_dollar a = false /\ has_char c_dq a = false /\ foam_format_string a = dq a) /\
  (has_char c_dollar b = false /\ has_char c_dq b = false /\ foam_format_string b = b) /\
  ((foam_format_string a = dq a) \/
   (foam_format_string a = a /\ nonempty a = true /\ forallb (fun c => negb (is_struct_char c || is_quote c)) a = true)).
Proof.
  intros a b.
  assert (H1 : has_char c_dollar a = false) by (vm_compute; reflexivity).
  assert (H2 : has_char c_dq a = false) by (vm_compute; reflexivity).
  refine (conj (conj H1 (conj H2 _)) (conj _ (C10_foam_choice a H1 H2))); vm_compute; repeat split; reflexivity.
Qed.
