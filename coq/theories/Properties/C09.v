(* C09  JSON: the JSON front end leaves a dollar-free, include-free tree exactly as json.loads delivered it
   (json.dumps / json.loads themselves are trusted and exercised by the check). *)
From Coq Require Import String.   (* string literals of the examples; imported first so the list names win *)
From Coq Require Import NArith ZArith List Bool.
From DictIO Require Import Chars Str Value Scalar SDict TokParser Reader TreeSpec LayoutSpec SemProofs.
Import ListNotations.

Theorem C09_front_end_identity : forall dir c kvs,
  wf (Dict kvs) = true -> ordinary_kvs kvs = true -> no_include_keys kvs = true ->
  sd_data (pr_sd (json_parse dir c kvs)) = kvs /\ pr_count (json_parse dir c kvs) = c /\
  sd_inc (pr_sd (json_parse dir c kvs)) = [] /\ sd_expr (pr_sd (json_parse dir c kvs)) = [].
Proof. exact json_front_end_identity. Qed.
Print Assumptions C09_front_end_identity.

(* non-vacuity: what json.loads may deliver -- nested objects, arrays of arrays and of objects, numbers, booleans,
   null, strings with blanks, quotes, braces and a number-like string (which keeps its string type) *)
Example C09_front_end_identity_nonvacuous :
  let kvs := [(KS (of_string "name"), Leaf (SStr (of_string "two words; {x} 'q'")));
              (KS (of_string "n"), Leaf (SStr (of_string "12")));
              (KS (of_string "sub"), Dict [(KS (of_string "f"), Leaf (SFloat (of_string "1.5e-3"))); (KS (of_string "t"), Leaf (SBool true));
                                           (KS (of_string "deep"), Dict [(KS (of_string "null"), Leaf SNone)])]);
              (KS (of_string "arr"), Lst [Leaf (SInt 1); Lst [Leaf (SInt (-2)); Leaf (SStr (of_string "include"))];
                                          Dict [(KS (of_string "k"), Leaf (SStr []))]])] in
  wf (Dict kvs) = true /\ ordinary_kvs kvs = true /\ no_include_keys kvs = true /\
  sd_data (pr_sd (json_parse (of_string "/r") 41 kvs)) = kvs /\ pr_count (json_parse (of_string "/r") 41 kvs) = 41%Z.
Proof.
  intros kvs.
  assert (H1 : wf (Dict kvs) = true) by (vm_compute; reflexivity).
  assert (H2 : ordinary_kvs kvs = true) by (vm_compute; reflexivity).
  assert (H3 : no_include_keys kvs = true) by (vm_compute; reflexivity).
  destruct (C09_front_end_identity (of_string "/r") 41 kvs H1 H2 H3) as (A & B & _).
  exact (conj H1 (conj H2 (conj H3 (conj A B)))).
Qed.
(* outside the hypotheses the front end does work: an include key becomes a placeholder, a reference an expression *)
Example C09_front_end_outside :
  let kvs := [(KS (of_string "#include"), Leaf (SStr (of_string "'b.json'"))); (KS (of_string "v"), Leaf (SStr (of_string "$x + 1")))] in
  sd_data (pr_sd (json_parse (of_string "/r") 41 kvs)) =
    [(KS (of_string "INCLUDE000042"), Leaf (SStr (of_string "INCLUDE000042"))); (KS (of_string "v"), Leaf (SStr (of_string "EXPRESSION000043")))] /\
  pr_count (json_parse (of_string "/r") 41 kvs) = 43%Z.
Proof. vm_compute. split; reflexivity. Qed.

(* string leaves keep their string type on the JSON string route: no re-typing happens in the front end *)
Theorem C09_no_retyping : forall s c tab, has_char c_dollar s = false ->
  json_expressions (Leaf (SStr s)) c tab = (Leaf (SStr s), c, tab).
Proof. exact json_leaf_untouched. Qed.
Print Assumptions C09_no_retyping.

Example C09_no_retyping_nonvacuous :
  let s := of_string "12" in let tab := [(5%N, (of_string "$a", of_string "EXPRESSION000005"))] in
  has_char c_dollar s = false /\ json_expressions (Leaf (SStr s)) 41 tab = (Leaf (SStr s), 41%Z, tab).
Proof.
  intros s tab. assert (H : has_char c_dollar s = false) by (vm_compute; reflexivity).
  exact (conj H (C09_no_retyping s 41%Z tab H)).
Qed.

(* ================================================================================================================= *)
(* A JSON file means the same as the equivalent native file                                                          *)
(* ================================================================================================================= *)
From DictIO Require Import KeyPath Layout Lexer NativeSpec E2ESpec E2EProofs E2EHoles E2EFullProofs FoamProofs.

(* stable_tree t (FoamProofs): written_value v = v for every leaf v of t -- the classifier reads the written form of
   every leaf back as the leaf itself (ints, floats, booleans, none always; a string unless it spells a number, a
   boolean, none, or is padded with blanks / wrapped in quotes).
   For a tree of the native writer domain (C01) that is stable, free of dollar signs and placeholder-shaped names
   (ordinary_kvs) and of include keys: the data the JSON front end delivers (on what json.loads returns for the JSON
   rendering) and the data the native parser reads from the native rendering are both the tree itself.
   Side conditions of the native leg as in C01_roundtrip; the JSON leg needs none of them, and the two counters are
   independent. *)
Theorem C09_json_equals_native : forall dir c1 c2 kvs,
  wf (Dict kvs) = true -> writable_tree (Dict kvs) = true -> stable_tree (Dict kvs) = true ->
  ordinary_kvs kvs = true -> no_include_keys kvs = true ->
  (-1 <= c2)%Z -> (Z.of_nat (nq (Dict kvs)) <= 1000000)%Z -> quoted_within 11 (Dict kvs) = true ->
  sd_data (pr_sd (json_parse dir c1 kvs)) = kvs /\
  exists c2', parse_string true dir c2 (to_string_plain kvs) = Ok (mkParsed (mkSD kvs [] [] [] []) c2').
Proof. exact json_equals_native. Qed.
Print Assumptions C09_json_equals_native.

(* depth 3: ints, floats, booleans, none, a string with blanks, an apostrophe, a list of lists, a dict inside a list *)
Definition c09_doc : list (key * tree) :=
  [(KS (of_string "name"), Leaf (SStr (of_string "two words")));
   (KS (of_string "n"), Leaf (SInt (-12)));
   (KS (of_string "sub"), Dict [(KS (of_string "f"), Leaf (SFloat (of_string "1.5e-3"))); (KS (of_string "t"), Leaf (SBool true));
                                (KS (of_string "deep"), Dict [(KS (of_string "nothing"), Leaf SNone); (KI 4, Leaf (SStr (of_string "it's")))])]);
   (KS (of_string "arr"), Lst [Leaf (SInt 1); Lst [Leaf (SInt (-2)); Lst [Leaf (SBool false)]; Leaf (SStr (of_string "word"))];
                               Dict [(KS (of_string "k"), Leaf (SStr [])); (KS (of_string "x"), Leaf (SFloat (of_string "2.0")))]])].

Example C09_json_equals_native_nonvacuous :
  wf (Dict c09_doc) = true /\ writable_tree (Dict c09_doc) = true /\ stable_tree (Dict c09_doc) = true /\
  ordinary_kvs c09_doc = true /\ no_include_keys c09_doc = true /\
  (Z.of_nat (nq (Dict c09_doc)) <= 1000000)%Z /\ quoted_within 11 (Dict c09_doc) = true /\
  (* computed *)
  sd_data (pr_sd (json_parse (of_string "/r") 41 c09_doc)) = c09_doc /\
  parse_string true (of_string "/r") 41 (to_string_plain c09_doc) = Ok (mkParsed (mkSD c09_doc [] [] [] []) 44) /\
  (* by the theorem *)
  (sd_data (pr_sd (json_parse (of_string "/r") 41 c09_doc)) = c09_doc /\
   exists c2', parse_string true (of_string "/r") (-1) (to_string_plain c09_doc) = Ok (mkParsed (mkSD c09_doc [] [] [] []) c2')).
Proof.
  assert (H1 : wf (Dict c09_doc) = true) by (vm_compute; reflexivity).
  assert (H2 : writable_tree (Dict c09_doc) = true) by (vm_compute; reflexivity).
  assert (H3 : stable_tree (Dict c09_doc) = true) by (vm_compute; reflexivity).
  assert (H4 : ordinary_kvs c09_doc = true) by (vm_compute; reflexivity).
  assert (H5 : no_include_keys c09_doc = true) by (vm_compute; reflexivity).
  assert (H6 : (Z.of_nat (nq (Dict c09_doc)) <= 1000000)%Z) by (vm_compute; discriminate).
  assert (H7 : quoted_within 11 (Dict c09_doc) = true) by (vm_compute; reflexivity).
  refine (conj H1 (conj H2 (conj H3 (conj H4 (conj H5 (conj H6 (conj H7 (conj _ (conj _ _))))))))); try (vm_compute; reflexivity).
  exact (C09_json_equals_native (of_string "/r") 41%Z (-1)%Z c09_doc H1 H2 H3 H4 H5 ltac:(discriminate) H6 H7).
Qed.

(* in general (no stability hypothesis): the native reading is the JSON reading with every leaf passed through the
   classifier (written_value); this is the whole difference between the two formats on the common domain *)
Theorem C09_json_native_up_to_classifier : forall dir c1 c2 kvs,
  wf (Dict kvs) = true -> writable_tree (Dict kvs) = true ->
  ordinary_kvs kvs = true -> no_include_keys kvs = true ->
  (-1 <= c2)%Z -> (Z.of_nat (nq (Dict kvs)) <= 1000000)%Z -> quoted_within 11 (Dict kvs) = true ->
  exists c2', parse_string true dir c2 (to_string_plain kvs) =
    Ok (mkParsed (mkSD (kvs_of (map_leaves written_value (Dict (sd_data (pr_sd (json_parse dir c1 kvs)))))) [] [] [] []) c2').
Proof. exact json_native_up_to_classifier. Qed.
Print Assumptions C09_json_native_up_to_classifier.

(* what differs when a string IS re-typable (stable_tree fails): the JSON string "12" stays a string, the native text
   12 is an int; likewise "true", "NULL", a padded word and a number with a leading zero *)
Example C09_documented_difference :
  let kvs := [(KS (of_string "n"), Leaf (SStr (of_string "12"))); (KS (of_string "b"), Leaf (SStr (of_string "true")));
              (KS (of_string "z"), Leaf (SStr (of_string "NULL"))); (KS (of_string "p"), Leaf (SStr (of_string " on ")));
              (KS (of_string "o"), Leaf (SStr (of_string "007"))); (KS (of_string "s"), Leaf (SStr (of_string "plain")))] in
  wf (Dict kvs) = true /\ writable_tree (Dict kvs) = true /\ ordinary_kvs kvs = true /\ no_include_keys kvs = true /\
  stable_tree (Dict kvs) = false /\
  sd_data (pr_sd (json_parse (of_string "/r") 41 kvs)) = kvs /\
  parse_string true (of_string "/r") 41 (to_string_plain kvs) =
    Ok (mkParsed (mkSD [(KS (of_string "n"), Leaf (SInt 12)); (KS (of_string "b"), Leaf (SBool true));
                        (KS (of_string "z"), Leaf SNone); (KS (of_string "p"), Leaf (SBool true));
                        (KS (of_string "o"), Leaf (SInt 7)); (KS (of_string "s"), Leaf (SStr (of_string "plain")))] [] [] [] []) 42).
Proof. vm_compute. repeat split; reflexivity. Qed.

Example C09_json_native_up_to_classifier_nonvacuous :
  let kvs := [(KS (of_string "n"), Leaf (SStr (of_string "12"))); (KS (of_string "q"), Leaf (SStr (of_string "two words")));
              (KS (of_string "l"), Lst [Leaf (SStr (of_string "true")); Dict [(KI 1, Leaf (SStr (of_string " x ")))]])] in
  wf (Dict kvs) = true /\ writable_tree (Dict kvs) = true /\ ordinary_kvs kvs = true /\ no_include_keys kvs = true /\
  (Z.of_nat (nq (Dict kvs)) <= 1000000)%Z /\ quoted_within 11 (Dict kvs) = true /\
  kvs_of (map_leaves written_value (Dict (sd_data (pr_sd (json_parse [] 5 kvs))))) =
    [(KS (of_string "n"), Leaf (SInt 12)); (KS (of_string "q"), Leaf (SStr (of_string "two words")));
     (KS (of_string "l"), Lst [Leaf (SBool true); Dict [(KI 1, Leaf (SStr (of_string " x ")))]])] /\
  (exists c2', parse_string true [] 0 (to_string_plain kvs) =
    Ok (mkParsed (mkSD (kvs_of (map_leaves written_value (Dict (sd_data (pr_sd (json_parse [] 5 kvs)))))) [] [] [] []) c2')).
Proof.
  intros kvs.
  assert (H1 : wf (Dict kvs) = true) by (vm_compute; reflexivity).
  assert (H2 : writable_tree (Dict kvs) = true) by (vm_compute; reflexivity).
  assert (H4 : ordinary_kvs kvs = true) by (vm_compute; reflexivity).
  assert (H5 : no_include_keys kvs = true) by (vm_compute; reflexivity).
  assert (H6 : (Z.of_nat (nq (Dict kvs)) <= 1000000)%Z) by (vm_compute; discriminate).
  assert (H7 : quoted_within 11 (Dict kvs) = true) by (vm_compute; reflexivity).
  refine (conj H1 (conj H2 (conj H4 (conj H5 (conj H6 (conj H7 (conj _ _))))))); [vm_compute; reflexivity|].
  exact (C09_json_native_up_to_classifier [] 5%Z 0%Z kvs H1 H2 H4 H5 ltac:(discriminate) H6 H7).
Qed.
