(* placeholder until the proofs are integrated *)
From DictIO Require Import Chars Str Value Scalar.
Theorem C09_placeholder : True. Proof. exact I. Qed.
Print Assumptions C09_placeholder.
