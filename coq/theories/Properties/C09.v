(* C09  JSON: the JSON front end leaves a dollar-free, include-free tree exactly as json.loads delivered it
   (json.dumps / json.loads themselves are trusted and exercised by the check). *)
From Coq Require Import String.   (* string literals of the examples; imported first so the list names win *)
From Coq Require Import NArith ZArith List Bool.
From DictIO Require Import Chars Str Value Scalar SDict TokParser Reader TreeSpec LayoutSpec SemProofs.
Import ListNotations.

Theorem C09_front_end_identity : forall dir c kvs,
  wf (Dict kvs) = true -> ordinary_kvs kvs = true -> no_include_keys kvs = true ->
  sd_data (pr_sd (json_parse dir c kvs)) = kvs /\ pr_count (json_parse dir c kvs) = c /\
  sd_inc (pr_sd (json_parse dir c kvs)) = [] /\ sd_expr (pr_sd (json_parse dir c kvs)) = [].
Proof. exact json_front_end_identity. Qed.
Print Assumptions C09_front_end_identity.

(* non-vacuity: what json.loads may deliver -- nested objects, arrays of arrays and of objects, numbers, booleans,
   null, strings with blanks, quotes, braces and a number-like string (which keeps its string type) *)
Example C09_front_end_identity_nonvacuous :
  let kvs := [(KS (of_string "name"), Leaf (SStr (of_string "two words; {x} 'q'")));
              (KS (of_string "n"), Leaf (SStr (of_string "12")));
              (KS (of_string "sub"), Dict [(KS (of_string "f"), Leaf (SFloat (of_string "1.5e-3"))); (KS (of_string "t"), Leaf (SBool true));
                                           (KS (of_string "deep"), Dict [(KS (of_string "null"), Leaf SNone)])]);
              (KS (of_string "arr"), Lst [Leaf (SInt 1); Lst [Leaf (SInt (-2)); Leaf (SStr (of_string "include"))];
                                          Dict [(KS (of_string "k"), Leaf (SStr []))]])] in
  wf (Dict kvs) = true /\ ordinary_kvs kvs = true /\ no_include_keys kvs = true /\
  sd_data (pr_sd (json_parse (of_string "/r") 41 kvs)) = kvs /\ pr_count (json_parse (of_string "/r") 41 kvs) = 41%Z.
Proof.
  intros kvs.
  assert (H1 : wf (Dict kvs) = true) by (vm_compute; reflexivity).
  assert (H2 : ordinary_kvs kvs = true) by (vm_compute; reflexivity).
  assert (H3 : no_include_keys kvs = true) by (vm_compute; reflexivity).
  destruct (C09_front_end_identity (of_string "/r") 41 kvs H1 H2 H3) as (A & B & _).
  exact (conj H1 (conj H2 (conj H3 (conj A B)))).
Qed.
(* outside the hypotheses the front end does work: an include key becomes a placeholder, a reference an expression *)
Example C09_front_end_outside :
  let kvs := [(KS (of_string "#include"), Leaf (SStr (of_string "'b.json'"))); (KS (of_string "v"), Leaf (SStr (of_string "$x + 1")))] in
  sd_data (pr_sd (json_parse (of_string "/r") 41 kvs)) =
    [(KS (of_string "INCLUDE000042"), Leaf (SStr (of_string "INCLUDE000042"))); (KS (of_string "v"), Leaf (SStr (of_string "EXPRESSION000043")))] /\
  pr_count (json_parse (of_string "/r") 41 kvs) = 43%Z.
Proof. vm_compute. split; reflexivity. Qed.

(* string leaves keep their string type on the JSON string route: no re-typing happens in the front end *)
Theorem C09_no_retyping : forall s c tab, has_char c_dollar s = false ->
  json_expressions (Leaf (SStr s)) c tab = (Leaf (SStr s), c, tab).
Proof. exact json_leaf_untouched. Qed.
Print Assumptions C09_no_retyping.

Example C09_no_retyping_nonvacuous :
  let s := of_string "12" in let tab := [(5%N, (of_string "$a", of_string "EXPRESSION000005"))] in
  has_char c_dollar s = false /\ json_expressions (Leaf (SStr s)) 41 tab = (Leaf (SStr s), 41%Z, tab).
Proof.
  intros s tab. assert (H : has_char c_dollar s = false) by (vm_compute; reflexivity).
  exact (conj H (C09_no_retyping s 41%Z tab H)).
Qed.
