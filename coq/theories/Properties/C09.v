(* C09  JSON: the JSON front end leaves a dollar-free, include-free tree exactly as json.loads delivered it
   (json.dumps / json.loads themselves are trusted and exercised by the check). *)
From Coq Require Import String.   (* string literals of the examples; imported first so the list names win *)
From Coq Require Import NArith ZArith List Bool.
From DictIO Require Import Chars Str Value Scalar SDict TokParser Reader TreeSpec LayoutSpec SemProofs.
Import ListNotations.

Theorem C09_front_end_identity : forall dir c kvs,
  wf (Dict kvs) = true -> ordinary_kvs kvs = true -> no_include_keys kvs = true ->
  sd_data (pr_sd (json_parse dir c kvs)) = kvs /\ pr_count (json_parse dir c kvs) = c /\
  sd_inc (pr_sd (json_parse dir c kvs)) = [] /\ sd_expr (pr_sd (json_parse dir c kvs)) = [].
Proof. exact json_front_end_identity. Qed.
Print Assumptions C09_front_end_identity.

(* non-vacuity: what json.loads may deliver -- nested objects, arrays of arrays and of objects, numbers, booleans,
   null, strings with blanks, quotes, braces and a number-like string (which keeps its string type) *)
Example C09_front_end_identity_nonvacuous :
  let kvs := [(KS (of_string "name"), Leaf (SStr (of_string "two words; {x} 'q'")));
              (KS (of_string "n"), Leaf (SStr (of_string "12")));
              (KS (of_string "sub"), Dict [(KS (of_string "f"), Leaf (SFloat (of_string "1.5e-3"))); (KS (of_string "t"), Leaf (SBool true));
                                           (KS (of_string "deep"), Dict [(KS (of_string "null"), Leaf SNone)])]);
              (KS (of_string "arr"), Lst [Leaf (SInt 1); Lst [Leaf (SInt (-2)); Leaf (SStr (of_string "include"))];
                                          Dict [(KS (of_string "k"), Leaf (SStr []))]])] in
  wf (Dict kvs) = true /\ ordinary_kvs kvs = true /\ no_include_keys kvs = true /\
  sd_data (pr_sd (json_parse (of_string "/r") 41 kvs)) = kvs /\ pr_count (json_parse (of_string "/r") 41 kvs) = 41%Z.
Proof.
  intros kvs.
  assert (H1 : wf (Dict kvs) = true) by (vm_compute; reflexivity).
  assert (H2 : ordinary_kvs kvs = true) by (vm_compute; reflexivity).
  assert (H3 : no_include_keys kvs = true) by (vm_compute; reflexivity).
  destruct (C09_front_end_identity (of_string "/r") 41 kvs H1 H2 H3) as (A & B & _).
  exact (conj H1 (conj H2 (conj H3 (conj A B)))).
Qed.
(* outside the hypotheses the front end does work: an include key becomes a placeholder, a reference an expression *)
Example C09_front_end_outside :
  let kvs := [(KS (of_string "#include"), Leaf (SStr (of_string "'b.json'"))); (KS (of_string "v"), Leaf (SStr (of_string "$x + 1")))] in
  sd_data (pr_sd (json_parse (of_string "/r") 41 kvs)) =
    [(KS (of_string "INCLUDE000042"), Leaf (SStr (of_string "INCLUDE000042"))); (KS (of_string "v"), Leaf (SStr (of_string "EXPRESSION000043")))] /\
  pr_count (json_parse (of_string "/r") 41 kvs) = 43%Z.
Proof. vm_compute. split; reflexivity. Qed.

(* string leaves keep their string type on the JSON string route: no re-typing happens in the front end *)
Theorem C09_no_retyping : forall s c tab, has_char c_dollar s = false ->
  json_expressions (Leaf (SStr s)) c tab = (Leaf (SStr s), c, tab).
Proof. exact json_leaf_untouched. Qed.
Print Assumptions C09_no_retyping.

Example C09_no_retyping_nonvacuous :
  let s := of_string "12" in let tab := [(5%N, (of_string "$a", of_string "EXPRESSION000005"))] in
  has_char c_dollar s = false /\ json_expressions (Leaf (SStr s)) 41 tab = (Leaf (SStr s), 41%Z, tab).
Proof.
  intros s tab. assert (H : has_char c_dollar s = false) by (vm_compute; reflexivity).
  exact (conj H (C09_no_retyping s 41%Z tab H)).
Qed.

(* ================================================================================================================= *)
(* A JSON file means the same as the equivalent native file                                                          *)
(* ================================================================================================================= *)
From DictIO Require Import KeyPath Layout Lexer NativeSpec E2ESpec E2EProofs E2EHoles E2EFullProofs FoamProofs.

(* stable_tree t (FoamProofs): written_value v = v for every leaf v of t -- the classifier reads the written form of
   every leaf back as the leaf itself (ints, floats, booleans, none always; a string unless it spells a number, a
   boolean, none, or is padded with blanks / wrapped in quotes).
   For a tree of the native writer domain (C01) that is stable, free of dollar signs and placeholder-shaped names
   (ordinary_kvs) and of include keys: the data the JSON front end delivers (on what json.loads returns for the JSON
   rendering) and the data the native parser reads from the native rendering are both the tree itself.
   Side conditions of the native leg as in C01_roundtrip; the JSON leg needs none of them, and the two counters are
   independent. *)
Theorem C09_json_equals_native : forall dir c1 c2 kvs,
  wf (Dict kvs) = true -> writable_tree (Dict kvs) = true -> stable_tree (Dict kvs) = true ->
  ordinary_kvs kvs = true -> no_include_keys kvs = true ->
  (-1 <= c2)%Z -> (Z.of_nat (nq (Dict kvs)) <= 1000000)%Z -> quoted_within 11 (Dict kvs) = true ->
  sd_data (pr_sd (json_parse dir c1 kvs)) = kvs /\
  exists c2', parse_string true dir c2 (to_string_plain kvs) = Ok (mkParsed (mkSD kvs [] [] [] []) c2').
Proof. exact json_equals_native. Qed.
Print Assumptions C09_json_equals_native.

(* depth 3: ints, floats, booleans, none, a string with blanks, an apostrophe, a list of lists, a dict inside a list *)
Definition c09_doc : list (key * tree) :=
  [(KS (of_string "name"), Leaf (SStr (of_string "two words")));
   (KS (of_string "n"), Leaf (SInt (-12)));
   (KS (of_string "sub"), Dict [(KS (of_string "f"), Leaf (SFloat (of_string "1.5e-3"))); (KS (of_string "t"), Leaf (SBool true));
                                (KS (of_string "deep"), Dict [(KS (of_string "nothing"), Leaf SNone); (KI 4, Leaf (SStr (of_string "it's")))])]);
   (KS (of_string "arr"), Lst [Leaf (SInt 1); Lst [Leaf (SInt (-2)); Lst [Leaf (SBool false)]; Leaf (SStr (of_string "word"))];
                               Dict [(KS (of_string "k"), Leaf (SStr [])); (KS (of_string "x"), Leaf (SFloat (of_string "2.0")))]])].

Example C09_json_equals_native_nonvacuous :
  wf (Dict c09_doc) = true /\ writable_tree (Dict c09_doc) = true /\ stable_tree (Dict c09_doc) = true /\
  ordinary_kvs c09_doc = true /\ no_include_keys c09_doc = true /\
  (Z.of_nat (nq (Dict c09_doc)) <= 1000000)%Z /\ quoted_within 11 (Dict c09_doc) = true /\
  (* computed *)
  sd_data (pr_sd (json_parse (of_string "/r") 41 c09_doc)) = c09_doc /\
  parse_string true (of_string "/r") 41 (to_string_plain c09_doc) = Ok (mkParsed (mkSD c09_doc [] [] [] []) 44) /\
  (* by the theorem *)
  (sd_data (pr_sd (json_parse (of_string "/r") 41 c09_doc)) = c09_doc /\
   exists c2', parse_string true (of_string "/r") (-1) (to_string_plain c09_doc) = Ok (mkParsed (mkSD c09_doc [] [] [] []) c2')).
Proof.
  assert (H1 : wf (Dict c09_doc) = true) by (vm_compute; reflexivity).
  assert (H2 : writable_tree (Dict c09_doc) = true) by (vm_compute; reflexivity).
  assert (H3 : stable_tree (Dict c09_doc) = true) by (vm_compute; reflexivity).
  assert (H4 : ordinary_kvs c09_doc = true) by (vm_compute; reflexivity).
  assert (H5 : no_include_keys c09_doc = true) by (vm_compute; reflexivity).
  assert (H6 : (Z.of_nat (nq (Dict c09_doc)) <= 1000000)%Z) by (vm_compute; discriminate).
  assert (H7 : quoted_within 11 (Dict c09_doc) = true) by (vm_compute; reflexivity).
  refine (conj H1 (conj H2 (conj H3 (conj H4 (conj H5 (conj H6 (conj H7 (conj _ (conj _ _))))))))); try (vm_compute; reflexivity).
  exact (C09_json_equals_native (of_string "/r") 41%Z (-1)%Z c09_doc H1 H2 H3 H4 H5 ltac:(discriminate) H6 H7).
Qed.

(* in general (no stability hypothesis): the native reading is the JSON reading with every leaf passed through the
   classifier (written_value); this is the whole difference between the two formats on the common domain *)
Theorem C09_json_native_up_to_classifier : forall dir c1 c2 kvs,
  wf (Dict kvs) = true -> writable_tree (Dict kvs) = true ->
  ordinary_kvs kvs = true -> no_include_keys kvs = true ->
  (-1 <= c2)%Z -> (Z.of_nat (nq (Dict kvs)) <= 1000000)%Z -> quoted_within 11 (Dict kvs) = true ->
  exists c2', parse_string true dir c2 (to_string_plain kvs) =
    Ok (mkParsed (mkSD (kvs_of (map_leaves written_value (Dict (sd_data (pr_sd (json_parse dir c1 kvs)))))) [] [] [] []) c2').
Proof. exact json_native_up_to_classifier. Qed.
Print Assumptions C09_json_native_up_to_classifier.

(* what differs when a string IS re-typable (stable_tree fails): the JSON string "12" stays a string, the native text
   12 is an int; likewise "true", "NULL", a padded word and a number with a leading zero *)
Example C09_documented_difference :
  let kvs := [(KS (of_string "n"), Leaf (SStr (of_string "12"))); (KS (of_string "b"), Leaf (SStr (of_string "true")));
              (KS (of_string "z"), Leaf (SStr (of_string "NULL"))); (KS (of_string "p"), Leaf (SStr (of_string " on ")));
              (KS (of_string "o"), Leaf (SStr (of_string "007"))); (KS (of_string "s"), Leaf (SStr (of_string "plain")))] in
  wf (Dict kvs) = true /\ writable_tree (Dict kvs) = true /\ ordinary_kvs kvs = true /\ no_include_keys kvs = true /\
  stable_tree (Dict kvs) = false /\
  sd_data (pr_sd (json_parse (of_string "/r") 41 kvs)) = kvs /\
  parse_string true (of_string "/r") 41 (to_string_plain kvs) =
    Ok (mkParsed (mkSD [(KS (of_string "n"), Leaf (SInt 12)); (KS (of_string "b"), Leaf (SBool true));
                        (KS (of_string "z"), Leaf SNone); (KS (of_string "p"), Leaf (SBool true));
                        (KS (of_string "o"), Leaf (SInt 7)); (KS (of_string "s"), Leaf (SStr (of_string "plain")))] [] [] [] []) 42).
Proof. vm_compute. repeat split; reflexivity. Qed.

Example C09_json_native_up_to_classifier_nonvacuous :
  let kvs := [(KS (of_string "n"), Leaf (SStr (of_string "12"))); (KS (of_string "q"), Leaf (SStr (of_string "two words")));
              (KS (of_string "l"), Lst [Leaf (SStr (of_string "true")); Dict [(KI 1, Leaf (SStr (of_string " x ")))]])] in
  wf (Dict kvs) = true /\ writable_tree (Dict kvs) = true /\ ordinary_kvs kvs = true /\ no_include_keys kvs = true /\
  (Z.of_nat (nq (Dict kvs)) <= 1000000)%Z /\ quoted_within 11 (Dict kvs) = true /\
  kvs_of (map_leaves written_value (Dict (sd_data (pr_sd (json_parse [] 5 kvs))))) =
    [(KS (of_string "n"), Leaf (SInt 12)); (KS (of_string "q"), Leaf (SStr (of_string "two words")));
     (KS (of_string "l"), Lst [Leaf (SBool true); Dict [(KI 1, Leaf (SStr (of_string " x ")))]])] /\
  (exists c2', parse_string true [] 0 (to_string_plain kvs) =
    Ok (mkParsed (mkSD (kvs_of (map_leaves written_value (Dict (sd_data (pr_sd (json_parse [] 5 kvs)))))) [] [] [] []) c2')).
Proof.
  intros kvs.
  assert (H1 : wf (Dict kvs) = true) by (vm_compute; reflexivity).
  assert (H2 : writable_tree (Dict kvs) = true) by (vm_compute; reflexivity).
  assert (H4 : ordinary_kvs kvs = true) by (vm_compute; reflexivity).
  assert (H5 : no_include_keys kvs = true) by (vm_compute; reflexivity).
  assert (H6 : (Z.of_nat (nq (Dict kvs)) <= 1000000)%Z) by (vm_compute; discriminate).
  assert (H7 : quoted_within 11 (Dict kvs) = true) by (vm_compute; reflexivity).
  refine (conj H1 (conj H2 (conj H4 (conj H5 (conj H6 (conj H7 (conj _ _))))))); [vm_compute; reflexivity|].
  exact (C09_json_native_up_to_classifier [] 5%Z 0%Z kvs H1 H2 H4 H5 ltac:(discriminate) H6 H7).
Qed.

(* ================================================================================================== *)
(* added from Properties/C09_add.v (2026-10-01)                                              *)
(* ================================================================================================== *)
(* C09 (addition)  JSON == native beyond plain data: include entries, reads over mixed include graphs, references and
   expressions.  Appended to Properties/C09.v. *)
From Coq Require Import String.
From Coq Require Import NArith ZArith List Bool.
From DictIO Require Import Chars Str Value Scalar KeyPath SDict Layout Lexer TokParser Reader TreeSpec NativeSpec LayoutSpec E2ESpec.
From Coq Require Import Permutation.
From DictIO Require Import FlatSpec E2EProofs E2EHoles E2EFullProofs FoamProofs JsonNativeProofs JsonNativeExpr JsonNativeRead.
Import ListNotations.

(* ================================================================================================================= *)
(* (1) include entries: the two front ends                                                                           *)
(* ================================================================================================================= *)
(* ins : the include entries as (JSON key text, JSON string value); the JSON unit is  { key_i : value_i, ... } followed by
   the ordinary content kvs; the file names are  inames ins : name_i = value_i without one quote character at either end
   (what the JSON parser makes of the value); the native text is the lines  #include 'name_i'  followed by the written
   form of kvs.
   inc_ok (boolean): the key is an include key of the JSON parser; the name is a single line, and the line comment stage
   finds nothing in the directive (two slashes not preceded by a colon would be cut off as a comment: C09_name_with_slashes);
   strs_nodup: the names are pairwise different (see C09_duplicate_include_finding).
   Result, in closed form: both front ends deliver the placeholder entries first, numbered from their own counter, then
   the ordinary data (native: each leaf as the classifier reads its written form, as in C09_json_native_up_to_classifier);
   the include tables list the same names and the same anchored paths path_join dir name in the same order; no
   expressions; the native counter has moved past the includes and the quoted leaves, the JSON counter past the includes. *)
Theorem C09_includes_front_ends : forall dir c1 c2 ins kvs,
  wf (Dict (json_inc_kvs ins ++ kvs)) = true -> forallb inc_ok ins = true -> strs_nodup (inames ins) = true ->
  writable_tree (Dict kvs) = true -> ordinary_kvs kvs = true -> no_include_keys kvs = true ->
  (-1 <= c1)%Z -> (-1 <= c2)%Z -> (Z.of_nat (length ins) <= 1000000)%Z ->
  (Z.of_nat (nq (Dict kvs)) <= 1000000)%Z -> quoted_within 11 (Dict kvs) = true ->
  let n := length ins in let names := inames ins in
  json_parse dir c1 (json_inc_kvs ins ++ kvs) =
    mkParsed (mkSD (inc_phs (ids c1 n) ++ kvs) [] [] (combine (ids c1 n) (map (json_entry dir) names)) []) (cafter c1 n) /\
  parse_string true dir c2 (inc_text names ++ to_string_plain kvs) =
    Ok (mkParsed (mkSD (inc_phs (ids c2 n) ++ kvs_of (map_leaves written_value (Dict kvs))) [] []
                       (combine (ids c2 n) (map (nat_entry dir) names)) [])
                 (cafter (cafter c2 n) (nq (Dict kvs)))).
Proof. exact json_native_includes_b. Qed.
Print Assumptions C09_includes_front_ends.

(* the same in the words of the property: same names, same anchored paths, same order; the same directive texts when no
   name contains a backslash; placeholder entries first and in table order in both results; behind them the ordinary
   data, equal up to the classifier on string leaves; no expression entries *)
Theorem C09_includes_same_table : forall dir c1 c2 ins kvs,
  wf (Dict (json_inc_kvs ins ++ kvs)) = true -> forallb inc_ok ins = true -> strs_nodup (inames ins) = true ->
  writable_tree (Dict kvs) = true -> ordinary_kvs kvs = true -> no_include_keys kvs = true ->
  (-1 <= c1)%Z -> (-1 <= c2)%Z -> (Z.of_nat (length ins) <= 1000000)%Z ->
  (Z.of_nat (nq (Dict kvs)) <= 1000000)%Z -> quoted_within 11 (Dict kvs) = true ->
  let pj := json_parse dir c1 (json_inc_kvs ins ++ kvs) in
  exists pn, parse_string true dir c2 (inc_text (inames ins) ++ to_string_plain kvs) = Ok pn /\
    inc_names (sd_inc (pr_sd pj)) = map (fun n => (n, path_join dir n)) (inames ins) /\
    inc_names (sd_inc (pr_sd pn)) = inc_names (sd_inc (pr_sd pj)) /\
    (forallb (fun n => negb (has_char c_bsl n)) (inames ins) = true ->
     map snd (sd_inc (pr_sd pn)) = map snd (sd_inc (pr_sd pj))) /\
    sd_data (pr_sd pj) = inc_phs (map fst (sd_inc (pr_sd pj))) ++ kvs /\
    sd_data (pr_sd pn) = inc_phs (map fst (sd_inc (pr_sd pn))) ++
                         kvs_of (map_leaves written_value (Dict (skipn (length ins) (sd_data (pr_sd pj))))) /\
    sd_expr (pr_sd pj) = [] /\ sd_expr (pr_sd pn) = [].
Proof. exact json_native_includes_tables_b. Qed.
Print Assumptions C09_includes_same_table.

(* two includes (one value wrapped in quotes, one key with blanks around the hash and a name in a sub-directory), content of depth 2 with a quoted
   string, a list and a nested dict; JSON counter 41, native counter 999998 (the native numbering wraps) *)
Definition c09_ins : list (str * str) :=
  [(of_string "#include b.json", of_string "'b.json'"); (of_string "  #  include two", of_string "sub dir/c")].
Definition c09_inc_doc : list (key * tree) :=
  [(KS (of_string "a"), Leaf (SInt 1)); (KS (of_string "s"), Leaf (SStr (of_string "two words")));
   (KS (of_string "d"), Dict [(KS (of_string "x"), Leaf (SFloat (of_string "2.5"))); (KS (of_string "l"), Lst [Leaf (SBool true); Leaf SNone])])].

Example C09_includes_front_ends_nonvacuous :
  wf (Dict (json_inc_kvs c09_ins ++ c09_inc_doc)) = true /\ forallb inc_ok c09_ins = true /\
  strs_nodup (inames c09_ins) = true /\ writable_tree (Dict c09_inc_doc) = true /\ ordinary_kvs c09_inc_doc = true /\
  no_include_keys c09_inc_doc = true /\ quoted_within 11 (Dict c09_inc_doc) = true /\
  (* computed *)
  inc_text (inames c09_ins) ++ to_string_plain c09_inc_doc = of_string
"#include 'b.json'
#include 'sub dir/c'
a                             1;
s                             'two words';
d
{
    x                         2.5;
    l
    (
        true              NULL
    );
}
" /\
  sd_inc (pr_sd (json_parse (of_string "/r") 41 (json_inc_kvs c09_ins ++ c09_inc_doc))) =
    [(42%N, (of_string "#include 'b.json'", of_string "b.json", of_string "/r/b.json"));
     (43%N, (of_string "#include 'sub dir/c'", of_string "sub dir/c", of_string "/r/sub dir/c"))] /\
  parse_string true (of_string "/r") 999998 (inc_text (inames c09_ins) ++ to_string_plain c09_inc_doc) =
    Ok (mkParsed (mkSD (inc_phs [999999%N; 0%N] ++ c09_inc_doc) [] []
                       [(999999%N, (of_string "#include 'b.json'", of_string "b.json", of_string "/r/b.json"));
                        (0%N, (of_string "#include 'sub dir/c'", of_string "sub dir/c", of_string "/r/sub dir/c"))] []) 1) /\
  (* by the theorem *)
  (let n := length c09_ins in let names := inames c09_ins in
   json_parse (of_string "/r") 41 (json_inc_kvs c09_ins ++ c09_inc_doc) =
     mkParsed (mkSD (inc_phs (ids 41 n) ++ c09_inc_doc) [] [] (combine (ids 41 n) (map (json_entry (of_string "/r")) names)) [])
              (cafter 41 n) /\
   parse_string true (of_string "/r") 999998 (inc_text names ++ to_string_plain c09_inc_doc) =
     Ok (mkParsed (mkSD (inc_phs (ids 999998 n) ++ kvs_of (map_leaves written_value (Dict c09_inc_doc))) [] []
                        (combine (ids 999998 n) (map (nat_entry (of_string "/r")) names)) [])
                  (cafter (cafter 999998 n) (nq (Dict c09_inc_doc))))).
Proof.
  assert (H1 : wf (Dict (json_inc_kvs c09_ins ++ c09_inc_doc)) = true) by (vm_compute; reflexivity).
  assert (H2 : forallb inc_ok c09_ins = true) by (vm_compute; reflexivity).
  assert (H3 : strs_nodup (inames c09_ins) = true) by (vm_compute; reflexivity).
  assert (H4 : writable_tree (Dict c09_inc_doc) = true) by (vm_compute; reflexivity).
  assert (H5 : ordinary_kvs c09_inc_doc = true) by (vm_compute; reflexivity).
  assert (H6 : no_include_keys c09_inc_doc = true) by (vm_compute; reflexivity).
  assert (H7 : quoted_within 11 (Dict c09_inc_doc) = true) by (vm_compute; reflexivity).
  refine (conj H1 (conj H2 (conj H3 (conj H4 (conj H5 (conj H6 (conj H7 (conj _ (conj _ (conj _ _)))))))))); try (vm_compute; reflexivity).
  exact (C09_includes_front_ends (of_string "/r") 41%Z 999998%Z c09_ins c09_inc_doc H1 H2 H3 H4 H5 H6
           ltac:(discriminate) ltac:(discriminate) ltac:(vm_compute; discriminate) ltac:(vm_compute; discriminate) H7).
Qed.

(* what the side conditions exclude, machine checked *)
(* (a) two include entries with the same file name: the clean-up drops the placeholder of the second in BOTH formats (the
       data agree), but the JSON front end keeps the second table entry as an orphan (its second update re-inserts the
       table saved before the first clean-up) whereas the native front end drops it with the key: the tables differ.
       Confirmed on the library:  JsonParser on {"#include 1":"x","#include 2":"x","a":1} leaves includes {0:..,1:..},
       NativeParser on the two-line text leaves {0:..}.  (A reader that walks the table reads x twice for the JSON unit.) *)
Example C09_duplicate_include_finding :
  let ins := [(of_string "#include 1", of_string "x"); (of_string "#include 2", of_string "x")] in
  let kvs := [(KS (of_string "a"), Leaf (SInt 1))] in
  let e := nat_entry (of_string "/r") (of_string "x") in
  forallb inc_ok ins = true /\ strs_nodup (inames ins) = false /\
  json_parse (of_string "/r") 41 (json_inc_kvs ins ++ kvs) =
    mkParsed (mkSD (inc_phs [42%N] ++ kvs) [] [] [(42%N, e); (43%N, e)] []) 43 /\
  parse_string true (of_string "/r") 41 (inc_text (inames ins) ++ to_string_plain kvs) =
    Ok (mkParsed (mkSD (inc_phs [42%N] ++ kvs) [] [] [(42%N, e)] []) 43).
Proof. vm_compute. repeat split; reflexivity. Qed.

(* (b) a name with a backslash: same name, same path, but the JSON front end doubles the backslash in the directive text
       it records (the text the native writer would emit for the entry), the native front end records the line as it is *)
Example C09_backslash_directive_finding :
  let ins := [(of_string "#include", [97; 92; 98])] in     (* a\b *)
  forallb inc_ok ins = true /\
  sd_inc (pr_sd (json_parse (of_string "/r") 41 (json_inc_kvs ins))) =
    [(42%N, (of_string "#include '" ++ [97; 92; 92; 98; 39], [97; 92; 98], of_string "/r/" ++ [97; 92; 98]))] /\
  (exists p, parse_string true (of_string "/r") 41 (inc_text (inames ins) ++ to_string_plain []) = Ok p /\
     sd_inc (pr_sd p) = [(42%N, (of_string "#include '" ++ [97; 92; 98; 39], [97; 92; 98], of_string "/r/" ++ [97; 92; 98]))]).
Proof. vm_compute. split; [reflexivity|]. split; [reflexivity|]. eexists. split; reflexivity. Qed.

(* (c) a name with two slashes not preceded by a colon: the native line comment stage cuts the directive and puts its
       placeholder there, the name read is a different one (a URL-like name with :// is fine) *)
Example C09_name_with_slashes :
  native_name_ok (of_string "a//b") = false /\ native_name_ok (of_string "http://h/b") = true /\
  (exists p, parse_string true (of_string "/r") 41 (inc_text [of_string "a//b"]) = Ok p /\
     inc_names (sd_inc (pr_sd p)) = [(of_string "aLINECOMMENT000042", of_string "/r/aLINECOMMENT000042")]) /\
  inc_names (sd_inc (pr_sd (json_parse (of_string "/r") 41 (json_inc_kvs [(of_string "#include", of_string "a//b")])))) =
    [(of_string "a//b", of_string "/r/a//b")].
Proof. vm_compute. split; [reflexivity|]. split; [reflexivity|]. split; [eexists; split; reflexivity|reflexivity]. Qed.

(* ================================================================================================================= *)
(* (3) references and expressions: the two front ends                                                                *)
(* ================================================================================================================= *)
(* Flat documents (every top-level key holds a scalar; xdoc_ok, boolean): simple keys, pairwise different; every leaf is
     - an ordinary bare scalar that reads back as itself (int, float, bool, none, single word), or
     - a reference: dollar, word character, then word characters or square brackets ($a, $a[0]), or
     - an expression: any characters but the two quote characters, backslash, semicolon, slash, hash and line feed,
       with at least one reference, not a lone reference, no blank at either end; the expression texts are pairwise
       different.
   The JSON front end works on the string values (json_extract_expression), the native front end on the written text
   (reference bare, expression in double quotes).  Both put a placeholder where every such leaf stood and register its
   text: resolving the placeholders with the own table (the library's _insert_expression) gives the document back on
   both sides, the tables hold the same texts (JSON in document order; native the quoted expressions first, then the
   references), ids are pairwise distinct and every entry carries the name of its own placeholder.  Hence the shared
   evaluation code is handed the same problem by both front ends.
   FULL STATEMENT WANTED (not proved): the same for documents of any depth (nested dicts and lists) whose ordinary leaves
   may also be quoted strings:
     forall dir c1 c2 kvs, xtree_ok (Dict kvs) = true -> ... ->
       exists pn, parse_string true dir c2 (to_string_plain kvs) = Ok pn /\
         resolve_deep (sd_expr pj) (sd_data pj) = kvs /\ resolve_deep (sd_expr pn) (sd_data pn) = written values of kvs /\ ...
   PROVED (partial): flat documents (every top-level key holds a scalar) with bare ordinary leaves.  Missing: the native
   lexer on the nested layout with expression / reference leaves (the character-level machinery of C01 uses the dollar as
   its hole marker and assumes dollar-free leaves), and quoted ordinary strings next to expressions. *)
Theorem C09_expressions_front_ends_partial : forall dir c1 c2 kvs,
  xdoc_ok kvs = true -> (-1 <= c1)%Z -> (-1 <= c2)%Z -> (Z.of_nat (length (xtexts kvs)) <= 1000000)%Z ->
  let pj := json_parse dir c1 kvs in
  exists pn, parse_string true dir c2 (to_string_plain kvs) = Ok pn /\
    resolve (sd_expr (pr_sd pj)) (sd_data (pr_sd pj)) = kvs /\
    resolve (sd_expr (pr_sd pn)) (sd_data (pr_sd pn)) = kvs /\
    xtab_texts (sd_expr (pr_sd pj)) = xtexts kvs /\
    xtab_texts (sd_expr (pr_sd pn)) = xexprs kvs ++ xrefs kvs /\
    Permutation (xtab_texts (sd_expr (pr_sd pn))) (xtab_texts (sd_expr (pr_sd pj))) /\
    xtab_wf (sd_expr (pr_sd pj)) /\ xtab_wf (sd_expr (pr_sd pn)) /\
    sd_inc (pr_sd pj) = [] /\ sd_inc (pr_sd pn) = [] /\ map fst (sd_data (pr_sd pj)) = map fst kvs /\
    map fst (sd_data (pr_sd pn)) = map fst kvs.
Proof. exact json_native_expressions. Qed.
Print Assumptions C09_expressions_front_ends_partial.

(* the closed forms: which id goes where *)
Theorem C09_expressions_json : forall dir c kvs,
  xdoc_ok kvs = true -> (-1 <= c)%Z -> (Z.of_nat (length (xtexts kvs)) <= 1000000)%Z ->
  let ks := ids c (length (xtexts kvs)) in
  json_parse dir c kvs = mkParsed (mkSD (lab1 ks kvs) [] [] [] (xtab ks (xtexts kvs))) (cafter c (length (xtexts kvs))).
Proof. exact json_parse_xdoc. Qed.
Theorem C09_expressions_native : forall com dir c kvs,
  xdoc_ok kvs = true -> (-1 <= c)%Z -> (Z.of_nat (length (xexprs kvs) + length (xrefs kvs)) <= 1000000)%Z ->
  let es := ids c (length (xexprs kvs)) in let c' := cafter c (length (xexprs kvs)) in
  let rs := ids c' (length (xrefs kvs)) in
  parse_string com dir c (to_string_plain kvs) =
    Ok (mkParsed (mkSD (lab2 es rs kvs) [] [] [] (xtab es (xexprs kvs) ++ xtab rs (xrefs kvs))) (cafter c' (length (xrefs kvs)))).
Proof. exact native_parse_xdoc. Qed.
Print Assumptions C09_expressions_json.
Print Assumptions C09_expressions_native.

Definition c09_xdoc : list (key * tree) :=
  [(KS (of_string "a"), Leaf (SInt 5)); (KS (of_string "r"), Leaf (SStr (of_string "$a")));
   (KS (of_string "e"), Leaf (SStr (of_string "$a + 1"))); (KS (of_string "w"), Leaf (SStr (of_string "word")));
   (KS (of_string "r2"), Leaf (SStr (of_string "$a[0]"))); (KS (of_string "e2"), Leaf (SStr (of_string "2*($a+$r)")));
   (KS (of_string "f"), Leaf (SFloat (of_string "1.5"))); (KS (of_string "b"), Leaf (SBool true))].

Example C09_expressions_front_ends_partial_nonvacuous :
  xdoc_ok c09_xdoc = true /\ xtexts c09_xdoc = [of_string "$a"; of_string "$a + 1"; of_string "$a[0]"; of_string "2*($a+$r)"] /\
  (* computed: the written text, and the two numberings *)
  to_string_plain c09_xdoc = of_string
"a                             5;
r                             $a;
e                             ""$a + 1"";
w                             word;
r2                            $a[0];
e2                            ""2*($a+$r)"";
f                             1.5;
b                             true;
" /\
  map (fun e => (fst e, fst (snd e))) (sd_expr (pr_sd (json_parse [] 41 c09_xdoc))) =
    [(42%N, of_string "$a"); (43%N, of_string "$a + 1"); (44%N, of_string "$a[0]"); (45%N, of_string "2*($a+$r)")] /\
  (exists p, parse_string true [] 999997 (to_string_plain c09_xdoc) = Ok p /\
     map (fun e => (fst e, fst (snd e))) (sd_expr (pr_sd p)) =
       [(999998%N, of_string "$a + 1"); (999999%N, of_string "2*($a+$r)"); (0%N, of_string "$a"); (1%N, of_string "$a[0]")] /\
     map snd (sd_data (pr_sd p)) =
       [Leaf (SInt 5); Leaf (SStr (of_string "EXPRESSION000000")); Leaf (SStr (of_string "EXPRESSION999998"));
        Leaf (SStr (of_string "word")); Leaf (SStr (of_string "EXPRESSION000001")); Leaf (SStr (of_string "EXPRESSION999999"));
        Leaf (SFloat (of_string "1.5")); Leaf (SBool true)]) /\
  (* by the theorem *)
  (let pj := json_parse [] 41 c09_xdoc in
   exists pn, parse_string true [] 999997 (to_string_plain c09_xdoc) = Ok pn /\
    resolve (sd_expr (pr_sd pj)) (sd_data (pr_sd pj)) = c09_xdoc /\
    resolve (sd_expr (pr_sd pn)) (sd_data (pr_sd pn)) = c09_xdoc /\
    xtab_texts (sd_expr (pr_sd pj)) = xtexts c09_xdoc /\
    xtab_texts (sd_expr (pr_sd pn)) = xexprs c09_xdoc ++ xrefs c09_xdoc /\
    Permutation (xtab_texts (sd_expr (pr_sd pn))) (xtab_texts (sd_expr (pr_sd pj))) /\
    xtab_wf (sd_expr (pr_sd pj)) /\ xtab_wf (sd_expr (pr_sd pn)) /\
    sd_inc (pr_sd pj) = [] /\ sd_inc (pr_sd pn) = [] /\ map fst (sd_data (pr_sd pj)) = map fst c09_xdoc /\
    map fst (sd_data (pr_sd pn)) = map fst c09_xdoc).
Proof.
  assert (H1 : xdoc_ok c09_xdoc = true) by (vm_compute; reflexivity).
  refine (conj H1 (conj _ (conj _ (conj _ (conj _ _))))); try (vm_compute; reflexivity).
  - vm_compute. eexists. split; [reflexivity|]. split; reflexivity.
  - exact (C09_expressions_front_ends_partial [] 41%Z 999997%Z c09_xdoc H1 ltac:(discriminate) ltac:(discriminate) ltac:(vm_compute; discriminate)).
Qed.

(* what the side conditions exclude, machine checked and confirmed on the library (JsonParser / NativeParser.parse_string) *)
(* (d) blanks around a lone reference: the JSON front end registers the reference "$a" and leaves the blanks in the value
       (" EXPRESSION000042 "), the native front end registers the whole quoted text " $a " and the value is the placeholder *)
Example C09_padded_reference_finding :
  let kvs := [(KS (of_string "a"), Leaf (SInt 5)); (KS (of_string "r"), Leaf (SStr (of_string " $a ")))] in
  xdoc_ok kvs = false /\
  sd_data (pr_sd (json_parse [] 41 kvs)) = [(KS (of_string "a"), Leaf (SInt 5)); (KS (of_string "r"), Leaf (SStr (of_string " EXPRESSION000042 ")))] /\
  xtab_texts (sd_expr (pr_sd (json_parse [] 41 kvs))) = [of_string "$a"] /\
  (exists p, parse_string true [] 41 (to_string_plain kvs) = Ok p /\
     sd_data (pr_sd p) = [(KS (of_string "a"), Leaf (SInt 5)); (KS (of_string "r"), Leaf (SStr (of_string "EXPRESSION000042")))] /\
     xtab_texts (sd_expr (pr_sd p)) = [of_string " $a "]).
Proof. vm_compute. split; [reflexivity|]. split; [reflexivity|]. split; [reflexivity|]. eexists. split; [reflexivity|]. split; reflexivity. Qed.

(* (e) two leaves with the same expression text: the native front end replaces the text globally, both leaves get the
       first placeholder and the second table entry is an orphan; the JSON front end numbers the leaves separately *)
Example C09_equal_expressions_finding :
  let kvs := [(KS (of_string "a"), Leaf (SInt 5)); (KS (of_string "e"), Leaf (SStr (of_string "$a + 1")));
              (KS (of_string "f"), Leaf (SStr (of_string "$a + 1")))] in
  xdoc_ok kvs = false /\
  map snd (sd_data (pr_sd (json_parse [] 41 kvs))) =
    [Leaf (SInt 5); Leaf (SStr (of_string "EXPRESSION000042")); Leaf (SStr (of_string "EXPRESSION000043"))] /\
  (exists p, parse_string true [] 41 (to_string_plain kvs) = Ok p /\
     map snd (sd_data (pr_sd p)) =
       [Leaf (SInt 5); Leaf (SStr (of_string "EXPRESSION000042")); Leaf (SStr (of_string "EXPRESSION000042"))] /\
     map fst (sd_expr (pr_sd p)) = [42%N; 43%N]).
Proof. vm_compute. split; [reflexivity|]. split; [reflexivity|]. eexists. split; [reflexivity|]. split; reflexivity. Qed.

(* (f) a dollar that starts no reference: a plain string for the JSON front end, an expression for the native one (the
       writer puts every string with a dollar in double quotes, the lexer registers every double-quoted text with a dollar) *)
Example C09_dollar_without_reference_finding :
  let kvs := [(KS (of_string "p"), Leaf (SStr (of_string "cost $ 5")))] in
  xdoc_ok kvs = false /\
  json_parse [] 41 kvs = mkParsed (mkSD kvs [] [] [] []) 41 /\
  (exists p, parse_string true [] 41 (to_string_plain kvs) = Ok p /\
     sd_data (pr_sd p) = [(KS (of_string "p"), Leaf (SStr (of_string "EXPRESSION000042")))] /\
     xtab_texts (sd_expr (pr_sd p)) = [of_string "cost $ 5"]).
Proof. vm_compute. split; [reflexivity|]. split; [reflexivity|]. eexists. split; [reflexivity|]. split; reflexivity. Qed.

(* ================================================================================================================= *)
(* (2) reads over include graphs in any mix of the two formats                                                       *)
(* ================================================================================================================= *)
(* A unit is a document (ins, kvs) as in (1) -- with udoc_okb (boolean): the side conditions of (1) and every leaf reads
   back as itself (stable_tree, the common domain of C09_json_equals_native) -- stored either as the JSON tree
   (render_json) or as the native text (render_native).  same_content u1 u2: both units store the same document.
   fs_rel fs1 fs2: the two file systems hold the same paths in the same order and units with the same content.
   opart d: the entries of d whose key is no include placeholder (the ordinary data).
   For ANY include graph (shared files, cycles, missing files, any depth) and ANY assignment of formats to the files, on
   either side and with independent counters: both reads fail with the same error (only: the root file is missing), or
   both succeed and the ordinary data are the same list -- same keys, same order, same values at every depth. *)
Theorem C09_read_mixed_formats : forall fs1 fs2 root c1 c2, fs_rel fs1 fs2 -> (-1 <= c1)%Z -> (-1 <= c2)%Z ->
  same_read (read_plain fs1 root true true c1) (read_plain fs2 root true true c2).
Proof. exact read_mixed_formats. Qed.
Print Assumptions C09_read_mixed_formats.

(* the include merging alone, for any two related parents (same ordinary data, include tables naming the same paths) *)
Theorem C09_merge_includes_mixed : forall fs1 fs2 p1 p2 c1 c2, fs_rel fs1 fs2 -> prel p1 p2 -> (-1 <= c1)%Z -> (-1 <= c2)%Z ->
  rres (merge_includes fs1 true p1 c1) (merge_includes fs2 true p2 c2).
Proof. exact merge_includes_mixed. Qed.
Print Assumptions C09_merge_includes_mixed.

(* the ordinary part of a merge of good states is the specification merge (C07) of the ordinary parts *)
Theorem C09_merge_ordinary_part : forall a o, good a -> good o ->
  good (sd_merge a (sd_data o) (Some o)) /\
  opart (sd_data (sd_merge a (sd_data o) (Some o))) = merge_spec (opart (sd_data a)) (opart (sd_data o)).
Proof. exact sd_merge_good. Qed.
Print Assumptions C09_merge_ordinary_part.

(* four files: root includes a and 'b', a includes sub/c; overlapping keys at two levels (x in root, a and c; y in a and b
   with different sub-keys); fsA = root JSON, a native, b JSON, c native; fsB = the opposite format for every file *)
Definition c09_root : list (str * str) * list (key * tree) :=
  ([(of_string "#include a", of_string "a"); (of_string "#include b", of_string "'b'")],
   [(KS (of_string "x"), Leaf (SInt 1)); (KS (of_string "s"), Leaf (SStr (of_string "two words")))]).
Definition c09_a : list (str * str) * list (key * tree) :=
  ([(of_string "#include c", of_string "sub/c")],
   [(KS (of_string "x"), Leaf (SInt 2)); (KS (of_string "y"), Dict [(KS (of_string "p"), Leaf (SInt 1))])]).
Definition c09_b : list (str * str) * list (key * tree) :=
  ([], [(KS (of_string "y"), Dict [(KS (of_string "q"), Leaf (SInt 2))]); (KS (of_string "z"), Leaf (SBool true))]).
Definition c09_c : list (str * str) * list (key * tree) :=
  ([], [(KS (of_string "w"), Leaf (SStr (of_string "deep"))); (KS (of_string "x"), Leaf (SInt 3))]).
Definition c09_J (d : list (str * str) * list (key * tree)) : funit := render_json (fst d) (snd d).
Definition c09_N (d : list (str * str) * list (key * tree)) : funit := render_native (fst d) (snd d).
Definition c09_fsA : fsys :=
  [(of_string "/r/root", c09_J c09_root); (of_string "/r/a", c09_N c09_a); (of_string "/r/b", c09_J c09_b); (of_string "/r/sub/c", c09_N c09_c)].
Definition c09_fsB : fsys :=
  [(of_string "/r/root", c09_N c09_root); (of_string "/r/a", c09_J c09_a); (of_string "/r/b", c09_N c09_b); (of_string "/r/sub/c", c09_J c09_c)].
Definition c09_merged : list (key * tree) :=
  [(KS (of_string "x"), Leaf (SInt 1)); (KS (of_string "s"), Leaf (SStr (of_string "two words")));
   (KS (of_string "y"), Dict [(KS (of_string "p"), Leaf (SInt 1)); (KS (of_string "q"), Leaf (SInt 2))]);
   (KS (of_string "w"), Leaf (SStr (of_string "deep"))); (KS (of_string "z"), Leaf (SBool true))].

Example C09_read_mixed_formats_nonvacuous :
  fs_rel c09_fsA c09_fsB /\
  (* computed: both reads succeed, with different placeholder numbers and counters, and the same ordinary data *)
  (exists sA cA sB cB, read_plain c09_fsA (of_string "/r/root") true true 41 = Ok (sA, cA) /\
                       read_plain c09_fsB (of_string "/r/root") true true 7 = Ok (sB, cB) /\
                       opart (sd_data sA) = c09_merged /\ opart (sd_data sB) = c09_merged /\
                       map fst (sd_data sA) <> map fst (sd_data sB) /\ cA = 44%Z /\ cB = 11%Z) /\
  (* by the theorem *)
  same_read (read_plain c09_fsA (of_string "/r/root") true true 41) (read_plain c09_fsB (of_string "/r/root") true true 7).
Proof.
  assert (Hrel : fs_rel c09_fsA c09_fsB).
  { assert (U : forall d, udoc_okb (fst d) (snd d) = true -> same_content (c09_J d) (c09_N d) /\ same_content (c09_N d) (c09_J d)).
    { intros d Hd. split; exists (fst d), (snd d); (split; [exact Hd|]); split; first [left; reflexivity|right; reflexivity]. }
    repeat constructor; cbn [fst snd]; first [apply (U c09_root)|apply (U c09_a)|apply (U c09_b)|apply (U c09_c)]; vm_compute; reflexivity. }
  split; [exact Hrel|]. split.
  - vm_compute. do 4 eexists. split; [reflexivity|]. split; [reflexivity|]. split; [reflexivity|]. split; [reflexivity|].
    split; [discriminate|]. split; reflexivity.
  - exact (C09_read_mixed_formats c09_fsA c09_fsB (of_string "/r/root") 41%Z 7%Z Hrel ltac:(discriminate) ltac:(discriminate)).
Qed.

(* ================================================================================================== *)
(* non-vacuity examples added after the reviewer's audit (Properties/C09_nv.v, 2026-10-01)         *)
(* ================================================================================================== *)

(* ==== non-vacuity instances obtained BY APPLYING the theorems above (added after review) ================== *)

(* C09_includes_same_table on the document of C09_includes_front_ends_nonvacuous (two includes, content of depth 2 with a
   quoted string, a list and a nested dict; JSON counter 41, native counter 999998: the native numbering wraps) *)
Example C09_includes_same_table_nonvacuous :
  let dir := of_string "/r" in let ins := c09_ins in let kvs := c09_inc_doc in
  wf (Dict (json_inc_kvs ins ++ kvs)) = true /\ forallb inc_ok ins = true /\ strs_nodup (inames ins) = true /\
  writable_tree (Dict kvs) = true /\ ordinary_kvs kvs = true /\ no_include_keys kvs = true /\ quoted_within 11 (Dict kvs) = true /\
  forallb (fun n => negb (has_char c_bsl n)) (inames ins) = true /\
  (let pj := json_parse dir 41 (json_inc_kvs ins ++ kvs) in
   exists pn, parse_string true dir 999998 (inc_text (inames ins) ++ to_string_plain kvs) = Ok pn /\
    inc_names (sd_inc (pr_sd pj)) = map (fun n => (n, path_join dir n)) (inames ins) /\
    inc_names (sd_inc (pr_sd pn)) = inc_names (sd_inc (pr_sd pj)) /\
    (forallb (fun n => negb (has_char c_bsl n)) (inames ins) = true ->
     map snd (sd_inc (pr_sd pn)) = map snd (sd_inc (pr_sd pj))) /\
    sd_data (pr_sd pj) = inc_phs (map fst (sd_inc (pr_sd pj))) ++ kvs /\
    sd_data (pr_sd pn) = inc_phs (map fst (sd_inc (pr_sd pn))) ++
                         kvs_of (map_leaves written_value (Dict (skipn (length ins) (sd_data (pr_sd pj))))) /\
    sd_expr (pr_sd pj) = [] /\ sd_expr (pr_sd pn) = []) /\
  map (fun n => (n, path_join dir n)) (inames ins) =
    [(of_string "b.json", of_string "/r/b.json"); (of_string "sub dir/c", of_string "/r/sub dir/c")].
Proof.
  intros dir ins kvs.
  assert (H1 : wf (Dict (json_inc_kvs ins ++ kvs)) = true) by (vm_compute; reflexivity).
  assert (H2 : forallb inc_ok ins = true) by (vm_compute; reflexivity).
  assert (H3 : strs_nodup (inames ins) = true) by (vm_compute; reflexivity).
  assert (H4 : writable_tree (Dict kvs) = true) by (vm_compute; reflexivity).
  assert (H5 : ordinary_kvs kvs = true) by (vm_compute; reflexivity).
  assert (H6 : no_include_keys kvs = true) by (vm_compute; reflexivity).
  assert (H7 : quoted_within 11 (Dict kvs) = true) by (vm_compute; reflexivity).
  refine (conj H1 (conj H2 (conj H3 (conj H4 (conj H5 (conj H6 (conj H7 (conj _ (conj _ _))))))))); try (vm_compute; reflexivity).
  exact (C09_includes_same_table dir 41%Z 999998%Z ins kvs H1 H2 H3 H4 H5 H6
           ltac:(discriminate) ltac:(discriminate) ltac:(vm_compute; discriminate) ltac:(vm_compute; discriminate) H7).
Qed.

(* C09_expressions_json / C09_expressions_native on c09_xdoc (two references, one of them indexed, two expressions, four
   ordinary leaves); JSON counter 41, native counter 999997 (the numbering wraps between the expressions and the
   references); the closed forms by the theorems, their values by computation *)
Example C09_expressions_json_nonvacuous :
  xdoc_ok c09_xdoc = true /\ (Z.of_nat (length (xtexts c09_xdoc)) <= 1000000)%Z /\
  (let ks := ids 41 (length (xtexts c09_xdoc)) in
   json_parse (of_string "/r") 41 c09_xdoc =
     mkParsed (mkSD (lab1 ks c09_xdoc) [] [] [] (xtab ks (xtexts c09_xdoc))) (cafter 41 (length (xtexts c09_xdoc)))) /\
  ids 41 (length (xtexts c09_xdoc)) = [42; 43; 44; 45]%N /\ cafter 41 (length (xtexts c09_xdoc)) = 45%Z /\
  map snd (lab1 [42; 43; 44; 45]%N c09_xdoc) =
    [Leaf (SInt 5); Leaf (SStr (of_string "EXPRESSION000042")); Leaf (SStr (of_string "EXPRESSION000043"));
     Leaf (SStr (of_string "word")); Leaf (SStr (of_string "EXPRESSION000044")); Leaf (SStr (of_string "EXPRESSION000045"));
     Leaf (SFloat (of_string "1.5")); Leaf (SBool true)].
Proof.
  assert (H1 : xdoc_ok c09_xdoc = true) by (vm_compute; reflexivity).
  assert (H2 : (Z.of_nat (length (xtexts c09_xdoc)) <= 1000000)%Z) by (vm_compute; discriminate).
  refine (conj H1 (conj H2 (conj (C09_expressions_json (of_string "/r") 41%Z c09_xdoc H1 ltac:(discriminate) H2) _))).
  repeat split; vm_compute; reflexivity.
Qed.

Example C09_expressions_native_nonvacuous :
  xdoc_ok c09_xdoc = true /\ (Z.of_nat (length (xexprs c09_xdoc) + length (xrefs c09_xdoc)) <= 1000000)%Z /\
  (let es := ids 999997 (length (xexprs c09_xdoc)) in let c' := cafter 999997 (length (xexprs c09_xdoc)) in
   let rs := ids c' (length (xrefs c09_xdoc)) in
   parse_string true (of_string "/r") 999997 (to_string_plain c09_xdoc) =
     Ok (mkParsed (mkSD (lab2 es rs c09_xdoc) [] [] [] (xtab es (xexprs c09_xdoc) ++ xtab rs (xrefs c09_xdoc)))
                  (cafter c' (length (xrefs c09_xdoc))))) /\
  ids 999997 (length (xexprs c09_xdoc)) = [999998; 999999]%N /\ cafter 999997 (length (xexprs c09_xdoc)) = 999999%Z /\
  ids 999999 (length (xrefs c09_xdoc)) = [0; 1]%N /\ cafter 999999 (length (xrefs c09_xdoc)) = 1%Z /\
  map snd (lab2 [999998; 999999]%N [0; 1]%N c09_xdoc) =
    [Leaf (SInt 5); Leaf (SStr (of_string "EXPRESSION000000")); Leaf (SStr (of_string "EXPRESSION999998"));
     Leaf (SStr (of_string "word")); Leaf (SStr (of_string "EXPRESSION000001")); Leaf (SStr (of_string "EXPRESSION999999"));
     Leaf (SFloat (of_string "1.5")); Leaf (SBool true)].
Proof.
  assert (H1 : xdoc_ok c09_xdoc = true) by (vm_compute; reflexivity).
  assert (H2 : (Z.of_nat (length (xexprs c09_xdoc) + length (xrefs c09_xdoc)) <= 1000000)%Z) by (vm_compute; discriminate).
  refine (conj H1 (conj H2 (conj (C09_expressions_native true (of_string "/r") 999997%Z c09_xdoc H1 ltac:(discriminate) H2) _))).
  repeat split; vm_compute; reflexivity.
Qed.

(* C09_merge_includes_mixed: the two parents are what the two front ends deliver for the root document (JSON at counter 41
   in fsA, native at counter 7 in fsB): they are related (prel), the merges of their include graphs -- every file in the
   opposite format -- are related (rres), and both succeed *)
Example C09_merge_includes_mixed_nonvacuous :
  let root := of_string "/r/root" in
  exists pr1 pr2, parse_unit true root 41 (c09_J c09_root) = Ok pr1 /\ parse_unit true root 7 (c09_N c09_root) = Ok pr2 /\
    fs_rel c09_fsA c09_fsB /\ prel (pr_sd pr1) (pr_sd pr2) /\ (-1 <= pr_count pr1)%Z /\ (-1 <= pr_count pr2)%Z /\
    rres (merge_includes c09_fsA true (pr_sd pr1) (pr_count pr1)) (merge_includes c09_fsB true (pr_sd pr2) (pr_count pr2)) /\
    map fst (sd_inc (pr_sd pr1)) = [42; 43]%N /\ map fst (sd_inc (pr_sd pr2)) = [8; 9]%N /\
    (exists s1 k1 s2 k2, merge_includes c09_fsA true (pr_sd pr1) (pr_count pr1) = Ok (s1, k1) /\
                         merge_includes c09_fsB true (pr_sd pr2) (pr_count pr2) = Ok (s2, k2) /\
                         opart (sd_data s1) = opart (sd_data s2) /\ map fst (sd_data s1) <> map fst (sd_data s2)).
Proof.
  intros root. pose proof (proj1 C09_read_mixed_formats_nonvacuous) as Hrel.
  assert (Hu : udoc_okb (fst c09_root) (snd c09_root) = true) by (vm_compute; reflexivity).
  destruct (parse_renders root 41%Z _ _ (c09_J c09_root) Hu (or_introl eq_refl) ltac:(discriminate)) as (pr1 & P1 & Q1).
  destruct (parse_renders root 7%Z _ _ (c09_N c09_root) Hu (or_intror eq_refl) ltac:(discriminate)) as (pr2 & P2 & Q2).
  destruct (presult_good _ _ _ pr1 Hu Q1) as [G1 O1]. destruct (presult_good _ _ _ pr2 Hu Q2) as [G2 O2].
  assert (Hp : prel (pr_sd pr1) (pr_sd pr2)).
  { split; [exact G1|]. split; [exact G2|]. split; [rewrite O1, O2; reflexivity|].
    destruct Q1 as (? & ? & ? & ? & ? & ? & Hq1 & _). destruct Q2 as (? & ? & ? & ? & ? & ? & Hq2 & _). rewrite Hq1, Hq2. reflexivity. }
  assert (K1 : (-1 <= pr_count pr1)%Z) by (destruct Q1 as (? & ? & ? & ? & ? & ? & ? & ? & ? & ? & Hq); exact Hq).
  assert (K2 : (-1 <= pr_count pr2)%Z) by (destruct Q2 as (? & ? & ? & ? & ? & ? & ? & ? & ? & ? & Hq); exact Hq).
  exists pr1, pr2.
  refine (conj P1 (conj P2 (conj Hrel (conj Hp (conj K1 (conj K2 (conj (C09_merge_includes_mixed _ _ _ _ _ _ Hrel Hp K1 K2) _))))))).
  vm_compute in P1. injection P1 as <-. vm_compute in P2. injection P2 as <-.
  split; [vm_compute; reflexivity|]. split; [vm_compute; reflexivity|].
  vm_compute. do 4 eexists. split; [reflexivity|]. split; [reflexivity|]. split; [reflexivity|discriminate].
Qed.

(* C09_merge_ordinary_part: a = what the JSON front end delivers for document a (an include placeholder, x, a nested dict y)
   at counter 41; o = what the native front end delivers at counter 999998 for a document with an include placeholder of
   its own (id 999999), a dict y that overlaps a's at depth 1 and adds a dict at depth 2, a new key z and a clashing x *)
Definition c09_o : list (str * str) * list (key * tree) :=
  ([(of_string "#include d", of_string "'d'")],
   [(KS (of_string "y"), Dict [(KS (of_string "p"), Leaf (SInt 9)); (KS (of_string "q"), Dict [(KS (of_string "r"), Leaf (SInt 2))])]);
    (KS (of_string "z"), Leaf (SBool true)); (KS (of_string "x"), Leaf (SInt 7))]).
Example C09_merge_ordinary_part_nonvacuous :
  exists pa po, parse_unit true (of_string "/r/a") 41 (c09_J c09_a) = Ok pa /\ parse_unit true (of_string "/r/o") 999998 (c09_N c09_o) = Ok po /\
    good (pr_sd pa) /\ good (pr_sd po) /\
    good (sd_merge (pr_sd pa) (sd_data (pr_sd po)) (Some (pr_sd po))) /\
    opart (sd_data (sd_merge (pr_sd pa) (sd_data (pr_sd po)) (Some (pr_sd po)))) =
      merge_spec (opart (sd_data (pr_sd pa))) (opart (sd_data (pr_sd po))) /\
    map fst (sd_data (pr_sd pa)) = [KS (of_string "INCLUDE000042"); KS (of_string "x"); KS (of_string "y")] /\
    map fst (sd_data (pr_sd po)) = [KS (of_string "INCLUDE999999"); KS (of_string "y"); KS (of_string "z"); KS (of_string "x")] /\
    merge_spec (opart (sd_data (pr_sd pa))) (opart (sd_data (pr_sd po))) =
      [(KS (of_string "x"), Leaf (SInt 2));
       (KS (of_string "y"), Dict [(KS (of_string "p"), Leaf (SInt 1)); (KS (of_string "q"), Dict [(KS (of_string "r"), Leaf (SInt 2))])]);
       (KS (of_string "z"), Leaf (SBool true))].
Proof.
  assert (Ha : udoc_okb (fst c09_a) (snd c09_a) = true) by (vm_compute; reflexivity).
  assert (Ho : udoc_okb (fst c09_o) (snd c09_o) = true) by (vm_compute; reflexivity).
  destruct (parse_renders (of_string "/r/a") 41%Z _ _ (c09_J c09_a) Ha (or_introl eq_refl) ltac:(discriminate)) as (pa & Pa & Qa).
  destruct (parse_renders (of_string "/r/o") 999998%Z _ _ (c09_N c09_o) Ho (or_intror eq_refl) ltac:(discriminate)) as (po & Po & Qo).
  destruct (presult_good _ _ _ pa Ha Qa) as [Ga _]. destruct (presult_good _ _ _ po Ho Qo) as [Go _].
  destruct (C09_merge_ordinary_part (pr_sd pa) (pr_sd po) Ga Go) as [Gm Em].
  exists pa, po. refine (conj Pa (conj Po (conj Ga (conj Go (conj Gm (conj Em _)))))).
  vm_compute in Pa. injection Pa as <-. vm_compute in Po. injection Po as <-.
  repeat split; vm_compute; reflexivity.
Qed.

(* ================================================================================================== *)
(* added from Properties/C09_add.v (2026-10-01)                                              *)
(* ================================================================================================== *)
(* ================================================================================================================= *)
(* C09 (addition): reads over include graphs in any mix of JSON and native files, native files WITH comments          *)
(* ================================================================================================================= *)
(* C09_read_mixed_formats wants every native file to be the canonical rendering of its document (include lines followed
   by to_string_plain).  Here a native file may be ANY text t that denotes the document (ins, kvs):
     native_equiv P com t ins kvs :  for every folder dir and counter c >= -1, parse_string com dir c t succeeds and
        (i)   its data, with the include placeholder entries dropped at top level and every entry whose key is of class P
              dropped at EVERY dict level (odata P), are kvs;
        (ii)  its include table lists, in order, the paths path_join dir name of the names of ins;
        (iii) it registers no expression; the counter stays >= -1.
   P is a class of comment placeholder keys (P k = true -> is_ckey k = true; is_ckey: what SDict._clean_data takes for a
   block/line comment key).  P = is_ckey: all comment entries are ignored (opart_c); P = no_key: nothing is ignored, and
   the statement is C09_read_mixed_formats again.  Nothing is asked of the comment entries themselves (values, tables).
   The header block comment NativeFormatter writes ( /*---...*- C++ -*...*\ filetype dictionary; ... \*---*/ : the
   filetype line is part of the comment, no data) is one such comment entry: C09_native_equiv_written. *)
From Coq Require Import String.
From Coq Require Import NArith ZArith List Bool Lia.
From DictIO Require Import Chars Str Value Scalar KeyPath SDict Layout Lexer TokParser Reader TreeSpec NativeSpec LayoutSpec E2ESpec.
From DictIO Require Import E2EProofs E2EFullProofs JsonNativeProofs JsonNativeRead JsonNativeCommented.
From DictIO Require RereadTree RereadWrite RereadProofs RereadOff RereadIncWrite RereadIncProofs.
Import ListNotations.
Open Scope N_scope.

(* the generic statement: any class P of comment placeholder keys, comments on or off on either side *)
Theorem C09_read_mixed_formats_commented_gen : forall P, (forall k, P k = true -> is_ckey k = true) ->
  forall com1 com2 fs1 fs2 root c1 c2, fs_rel_c P com1 com2 fs1 fs2 -> (-1 <= c1)%Z -> (-1 <= c2)%Z ->
  same_read_c P (read_plain fs1 root true com1 c1) (read_plain fs2 root true com2 c2).
Proof. exact read_mixed_formats_c. Qed.
Print Assumptions C09_read_mixed_formats_commented_gen.

(* P = is_ckey, comments on: for ANY include graph and ANY assignment of formats, every native file any text that denotes
   its document up to comments: both reads fail alike (only: root missing) or the ordinary data up to comments
   (opart_c: include placeholders dropped at top level, comment placeholder entries at every dict level) are the same list *)
Theorem C09_read_mixed_formats_commented : forall fs1 fs2 root c1 c2, fs_rel_commented fs1 fs2 -> (-1 <= c1)%Z -> (-1 <= c2)%Z ->
  same_read_commented (read_plain fs1 root true true c1) (read_plain fs2 root true true c2).
Proof. exact read_mixed_formats_commented. Qed.
Print Assumptions C09_read_mixed_formats_commented.

(* opart_c is opart followed by the removal of the comment placeholder entries at every dict level *)
Theorem C09_opart_c_spec : forall d, opart_c d = kvs_of (pdrop is_ckey (Dict (opart d))).
Proof. exact opart_c_spec. Qed.
Print Assumptions C09_opart_c_spec.

(* the existing theorem (statement verbatim) from the generic one with P = no_key; and its file relation is an instance
   of the commented one *)
Theorem C09_read_mixed_formats_from_commented : forall fs1 fs2 root c1 c2, fs_rel fs1 fs2 -> (-1 <= c1)%Z -> (-1 <= c2)%Z ->
  same_read (read_plain fs1 root true true c1) (read_plain fs2 root true true c2).
Proof. exact read_mixed_formats_from_commented. Qed.
Print Assumptions C09_read_mixed_formats_from_commented.

Theorem C09_fs_rel_commented_of_fs_rel : forall fs1 fs2, fs_rel fs1 fs2 -> fs_rel_commented fs1 fs2.
Proof. exact fs_rel_commented_of_fs_rel. Qed.
Print Assumptions C09_fs_rel_commented_of_fs_rel.

(* files that denote a document: (a) the canonical rendering, comments on or off; *)
Theorem C09_native_equiv_canonical : forall P, (forall k, P k = true -> is_ckey k = true) -> forall com ins kvs,
  udoc_okb ins kvs = true -> native_equiv P com (inc_text (inames ins) ++ to_string_plain kvs) ins kvs.
Proof. exact native_equiv_canonical. Qed.
Print Assumptions C09_native_equiv_canonical.

(* (b) what NativeFormatter.to_string writes for an SDict of the class rereadable_inc (C12: comments at any dict level --
   on lines of their own --, the default header in front unless the SDict begins with a marked header of its own, include
   entries at top level), whose data without comment and include entries are kvs and whose include entries name the files
   of ins *)
Theorem C09_native_equiv_written : forall s ins kvs, RereadIncWrite.rereadable_inc s = true ->
  (Z.of_nat (length (sd_lc s)) < 1000000)%Z ->
  (Z.of_nat (length (RereadProofs.lc_list (RereadIncProofs.written_doc_inc s))) < 1000000)%Z ->
  (Z.of_nat (length (RereadProofs.bc_list (RereadIncProofs.written_doc_inc s))) <= 1000000)%Z ->
  (Z.of_nat (length (RereadProofs.lit_list (RereadIncProofs.written_doc_inc s))) <= 1000000)%Z ->
  udoc_okb ins kvs = true ->
  RereadTree.cstrip (Dict (sd_data (RereadIncWrite.strip_inc s))) = Dict kvs -> RereadIncWrite.inc_names s = inames ins ->
  native_equiv is_ckey true (to_string_sd s) ins kvs.
Proof. exact native_equiv_written. Qed.
Print Assumptions C09_native_equiv_written.

(* ---- non-vacuity: three files ------------------------------------------------------------------------------------ *)
(* root includes a, a includes sub/c; x in all three, y in root and a with different sub-keys.
   fsA: root native AS THE WRITER WRITES IT (default header, a line comment, a block comment inside the dict y),
        a JSON, sub/c native without header (canonical rendering).
   fsB: every format swapped: root JSON, a native as the writer writes it (default header, a line comment between two
        entries and one inside the dict y), sub/c JSON. *)
Definition c09h_ph (w : str) (i : N) : key * tree := (KS (placeholder w i), Leaf (SStr (placeholder w i))).
Definition c09h_root : list (str * str) * list (key * tree) :=
  ([(of_string "#include a", of_string "a")],
   [(KS (of_string "x"), Leaf (SInt 1)); (KS (of_string "s"), Leaf (SStr (of_string "two words")));
    (KS (of_string "y"), Dict [(KS (of_string "p"), Leaf (SInt 1))])]).
Definition c09h_a : list (str * str) * list (key * tree) :=
  ([(of_string "#include c", of_string "sub/c")],
   [(KS (of_string "x"), Leaf (SInt 2)); (KS (of_string "y"), Dict [(KS (of_string "q"), Leaf (SInt 2))]);
    (KS (of_string "z"), Leaf (SBool true))]).
Definition c09h_c : list (str * str) * list (key * tree) :=
  ([], [(KS (of_string "w"), Leaf (SStr (of_string "deep"))); (KS (of_string "x"), Leaf (SInt 3))]).
Definition c09h_root_sd : sdict :=
  mkSD [ c09h_ph w_LINECOMMENT 9; c09h_ph w_INCLUDE 7; (KS (of_string "x"), Leaf (SInt 1));
         (KS (of_string "s"), Leaf (SStr (of_string "two words")));
         (KS (of_string "y"), Dict [c09h_ph w_BLOCKCOMMENT 5; (KS (of_string "p"), Leaf (SInt 1))]) ]
       [(9, of_string "// the root file")] [(5, of_string "/* inside y */")]
       [(7, (of_string "#include a", of_string "a", of_string "/r/a"))] [].
Definition c09h_a_sd : sdict :=
  mkSD [ c09h_ph w_INCLUDE 3; (KS (of_string "x"), Leaf (SInt 2)); c09h_ph w_LINECOMMENT 4;
         (KS (of_string "y"), Dict [(KS (of_string "q"), Leaf (SInt 2)); c09h_ph w_LINECOMMENT 6]); (KS (of_string "z"), Leaf (SBool true)) ]
       [(4, of_string "// between x and y"); (6, of_string "// last in y")] []
       [(3, (of_string "#include sub/c", of_string "sub/c", of_string "/r/sub/c"))] [].
Definition c09h_J (d : list (str * str) * list (key * tree)) : funit := render_json (fst d) (snd d).
Definition c09h_N (d : list (str * str) * list (key * tree)) : funit := render_native (fst d) (snd d).
Definition c09h_fsA : fsys :=
  [(of_string "/r/root", FNative (to_string_sd c09h_root_sd)); (of_string "/r/a", c09h_J c09h_a); (of_string "/r/sub/c", c09h_N c09h_c)].
Definition c09h_fsB : fsys :=
  [(of_string "/r/root", c09h_J c09h_root); (of_string "/r/a", FNative (to_string_sd c09h_a_sd)); (of_string "/r/sub/c", c09h_J c09h_c)].
Definition c09h_merged : list (key * tree) :=
  [(KS (of_string "x"), Leaf (SInt 1)); (KS (of_string "s"), Leaf (SStr (of_string "two words")));
   (KS (of_string "y"), Dict [(KS (of_string "p"), Leaf (SInt 1)); (KS (of_string "q"), Leaf (SInt 2))]);
   (KS (of_string "z"), Leaf (SBool true)); (KS (of_string "w"), Leaf (SStr (of_string "deep")))].

(* the two written files, by the theorem *)
Example C09_native_equiv_written_nonvacuous :
  to_string_sd c09h_root_sd = of_string
"/*---------------------------------*- C++ -*----------------------------------*\
filetype dictionary; coding utf-8; version 0.1; local --; purpose --;
\*----------------------------------------------------------------------------*/
#include a
// the root file
x                             1;
s                             'two words';
y
{
    /* inside y */
    p                         1;
}
" /\
  to_string_sd c09h_a_sd = of_string
"/*---------------------------------*- C++ -*----------------------------------*\
filetype dictionary; coding utf-8; version 0.1; local --; purpose --;
\*----------------------------------------------------------------------------*/
#include 'sub/c'
x                             2;
// between x and y
y
{
    q                         2;
    // last in y
}
z                             true;
" /\
  native_equiv is_ckey true (to_string_sd c09h_root_sd) (fst c09h_root) (snd c09h_root) /\
  native_equiv is_ckey true (to_string_sd c09h_a_sd) (fst c09h_a) (snd c09h_a) /\
  (* what the parse of the root file looks like at counter 41 (computed): header, include and line comment entries first *)
  (exists p, parse_string true (of_string "/r") 41 (to_string_sd c09h_root_sd) = Ok p /\
     map fst (sd_data (pr_sd p)) =
       [KS (of_string "BLOCKCOMMENT000000"); KS (of_string "INCLUDE000043"); KS (of_string "LINECOMMENT000042");
        KS (of_string "x"); KS (of_string "s"); KS (of_string "y")] /\
     opart (sd_data (pr_sd p)) <> snd c09h_root /\ opart_c (sd_data (pr_sd p)) = snd c09h_root).
Proof.
  split; [vm_compute; reflexivity|]. split; [vm_compute; reflexivity|]. split; [|split].
  - apply C09_native_equiv_written; vm_compute; first [reflexivity|discriminate].
  - apply C09_native_equiv_written; vm_compute; first [reflexivity|discriminate].
  - vm_compute. eexists. split; [reflexivity|]. split; [reflexivity|]. split; [discriminate|reflexivity].
Qed.

Example C09_read_mixed_formats_commented_nonvacuous :
  fs_rel_commented c09h_fsA c09h_fsB /\
  (* the canonical relation of C09_read_mixed_formats does NOT hold: the root file of fsA is no canonical rendering *)
  FNative (to_string_sd c09h_root_sd) <> c09h_N c09h_root /\
  (* computed: both reads succeed; the comment entries are there (the data differ, also after opart); opart_c agrees *)
  (exists sA cA sB cB, read_plain c09h_fsA (of_string "/r/root") true true 41 = Ok (sA, cA) /\
                       read_plain c09h_fsB (of_string "/r/root") true true 7 = Ok (sB, cB) /\
                       opart_c (sd_data sA) = c09h_merged /\ opart_c (sd_data sB) = c09h_merged /\
                       opart (sd_data sA) <> opart (sd_data sB) /\
                       map fst (sd_data sA) =
                         [KS (of_string "BLOCKCOMMENT000000"); KS (of_string "INCLUDE000043"); KS (of_string "LINECOMMENT000042");
                          KS (of_string "x"); KS (of_string "s"); KS (of_string "y"); KS (of_string "INCLUDE000045");
                          KS (of_string "z"); KS (of_string "w")] /\
                       map fst (sd_data sB) =
                         [KS (of_string "INCLUDE000008"); KS (of_string "x"); KS (of_string "s"); KS (of_string "y");
                          KS (of_string "BLOCKCOMMENT000000"); KS (of_string "INCLUDE000011"); KS (of_string "LINECOMMENT000009");
                          KS (of_string "z"); KS (of_string "w")] /\
                       cA = 45%Z /\ cB = 11%Z) /\
  (* by the theorem *)
  same_read_commented (read_plain c09h_fsA (of_string "/r/root") true true 41) (read_plain c09h_fsB (of_string "/r/root") true true 7).
Proof.
  destruct C09_native_equiv_written_nonvacuous as (_ & _ & Wr & Wa & _).
  assert (Ur : udoc_okb (fst c09h_root) (snd c09h_root) = true) by (vm_compute; reflexivity).
  assert (Ua : udoc_okb (fst c09h_a) (snd c09h_a) = true) by (vm_compute; reflexivity).
  assert (Uc : udoc_okb (fst c09h_c) (snd c09h_c) = true) by (vm_compute; reflexivity).
  assert (Hrel : fs_rel_commented c09h_fsA c09h_fsB).
  { constructor; [|constructor; [|constructor; [|constructor]]]; (split; [reflexivity|]); cbn [snd].
    - exists (fst c09h_root), (snd c09h_root). split; [exact Ur|]. split; [exact Wr|reflexivity].
    - exists (fst c09h_a), (snd c09h_a). split; [exact Ua|]. split; [reflexivity|exact Wa].
    - exists (fst c09h_c), (snd c09h_c). split; [exact Uc|]. split; [|reflexivity].
      exact (C09_native_equiv_canonical is_ckey (fun k H => H) true _ _ Uc). }
  split; [exact Hrel|]. split; [vm_compute; discriminate|]. split.
  - vm_compute. do 4 eexists. split; [reflexivity|]. split; [reflexivity|]. split; [reflexivity|]. split; [reflexivity|].
    split; [discriminate|]. split; [reflexivity|]. split; [reflexivity|]. split; reflexivity.
  - exact (C09_read_mixed_formats_commented c09h_fsA c09h_fsB (of_string "/r/root") 41%Z 7%Z Hrel ltac:(discriminate) ltac:(discriminate)).
Qed.

(* the generic statement at P = is_ckey is the commented one (same graph) *)
Example C09_read_mixed_formats_commented_gen_nonvacuous :
  fs_rel_c is_ckey true true c09h_fsA c09h_fsB /\
  same_read_c is_ckey (read_plain c09h_fsA (of_string "/r/root") true true 41) (read_plain c09h_fsB (of_string "/r/root") true true 7).
Proof.
  pose proof (proj1 C09_read_mixed_formats_commented_nonvacuous) as Hrel. split; [exact Hrel|].
  exact (C09_read_mixed_formats_commented_gen is_ckey (fun k H => H) true true _ _ (of_string "/r/root") 41%Z 7%Z Hrel ltac:(discriminate) ltac:(discriminate)).
Qed.

(* the existing theorem obtained from the generic one: the same graph with canonical native files *)
Definition c09h_fsC : fsys :=
  [(of_string "/r/root", c09h_N c09h_root); (of_string "/r/a", c09h_J c09h_a); (of_string "/r/sub/c", c09h_N c09h_c)].
Definition c09h_fsD : fsys :=
  [(of_string "/r/root", c09h_J c09h_root); (of_string "/r/a", c09h_N c09h_a); (of_string "/r/sub/c", c09h_J c09h_c)].
Example C09_read_mixed_formats_from_commented_nonvacuous :
  fs_rel c09h_fsC c09h_fsD /\ fs_rel_commented c09h_fsC c09h_fsD /\
  (exists sC cC sD cD, read_plain c09h_fsC (of_string "/r/root") true true 41 = Ok (sC, cC) /\
                       read_plain c09h_fsD (of_string "/r/root") true true 7 = Ok (sD, cD) /\
                       opart (sd_data sC) = c09h_merged /\ opart (sd_data sD) = c09h_merged) /\
  same_read (read_plain c09h_fsC (of_string "/r/root") true true 41) (read_plain c09h_fsD (of_string "/r/root") true true 7).
Proof.
  assert (Hrel : fs_rel c09h_fsC c09h_fsD).
  { assert (U : forall d, udoc_okb (fst d) (snd d) = true -> same_content (c09h_J d) (c09h_N d) /\ same_content (c09h_N d) (c09h_J d)).
    { intros d Hd. split; exists (fst d), (snd d); (split; [exact Hd|]); split; first [left; reflexivity|right; reflexivity]. }
    repeat constructor; cbn [fst snd]; first [apply (U c09h_root)|apply (U c09h_a)|apply (U c09h_c)]; vm_compute; reflexivity. }
  split; [exact Hrel|]. split; [exact (C09_fs_rel_commented_of_fs_rel _ _ Hrel)|]. split.
  - vm_compute. do 4 eexists. split; [reflexivity|]. split; [reflexivity|]. split; reflexivity.
  - exact (C09_read_mixed_formats_from_commented c09h_fsC c09h_fsD (of_string "/r/root") 41%Z 7%Z Hrel ltac:(discriminate) ltac:(discriminate)).
Qed.

Example C09_opart_c_spec_nonvacuous :
  let d := [c09h_ph w_BLOCKCOMMENT 0; c09h_ph w_INCLUDE 43; (KS (of_string "y"), Dict [c09h_ph w_LINECOMMENT 5; (KS (of_string "p"), Leaf (SInt 1))])] in
  opart_c d = kvs_of (pdrop is_ckey (Dict (opart d))) /\
  opart d = [c09h_ph w_BLOCKCOMMENT 0; (KS (of_string "y"), Dict [c09h_ph w_LINECOMMENT 5; (KS (of_string "p"), Leaf (SInt 1))])] /\
  opart_c d = [(KS (of_string "y"), Dict [(KS (of_string "p"), Leaf (SInt 1))])].
Proof. intros d. split; [exact (C09_opart_c_spec d)|]. split; vm_compute; reflexivity. Qed.

Example C09_native_equiv_canonical_nonvacuous :
  udoc_okb (fst c09h_a) (snd c09h_a) = true /\
  native_equiv is_ckey false (inc_text (inames (fst c09h_a)) ++ to_string_plain (snd c09h_a)) (fst c09h_a) (snd c09h_a) /\
  (exists p, parse_string false (of_string "/r") 41 (inc_text (inames (fst c09h_a)) ++ to_string_plain (snd c09h_a)) = Ok p /\
     odata is_ckey (sd_data (pr_sd p)) = snd c09h_a /\ map ipath (sd_inc (pr_sd p)) = [of_string "/r/sub/c"]).
Proof.
  assert (Ua : udoc_okb (fst c09h_a) (snd c09h_a) = true) by (vm_compute; reflexivity).
  split; [exact Ua|]. split; [exact (C09_native_equiv_canonical is_ckey (fun k H => H) false _ _ Ua)|].
  vm_compute. eexists. split; [reflexivity|]. split; reflexivity.
Qed.

(* ---- comments switched off on one side ----------------------------------------------------------------------------- *)
(* fs_rel_on_off fs1 fs2 = fs_rel_c is_ckey true false fs1 fs2: the native files of fs1 denote their documents when parsed
   with comments on, those of fs2 when parsed with comments off.  fs1 read with comments = true, fs2 with comments = false:
   the ordinary data up to comments are the same. *)
Theorem C09_read_mixed_formats_comments_off : forall fs1 fs2 root c1 c2, fs_rel_on_off fs1 fs2 -> (-1 <= c1)%Z -> (-1 <= c2)%Z ->
  same_read_commented (read_plain fs1 root true true c1) (read_plain fs2 root true false c2).
Proof. exact read_mixed_formats_comments_off. Qed.
Print Assumptions C09_read_mixed_formats_comments_off.

(* a written file WITHOUT include entries (class RereadTree.rereadable: default header, comments at any dict level) read
   with comments off denotes its data without the comment entries *)
Theorem C09_native_equiv_written_off : forall P, (forall k, P k = true -> is_ckey k = true) -> forall s kvs,
  RereadTree.rereadable s = true ->
  (Z.of_nat (length (RereadProofs.lc_list (RereadProofs.written_doc s))) <= 1000000)%Z ->
  (Z.of_nat (length (RereadProofs.bc_list (RereadProofs.written_doc s))) <= 1000000)%Z ->
  (Z.of_nat (length (RereadProofs.lit_list (RereadProofs.written_doc s))) <= 1000000)%Z ->
  udoc_okb [] kvs = true -> RereadTree.cstrip (Dict (sd_data s)) = Dict kvs ->
  native_equiv P false (to_string_sd s) [] kvs.
Proof. exact native_equiv_written_off. Qed.
Print Assumptions C09_native_equiv_written_off.

(* native_equiv in terms of the canonical rendering: same dropped data, same include paths, for every folder and counter *)
Theorem C09_native_equiv_iff_canonical : forall P, (forall k, P k = true -> is_ckey k = true) -> forall com t ins kvs,
  udoc_okb ins kvs = true ->
  (native_equiv P com t ins kvs <->
   forall dir c, (-1 <= c)%Z -> exists p p0,
     parse_string com dir c t = Ok p /\ parse_string com dir c (inc_text (inames ins) ++ to_string_plain kvs) = Ok p0 /\
     odata P (sd_data (pr_sd p)) = odata P (sd_data (pr_sd p0)) /\ map ipath (sd_inc (pr_sd p)) = map ipath (sd_inc (pr_sd p0)) /\
     sd_expr (pr_sd p) = [] /\ (-1 <= pr_count p)%Z).
Proof. exact native_equiv_iff_canonical. Qed.
Print Assumptions C09_native_equiv_iff_canonical.

(* fs1 = c09h_fsA (root as written with header and comments, a JSON, sub/c canonical) read with comments on;
   fs2 = root JSON, a canonical native (with its include line), sub/c AS WRITTEN (default header, a line comment, a block
   comment) read with comments off *)
Definition c09h_c_sd : sdict :=
  mkSD [ c09h_ph w_LINECOMMENT 1; (KS (of_string "w"), Leaf (SStr (of_string "deep"))); c09h_ph w_BLOCKCOMMENT 2;
         (KS (of_string "x"), Leaf (SInt 3)) ]
       [(1, of_string "// the deepest file")] [(2, of_string "/* x is shadowed */")] [] [].
Definition c09h_fsE : fsys :=
  [(of_string "/r/root", c09h_J c09h_root); (of_string "/r/a", c09h_N c09h_a); (of_string "/r/sub/c", FNative (to_string_sd c09h_c_sd))].

Example C09_native_equiv_written_off_nonvacuous :
  to_string_sd c09h_c_sd = of_string
"/*---------------------------------*- C++ -*----------------------------------*\
filetype dictionary; coding utf-8; version 0.1; local --; purpose --;
\*----------------------------------------------------------------------------*/
/* x is shadowed */
// the deepest file
w                             deep;
x                             3;
" /\
  native_equiv is_ckey false (to_string_sd c09h_c_sd) [] (snd c09h_c) /\
  (exists p, parse_string false (of_string "/r/sub") 9 (to_string_sd c09h_c_sd) = Ok p /\ sd_data (pr_sd p) = snd c09h_c /\
     map fst (sd_lc (pr_sd p)) = [10] /\ map fst (sd_bc (pr_sd p)) = [0; 1] /\ pr_count p = 10%Z).
Proof.
  split; [vm_compute; reflexivity|]. split.
  - apply (C09_native_equiv_written_off is_ckey (fun k H => H)); vm_compute; first [reflexivity|discriminate].
  - vm_compute. eexists. split; [reflexivity|]. repeat split; reflexivity.
Qed.

Example C09_read_mixed_formats_comments_off_nonvacuous :
  fs_rel_on_off c09h_fsA c09h_fsE /\
  (exists sA cA sE cE, read_plain c09h_fsA (of_string "/r/root") true true 41 = Ok (sA, cA) /\
                       read_plain c09h_fsE (of_string "/r/root") true false 7 = Ok (sE, cE) /\
                       opart_c (sd_data sA) = c09h_merged /\ opart_c (sd_data sE) = c09h_merged /\
                       opart (sd_data sA) <> opart (sd_data sE) /\
                       map fst (sd_data sE) =
                         [KS (of_string "INCLUDE000008"); KS (of_string "x"); KS (of_string "s"); KS (of_string "y");
                          KS (of_string "INCLUDE000009"); KS (of_string "z"); KS (of_string "w")] /\
                       (* the comment tables are filled although comments are off (C12) *)
                       map fst (sd_lc sE) = [10] /\ map fst (sd_bc sE) = [0; 1] /\ cA = 45%Z /\ cE = 10%Z) /\
  same_read_commented (read_plain c09h_fsA (of_string "/r/root") true true 41) (read_plain c09h_fsE (of_string "/r/root") true false 7).
Proof.
  destruct C09_native_equiv_written_nonvacuous as (_ & _ & Wr & _ & _).
  destruct C09_native_equiv_written_off_nonvacuous as (_ & Wc & _).
  assert (Ur : udoc_okb (fst c09h_root) (snd c09h_root) = true) by (vm_compute; reflexivity).
  assert (Ua : udoc_okb (fst c09h_a) (snd c09h_a) = true) by (vm_compute; reflexivity).
  assert (Uc : udoc_okb (fst c09h_c) (snd c09h_c) = true) by (vm_compute; reflexivity).
  assert (Hrel : fs_rel_on_off c09h_fsA c09h_fsE).
  { constructor; [|constructor; [|constructor; [|constructor]]]; (split; [reflexivity|]); cbn [snd].
    - exists (fst c09h_root), (snd c09h_root). split; [exact Ur|]. split; [exact Wr|reflexivity].
    - exists (fst c09h_a), (snd c09h_a). split; [exact Ua|]. split; [reflexivity|].
      exact (C09_native_equiv_canonical is_ckey (fun k H => H) false _ _ Ua).
    - exists (fst c09h_c), (snd c09h_c). split; [exact Uc|]. split; [|exact Wc].
      exact (C09_native_equiv_canonical is_ckey (fun k H => H) true _ _ Uc). }
  split; [exact Hrel|]. split.
  - vm_compute. do 4 eexists. split; [reflexivity|]. split; [reflexivity|]. split; [reflexivity|]. split; [reflexivity|].
    split; [discriminate|]. repeat split; reflexivity.
  - exact (C09_read_mixed_formats_comments_off c09h_fsA c09h_fsE (of_string "/r/root") 41%Z 7%Z Hrel ltac:(discriminate) ltac:(discriminate)).
Qed.

(* native_equiv_iff_canonical on the written root file: from folder /q and counter 999998 (the numbering wraps) the written
   file and the canonical rendering parse to the same dropped data and the same include paths *)
Example C09_native_equiv_iff_canonical_nonvacuous :
  forall dir c, (-1 <= c)%Z -> exists p p0,
    parse_string true dir c (to_string_sd c09h_root_sd) = Ok p /\
    parse_string true dir c (inc_text (inames (fst c09h_root)) ++ to_string_plain (snd c09h_root)) = Ok p0 /\
    odata is_ckey (sd_data (pr_sd p)) = odata is_ckey (sd_data (pr_sd p0)) /\
    map ipath (sd_inc (pr_sd p)) = map ipath (sd_inc (pr_sd p0)) /\ sd_expr (pr_sd p) = [] /\ (-1 <= pr_count p)%Z.
Proof.
  assert (Ur : udoc_okb (fst c09h_root) (snd c09h_root) = true) by (vm_compute; reflexivity).
  exact (proj1 (C09_native_equiv_iff_canonical is_ckey (fun k H => H) true _ _ _ Ur) (proj1 (proj2 (proj2 C09_native_equiv_written_nonvacuous)))).
Qed.

(* ---- findings: what native_equiv excludes (each computed on the model and confirmed on the library: DictReader.read) --- *)
Definition c09h_data (r : res (sdict * Z)) : option (list (key * tree)) :=
  match r with Ok (s, _) => Some (opart_c (sd_data s)) | Raise _ => None end.
(* (g) a hand-written native file with a comment between a key and its value does not denote {a: 1, b: 2}: read with
       comments on THE ENTRY a IS LOST (library: "tokens skipped" is logged; result {BLOCKCOMMENT000000, b}); the JSON file
       and the same native file read with comments off give both entries *)
Example C09_comment_behind_key_finding :
  let doc := [(KS (of_string "a"), Leaf (SInt 1)); (KS (of_string "b"), Leaf (SInt 2))] in
  let fsN := [(of_string "/r/k", FNative (of_string "a /* c */ 1; b 2;
"))] in
  let fsJ := [(of_string "/r/k", FJson doc)] in
  udoc_okb [] doc = true /\
  c09h_data (read_plain fsN (of_string "/r/k") true true 0) = Some [(KS (of_string "b"), Leaf (SInt 2))] /\
  c09h_data (read_plain fsJ (of_string "/r/k") true true 0) = Some doc /\
  c09h_data (read_plain fsN (of_string "/r/k") true false 0) = Some doc.
Proof. vm_compute. repeat split; reflexivity. Qed.

(* (h) a comment inside a list: its placeholder becomes a list ITEM (library: {'a': [1, 'BLOCKCOMMENT000000', 2]}); opart_c
       drops comment entries of dicts, list items are values *)
Example C09_comment_in_list_finding :
  let doc := [(KS (of_string "a"), Lst [Leaf (SInt 1); Leaf (SInt 2)]); (KS (of_string "b"), Leaf (SInt 2))] in
  let fsN := [(of_string "/r/l", FNative (of_string "a ( 1 /* c */ 2 ); b 2;
"))] in
  let fsJ := [(of_string "/r/l", FJson doc)] in
  udoc_okb [] doc = true /\
  c09h_data (read_plain fsN (of_string "/r/l") true true 0) =
    Some [(KS (of_string "a"), Lst [Leaf (SInt 1); Leaf (SStr (of_string "BLOCKCOMMENT000000")); Leaf (SInt 2)]); (KS (of_string "b"), Leaf (SInt 2))] /\
  c09h_data (read_plain fsJ (of_string "/r/l") true true 0) = Some doc /\
  c09h_data (read_plain fsN (of_string "/r/l") true false 0) = Some doc.
Proof. vm_compute. repeat split; reflexivity. Qed.
