(* C09  JSON: the JSON front end leaves a dollar-free, include-free tree exactly as json.loads delivered it
   (json.dumps / json.loads themselves are trusted and exercised by the check). *)
From Coq Require Import NArith ZArith List Bool.
From DictIO Require Import Chars Str Value Scalar SDict TokParser Reader TreeSpec LayoutSpec SemProofs.
Import ListNotations.

Theorem C09_front_end_identity : forall dir c kvs,
  wf (Dict kvs) = true -> ordinary_kvs kvs = true -> no_include_keys kvs = true ->
  sd_data (pr_sd (json_parse dir c kvs)) = kvs /\ pr_count (json_parse dir c kvs) = c /\
  sd_inc (pr_sd (json_parse dir c kvs)) = [] /\ sd_expr (pr_sd (json_parse dir c kvs)) = [].
Proof. exact json_front_end_identity. Qed.
Print Assumptions C09_front_end_identity.

(* string leaves keep their string type on the JSON string route: no re-typing happens in the front end *)
Theorem C09_no_retyping : forall s c tab, has_char c_dollar s = false ->
  json_expressions (Leaf (SStr s)) c tab = (Leaf (SStr s), c, tab).
Proof. exact json_leaf_untouched. Qed.
Print Assumptions C09_no_retyping.
