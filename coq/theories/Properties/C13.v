(* C13  Reads write nothing, writes touch only their target, failures destroy nothing (logic part: the order
   serialise-then-open and the target name; OS behaviour is observed by the check's file-tree snapshots). *)
From Coq Require Import NArith ZArith List Bool.
From DictIO Require Import Chars Str Value Scalar Cli MiscSpec CliProofs.
Import ListNotations.

Theorem C13_read_pure : forall fs p, fs_step fs (FRead p) = fs.
Proof. exact fs_read_pure. Qed.
Print Assumptions C13_read_pure.

(* a write changes its target and nothing else, whatever the history of operations before *)
Theorem C13_frame : forall fs t c q, q <> t -> fs_get q (fs_step fs (FWrite t c)) = fs_get q fs.
Proof. exact fs_frame. Qed.
Print Assumptions C13_frame.

Theorem C13_write_target : forall fs t txt, fs_get t (fs_step fs (FWrite t (Ok txt))) = Some txt.
Proof. exact fs_write_target. Qed.
Print Assumptions C13_write_target.

(* a failing serialisation leaves the previously existing target (and everything else) intact *)
Theorem C13_no_clobber : forall fs t e, fs_step fs (FWrite t (Raise e)) = fs.
Proof. exact fs_no_clobber. Qed.
Print Assumptions C13_no_clobber.

(* every reachable state: only targets of successful writes ever differ from the initial tree *)
Theorem C13_history : forall ops fs q,
  (forall t txt, In (FWrite t (Ok txt)) ops -> t <> q) -> fs_get q (fold_left fs_step ops fs) = fs_get q fs.
Proof. exact fs_history_frame. Qed.
Print Assumptions C13_history.

(* target name: the extension is chosen by the output format *)
Theorem C13_name_ext : forall name scope o, In o [of_string "foam"; of_string "json"; of_string "xml"] ->
  exists base, target_file_name name (Some w_parsed) scope (Some o) = base ++ c_dot :: o.
Proof. exact target_ext. Qed.
Print Assumptions C13_name_ext.

(* the prefix is applied exactly once: deriving the target name of a derived name changes nothing *)
Theorem C13_prefix_once : forall name, word_name name ->
  let t := target_file_name name (Some w_parsed) [] None in
  target_file_name t (Some w_parsed) [] None = t /\ t = w_parsed ++ c_dot :: name.
Proof. exact target_prefix_once. Qed.
Print Assumptions C13_prefix_once.
