(* C13  Reads write nothing, writes touch only their target, failures destroy nothing (logic part: the order
   serialise-then-open and the target name; OS behaviour is observed by the check's file-tree snapshots). *)
From Coq Require Import String.   (* string literals of the examples; imported first so the list names win *)
From Coq Require Import NArith ZArith List Bool.
From DictIO Require Import Chars Str Value Scalar Cli MiscSpec CliProofs.
Import ListNotations.

(* a small file tree for the non-vacuity examples *)
Module C13_ex.
  Definition pa := of_string "/r/a".  Definition pb := of_string "/r/parsed.a".  Definition pc := of_string "/r/sub/c".
  Definition fs0 : fsmap := [(pa, of_string "x 1;"); (pb, of_string "old")].
  Definition ops : list fsop :=
    [FRead pa; FWrite pb (Ok (of_string "x 1; y 2;")); FWrite pa (Raise E_Value); FRead pb; FWrite pc (Ok (of_string "new file"))].
End C13_ex.

(* The theorems C13_read_pure ... C13_history below are sanity lemmas about the SPECIFICATION vocabulary (fs_step / fs_get
   of Spec/MiscSpec.v); the theorems about the MODEL's file-tree step (Reader.writer_write / writer_run) are the
   C13_model_* theorems at the end of this file. *)
Theorem C13_read_pure : forall fs p, fs_step fs (FRead p) = fs.
Proof. exact fs_read_pure. Qed.
Print Assumptions C13_read_pure.

(* a write changes its target and nothing else, whatever the history of operations before *)
Theorem C13_frame : forall fs t c q, q <> t -> fs_get q (fs_step fs (FWrite t c)) = fs_get q fs.
Proof. exact fs_frame. Qed.
Print Assumptions C13_frame.

Example C13_frame_nonvacuous :
  C13_ex.pa <> C13_ex.pb /\
  fs_get C13_ex.pa (fs_step C13_ex.fs0 (FWrite C13_ex.pb (Ok (of_string "new")))) = Some (of_string "x 1;") /\
  fs_get C13_ex.pb (fs_step C13_ex.fs0 (FWrite C13_ex.pb (Ok (of_string "new")))) = Some (of_string "new").
Proof.
  assert (H : C13_ex.pa <> C13_ex.pb) by discriminate.
  refine (conj H (conj (C13_frame C13_ex.fs0 _ _ _ H) _)). vm_compute. reflexivity.
Qed.

Theorem C13_write_target : forall fs t txt, fs_get t (fs_step fs (FWrite t (Ok txt))) = Some txt.
Proof. exact fs_write_target. Qed.
Print Assumptions C13_write_target.

(* a failing serialisation leaves the previously existing target (and everything else) intact *)
Theorem C13_no_clobber : forall fs t e, fs_step fs (FWrite t (Raise e)) = fs.
Proof. exact fs_no_clobber. Qed.
Print Assumptions C13_no_clobber.

(* every reachable state: only targets of successful writes ever differ from the initial tree *)
Theorem C13_history : forall ops fs q,
  (forall t txt, In (FWrite t (Ok txt)) ops -> t <> q) -> fs_get q (fold_left fs_step ops fs) = fs_get q fs.
Proof. exact fs_history_frame. Qed.
Print Assumptions C13_history.

(* non-vacuity: a history with reads, two successful writes (one creates a file) and a failing write TO the observed
   file; the observed file pa is the target of no successful write *)
Example C13_history_nonvacuous :
  (forall t txt, In (FWrite t (Ok txt)) C13_ex.ops -> t <> C13_ex.pa) /\
  fs_get C13_ex.pa (fold_left fs_step C13_ex.ops C13_ex.fs0) = Some (of_string "x 1;") /\
  fold_left fs_step C13_ex.ops C13_ex.fs0 <> C13_ex.fs0.
Proof.
  assert (H : forall t txt, In (FWrite t (Ok txt)) C13_ex.ops -> t <> C13_ex.pa).
  { intros t txt Hin. unfold C13_ex.ops in Hin. cbn [In] in Hin.
    destruct Hin as [E|[E|[E|[E|[E|[]]]]]]; try discriminate E; injection E as <- _; discriminate. }
  refine (conj H (conj (C13_history C13_ex.ops C13_ex.fs0 C13_ex.pa H) _)). vm_compute. discriminate.
Qed.

(* target name: the extension is chosen by the output format *)
Theorem C13_name_ext : forall name scope o, In o [of_string "foam"; of_string "json"; of_string "xml"] ->
  exists base, target_file_name name (Some w_parsed) scope (Some o) = base ++ c_dot :: o.
Proof. exact target_ext. Qed.
Print Assumptions C13_name_ext.

Example C13_name_ext_nonvacuous :
  let o := of_string "json" in
  In o [of_string "foam"; of_string "json"; of_string "xml"] /\
  (exists base, target_file_name (of_string "test.dict") (Some w_parsed) [SStr (of_string "scopeA"); SInt 2] (Some o) = base ++ c_dot :: o) /\
  target_file_name (of_string "test.dict") (Some w_parsed) [SStr (of_string "scopeA"); SInt 2] (Some o) = of_string "parsed.test_scopeA_2.json".
Proof.
  intros o. assert (H : In o [of_string "foam"; of_string "json"; of_string "xml"]) by (right; left; reflexivity).
  refine (conj H (conj (C13_name_ext _ _ o H) _)). vm_compute. reflexivity.
Qed.

(* the prefix is applied exactly once: deriving the target name of a derived name changes nothing *)
Theorem C13_prefix_once : forall name, word_name name ->
  let t := target_file_name name (Some w_parsed) [] None in
  target_file_name t (Some w_parsed) [] None = t /\ t = w_parsed ++ c_dot :: name.
Proof. exact target_prefix_once. Qed.
Print Assumptions C13_prefix_once.

Example C13_prefix_once_nonvacuous :
  let name := of_string "testDict_1" in
  word_name name /\
  target_file_name name (Some w_parsed) [] None = of_string "parsed.testDict_1" /\
  target_file_name (of_string "parsed.testDict_1") (Some w_parsed) [] None = of_string "parsed.testDict_1".
Proof.
  intros name.
  assert (H : word_name name) by (split; [discriminate | repeat (constructor; [reflexivity|]); constructor]).
  destruct (C13_prefix_once name H) as [A B]. cbv zeta in A, B.
  refine (conj H (conj _ _)).
  - rewrite B. vm_compute. reflexivity.
  - assert (E : of_string "parsed.testDict_1" = target_file_name name (Some w_parsed) [] None) by (vm_compute; reflexivity).
    rewrite E. exact A.
Qed.
(* the theorem speaks of dot-free names only; a name with a suffix behaves alike in this instance, but is not covered *)
Example C13_prefix_once_dotted_name :
  target_file_name (of_string "test.dict") (Some w_parsed) [] None = of_string "parsed.test.dict" /\
  target_file_name (of_string "parsed.test.dict") (Some w_parsed) [] None = of_string "parsed.test.dict".
Proof. vm_compute. split; reflexivity. Qed.

(* ================================================================================================================ *)
(* The file-tree step of the MODEL: Reader.writer_write / writer_run (DictWriter.write on a world path -> text).    *)
(* ================================================================================================================ *)
From DictIO Require Import KeyPath SDict Layout Reader WriteProofs.

Module C13_mex.
  Definition pa := of_string "/r/a".  Definition pb := of_string "/r/parsed.a".  Definition pc := of_string "/r/new".
  (* the target pb exists and holds a comment and an entry *)
  Definition w0 : world := [(pa, of_string "x 1;"); (pb, of_string "// kept
a 1;
")].
  (* the target exists but cannot be parsed: appending to it raises *)
  Definition wbad : world := [(pa, of_string "x 1;"); (pb, of_string "a {")].
  (* another world with the same content under the target *)
  Definition w1 : world := [(pc, of_string "y 2;"); (pb, of_string "// kept
a 1;
")].
  Definition d1 : list (key * tree) :=
    [(KS (of_string "a"), Leaf (SStr (of_string "5"))); (KS (of_string "b"), Leaf (SStr (of_string "2")))].
  Definition appended : str := native_header ++ of_string "// kept
a                             1;
b                             2;
".
  Definition overwritten : str := of_string "a                             5;
b                             2;
".
  Definition ops : list (bool * list (key * tree)) := [(true, d1); (false, d1); (true, [])].
End C13_mex.

(* a write (append or overwrite, succeeding or raising) leaves every other path alone -- one step and any history *)
Theorem C13_model_frame : forall foam w target p, p <> target ->
  (forall ap d, w_get p (fst (writer_write foam w target ap d)) = w_get p w) /\
  (forall ops, w_get p (writer_run foam w target ops) = w_get p w).
Proof. exact model_frame. Qed.
Print Assumptions C13_model_frame.

(* non-vacuity: an append to pb and a history of three writes to pb really change the world; pa is untouched *)
Example C13_model_frame_nonvacuous :
  C13_mex.pa <> C13_mex.pb /\
  fst (writer_write false C13_mex.w0 C13_mex.pb true C13_mex.d1) <> C13_mex.w0 /\
  w_get C13_mex.pa (fst (writer_write false C13_mex.w0 C13_mex.pb true C13_mex.d1)) = Some (of_string "x 1;") /\
  writer_run false C13_mex.w0 C13_mex.pb C13_mex.ops <> C13_mex.w0 /\
  w_get C13_mex.pa (writer_run false C13_mex.w0 C13_mex.pb C13_mex.ops) = Some (of_string "x 1;").
Proof.
  assert (H : C13_mex.pa <> C13_mex.pb) by discriminate.
  destruct (C13_model_frame false C13_mex.w0 C13_mex.pb C13_mex.pa H) as [A B].
  refine (conj H (conj _ (conj (A true C13_mex.d1) (conj _ (B C13_mex.ops))))); vm_compute; discriminate.
Qed.

(* a raising write (parse_values on the source, or reading the existing target in append mode) changes nothing *)
Theorem C13_model_no_clobber : forall foam w target ap d e,
  snd (writer_write foam w target ap d) = Raise e -> fst (writer_write foam w target ap d) = w.
Proof. exact model_no_clobber. Qed.
Print Assumptions C13_model_no_clobber.

(* non-vacuity: appending to a target that cannot be parsed raises (IndexError); the target keeps its content *)
Example C13_model_no_clobber_nonvacuous :
  snd (writer_write false C13_mex.wbad C13_mex.pb true C13_mex.d1) = Raise E_Index /\
  fst (writer_write false C13_mex.wbad C13_mex.pb true C13_mex.d1) = C13_mex.wbad /\
  w_get C13_mex.pb (fst (writer_write false C13_mex.wbad C13_mex.pb true C13_mex.d1)) = Some (of_string "a {").
Proof.
  assert (H : snd (writer_write false C13_mex.wbad C13_mex.pb true C13_mex.d1) = Raise E_Index) by (vm_compute; reflexivity).
  pose proof (C13_model_no_clobber _ _ _ _ _ _ H) as E.
  refine (conj H (conj E _)). rewrite E. vm_compute. reflexivity.
Qed.

(* a successful write puts exactly the returned text under the target; the text depends on the world only through the
   content of the target, and in overwrite mode not on the world at all *)
Theorem C13_model_target : forall foam w target ap d,
  (forall txt, snd (writer_write foam w target ap d) = Ok txt ->
     w_get target (fst (writer_write foam w target ap d)) = Some txt) /\
  (forall w', w_get target w' = w_get target w ->
     snd (writer_write foam w' target ap d) = snd (writer_write foam w target ap d)) /\
  (forall w', snd (writer_write foam w' target false d) = snd (writer_write foam w target false d)).
Proof. exact model_target. Qed.
Print Assumptions C13_model_target.

(* non-vacuity: the append keeps the comment and the existing a, adds b; a different world with the same target content
   gives the same text; the overwrite gives the same text from a world whose target is unparsable *)
Example C13_model_target_nonvacuous :
  snd (writer_write false C13_mex.w0 C13_mex.pb true C13_mex.d1) = Ok C13_mex.appended /\
  w_get C13_mex.pb (fst (writer_write false C13_mex.w0 C13_mex.pb true C13_mex.d1)) = Some C13_mex.appended /\
  C13_mex.w1 <> C13_mex.w0 /\ w_get C13_mex.pb C13_mex.w1 = w_get C13_mex.pb C13_mex.w0 /\
  snd (writer_write false C13_mex.w1 C13_mex.pb true C13_mex.d1) = Ok C13_mex.appended /\
  snd (writer_write false C13_mex.w0 C13_mex.pb false C13_mex.d1) = Ok C13_mex.overwritten /\
  snd (writer_write false C13_mex.wbad C13_mex.pb false C13_mex.d1) = Ok C13_mex.overwritten.
Proof.
  destruct (C13_model_target false C13_mex.w0 C13_mex.pb true C13_mex.d1) as [A [B _]].
  destruct (C13_model_target false C13_mex.w0 C13_mex.pb false C13_mex.d1) as [_ [_ C]].
  assert (H : snd (writer_write false C13_mex.w0 C13_mex.pb true C13_mex.d1) = Ok C13_mex.appended) by (vm_compute; reflexivity).
  assert (H1 : w_get C13_mex.pb C13_mex.w1 = w_get C13_mex.pb C13_mex.w0) by (vm_compute; reflexivity).
  assert (H2 : snd (writer_write false C13_mex.w0 C13_mex.pb false C13_mex.d1) = Ok C13_mex.overwritten) by (vm_compute; reflexivity).
  refine (conj H (conj (A _ H) (conj _ (conj H1 (conj _ (conj H2 _)))))).
  - discriminate.
  - rewrite (B C13_mex.w1 H1). exact H.
  - rewrite (C C13_mex.wbad). exact H2.
Qed.

(* the set of paths grows by at most the target (appended at the end, and only if it was absent) -- one step and any
   history *)
Theorem C13_model_domain : forall foam w target,
  (forall ap d, map fst (fst (writer_write foam w target ap d)) = map fst w \/
                (w_get target w = None /\ map fst (fst (writer_write foam w target ap d)) = map fst w ++ [target])) /\
  (forall ops, map fst (writer_run foam w target ops) = map fst w \/
               (w_get target w = None /\ map fst (writer_run foam w target ops) = map fst w ++ [target])).
Proof. exact model_domain_both. Qed.
Print Assumptions C13_model_domain.

(* non-vacuity: both alternatives occur -- writing the existing pb keeps the paths, writing the absent pc adds it *)
Example C13_model_domain_nonvacuous :
  map fst (fst (writer_write false C13_mex.w0 C13_mex.pb true C13_mex.d1)) = [C13_mex.pa; C13_mex.pb] /\
  w_get C13_mex.pc C13_mex.w0 = None /\
  map fst (fst (writer_write true C13_mex.w0 C13_mex.pc true C13_mex.d1)) = [C13_mex.pa; C13_mex.pb; C13_mex.pc] /\
  map fst (writer_run true C13_mex.w0 C13_mex.pc C13_mex.ops) = [C13_mex.pa; C13_mex.pb; C13_mex.pc] /\
  (map fst (writer_run true C13_mex.w0 C13_mex.pc C13_mex.ops) = map fst C13_mex.w0 \/
   (w_get C13_mex.pc C13_mex.w0 = None /\
    map fst (writer_run true C13_mex.w0 C13_mex.pc C13_mex.ops) = map fst C13_mex.w0 ++ [C13_mex.pc])).
Proof.
  destruct (C13_model_domain true C13_mex.w0 C13_mex.pc) as [_ B].
  refine (conj _ (conj _ (conj _ (conj _ (B C13_mex.ops))))); vm_compute; reflexivity.
Qed.
