(* C13  Reads write nothing, writes touch only their target, failures destroy nothing (logic part: the order
   serialise-then-open and the target name; OS behaviour is observed by the check's file-tree snapshots). *)
From Coq Require Import String.   (* string literals of the examples; imported first so the list names win *)
From Coq Require Import NArith ZArith List Bool.
From DictIO Require Import Chars Str Value Scalar Cli MiscSpec CliProofs.
Import ListNotations.

(* a small file tree for the non-vacuity examples *)
Module C13_ex.
  Definition pa := of_string "/r/a".  Definition pb := of_string "/r/parsed.a".  Definition pc := of_string "/r/sub/c".
  Definition fs0 : fsmap := [(pa, of_string "x 1;"); (pb, of_string "old")].
  Definition ops : list fsop :=
    [FRead pa; FWrite pb (Ok (of_string "x 1; y 2;")); FWrite pa (Raise E_Value); FRead pb; FWrite pc (Ok (of_string "new file"))].
End C13_ex.

Theorem C13_read_pure : forall fs p, fs_step fs (FRead p) = fs.
Proof. exact fs_read_pure. Qed.
Print Assumptions C13_read_pure.

(* a write changes its target and nothing else, whatever the history of operations before *)
Theorem C13_frame : forall fs t c q, q <> t -> fs_get q (fs_step fs (FWrite t c)) = fs_get q fs.
Proof. exact fs_frame. Qed.
Print Assumptions C13_frame.

Example C13_frame_nonvacuous :
  C13_ex.pa <> C13_ex.pb /\
  fs_get C13_ex.pa (fs_step C13_ex.fs0 (FWrite C13_ex.pb (Ok (of_string "new")))) = Some (of_string "x 1;") /\
  fs_get C13_ex.pb (fs_step C13_ex.fs0 (FWrite C13_ex.pb (Ok (of_string "new")))) = Some (of_string "new").
Proof.
  assert (H : C13_ex.pa <> C13_ex.pb) by discriminate.
  refine (conj H (conj (C13_frame C13_ex.fs0 _ _ _ H) _)). vm_compute. reflexivity.
Qed.

Theorem C13_write_target : forall fs t txt, fs_get t (fs_step fs (FWrite t (Ok txt))) = Some txt.
Proof. exact fs_write_target. Qed.
Print Assumptions C13_write_target.

(* a failing serialisation leaves the previously existing target (and everything else) intact *)
Theorem C13_no_clobber : forall fs t e, fs_step fs (FWrite t (Raise e)) = fs.
Proof. exact fs_no_clobber. Qed.
Print Assumptions C13_no_clobber.

(* every reachable state: only targets of successful writes ever differ from the initial tree *)
Theorem C13_history : forall ops fs q,
  (forall t txt, In (FWrite t (Ok txt)) ops -> t <> q) -> fs_get q (fold_left fs_step ops fs) = fs_get q fs.
Proof. exact fs_history_frame. Qed.
Print Assumptions C13_history.

(* non-vacuity: a history with reads, two successful writes (one creates a file) and a failing write TO the observed
   file; the observed file pa is the target of no successful write *)
Example C13_history_nonvacuous :
  (forall t txt, In (FWrite t (Ok txt)) C13_ex.ops -> t <> C13_ex.pa) /\
  fs_get C13_ex.pa (fold_left fs_step C13_ex.ops C13_ex.fs0) = Some (of_string "x 1;") /\
  fold_left fs_step C13_ex.ops C13_ex.fs0 <> C13_ex.fs0.
Proof.
  assert (H : forall t txt, In (FWrite t (Ok txt)) C13_ex.ops -> t <> C13_ex.pa).
  { intros t txt Hin. unfold C13_ex.ops in Hin. cbn [In] in Hin.
    destruct Hin as [E|[E|[E|[E|[E|[]]]]]]; try discriminate E; injection E as <- _; discriminate. }
  refine (conj H (conj (C13_history C13_ex.ops C13_ex.fs0 C13_ex.pa H) _)). vm_compute. discriminate.
Qed.

(* target name: the extension is chosen by the output format *)
Theorem C13_name_ext : forall name scope o, In o [of_string "foam"; of_string "json"; of_string "xml"] ->
  exists base, target_file_name name (Some w_parsed) scope (Some o) = base ++ c_dot :: o.
Proof. exact target_ext. Qed.
Print Assumptions C13_name_ext.

Example C13_name_ext_nonvacuous :
  let o := of_string "json" in
  In o [of_string "foam"; of_string "json"; of_string "xml"] /\
  (exists base, target_file_name (of_string "test.dict") (Some w_parsed) [SStr (of_string "scopeA"); SInt 2] (Some o) = base ++ c_dot :: o) /\
  target_file_name (of_string "test.dict") (Some w_parsed) [SStr (of_string "scopeA"); SInt 2] (Some o) = of_string "parsed.test_scopeA_2.json".
Proof.
  intros o. assert (H : In o [of_string "foam"; of_string "json"; of_string "xml"]) by (right; left; reflexivity).
  refine (conj H (conj (C13_name_ext _ _ o H) _)). vm_compute. reflexivity.
Qed.

(* the prefix is applied exactly once: deriving the target name of a derived name changes nothing *)
Theorem C13_prefix_once : forall name, word_name name ->
  let t := target_file_name name (Some w_parsed) [] None in
  target_file_name t (Some w_parsed) [] None = t /\ t = w_parsed ++ c_dot :: name.
Proof. exact target_prefix_once. Qed.
Print Assumptions C13_prefix_once.

Example C13_prefix_once_nonvacuous :
  let name := of_string "testDict_1" in
  word_name name /\
  target_file_name name (Some w_parsed) [] None = of_string "parsed.testDict_1" /\
  target_file_name (of_string "parsed.testDict_1") (Some w_parsed) [] None = of_string "parsed.testDict_1".
Proof.
  intros name.
  assert (H : word_name name) by (split; [discriminate | repeat (constructor; [reflexivity|]); constructor]).
  destruct (C13_prefix_once name H) as [A B]. cbv zeta in A, B.
  refine (conj H (conj _ _)).
  - rewrite B. vm_compute. reflexivity.
  - assert (E : of_string "parsed.testDict_1" = target_file_name name (Some w_parsed) [] None) by (vm_compute; reflexivity).
    rewrite E. exact A.
Qed.
(* the theorem speaks of dot-free names only; a name with a suffix behaves alike in this instance, but is not covered *)
Example C13_prefix_once_dotted_name :
  target_file_name (of_string "test.dict") (Some w_parsed) [] None = of_string "parsed.test.dict" /\
  target_file_name (of_string "parsed.test.dict") (Some w_parsed) [] None = of_string "parsed.test.dict".
Proof. vm_compute. split; reflexivity. Qed.
