(* placeholder until the proofs are integrated *)
From DictIO Require Import Chars Str Value Scalar.
Theorem C13_placeholder : True. Proof. exact I. Qed.
Print Assumptions C13_placeholder.
