(* C13  Reads write nothing, writes touch only their target, failures destroy nothing (logic part: the order
   serialise-then-open and the target name; OS behaviour is observed by the check's file-tree snapshots). *)
From Coq Require Import String.   (* string literals of the examples; imported first so the list names win *)
From Coq Require Import NArith ZArith List Bool.
From DictIO Require Import Chars Str Value Scalar Cli MiscSpec CliProofs.
Import ListNotations.

(* a small file tree for the non-vacuity examples *)
Module C13_ex.
  Definition pa := of_string "/r/a".  Definition pb := of_string "/r/parsed.a".  Definition pc := of_string "/r/sub/c".
  Definition fs0 : fsmap := [(pa, of_string "x 1;"); (pb, of_string "old")].
  Definition ops : list fsop :=
    [FRead pa; FWrite pb (Ok (of_string "x 1; y 2;")); FWrite pa (Raise E_Value); FRead pb; FWrite pc (Ok (of_string "new file"))].
End C13_ex.

(* The theorems C13_read_pure ... C13_history below are sanity lemmas about the SPECIFICATION vocabulary (fs_step / fs_get
   of Spec/MiscSpec.v); the theorems about the MODEL's file-tree step (Reader.writer_write / writer_run) are the
   C13_model_* theorems at the end of this file. *)
Theorem C13_read_pure : forall fs p, fs_step fs (FRead p) = fs.
Proof. exact fs_read_pure. Qed.
Print Assumptions C13_read_pure.

(* a write changes its target and nothing else, whatever the history of operations before *)
Theorem C13_frame : forall fs t c q, q <> t -> fs_get q (fs_step fs (FWrite t c)) = fs_get q fs.
Proof. exact fs_frame. Qed.
Print Assumptions C13_frame.

Example C13_frame_nonvacuous :
  C13_ex.pa <> C13_ex.pb /\
  fs_get C13_ex.pa (fs_step C13_ex.fs0 (FWrite C13_ex.pb (Ok (of_string "new")))) = Some (of_string "x 1;") /\
  fs_get C13_ex.pb (fs_step C13_ex.fs0 (FWrite C13_ex.pb (Ok (of_string "new")))) = Some (of_string "new").
Proof.
  assert (H : C13_ex.pa <> C13_ex.pb) by discriminate.
  refine (conj H (conj (C13_frame C13_ex.fs0 _ _ _ H) _)). vm_compute. reflexivity.
Qed.

Theorem C13_write_target : forall fs t txt, fs_get t (fs_step fs (FWrite t (Ok txt))) = Some txt.
Proof. exact fs_write_target. Qed.
Print Assumptions C13_write_target.

(* a failing serialisation leaves the previously existing target (and everything else) intact *)
Theorem C13_no_clobber : forall fs t e, fs_step fs (FWrite t (Raise e)) = fs.
Proof. exact fs_no_clobber. Qed.
Print Assumptions C13_no_clobber.

(* every reachable state: only targets of successful writes ever differ from the initial tree *)
Theorem C13_history : forall ops fs q,
  (forall t txt, In (FWrite t (Ok txt)) ops -> t <> q) -> fs_get q (fold_left fs_step ops fs) = fs_get q fs.
Proof. exact fs_history_frame. Qed.
Print Assumptions C13_history.

(* non-vacuity: a history with reads, two successful writes (one creates a file) and a failing write TO the observed
   file; the observed file pa is the target of no successful write *)
Example C13_history_nonvacuous :
  (forall t txt, In (FWrite t (Ok txt)) C13_ex.ops -> t <> C13_ex.pa) /\
  fs_get C13_ex.pa (fold_left fs_step C13_ex.ops C13_ex.fs0) = Some (of_string "x 1;") /\
  fold_left fs_step C13_ex.ops C13_ex.fs0 <> C13_ex.fs0.
Proof.
  assert (H : forall t txt, In (FWrite t (Ok txt)) C13_ex.ops -> t <> C13_ex.pa).
  { intros t txt Hin. unfold C13_ex.ops in Hin. cbn [In] in Hin.
    destruct Hin as [E|[E|[E|[E|[E|[]]]]]]; try discriminate E; injection E as <- _; discriminate. }
  refine (conj H (conj (C13_history C13_ex.ops C13_ex.fs0 C13_ex.pa H) _)). vm_compute. discriminate.
Qed.

(* target name: the extension is chosen by the output format *)
Theorem C13_name_ext : forall name scope o, In o [of_string "foam"; of_string "json"; of_string "xml"] ->
  exists base, target_file_name name (Some w_parsed) scope (Some o) = base ++ c_dot :: o.
Proof. exact target_ext. Qed.
Print Assumptions C13_name_ext.

Example C13_name_ext_nonvacuous :
  let o := of_string "json" in
  In o [of_string "foam"; of_string "json"; of_string "xml"] /\
  (exists base, target_file_name (of_string "test.dict") (Some w_parsed) [SStr (of_string "scopeA"); SInt 2] (Some o) = base ++ c_dot :: o) /\
  target_file_name (of_string "test.dict") (Some w_parsed) [SStr (of_string "scopeA"); SInt 2] (Some o) = of_string "parsed.test_scopeA_2.json".
Proof.
  intros o. assert (H : In o [of_string "foam"; of_string "json"; of_string "xml"]) by (right; left; reflexivity).
  refine (conj H (conj (C13_name_ext _ _ o H) _)). vm_compute. reflexivity.
Qed.

(* the prefix is applied exactly once: deriving the target name of a derived name changes nothing *)
Theorem C13_prefix_once : forall name, word_name name ->
  let t := target_file_name name (Some w_parsed) [] None in
  target_file_name t (Some w_parsed) [] None = t /\ t = w_parsed ++ c_dot :: name.
Proof. exact target_prefix_once. Qed.
Print Assumptions C13_prefix_once.

Example C13_prefix_once_nonvacuous :
  let name := of_string "testDict_1" in
  word_name name /\
  target_file_name name (Some w_parsed) [] None = of_string "parsed.testDict_1" /\
  target_file_name (of_string "parsed.testDict_1") (Some w_parsed) [] None = of_string "parsed.testDict_1".
Proof.
  intros name.
  assert (H : word_name name) by (split; [discriminate | repeat (constructor; [reflexivity|]); constructor]).
  destruct (C13_prefix_once name H) as [A B]. cbv zeta in A, B.
  refine (conj H (conj _ _)).
  - rewrite B. vm_compute. reflexivity.
  - assert (E : of_string "parsed.testDict_1" = target_file_name name (Some w_parsed) [] None) by (vm_compute; reflexivity).
    rewrite E. exact A.
Qed.
(* the theorem speaks of dot-free names only; a name with a suffix behaves alike in this instance, but is not covered *)
Example C13_prefix_once_dotted_name :
  target_file_name (of_string "test.dict") (Some w_parsed) [] None = of_string "parsed.test.dict" /\
  target_file_name (of_string "parsed.test.dict") (Some w_parsed) [] None = of_string "parsed.test.dict".
Proof. vm_compute. split; reflexivity. Qed.

(* ================================================================================================================ *)
(* The file-tree step of the MODEL: Reader.writer_write / writer_run (DictWriter.write on a world path -> text).    *)
(* ================================================================================================================ *)
From DictIO Require Import KeyPath SDict Layout Reader WriteProofs.

Module C13_mex.
  Definition pa := of_string "/r/a".  Definition pb := of_string "/r/parsed.a".  Definition pc := of_string "/r/new".
  (* the target pb exists and holds a comment and an entry *)
  Definition w0 : world := [(pa, of_string "x 1;"); (pb, of_string "// kept
a 1;
")].
  (* the target exists but cannot be parsed: appending to it raises *)
  Definition wbad : world := [(pa, of_string "x 1;"); (pb, of_string "a {")].
  (* another world with the same content under the target *)
  Definition w1 : world := [(pc, of_string "y 2;"); (pb, of_string "// kept
a 1;
")].
  Definition d1 : list (key * tree) :=
    [(KS (of_string "a"), Leaf (SStr (of_string "5"))); (KS (of_string "b"), Leaf (SStr (of_string "2")))].
  Definition appended : str := native_header ++ of_string "// kept
a                             1;
b                             2;
".
  Definition overwritten : str := of_string "a                             5;
b                             2;
".
  Definition ops : list (bool * list (key * tree)) := [(true, d1); (false, d1); (true, [])].
End C13_mex.

(* a write (append or overwrite, succeeding or raising) leaves every other path alone -- one step and any history *)
Theorem C13_model_frame : forall foam w target p, p <> target ->
  (forall ap d, w_get p (fst (writer_write foam w target ap d)) = w_get p w) /\
  (forall ops, w_get p (writer_run foam w target ops) = w_get p w).
Proof. exact model_frame. Qed.
Print Assumptions C13_model_frame.

(* non-vacuity: an append to pb and a history of three writes to pb really change the world; pa is untouched *)
Example C13_model_frame_nonvacuous :
  C13_mex.pa <> C13_mex.pb /\
  fst (writer_write false C13_mex.w0 C13_mex.pb true C13_mex.d1) <> C13_mex.w0 /\
  w_get C13_mex.pa (fst (writer_write false C13_mex.w0 C13_mex.pb true C13_mex.d1)) = Some (of_string "x 1;") /\
  writer_run false C13_mex.w0 C13_mex.pb C13_mex.ops <> C13_mex.w0 /\
  w_get C13_mex.pa (writer_run false C13_mex.w0 C13_mex.pb C13_mex.ops) = Some (of_string "x 1;").
Proof.
  assert (H : C13_mex.pa <> C13_mex.pb) by discriminate.
  destruct (C13_model_frame false C13_mex.w0 C13_mex.pb C13_mex.pa H) as [A B].
  refine (conj H (conj _ (conj (A true C13_mex.d1) (conj _ (B C13_mex.ops))))); vm_compute; discriminate.
Qed.

(* a raising write (parse_values on the source, or reading the existing target in append mode) changes nothing *)
Theorem C13_model_no_clobber : forall foam w target ap d e,
  snd (writer_write foam w target ap d) = Raise e -> fst (writer_write foam w target ap d) = w.
Proof. exact model_no_clobber. Qed.
Print Assumptions C13_model_no_clobber.

(* non-vacuity: appending to a target that cannot be parsed raises (IndexError); the target keeps its content *)
Example C13_model_no_clobber_nonvacuous :
  snd (writer_write false C13_mex.wbad C13_mex.pb true C13_mex.d1) = Raise E_Index /\
  fst (writer_write false C13_mex.wbad C13_mex.pb true C13_mex.d1) = C13_mex.wbad /\
  w_get C13_mex.pb (fst (writer_write false C13_mex.wbad C13_mex.pb true C13_mex.d1)) = Some (of_string "a {").
Proof.
  assert (H : snd (writer_write false C13_mex.wbad C13_mex.pb true C13_mex.d1) = Raise E_Index) by (vm_compute; reflexivity).
  pose proof (C13_model_no_clobber _ _ _ _ _ _ H) as E.
  refine (conj H (conj E _)). rewrite E. vm_compute. reflexivity.
Qed.

(* a successful write puts exactly the returned text under the target; the text depends on the world only through the
   content of the target, and in overwrite mode not on the world at all *)
Theorem C13_model_target : forall foam w target ap d,
  (forall txt, snd (writer_write foam w target ap d) = Ok txt ->
     w_get target (fst (writer_write foam w target ap d)) = Some txt) /\
  (forall w', w_get target w' = w_get target w ->
     snd (writer_write foam w' target ap d) = snd (writer_write foam w target ap d)) /\
  (forall w', snd (writer_write foam w' target false d) = snd (writer_write foam w target false d)).
Proof. exact model_target. Qed.
Print Assumptions C13_model_target.

(* non-vacuity: the append keeps the comment and the existing a, adds b; a different world with the same target content
   gives the same text; the overwrite gives the same text from a world whose target is unparsable *)
Example C13_model_target_nonvacuous :
  snd (writer_write false C13_mex.w0 C13_mex.pb true C13_mex.d1) = Ok C13_mex.appended /\
  w_get C13_mex.pb (fst (writer_write false C13_mex.w0 C13_mex.pb true C13_mex.d1)) = Some C13_mex.appended /\
  C13_mex.w1 <> C13_mex.w0 /\ w_get C13_mex.pb C13_mex.w1 = w_get C13_mex.pb C13_mex.w0 /\
  snd (writer_write false C13_mex.w1 C13_mex.pb true C13_mex.d1) = Ok C13_mex.appended /\
  snd (writer_write false C13_mex.w0 C13_mex.pb false C13_mex.d1) = Ok C13_mex.overwritten /\
  snd (writer_write false C13_mex.wbad C13_mex.pb false C13_mex.d1) = Ok C13_mex.overwritten.
Proof.
  destruct (C13_model_target false C13_mex.w0 C13_mex.pb true C13_mex.d1) as [A [B _]].
  destruct (C13_model_target false C13_mex.w0 C13_mex.pb false C13_mex.d1) as [_ [_ C]].
  assert (H : snd (writer_write false C13_mex.w0 C13_mex.pb true C13_mex.d1) = Ok C13_mex.appended) by (vm_compute; reflexivity).
  assert (H1 : w_get C13_mex.pb C13_mex.w1 = w_get C13_mex.pb C13_mex.w0) by (vm_compute; reflexivity).
  assert (H2 : snd (writer_write false C13_mex.w0 C13_mex.pb false C13_mex.d1) = Ok C13_mex.overwritten) by (vm_compute; reflexivity).
  refine (conj H (conj (A _ H) (conj _ (conj H1 (conj _ (conj H2 _)))))).
  - discriminate.
  - rewrite (B C13_mex.w1 H1). exact H.
  - rewrite (C C13_mex.wbad). exact H2.
Qed.

(* the set of paths grows by at most the target (appended at the end, and only if it was absent) -- one step and any
   history *)
Theorem C13_model_domain : forall foam w target,
  (forall ap d, map fst (fst (writer_write foam w target ap d)) = map fst w \/
                (w_get target w = None /\ map fst (fst (writer_write foam w target ap d)) = map fst w ++ [target])) /\
  (forall ops, map fst (writer_run foam w target ops) = map fst w \/
               (w_get target w = None /\ map fst (writer_run foam w target ops) = map fst w ++ [target])).
Proof. exact model_domain_both. Qed.
Print Assumptions C13_model_domain.

(* non-vacuity: both alternatives occur -- writing the existing pb keeps the paths, writing the absent pc adds it *)
Example C13_model_domain_nonvacuous :
  map fst (fst (writer_write false C13_mex.w0 C13_mex.pb true C13_mex.d1)) = [C13_mex.pa; C13_mex.pb] /\
  w_get C13_mex.pc C13_mex.w0 = None /\
  map fst (fst (writer_write true C13_mex.w0 C13_mex.pc true C13_mex.d1)) = [C13_mex.pa; C13_mex.pb; C13_mex.pc] /\
  map fst (writer_run true C13_mex.w0 C13_mex.pc C13_mex.ops) = [C13_mex.pa; C13_mex.pb; C13_mex.pc] /\
  (map fst (writer_run true C13_mex.w0 C13_mex.pc C13_mex.ops) = map fst C13_mex.w0 \/
   (w_get C13_mex.pc C13_mex.w0 = None /\
    map fst (writer_run true C13_mex.w0 C13_mex.pc C13_mex.ops) = map fst C13_mex.w0 ++ [C13_mex.pc])).
Proof.
  destruct (C13_model_domain true C13_mex.w0 C13_mex.pc) as [_ B].
  refine (conj _ (conj _ (conj _ (conj _ (B C13_mex.ops))))); vm_compute; reflexivity.
Qed.

(* ================================================================================================== *)
(* added from Properties/C13_add.v (2026-10-01)  *)
(* ================================================================================================== *)
(* C13 (addition)  DictParser.parse (the workflow model Parse.parse_model) creates or replaces exactly one file: its
   name, and the frame. *)
From Coq Require Import String.   (* string literals of the examples; imported first so the list names win *)
From Coq Require Import NArith ZArith List Bool.
From DictIO Require Import Chars Str Value Scalar KeyPath SDict Reader Cli Parse MiscSpec CliProofs WorkflowProofs.
Import ListNotations.

Module C13_wf_ex.
  Definition text := of_string "// top
a { b { c 1; 7 seven; } x 2; }
q 3;
".
  Definition src := of_string "/r/d.dict".
  Definition prs := of_string "/r/parsed.d.dict".        (* an earlier parse result, itself a source below *)
  Definition fs : fsys := [(src, FNative text); (prs, FNative (of_string "old 1;
"))].
  Definition scope := [SStr (of_string "a"); SStr (of_string "b")].
  (* a key with a slash *)
  Definition fs_slash : fsys := [(src, FNative (of_string "a/b { c 1; }
"))].
End C13_wf_ex.

(* the target of a successful parse: in the directory of the source (textually: Path.parent of the source, a slash, the
   derived name); the derived name is "parsed." + stem + "_" + the scope keys joined by "_" + extension, where the
   extension is chosen by the output format (out_ext: none for cpp, ".foam" for foam, the source's suffix without
   output format) and stem + source suffix = the source name with ONE leading "parsed." removed (strip_parsed) *)
Theorem C13_parse_model_target : forall fs src inc app order com scope output c target txt k,
  parse_model fs src inc app order com scope output c = Some (Ok (target, txt, k)) ->
  target = dir_of src ++ [c_slash] ++ target_file_name (base_name src) (Some w_parsed) scope output /\
  exists stem ending,
    target = dir_of src ++ [c_slash] ++ w_parsed ++ [c_dot] ++ stem ++ scope_suffix scope ++ out_ext output ending /\
    stem ++ ending = strip_parsed (base_name src).
Proof. exact parse_model_target_full. Qed.
Print Assumptions C13_parse_model_target.

Example C13_parse_model_target_nonvacuous :
  exists txt k,
    parse_model C13_wf_ex.fs C13_wf_ex.src true false false true C13_wf_ex.scope (Some (of_string "foam")) 0 =
      Some (Ok (of_string "/r/parsed.d_a_b.foam", txt, k)) /\
    dir_of C13_wf_ex.src = of_string "/r" /\ base_name C13_wf_ex.src = of_string "d.dict" /\
    scope_suffix C13_wf_ex.scope = of_string "_a_b" /\ out_ext (Some (of_string "foam")) (of_string ".dict") = of_string ".foam" /\
    exists stem ending,
      of_string "/r/parsed.d_a_b.foam" =
        dir_of C13_wf_ex.src ++ [c_slash] ++ w_parsed ++ [c_dot] ++ stem ++ scope_suffix C13_wf_ex.scope
          ++ out_ext (Some (of_string "foam")) ending /\
      stem ++ ending = strip_parsed (base_name C13_wf_ex.src).
Proof.
  destruct (parse_model C13_wf_ex.fs C13_wf_ex.src true false false true C13_wf_ex.scope (Some (of_string "foam")) 0)
    as [[[[t txt] k]|e]|] eqn:E; [|vm_compute in E; discriminate E|vm_compute in E; discriminate E].
  assert (Et : t = of_string "/r/parsed.d_a_b.foam") by (vm_compute in E; injection E as <- _ _; reflexivity).
  exists txt, k. rewrite <- Et. split; [reflexivity|].
  refine (conj _ (conj _ (conj _ (conj _ (proj2 (C13_parse_model_target _ _ _ _ _ _ _ _ _ _ _ _ E)))))); vm_compute; reflexivity.
Qed.

(* the extension follows the output format (json / xml: outside the workflow model, parse_model = None) *)
Theorem C13_parse_model_ext : forall fs src inc app order com scope c target txt k,
  (parse_model fs src inc app order com scope (Some (of_string "foam")) c = Some (Ok (target, txt, k)) ->
   exists base, target = base ++ of_string ".foam") /\
  (parse_model fs src inc app order com scope (Some (of_string "cpp")) c = Some (Ok (target, txt, k)) ->
   exists stem, target = dir_of src ++ [c_slash] ++ w_parsed ++ [c_dot] ++ stem ++ scope_suffix scope).
Proof. exact parse_model_target_ext. Qed.
Print Assumptions C13_parse_model_ext.

Example C13_parse_model_ext_nonvacuous :
  (exists txt k, parse_model C13_wf_ex.fs C13_wf_ex.src true false false true C13_wf_ex.scope (Some (of_string "foam")) 0 =
                   Some (Ok (of_string "/r/parsed.d_a_b.foam", txt, k))) /\
  (exists txt k, parse_model C13_wf_ex.fs C13_wf_ex.src true false false true C13_wf_ex.scope (Some (of_string "cpp")) 0 =
                   Some (Ok (of_string "/r/parsed.d_a_b", txt, k))) /\
  (exists txt k, parse_model C13_wf_ex.fs C13_wf_ex.src true false false true C13_wf_ex.scope None 0 =
                   Some (Ok (of_string "/r/parsed.d_a_b.dict", txt, k))).
Proof. split; [|split]; eexists; eexists; vm_compute; reflexivity. Qed.

(* the prefix is applied once, for EVERY source name (C13_prefix_once speaks of dot-free names): without scope and
   output format the target is "parsed." + the source name with one leading "parsed." removed; a name that does not
   begin with "parsed." gets the prefix, one that does is its own target; deriving twice = deriving once *)
Theorem C13_parse_model_prefix_once :
  (forall name, let t := target_file_name name (Some w_parsed) [] None in
     target_file_name t (Some w_parsed) [] None = t /\
     (starts_with w_parsed_dot name = false -> t = w_parsed_dot ++ name) /\
     (starts_with w_parsed_dot name = true -> t = name)) /\
  (forall fs src inc app order com c target txt k,
     parse_model fs src inc app order com [] None c = Some (Ok (target, txt, k)) ->
     target = dir_of src ++ [c_slash] ++ w_parsed_dot ++ strip_parsed (base_name src)) /\
  (* a source and its own parsed.* file have the same target *)
  (forall fs src src' inc app order com c target txt k target' txt' k',
     dir_of src' = dir_of src -> base_name src' = w_parsed_dot ++ base_name src ->
     starts_with w_parsed_dot (base_name src) = false ->
     parse_model fs src inc app order com [] None c = Some (Ok (target, txt, k)) ->
     parse_model fs src' inc app order com [] None c = Some (Ok (target', txt', k')) ->
     target' = target /\ target = dir_of src ++ [c_slash] ++ w_parsed_dot ++ base_name src).
Proof. exact parse_model_prefix_once. Qed.
Print Assumptions C13_parse_model_prefix_once.

(* non-vacuity: /r/d.dict and /r/parsed.d.dict are both parsed to /r/parsed.d.dict *)
Example C13_parse_model_prefix_once_nonvacuous :
  dir_of C13_wf_ex.prs = dir_of C13_wf_ex.src /\ base_name C13_wf_ex.prs = w_parsed_dot ++ base_name C13_wf_ex.src /\
  starts_with w_parsed_dot (base_name C13_wf_ex.src) = false /\
  exists txt k txt' k',
    parse_model C13_wf_ex.fs C13_wf_ex.src true false false true [] None 0 = Some (Ok (C13_wf_ex.prs, txt, k)) /\
    parse_model C13_wf_ex.fs C13_wf_ex.prs true false false true [] None 0 = Some (Ok (C13_wf_ex.prs, txt', k')) /\
    txt <> txt'.
Proof.
  assert (H1 : dir_of C13_wf_ex.prs = dir_of C13_wf_ex.src) by (vm_compute; reflexivity).
  assert (H2 : base_name C13_wf_ex.prs = w_parsed_dot ++ base_name C13_wf_ex.src) by (vm_compute; reflexivity).
  assert (H3 : starts_with w_parsed_dot (base_name C13_wf_ex.src) = false) by (vm_compute; reflexivity).
  refine (conj H1 (conj H2 (conj H3 _))).
  destruct (parse_model C13_wf_ex.fs C13_wf_ex.src true false false true [] None 0)
    as [[[[t txt] k]|e]|] eqn:E; [|vm_compute in E; discriminate E|vm_compute in E; discriminate E].
  destruct (parse_model C13_wf_ex.fs C13_wf_ex.prs true false false true [] None 0)
    as [[[[t' txt'] k']|e]|] eqn:E'; [|vm_compute in E'; discriminate E'|vm_compute in E'; discriminate E'].
  destruct (proj2 (proj2 C13_parse_model_prefix_once) _ _ _ _ _ _ _ _ _ _ _ _ _ _ H1 H2 H3 E E') as [A B].
  assert (Bt : t = C13_wf_ex.prs) by (rewrite B; vm_compute; reflexivity).
  exists txt, k, txt', k'. rewrite A, Bt. split; [reflexivity|split; [reflexivity|]].
  vm_compute in E, E'. injection E as _ <- _. injection E' as _ <- _. discriminate.
Qed.
(* consequence worth knowing: parsing a parsed.* file REPLACES THAT SOURCE (target = source); "leaves the source
   unchanged" holds exactly for paths other than the target (C13_parse_model_frame) *)
Example C13_parse_model_source_is_target_finding :
  exists txt k, parse_model C13_wf_ex.fs C13_wf_ex.prs true false false true [] None 0 = Some (Ok (C13_wf_ex.prs, txt, k)) /\
                fs_lookup C13_wf_ex.prs C13_wf_ex.fs <> Some (FNative txt).
Proof. eexists; eexists. split; [vm_compute; reflexivity|vm_compute; discriminate]. Qed.
(* same directory and source kept, for EVERY scope (the key texts of the name have slash and backslash spelled as
   underscores, repo fix 7af8903): Path.parent of the target is Path.parent of the source, Path.name of the target is
   the derived name and begins with "parsed."; and when the source names a file (last component not empty, "." or
   "..") that is not itself a parsed.* file, the target is another file (normalised paths differ) and the source keeps
   its content through a successful parse *)
Theorem C13_parse_model_same_dir : forall fs src inc app order com scope output c target txt k,
  let r := parse_model fs src inc app order com scope output c in
  r = Some (Ok (target, txt, k)) ->
  (dir_of target = dir_of src /\
   base_name target = target_file_name (base_name src) (Some w_parsed) scope output /\
   starts_with w_parsed_dot (base_name target) = true) /\
  (file_name_ok (base_name src) = true -> starts_with w_parsed_dot (base_name src) = false ->
   norm_path target <> norm_path src /\
   fs_lookup (norm_path src) (apply_parse fs r) = fs_lookup (norm_path src) fs).
Proof. exact parse_model_same_dir_source_kept. Qed.
Print Assumptions C13_parse_model_same_dir.

Example C13_parse_model_same_dir_nonvacuous :
  let r := parse_model C13_wf_ex.fs C13_wf_ex.src true true false true C13_wf_ex.scope (Some (of_string "foam")) 0 in
  file_name_ok (base_name C13_wf_ex.src) = true /\
  starts_with w_parsed_dot (base_name C13_wf_ex.src) = false /\
  exists target txt k, r = Some (Ok (target, txt, k)) /\
    dir_of target = dir_of C13_wf_ex.src /\ base_name target = of_string "parsed.d_a_b.foam" /\
    norm_path target <> norm_path C13_wf_ex.src /\
    fs_lookup (norm_path C13_wf_ex.src) (apply_parse C13_wf_ex.fs r) = Some (FNative C13_wf_ex.text) /\
    apply_parse C13_wf_ex.fs r <> C13_wf_ex.fs.
Proof.
  intros r.
  assert (H2 : file_name_ok (base_name C13_wf_ex.src) = true) by (vm_compute; reflexivity).
  assert (H3 : starts_with w_parsed_dot (base_name C13_wf_ex.src) = false) by (vm_compute; reflexivity).
  refine (conj H2 (conj H3 _)).
  destruct r as [[[[t txt] k]|e]|] eqn:E; [|vm_compute in E; discriminate E|vm_compute in E; discriminate E].
  destruct (C13_parse_model_same_dir _ _ _ _ _ _ _ _ _ _ _ _ E) as [(A & B & _) C].
  destruct (C H2 H3) as [C1 C2]. cbv zeta in C2. fold r in C2. rewrite E in C2.
  exists t, txt, k. split; [reflexivity|]. split; [exact A|]. split; [rewrite B; vm_compute; reflexivity|].
  split; [exact C1|]. split; [rewrite C2; vm_compute; reflexivity|].
  vm_compute in E. injection E as <- <- _. vm_compute. discriminate.
Qed.

(* the former finding (a scope key with a slash moved the target into a sub-directory) is repaired: the key a/b is
   found in the dict as it is, and spelled a_b in the file name; the target stays in the directory of the source *)
Example C13_parse_model_scope_slash_fixed :
  exists txt k, parse_model C13_wf_ex.fs_slash C13_wf_ex.src true false false true [SStr (of_string "a/b")] None 0 =
                  Some (Ok (of_string "/r/parsed.d_a_b.dict", txt, k)) /\
                dir_of (of_string "/r/parsed.d_a_b.dict") = dir_of C13_wf_ex.src /\ dir_of C13_wf_ex.src = of_string "/r" /\
                base_name (of_string "/r/parsed.d_a_b.dict") = of_string "parsed.d_a_b.dict".
Proof.
  destruct (parse_model C13_wf_ex.fs_slash C13_wf_ex.src true false false true [SStr (of_string "a/b")] None 0)
    as [[[[t txt] k]|e]|] eqn:E; [|vm_compute in E; discriminate E|vm_compute in E; discriminate E].
  destruct (C13_parse_model_same_dir _ _ _ _ _ _ _ _ _ _ _ _ E) as [(A & B & _) _].
  assert (Et : t = of_string "/r/parsed.d_a_b.dict") by (vm_compute in E; injection E as <- _ _; reflexivity).
  subst t. exists txt, k. split; [reflexivity|]. split; [exact A|]. split; [vm_compute; reflexivity|].
  rewrite B. vm_compute. reflexivity.
Qed.

(* frame: parse_model is a function of (file tree, arguments, counter) into one (target, text) pair; the file tree after
   the call (apply_parse: the normalised target holds the text) differs from the tree before at the target only; a
   raising call (reader or writer, e.g. the existing target of an append cannot be parsed) changes nothing *)
Theorem C13_parse_model_frame : forall fs src inc app order com scope output c,
  let r := parse_model fs src inc app order com scope output c in
  ((forall e, r = Some (Raise e) -> apply_parse fs r = fs) /\ (r = None -> apply_parse fs r = fs)) /\
  (forall target txt k, r = Some (Ok (target, txt, k)) ->
     fs_lookup (norm_path target) (apply_parse fs r) = Some (FNative txt) /\
     (forall p, p <> norm_path target -> fs_lookup p (apply_parse fs r) = fs_lookup p fs) /\
     (map fst (apply_parse fs r) = map fst fs \/
      (fs_lookup (norm_path target) fs = None /\ map fst (apply_parse fs r) = map fst fs ++ [norm_path target]))).
Proof. exact parse_model_frame. Qed.
Print Assumptions C13_parse_model_frame.

(* non-vacuity: an append onto the existing /r/parsed.d.dict replaces it and leaves the source alone; a scoped parse
   creates /r/parsed.d_a_b.dict; a parse with a missing scope raises (sys.exit) and writes nothing *)
Example C13_parse_model_frame_nonvacuous :
  let r1 := parse_model C13_wf_ex.fs C13_wf_ex.src true true false true [] None 0 in
  let r2 := parse_model C13_wf_ex.fs C13_wf_ex.src true false false true C13_wf_ex.scope None 0 in
  let r3 := parse_model C13_wf_ex.fs C13_wf_ex.src true true false true [SStr (of_string "a"); SStr (of_string "x")] None 0 in
  (exists txt k, r1 = Some (Ok (C13_wf_ex.prs, txt, k)) /\
     fs_lookup C13_wf_ex.prs (apply_parse C13_wf_ex.fs r1) = Some (FNative txt) /\
     fs_lookup C13_wf_ex.prs C13_wf_ex.fs <> Some (FNative txt) /\
     fs_lookup C13_wf_ex.src (apply_parse C13_wf_ex.fs r1) = Some (FNative C13_wf_ex.text) /\
     map fst (apply_parse C13_wf_ex.fs r1) = [C13_wf_ex.src; C13_wf_ex.prs]) /\
  (exists txt k, r2 = Some (Ok (of_string "/r/parsed.d_a_b.dict", txt, k)) /\
     map fst (apply_parse C13_wf_ex.fs r2) = [C13_wf_ex.src; C13_wf_ex.prs; of_string "/r/parsed.d_a_b.dict"]) /\
  r3 = Some (Raise E_Exit) /\ apply_parse C13_wf_ex.fs r3 = C13_wf_ex.fs.
Proof.
  intros r1 r2 r3.
  destruct (C13_parse_model_frame C13_wf_ex.fs C13_wf_ex.src true true false true [] None 0) as [_ F1].
  destruct (C13_parse_model_frame C13_wf_ex.fs C13_wf_ex.src true true false true [SStr (of_string "a"); SStr (of_string "x")] None 0) as [[F3 _] _].
  cbv zeta in F1, F3. fold r1 in F1. fold r3 in F3.
  split; [|split; [|split]].
  - destruct r1 as [[[[t txt] k]|e]|] eqn:E; [|vm_compute in E; discriminate E|vm_compute in E; discriminate E].
    assert (Et : t = C13_wf_ex.prs) by (vm_compute in E; injection E as <- _ _; reflexivity). subst t.
    destruct (F1 _ _ _ eq_refl) as (A & B & _).
    assert (En : norm_path C13_wf_ex.prs = C13_wf_ex.prs) by (vm_compute; reflexivity). rewrite En in A, B.
    exists txt, k. split; [reflexivity|split; [exact A|split; [|split]]].
    + vm_compute in E. injection E as <- _. vm_compute. discriminate.
    + rewrite B by discriminate. vm_compute. reflexivity.
    + vm_compute in E. injection E as <- _. vm_compute. reflexivity.
  - eexists; eexists. split; vm_compute; reflexivity.
  - vm_compute. reflexivity.
  - apply (F3 E_Exit). vm_compute. reflexivity.
Qed.

(* append and overwrite agree when the target does not exist yet *)
Theorem C13_parse_model_append_fresh : forall fs src inc order com scope output c,
  fs_lookup (norm_path (dir_of src ++ [c_slash] ++ target_file_name (base_name src) (Some w_parsed) scope output)) fs = None ->
  parse_model fs src inc true order com scope output c = parse_model fs src inc false order com scope output c.
Proof. exact parse_model_append_fresh. Qed.
Print Assumptions C13_parse_model_append_fresh.

Example C13_parse_model_append_fresh_nonvacuous :
  fs_lookup (norm_path (dir_of C13_wf_ex.src ++ [c_slash] ++
               target_file_name (base_name C13_wf_ex.src) (Some w_parsed) C13_wf_ex.scope None)) C13_wf_ex.fs = None /\
  parse_model C13_wf_ex.fs C13_wf_ex.src true true false true C13_wf_ex.scope None 0 =
  parse_model C13_wf_ex.fs C13_wf_ex.src true false false true C13_wf_ex.scope None 0 /\
  (exists r, parse_model C13_wf_ex.fs C13_wf_ex.src true true false true C13_wf_ex.scope None 0 = Some (Ok r)) /\
  (* with an existing target the two modes differ *)
  parse_model C13_wf_ex.fs C13_wf_ex.src true true false true [] None 0 <>
  parse_model C13_wf_ex.fs C13_wf_ex.src true false false true [] None 0.
Proof.
  assert (H : fs_lookup (norm_path (dir_of C13_wf_ex.src ++ [c_slash] ++
               target_file_name (base_name C13_wf_ex.src) (Some w_parsed) C13_wf_ex.scope None)) C13_wf_ex.fs = None)
    by (vm_compute; reflexivity).
  refine (conj H (conj (C13_parse_model_append_fresh _ _ _ _ _ _ _ _ H) (conj _ _))).
  - eexists. vm_compute. reflexivity.
  - vm_compute. discriminate.
Qed.

(* ================================================================================================== *)
(* non-vacuity examples added after the reviewer's audit (Properties/C13_nv.v, 2026-10-01)         *)
(* ================================================================================================== *)

(* ==== non-vacuity instances obtained BY APPLYING the theorems above (added after review) ================== *)

(* C13_read_pure / C13_write_target / C13_no_clobber on the small file tree: reading an existing and a missing file; a
   write that replaces a file and one that creates a file in another directory; a failing write to an existing file *)
Example C13_read_pure_nonvacuous :
  fs_step C13_ex.fs0 (FRead C13_ex.pa) = C13_ex.fs0 /\ fs_step C13_ex.fs0 (FRead C13_ex.pc) = C13_ex.fs0 /\
  fs_get C13_ex.pa C13_ex.fs0 = Some (of_string "x 1;") /\ fs_get C13_ex.pc C13_ex.fs0 = None.
Proof. refine (conj (C13_read_pure _ _) (conj (C13_read_pure _ _) _)). split; vm_compute; reflexivity. Qed.

Example C13_write_target_nonvacuous :
  fs_get C13_ex.pb (fs_step C13_ex.fs0 (FWrite C13_ex.pb (Ok (of_string "x 1; y 2;")))) = Some (of_string "x 1; y 2;") /\
  fs_get C13_ex.pc (fs_step C13_ex.fs0 (FWrite C13_ex.pc (Ok (of_string "new file")))) = Some (of_string "new file") /\
  fs_get C13_ex.pb C13_ex.fs0 = Some (of_string "old") /\ fs_get C13_ex.pc C13_ex.fs0 = None /\
  fs_step C13_ex.fs0 (FWrite C13_ex.pc (Ok (of_string "new file"))) <> C13_ex.fs0.
Proof.
  refine (conj (C13_write_target _ _ _) (conj (C13_write_target _ _ _) _)).
  split; [vm_compute; reflexivity|]. split; [vm_compute; reflexivity|]. vm_compute. discriminate.
Qed.

Example C13_no_clobber_nonvacuous :
  fs_step C13_ex.fs0 (FWrite C13_ex.pb (Raise E_Value)) = C13_ex.fs0 /\
  fs_step C13_ex.fs0 (FWrite C13_ex.pc (Raise E_Recursion)) = C13_ex.fs0 /\
  fs_get C13_ex.pb (fs_step C13_ex.fs0 (FWrite C13_ex.pb (Raise E_Value))) = Some (of_string "old").
Proof.
  refine (conj (C13_no_clobber _ _ _) (conj (C13_no_clobber _ _ _) _)). rewrite C13_no_clobber. vm_compute. reflexivity.
Qed.

(* C13_parse_model_ext: the two runs (Foam output, C++ output) of the scoped parse of d.dict, the counter at its last
   six-digit value; the premises are computed, the shapes of the target names come from the theorem *)
Example C13_parse_model_ext_applied :
  exists t1 txt1 k1 t2 txt2 k2,
    parse_model C13_wf_ex.fs C13_wf_ex.src true false false true C13_wf_ex.scope (Some (of_string "foam")) 999999 = Some (Ok (t1, txt1, k1)) /\
    parse_model C13_wf_ex.fs C13_wf_ex.src true false false true C13_wf_ex.scope (Some (of_string "cpp")) 999999 = Some (Ok (t2, txt2, k2)) /\
    (exists base, t1 = base ++ of_string ".foam") /\
    (exists stem, t2 = dir_of C13_wf_ex.src ++ [c_slash] ++ w_parsed ++ [c_dot] ++ stem ++ scope_suffix C13_wf_ex.scope) /\
    t1 = of_string "/r/parsed.d_a_b.foam" /\ t2 = of_string "/r/parsed.d_a_b" /\ k1 = 0%Z /\
    scope_suffix C13_wf_ex.scope = of_string "_a_b".
Proof.
  destruct (parse_model C13_wf_ex.fs C13_wf_ex.src true false false true C13_wf_ex.scope (Some (of_string "foam")) 999999)
    as [[[[t1 txt1] k1]|e]|] eqn:E1; [|vm_compute in E1; discriminate E1|vm_compute in E1; discriminate E1].
  destruct (parse_model C13_wf_ex.fs C13_wf_ex.src true false false true C13_wf_ex.scope (Some (of_string "cpp")) 999999)
    as [[[[t2 txt2] k2]|e]|] eqn:E2; [|vm_compute in E2; discriminate E2|vm_compute in E2; discriminate E2].
  exists t1, txt1, k1, t2, txt2, k2. split; [reflexivity|]. split; [reflexivity|].
  split; [exact (proj1 (C13_parse_model_ext _ _ _ _ _ _ _ _ _ _ _) E1)|].
  split; [exact (proj2 (C13_parse_model_ext _ _ _ _ _ _ _ _ _ _ _) E2)|].
  vm_compute in E1. injection E1 as <- _ <-. vm_compute in E2. injection E2 as <- _ _.
  repeat split; vm_compute; reflexivity.
Qed.
