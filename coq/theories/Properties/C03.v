(* C03  Parsed output is a fixed point (mechanism-level theorems; the end-to-end fixed point over n cycles is
   established per run by the check, see DESIGN.md). *)
From Coq Require Import String.   (* string literals of the examples; imported first so the list names win *)
From Coq Require Import NArith ZArith List Bool.
From DictIO Require Import Chars Str Value Scalar SDict Layout Lexer LayoutSpec LayoutProofs.
Import ListNotations.

(* writing normalises trailing white space once and for all: a second pass changes nothing *)
Theorem C03_trailing_spaces_idem : forall s, remove_trailing_spaces (remove_trailing_spaces s) = remove_trailing_spaces s.
Proof. exact remove_trailing_spaces_idem. Qed.
Print Assumptions C03_trailing_spaces_idem.

(* the header is not re-inserted on later cycles *)
Theorem C03_header_stable : forall bc, make_default_block_comment (make_default_block_comment bc) = make_default_block_comment bc.
Proof. exact default_header_idem. Qed.
Print Assumptions C03_header_stable.

(* placeholders are an injective numbering: two different ids never spell the same placeholder, so re-reading
   never confuses two comments / includes *)
Theorem C03_counter_free_placeholder : forall w i j, (i < 1000000)%N -> (j < 1000000)%N ->
  placeholder w i = placeholder w j -> i = j.
Proof. exact placeholder_injective. Qed.
Print Assumptions C03_counter_free_placeholder.

(* non-vacuity: the three hypotheses hold together exactly when the ids agree (first part); used the other way round,
   the theorem separates the placeholders of two different ids, also at the ends of the six-digit range *)
Example C03_counter_free_placeholder_nonvacuous :
  ((123456 < 1000000)%N /\ placeholder w_LINECOMMENT 123456 = placeholder w_LINECOMMENT 123456 /\
   placeholder w_LINECOMMENT 123456 = of_string "LINECOMMENT123456") /\
  placeholder w_BLOCKCOMMENT 0 = of_string "BLOCKCOMMENT000000" /\
  placeholder w_BLOCKCOMMENT 0 <> placeholder w_BLOCKCOMMENT 999999 /\
  placeholder w_INCLUDE 7 <> placeholder w_INCLUDE 70.
Proof.
  split; [vm_compute; repeat split; reflexivity|]. split; [vm_compute; reflexivity|].
  split; intro H; apply C03_counter_free_placeholder in H; try reflexivity; discriminate H.
Qed.
