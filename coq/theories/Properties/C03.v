(* C03  Parsed output is a fixed point (mechanism-level theorems; the end-to-end fixed point over n cycles is
   established per run by the check, see DESIGN.md). *)
From Coq Require Import String.   (* string literals of the examples; imported first so the list names win *)
From Coq Require Import NArith ZArith List Bool.
From DictIO Require Import Chars Str Value Scalar SDict Layout Lexer LayoutSpec LayoutProofs.
Import ListNotations.

(* writing normalises trailing white space once and for all: a second pass changes nothing *)
Theorem C03_trailing_spaces_idem : forall s, remove_trailing_spaces (remove_trailing_spaces s) = remove_trailing_spaces s.
Proof. exact remove_trailing_spaces_idem. Qed.
Print Assumptions C03_trailing_spaces_idem.

(* the header is not re-inserted on later cycles *)
Theorem C03_header_stable : forall bc, make_default_block_comment (make_default_block_comment bc) = make_default_block_comment bc.
Proof. exact default_header_idem. Qed.
Print Assumptions C03_header_stable.

(* placeholders are an injective numbering: two different ids never spell the same placeholder, so re-reading
   never confuses two comments / includes *)
Theorem C03_counter_free_placeholder : forall w i j, (i < 1000000)%N -> (j < 1000000)%N ->
  placeholder w i = placeholder w j -> i = j.
Proof. exact placeholder_injective. Qed.
Print Assumptions C03_counter_free_placeholder.

(* non-vacuity: the three hypotheses hold together exactly when the ids agree (first part); used the other way round,
   the theorem separates the placeholders of two different ids, also at the ends of the six-digit range *)
Example C03_counter_free_placeholder_nonvacuous :
  ((123456 < 1000000)%N /\ placeholder w_LINECOMMENT 123456 = placeholder w_LINECOMMENT 123456 /\
   placeholder w_LINECOMMENT 123456 = of_string "LINECOMMENT123456") /\
  placeholder w_BLOCKCOMMENT 0 = of_string "BLOCKCOMMENT000000" /\
  placeholder w_BLOCKCOMMENT 0 <> placeholder w_BLOCKCOMMENT 999999 /\
  placeholder w_INCLUDE 7 <> placeholder w_INCLUDE 70.
Proof.
  split; [vm_compute; repeat split; reflexivity|]. split; [vm_compute; reflexivity|].
  split; intro H; apply C03_counter_free_placeholder in H; try reflexivity; discriminate H.
Qed.

(* ================================================================================================ *)
(* Document level: one write/read cycle is a fixed point                                             *)
(* ================================================================================================ *)
From DictIO Require Import Value Scalar KeyPath TokParser TreeSpec NativeSpec E2ESpec.
From DictIO Require Import E2EProofs E2EHoles E2EKeyTok E2EFullProofs.
From DictIO Require Import RereadPlain RereadStr RereadTree RereadWrite RereadLex RereadNum RereadProofs RereadFix.
From Coq Require Import Lia.
Open Scope N_scope.

(* ---- plain dicts ------------------------------------------------------------------------------------ *)
(* For a plain dict in the writer domain (side conditions of C01_roundtrip): reading the written text gives
   d1 = the dict with every leaf as the classifier reads its written form; d1 is again in the writer domain, reading
   what is written for d1 gives d1 itself (the classifier is idempotent on written forms), and so does every later
   cycle; in particular the text written for d1 is reproduced byte for byte. *)
Theorem C03_plain_fixed_point : forall kvs dirc count dirc' count',
  wf (Dict kvs) = true -> writable_tree (Dict kvs) = true ->
  (-1 <= count)%Z -> (-1 <= count')%Z -> (Z.of_nat (nq (Dict kvs)) <= 1000000)%Z -> quoted_within 11 (Dict kvs) = true ->
  let d1 := reread_plain kvs in
  (exists c1, parse_string true dirc count (to_string_plain kvs) = Ok (mkParsed (mkSD d1 [] [] [] []) c1)) /\
  (exists c2, parse_string true dirc' count' (to_string_plain d1) = Ok (mkParsed (mkSD d1 [] [] [] []) c2)) /\
  wf (Dict d1) = true /\ writable_tree (Dict d1) = true /\ reread_plain d1 = d1 /\
  to_string_plain (reread_plain d1) = to_string_plain d1.
Proof. exact plain_fixed_point. Qed.
Print Assumptions C03_plain_fixed_point.

(* non-vacuity: quoted strings, a string that is re-typed to an int (0012), one that is re-typed to a bool (' true '),
   nested dicts and lists.  The last two parts show what the first cycle changes and that the second changes nothing. *)
Example C03_plain_fixed_point_nonvacuous :
  let d := [(KS (of_string "alpha"), Leaf (SStr (of_string "two words")));
            (KI 3, Dict [(KS (of_string "b"), Lst [Leaf (SStr (of_string "it's")); Dict [(KS (of_string "c"), Leaf (SStr (of_string "0012")))]]);
                         (KS (of_string "e"), Leaf (SStr (of_string "")))]);
            (KS (of_string "w"), Leaf (SStr (of_string " true ")))] in
  wf (Dict d) = true /\ writable_tree (Dict d) = true /\ (Z.of_nat (nq (Dict d)) <= 1000000)%Z /\ quoted_within 11 (Dict d) = true /\
  (exists c1, parse_string true [] 7 (to_string_plain d) = Ok (mkParsed (mkSD (reread_plain d) [] [] [] []) c1)) /\
  (exists c2, parse_string true [] 7 (to_string_plain (reread_plain d)) = Ok (mkParsed (mkSD (reread_plain d) [] [] [] []) c2)) /\
  reread_plain d <> d /\ reread_plain (reread_plain d) = reread_plain d.
Proof.
  intros d.
  assert (H1 : wf (Dict d) = true) by (vm_compute; reflexivity).
  assert (H2 : writable_tree (Dict d) = true) by (vm_compute; reflexivity).
  assert (H3 : (Z.of_nat (nq (Dict d)) <= 1000000)%Z) by (vm_compute; discriminate).
  assert (H4 : quoted_within 11 (Dict d) = true) by (vm_compute; reflexivity).
  destruct (C03_plain_fixed_point d [] 7%Z [] 7%Z H1 H2 ltac:(lia) ltac:(lia) H3 H4) as (A & B & _ & _ & C & _).
  refine (conj H1 (conj H2 (conj H3 (conj H4 (conj A (conj B (conj _ C))))))).
  vm_compute. discriminate.
Qed.

(* the text of the FIRST cycle is reproduced exactly when no leaf changes its spelling by being read back ... *)
Theorem C03_plain_text_stable : forall kvs, ktree stable_leaf (Dict kvs) = true ->
  to_string_plain (reread_plain kvs) = to_string_plain kvs.
Proof. exact plain_text_stable. Qed.
Print Assumptions C03_plain_text_stable.

Example C03_plain_text_stable_nonvacuous :
  let d := [(KS (of_string "alpha"), Leaf (SStr (of_string "two words"))); (KS (of_string "x"), Leaf (SFloat (of_string "1.50")));
            (KS (of_string "l"), Lst [Leaf (SInt 12); Leaf (SBool true)])] in
  ktree stable_leaf (Dict d) = true /\ to_string_plain (reread_plain d) = to_string_plain d.
Proof. intros d. assert (H : ktree stable_leaf (Dict d) = true) by (vm_compute; reflexivity). exact (conj H (C03_plain_text_stable d H)). Qed.

(* ... and not in general (counterexample to "the written text is stable from the first cycle on" for dicts that were
   not themselves read from a file): the string 0012 is written 0012, read back as the int 12 and then written 12 *)
Example C03_plain_text_not_stable :
  let d := [(KS (of_string "n"), Leaf (SStr (of_string "0012")))] in
  wf (Dict d) = true /\ writable_tree (Dict d) = true /\
  reread_plain d = [(KS (of_string "n"), Leaf (SInt 12))] /\
  to_string_plain (reread_plain d) <> to_string_plain d.
Proof. vm_compute. repeat split; try reflexivity. discriminate. Qed.

(* ---- SDicts with comments --------------------------------------------------------------------------- *)
(* WANTED (full statement): for every SDict s that the reader itself returns for a commented source without includes and
   expressions,  parse_string true dir count (to_string_sd s) = Ok (mkParsed s' count')  with s' = s up to the header, the
   order of the top-level block comments, the leaf normalisation written_value and the placeholder numbers; applying the
   cycle twice gives the same canonical form as applying it once, and the same bytes.
   PROVED (partial): exactly this, for the class  rereadable  below.  What the class leaves out of "what the reader
   returns", and why:
     - comment entries inside dicts that are elements of LISTS (the library handles them; the proof treats a list as one
       block of text and has no comment lines inside it);
     - two line comments with the same text in DIFFERENT dicts, and block comments with equal texts sharing one id (the
       numbering of the result is keyed by the comment text; the reader only guarantees distinct texts per dict);
     - source texts not written by the library: the theorems start from an SDict (every SDict read from a file the library
       wrote is in the class: C03_reread_closed).
   The remaining conditions of the class are necessary: each excludes a case in which the model (and the library) loses or
   changes a comment in one write/read cycle (C12_finding_* in C12.v). *)
(* The class (RereadTree.rereadable): what the reader itself returns for a commented source without includes and
   expressions -- ordinary entries in the writer domain at any depth, comment placeholder entries at any dict level
   reached through dicts (NOT inside dicts that sit in lists: restriction of this theorem), tables as described at the
   definition.  Reading the text written for such an SDict returns  number count (written_doc s) : the canonical
   document (comment placeholders resolved to id-free entries carrying the comment text, top-level block comments
   first, the header in front) renumbered in text order.  Side conditions: the counter is at least -1 and there are at
   most a million comments of each kind and quoted literals (six-digit placeholders). *)
Theorem C03_reread_partial : forall s dir count, rereadable s = true -> (-1 <= count)%Z ->
  (Z.of_nat (length (lc_list (written_doc s))) <= 1000000)%Z -> (Z.of_nat (length (bc_list (written_doc s))) <= 1000000)%Z ->
  (Z.of_nat (length (lit_list (written_doc s))) <= 1000000)%Z ->
  parse_string true dir count (to_string_sd s) =
  Ok (mkParsed (number count (written_doc s)) (count_after count (written_doc s))).
Proof. exact reread_sd. Qed.
Print Assumptions C03_reread_partial.

(* the example SDict: a line comment first, a top-level block comment without the C++ mark (so the default header is
   put in front of it), a nested dict with a line comment and a multi-line block comment, a quoted string, a string
   that is re-typed (0012), a list with a dict; comment texts with quotes, a dollar and the word COMMENT *)
Definition ex_ph (w : str) (i : N) : key * tree := (KS (placeholder w i), Leaf (SStr (placeholder w i))).
Definition ex_sd : sdict :=
  mkSD [ ex_ph w_LINECOMMENT 7;
         (KS (of_string "a"), Leaf (SStr (of_string "0012")));
         ex_ph w_BLOCKCOMMENT 3;
         (KS (of_string "sub"), Dict [ex_ph w_LINECOMMENT 2; (KS (of_string "b"), Leaf (SStr (of_string "x y"))); ex_ph w_BLOCKCOMMENT 5;
              (KS (of_string "l"), Lst [Leaf (SInt 1); Dict [(KS (of_string "c"), Leaf (SInt 2))]])]);
         ex_ph w_LINECOMMENT 4 ]
       [(2, of_string "// two"); (4, of_string "// four"); (7, of_string "// seven $x 'q' COMMENT")]
       [(3, of_string "/* three */"); (5, of_string "/* five
   more # */")] [] [].

Example C03_reread_partial_nonvacuous :
  rereadable ex_sd = true /\
  (Z.of_nat (length (lc_list (written_doc ex_sd))) <= 1000000)%Z /\ (Z.of_nat (length (bc_list (written_doc ex_sd))) <= 1000000)%Z /\
  (Z.of_nat (length (lit_list (written_doc ex_sd))) <= 1000000)%Z /\
  to_string_sd ex_sd = of_string
"/*---------------------------------*- C++ -*----------------------------------*\
filetype dictionary; coding utf-8; version 0.1; local --; purpose --;
\*----------------------------------------------------------------------------*/
/* three */
// seven $x 'q' COMMENT
a                             0012;
sub
{
    // two
    b                         'x y';
    /* five
   more # */
    l
    (
        1
        {
            c                 2;
        }
    );
}
// four
" /\
  parse_string true [] 41 (to_string_sd ex_sd) = Ok (mkParsed (number 41 (written_doc ex_sd)) 45) /\
  (* the comments in text order with their exact texts, renumbered 42.. (line) and 0.. (block, the default header first) *)
  sd_lc (number 41 (written_doc ex_sd)) = [(42, of_string "// seven $x 'q' COMMENT"); (43, of_string "// two"); (44, of_string "// four")] /\
  map fst (sd_bc (number 41 (written_doc ex_sd))) = [0; 1; 2] /\
  map fst (sd_data (number 41 (written_doc ex_sd))) =
    [KS (of_string "BLOCKCOMMENT000000"); KS (of_string "BLOCKCOMMENT000001"); KS (of_string "LINECOMMENT000042");
     KS (of_string "a"); KS (of_string "sub"); KS (of_string "LINECOMMENT000044")].
Proof.
  assert (H0 : rereadable ex_sd = true) by (vm_compute; reflexivity).
  assert (H1 : (Z.of_nat (length (lc_list (written_doc ex_sd))) <= 1000000)%Z) by (vm_compute; discriminate).
  assert (H2 : (Z.of_nat (length (bc_list (written_doc ex_sd))) <= 1000000)%Z) by (vm_compute; discriminate).
  assert (H3 : (Z.of_nat (length (lit_list (written_doc ex_sd))) <= 1000000)%Z) by (vm_compute; discriminate).
  pose proof (C03_reread_partial ex_sd [] 41%Z H0 ltac:(lia) H1 H2 H3) as R.
  assert (Hc : count_after 41 (written_doc ex_sd) = 45%Z) by (vm_compute; reflexivity). rewrite Hc in R.
  refine (conj H0 (conj H1 (conj H2 (conj H3 (conj _ (conj R _)))))); vm_compute; repeat split; reflexivity.
Qed.

(* The fixed point.  With c = the canonical document of the written text, s1 = the SDict read back, c1 = c with its
   leaves read back: s1 is again re-readable; the second cycle returns an SDict s2 with the same canonical form c1 as s1
   (same data, same comments with the same texts in the same places: only the placeholder numbers depend on the
   counter); and writing s2 reproduces the text written for s1 byte for byte. *)
Theorem C03_reread_fixed_point_partial : forall s dir count dir' count', rereadable s = true -> (-1 <= count)%Z -> (-1 <= count')%Z ->
  (Z.of_nat (length (lc_list (written_doc s))) <= 1000000)%Z -> (Z.of_nat (length (bc_list (written_doc s))) <= 1000000)%Z ->
  (Z.of_nat (length (lit_list (written_doc s))) <= 1000000)%Z ->
  let c := written_doc s in let s1 := number count c in let c1 := cwv c in let s2 := number count' c1 in
  parse_string true dir count (to_string_sd s) = Ok (mkParsed s1 (count_after count c)) /\
  rereadable s1 = true /\
  parse_string true dir' count' (to_string_sd s1) = Ok (mkParsed s2 (count_after count' c1)) /\
  canon s1 = c1 /\ canon s2 = c1 /\
  to_string_sd s2 = to_string_sd s1.
Proof. exact reread_fixed_point. Qed.
Print Assumptions C03_reread_fixed_point_partial.

Example C03_reread_fixed_point_partial_nonvacuous :
  let c := written_doc ex_sd in let s1 := number 41 c in let s2 := number 45 (cwv c) in
  rereadable ex_sd = true /\
  parse_string true [] 41 (to_string_sd ex_sd) = Ok (mkParsed s1 45) /\ rereadable s1 = true /\
  parse_string true [] 45 (to_string_sd s1) = Ok (mkParsed s2 49) /\
  canon s1 = cwv c /\ canon s2 = cwv c /\ to_string_sd s2 = to_string_sd s1 /\
  (* the first cycle changes the text (the default header is added, block comments move to the top, 0012 becomes 12) *)
  to_string_sd s1 <> to_string_sd ex_sd.
Proof.
  intros c s1 s2.
  assert (H0 : rereadable ex_sd = true) by (vm_compute; reflexivity).
  assert (H1 : (Z.of_nat (length (lc_list (written_doc ex_sd))) <= 1000000)%Z) by (vm_compute; discriminate).
  assert (H2 : (Z.of_nat (length (bc_list (written_doc ex_sd))) <= 1000000)%Z) by (vm_compute; discriminate).
  assert (H3 : (Z.of_nat (length (lit_list (written_doc ex_sd))) <= 1000000)%Z) by (vm_compute; discriminate).
  destruct (C03_reread_fixed_point_partial ex_sd [] 41%Z [] 45%Z H0 ltac:(lia) ltac:(lia) H1 H2 H3) as (A & B & C & D & E & F).
  assert (Hc1 : count_after 41 (written_doc ex_sd) = 45%Z) by (vm_compute; reflexivity). rewrite Hc1 in A.
  assert (Hc2 : count_after 45 (cwv (written_doc ex_sd)) = 49%Z) by (vm_compute; reflexivity). rewrite Hc2 in C.
  refine (conj H0 (conj A (conj B (conj C (conj D (conj E (conj F _))))))). vm_compute. discriminate.
Qed.

(* the re-read SDict of a sorted document with a marked header is re-readable, and its written document is the document
   with its leaves read back (used twice in the fixed point theorem) *)
Theorem C03_reread_closed : forall c count, cdoc_ok c = true -> csort c = c -> has_header c = true -> (-1 <= count)%Z ->
  (Z.of_nat (length (lc_list c)) <= 1000000)%Z -> (Z.of_nat (length (bc_list c)) <= 1000000)%Z ->
  rereadable (number count c) = true /\ written_doc (number count c) = cwv c.
Proof. exact number_rereadable. Qed.
Print Assumptions C03_reread_closed.

Example C03_reread_closed_nonvacuous :
  let c := written_doc ex_sd in
  cdoc_ok c = true /\ csort c = c /\ has_header c = true /\
  (Z.of_nat (length (lc_list c)) <= 1000000)%Z /\ (Z.of_nat (length (bc_list c)) <= 1000000)%Z /\
  rereadable (number 41 c) = true /\ written_doc (number 41 c) = cwv c.
Proof.
  intros c.
  assert (H0 : cdoc_ok c = true) by (vm_compute; reflexivity).
  assert (H1 : csort c = c) by (vm_compute; reflexivity).
  assert (H2 : has_header c = true) by (vm_compute; reflexivity).
  assert (H3 : (Z.of_nat (length (lc_list c)) <= 1000000)%Z) by (vm_compute; discriminate).
  assert (H4 : (Z.of_nat (length (bc_list c)) <= 1000000)%Z) by (vm_compute; discriminate).
  exact (conj H0 (conj H1 (conj H2 (conj H3 (conj H4 (C03_reread_closed c 41%Z H0 H1 H2 ltac:(lia) H3 H4)))))).
Qed.

(* ================================================================================================== *)
(* added from Properties/C03_add.v (2026-10-01)  *)
(* ================================================================================================== *)
(* C03 (addition)  SDicts with comments AND include directives: one write/read cycle is a fixed point. *)
From Coq Require Import String.   (* string literals of the examples; imported first so the list names win *)
From Coq Require Import NArith ZArith List Bool Lia.
From DictIO Require Import Chars Str Value Scalar KeyPath SDict Layout Lexer TokParser TreeSpec NativeSpec LayoutSpec E2ESpec.
From DictIO Require Import E2EProofs E2EHoles E2EKeyTok E2EFullProofs LayoutProofs.
From DictIO Require Import RereadPlain RereadStr RereadTree RereadWrite RereadLex RereadNum RereadProofs RereadFix RereadOff.
From DictIO Require Import RereadIncStage RereadIncLex RereadIncParse RereadIncRead RereadIncWrite RereadIncProofs RereadIncFix.
Import ListNotations.
Open Scope N_scope.

(* Reading the text written for an SDict of the class rereadable_inc (see C12_add.v: comments at any dict level, include
   entries at top level) returns  number_inc dir count (written_doc_inc s) (inc_names s) : the canonical comment document
   renumbered in text order, with one include entry per directive behind the top-level block comments (ids = the counter
   values after those of the line comments), and the include table (directive, name, path_join dir name). *)
Theorem C03_reread_inc_partial : forall s dir count, rereadable_inc s = true -> (Z.of_nat (length (sd_lc s)) < 1000000)%Z -> (-1 <= count)%Z ->
  (Z.of_nat (length (lc_list (written_doc_inc s))) <= 1000000)%Z -> (Z.of_nat (length (bc_list (written_doc_inc s))) <= 1000000)%Z ->
  (Z.of_nat (length (lit_list (written_doc_inc s))) <= 1000000)%Z -> (Z.of_nat (length (inc_names s)) <= 1000000)%Z ->
  parse_string true dir count (to_string_sd s) =
  Ok (mkParsed (number_inc dir count (written_doc_inc s) (inc_names s)) (count_after_inc count (written_doc_inc s) (inc_names s))).
Proof. exact reread_inc. Qed.
Print Assumptions C03_reread_inc_partial.

(* The fixed point.  With c = the canonical document of the written text, names = the file names of the include entries,
   s1 = the SDict read back, c1 = c with its leaves read back: s1 is again in the class, with the same names; the second
   cycle (possibly from another folder and another counter value) returns an SDict s2 with the same canonical document c1
   and the same names; and writing s2 reproduces the text written for s1 byte for byte. *)
Theorem C03_reread_inc_fixed_point_partial : forall s dir count dir' count', rereadable_inc s = true -> (Z.of_nat (length (sd_lc s)) < 1000000)%Z ->
  (-1 <= count)%Z -> (-1 <= count')%Z ->
  (Z.of_nat (length (lc_list (written_doc_inc s))) < 1000000)%Z -> (Z.of_nat (length (bc_list (written_doc_inc s))) <= 1000000)%Z ->
  (Z.of_nat (length (lit_list (written_doc_inc s))) <= 1000000)%Z -> (Z.of_nat (length (inc_names s)) <= 1000000)%Z ->
  let c := written_doc_inc s in let names := inc_names s in
  let s1 := number_inc dir count c names in let c1 := cwv c in let s2 := number_inc dir' count' c1 names in
  parse_string true dir count (to_string_sd s) = Ok (mkParsed s1 (count_after_inc count c names)) /\
  rereadable_inc s1 = true /\
  parse_string true dir' count' (to_string_sd s1) = Ok (mkParsed s2 (count_after_inc count' c1 names)) /\
  written_doc_inc s1 = c1 /\ written_doc_inc s2 = c1 /\ inc_names s1 = names /\ inc_names s2 = names /\
  to_string_sd s2 = to_string_sd s1.
Proof. exact reread_inc_fixed_point. Qed.
Print Assumptions C03_reread_inc_fixed_point_partial.

(* the re-read SDict of a sorted comment document with a marked header and a list of admissible, pairwise distinct names is
   in the class, its written document is the document with its leaves read back, its include names are the names *)
Theorem C03_reread_inc_closed : forall dir count c names, cdoc_ok c = true -> csort c = c -> has_header c = true -> (-1 <= count)%Z ->
  (Z.of_nat (length (lc_list c)) <= 1000000)%Z -> (Z.of_nat (length (bc_list c)) <= 1000000)%Z -> (Z.of_nat (length names) <= 1000000)%Z ->
  forallb name_cond names = true -> NoDup names -> forallb incfree (bc_list c) = true ->
  rereadable_inc (number_inc dir count c names) = true /\ written_doc_inc (number_inc dir count c names) = cwv c /\
  inc_names (number_inc dir count c names) = names /\ length (sd_lc (number_inc dir count c names)) = length (lc_list c).
Proof. exact number_inc_rereadable. Qed.
Print Assumptions C03_reread_inc_closed.

(* the example SDict: a line comment first, an include entry, a string that is re-typed (0012), a second include entry (a file
   in a sub-directory; the ids are not in text order), a top-level block comment WITHOUT the C++ mark (so the default header
   is put in front of it), a nested dict with a block comment and a quoted string *)
Definition ex03i_ph (w : str) (i : N) : key * tree := (KS (placeholder w i), Leaf (SStr (placeholder w i))).
Definition ex03i_sd : sdict :=
  mkSD [ ex03i_ph w_LINECOMMENT 9; ex03i_ph w_INCLUDE 7; (KS (of_string "a"), Leaf (SStr (of_string "0012")));
         ex03i_ph w_INCLUDE 3; ex03i_ph w_BLOCKCOMMENT 2;
         (KS (of_string "sub"), Dict [ex03i_ph w_BLOCKCOMMENT 5; (KS (of_string "b"), Leaf (SStr (of_string "x y")))]) ]
       [(9, of_string "// nine")] [(2, of_string "/* two */"); (5, of_string "/* five */")]
       [(3, (of_string "#include 'sub/inc.dict'", of_string "sub/inc.dict", of_string "/d/sub/inc.dict"));
        (7, (of_string "#include 'top.dict'", of_string "top.dict", of_string "/d/top.dict"))] [].

Example C03_reread_inc_fixed_point_partial_nonvacuous :
  let c := written_doc_inc ex03i_sd in let names := inc_names ex03i_sd in
  let s1 := number_inc (of_string "/e") 41 c names in let s2 := number_inc (of_string "/f") 46 (cwv c) names in
  rereadable_inc ex03i_sd = true /\
  to_string_sd ex03i_sd = native_header ++ of_string
"/* two */
#include top.dict
#include 'sub/inc.dict'
// nine
a                             0012;
sub
{
    /* five */
    b                         'x y';
}
" /\
  parse_string true (of_string "/e") 41 (to_string_sd ex03i_sd) = Ok (mkParsed s1 45) /\ rereadable_inc s1 = true /\
  parse_string true (of_string "/f") 46 (to_string_sd s1) = Ok (mkParsed s2 50) /\
  written_doc_inc s1 = cwv c /\ written_doc_inc s2 = cwv c /\ inc_names s1 = names /\ inc_names s2 = names /\
  to_string_sd s2 = to_string_sd s1 /\
  (* the include tables of the two cycles: same names, ids from the counter, paths relative to the folder read from *)
  sd_inc s1 = [(43, (of_string "#include top.dict", of_string "top.dict", of_string "/e/top.dict"));
               (44, (of_string "#include 'sub/inc.dict'", of_string "sub/inc.dict", of_string "/e/sub/inc.dict"))] /\
  sd_inc s2 = [(48, (of_string "#include top.dict", of_string "top.dict", of_string "/f/top.dict"));
               (49, (of_string "#include 'sub/inc.dict'", of_string "sub/inc.dict", of_string "/f/sub/inc.dict"))] /\
  (* the first cycle changes the text (0012 becomes 12), the second does not *)
  to_string_sd s1 <> to_string_sd ex03i_sd.
Proof.
  intros c names s1 s2.
  assert (H0 : rereadable_inc ex03i_sd = true) by (vm_compute; reflexivity).
  assert (Hl : (Z.of_nat (length (sd_lc ex03i_sd)) < 1000000)%Z) by (vm_compute; reflexivity).
  assert (H1 : (Z.of_nat (length (lc_list (written_doc_inc ex03i_sd))) < 1000000)%Z) by (vm_compute; reflexivity).
  assert (H2 : (Z.of_nat (length (bc_list (written_doc_inc ex03i_sd))) <= 1000000)%Z) by (vm_compute; discriminate).
  assert (H3 : (Z.of_nat (length (lit_list (written_doc_inc ex03i_sd))) <= 1000000)%Z) by (vm_compute; discriminate).
  assert (H4 : (Z.of_nat (length (inc_names ex03i_sd)) <= 1000000)%Z) by (vm_compute; discriminate).
  destruct (C03_reread_inc_fixed_point_partial ex03i_sd (of_string "/e") 41%Z (of_string "/f") 46%Z H0 Hl ltac:(lia) ltac:(lia) H1 H2 H3 H4)
    as (A & B & C & D & E & F & G & H).
  assert (Hc1 : count_after_inc 41 (written_doc_inc ex03i_sd) (inc_names ex03i_sd) = 45%Z) by (vm_compute; reflexivity). rewrite Hc1 in A.
  assert (Hc2 : count_after_inc 46 (cwv (written_doc_inc ex03i_sd)) (inc_names ex03i_sd) = 50%Z) by (vm_compute; reflexivity). rewrite Hc2 in C.
  split; [exact H0|]. split; [vm_compute; reflexivity|]. split; [exact A|]. split; [exact B|]. split; [exact C|].
  split; [exact D|]. split; [exact E|]. split; [exact F|]. split; [exact G|]. split; [exact H|].
  split; [vm_compute; reflexivity|]. split; [vm_compute; reflexivity|]. vm_compute. discriminate.
Qed.

Example C03_reread_inc_closed_nonvacuous :
  let c := written_doc_inc ex03i_sd in let names := inc_names ex03i_sd in
  cdoc_ok c = true /\ csort c = c /\ has_header c = true /\ forallb name_cond names = true /\ NoDup names /\ forallb incfree (bc_list c) = true /\
  rereadable_inc (number_inc (of_string "/e") 41 c names) = true /\ written_doc_inc (number_inc (of_string "/e") 41 c names) = cwv c /\
  inc_names (number_inc (of_string "/e") 41 c names) = names.
Proof.
  intros c names.
  assert (H0 : cdoc_ok c = true) by (vm_compute; reflexivity).
  assert (H1 : csort c = c) by (vm_compute; reflexivity).
  assert (H2 : has_header c = true) by (vm_compute; reflexivity).
  assert (H3 : forallb name_cond names = true) by (vm_compute; reflexivity).
  assert (H4 : NoDup names) by (apply nodupb_NoDup; vm_compute; reflexivity).
  assert (H5 : forallb incfree (bc_list c) = true) by (vm_compute; reflexivity).
  assert (B1 : (Z.of_nat (length (lc_list c)) <= 1000000)%Z) by (vm_compute; discriminate).
  assert (B2 : (Z.of_nat (length (bc_list c)) <= 1000000)%Z) by (vm_compute; discriminate).
  assert (B3 : (Z.of_nat (length names) <= 1000000)%Z) by (vm_compute; discriminate).
  destruct (C03_reread_inc_closed (of_string "/e") 41%Z c names H0 H1 H2 ltac:(lia) B1 B2 B3 H3 H4 H5) as (A & B & C & _).
  split; [exact H0|]. split; [exact H1|]. split; [exact H2|]. split; [exact H3|]. split; [exact H4|]. split; [exact H5|].
  split; [exact A|]. split; [exact B|exact C].
Qed.

(* ================================================================================================== *)
(* non-vacuity examples added after the reviewer's audit (Properties/C03_nv.v, 2026-10-01)         *)
(* ================================================================================================== *)

(* ==== non-vacuity instances obtained BY APPLYING the theorems above (added after review) ================== *)

(* C03_trailing_spaces_idem: blanks and tabs at line ends, inside a quoted string, an empty line, a last line of blanks *)
Example C03_trailing_spaces_idem_nonvacuous :
  let s := of_string "a 1;  " ++ [c_lf] ++ of_string "sub   " ++ [c_tab; c_lf] ++ of_string "{  " ++ [c_lf] ++
           of_string "    b   'x y ';   " ++ [c_lf] ++ of_string "}" ++ [c_lf; c_lf] ++ of_string "  " in
  remove_trailing_spaces (remove_trailing_spaces s) = remove_trailing_spaces s /\
  remove_trailing_spaces s = of_string "a 1;
sub
{
    b   'x y ';
}

" /\ remove_trailing_spaces s <> s.
Proof. intros s. split; [exact (C03_trailing_spaces_idem s)|]. split; [vm_compute; reflexivity | vm_compute; discriminate]. Qed.

(* C03_header_stable: a block comment without the C++ mark gets the default header in front, once *)
Example C03_header_stable_nonvacuous :
  let bc := of_string "/* two */" in
  make_default_block_comment (make_default_block_comment bc) = make_default_block_comment bc /\
  make_default_block_comment bc = native_header ++ bc /\ make_default_block_comment bc <> bc.
Proof. intros bc. split; [exact (C03_header_stable bc)|]. split; [vm_compute; reflexivity | vm_compute; discriminate]. Qed.

(* C03_reread_inc_partial on the example SDict (line comment, two include entries whose ids are not in text order, a string
   that is re-typed, a block comment without the C++ mark, a nested dict with a block comment and a quoted string), the
   counter three steps before the six-digit wrap-around: the new ids wrap (999998, 999999, 0, 1) *)
Example C03_reread_inc_partial_nonvacuous :
  let s := ex03i_sd in let dir := of_string "/e" in
  rereadable_inc s = true /\ (Z.of_nat (length (sd_lc s)) < 1000000)%Z /\
  (Z.of_nat (length (lc_list (written_doc_inc s))) <= 1000000)%Z /\ (Z.of_nat (length (bc_list (written_doc_inc s))) <= 1000000)%Z /\
  (Z.of_nat (length (lit_list (written_doc_inc s))) <= 1000000)%Z /\ (Z.of_nat (length (inc_names s)) <= 1000000)%Z /\
  parse_string true dir 999997%Z (to_string_sd s) =
    Ok (mkParsed (number_inc dir 999997%Z (written_doc_inc s) (inc_names s)) 1%Z) /\
  sd_inc (number_inc dir 999997%Z (written_doc_inc s) (inc_names s)) =
    [(999999, (of_string "#include top.dict", of_string "top.dict", of_string "/e/top.dict"));
     (0, (of_string "#include 'sub/inc.dict'", of_string "sub/inc.dict", of_string "/e/sub/inc.dict"))] /\
  length (lc_list (written_doc_inc s)) = 1%nat /\ length (bc_list (written_doc_inc s)) = 3%nat /\ length (lit_list (written_doc_inc s)) = 1%nat.
Proof.
  intros s dir.
  assert (H0 : rereadable_inc s = true) by (vm_compute; reflexivity).
  assert (Hl : (Z.of_nat (length (sd_lc s)) < 1000000)%Z) by (vm_compute; reflexivity).
  assert (H1 : (Z.of_nat (length (lc_list (written_doc_inc s))) <= 1000000)%Z) by (vm_compute; discriminate).
  assert (H2 : (Z.of_nat (length (bc_list (written_doc_inc s))) <= 1000000)%Z) by (vm_compute; discriminate).
  assert (H3 : (Z.of_nat (length (lit_list (written_doc_inc s))) <= 1000000)%Z) by (vm_compute; discriminate).
  assert (H4 : (Z.of_nat (length (inc_names s)) <= 1000000)%Z) by (vm_compute; discriminate).
  pose proof (C03_reread_inc_partial s dir 999997%Z H0 Hl ltac:(lia) H1 H2 H3 H4) as A.
  assert (Hc : count_after_inc 999997%Z (written_doc_inc s) (inc_names s) = 1%Z) by (vm_compute; reflexivity). rewrite Hc in A.
  refine (conj H0 (conj Hl (conj H1 (conj H2 (conj H3 (conj H4 (conj A _))))))).
  vm_compute. repeat split; reflexivity.
Qed.

(* ================================================================================================== *)
(* added from Properties/C03_add.v (2026-10-01)                                              *)
(* ================================================================================================== *)
(* C03 (addition)  SDicts with comments inside dicts that are LIST ITEMS: one write/read cycle is a fixed point. *)
From Coq Require Import String.   (* string literals of the examples; imported first so the list names win *)
From Coq Require Import NArith ZArith List Bool Lia.
From DictIO Require Import Chars Str Value Scalar KeyPath SDict Layout Lexer TokParser TreeSpec NativeSpec LayoutSpec E2ESpec.
From DictIO Require Import E2EHoles RereadList.
Import ListNotations.
Open Scope N_scope.

(* C03_reread_partial leaves out "comment entries inside dicts that are elements of LISTS".  They are covered here: the
   class  rereadable_l  (Proofs/RereadList.v; see C12_add.v) is  rereadable  with comment placeholder entries allowed at
   every dict level -- also in dicts that are list items, at any nesting (dict in list in dict, dict in list in list,
   scalar items mixed in) -- and with the comment list, the canonical form and the numbering entering lists.  Reading the
   text written for such an SDict returns  number_l count (written_doc_l s) : the canonical document renumbered in text
   order.  What remains excluded is what C03_reread_partial excludes otherwise (equal comment texts, source texts not
   written by the library, includes in nested dicts, expressions). *)
Theorem C03_reread_list_partial : forall s dir count, rereadable_l s = true -> (-1 <= count)%Z ->
  (Z.of_nat (length (lc_list_l (written_doc_l s))) <= 1000000)%Z -> (Z.of_nat (length (bc_list_l (written_doc_l s))) <= 1000000)%Z ->
  (Z.of_nat (length (lit_list_l (written_doc_l s))) <= 1000000)%Z ->
  parse_string true dir count (to_string_sd s) =
  Ok (mkParsed (number_l count (written_doc_l s)) (count_after_l count (written_doc_l s))).
Proof. exact reread_l. Qed.
Print Assumptions C03_reread_list_partial.

(* The fixed point, as C03_reread_fixed_point_partial: s1 is again in the class; the second cycle returns the same
   canonical form; writing s2 reproduces the text written for s1 byte for byte. *)
Theorem C03_reread_list_fixed_point_partial : forall s dir count dir' count', rereadable_l s = true -> (-1 <= count)%Z -> (-1 <= count')%Z ->
  (Z.of_nat (length (lc_list_l (written_doc_l s))) <= 1000000)%Z -> (Z.of_nat (length (bc_list_l (written_doc_l s))) <= 1000000)%Z ->
  (Z.of_nat (length (lit_list_l (written_doc_l s))) <= 1000000)%Z ->
  let c := written_doc_l s in let s1 := number_l count c in let c1 := cwv_l c in let s2 := number_l count' c1 in
  parse_string true dir count (to_string_sd s) = Ok (mkParsed s1 (count_after_l count c)) /\
  rereadable_l s1 = true /\
  parse_string true dir' count' (to_string_sd s1) = Ok (mkParsed s2 (count_after_l count' c1)) /\
  canon_l s1 = c1 /\ canon_l s2 = c1 /\
  to_string_sd s2 = to_string_sd s1.
Proof. exact reread_fixed_point_l. Qed.
Print Assumptions C03_reread_list_fixed_point_partial.

(* the class is closed: whatever is read back from a file the library wrote (a sorted document with a marked header) is
   in the class again *)
Theorem C03_reread_list_closed : forall c count, cdoc_ok_l c = true -> csort_l c = c -> has_header_l c = true -> (-1 <= count)%Z ->
  (Z.of_nat (length (lc_list_l c)) <= 1000000)%Z -> (Z.of_nat (length (bc_list_l c)) <= 1000000)%Z ->
  rereadable_l (number_l count c) = true /\ written_doc_l (number_l count c) = cwv_l c.
Proof. exact reread_closed_l. Qed.
Print Assumptions C03_reread_list_closed.

(* the example: no marked header of its own (the default header is put in front), a string that is re-typed (0012), a
   list with scalar items (one quoted), a dict item with a line comment and a two-line block comment, a LIST item holding
   a dict with a comment (dict in list in list), and a dict item whose nested dict holds a list of a dict with comments
   (dict in list in dict in dict in list) *)
Definition ex03l_ph (w : str) (i : N) : key * tree := (KS (placeholder w i), Leaf (SStr (placeholder w i))).
Definition ex03l_sd : sdict :=
  mkSD [ ex03l_ph w_LINECOMMENT 7;
         (KS (of_string "a"), Leaf (SStr (of_string "0012")));
         ex03l_ph w_BLOCKCOMMENT 3;
         (KS (of_string "cases"),
          Lst [ Leaf (SInt 1); Leaf (SStr (of_string "x y"));
                Dict [ex03l_ph w_LINECOMMENT 2; (KS (of_string "k"), Leaf (SInt 1)); ex03l_ph w_BLOCKCOMMENT 5];
                Leaf (SInt 3);
                Lst [ Leaf (SInt 4); Dict [ex03l_ph w_LINECOMMENT 4; (KS (of_string "k"), Leaf (SInt 2))]; Leaf (SInt 5) ];
                Dict [ (KS (of_string "sub"), Dict [ (KS (of_string "m"), Lst [ Dict [ex03l_ph w_BLOCKCOMMENT 6; ex03l_ph w_LINECOMMENT 1] ]) ]) ];
                Leaf (SInt 6) ]) ]
       [(1, of_string "// one"); (2, of_string "// two"); (4, of_string "// four"); (7, of_string "// seven $x 'q' COMMENT")]
       [(3, of_string "/* three */"); (5, of_string "/* five
   more # */"); (6, of_string "/* six */")] [] [].

Example C03_reread_list_partial_nonvacuous :
  rereadable_l ex03l_sd = true /\
  (Z.of_nat (length (lc_list_l (written_doc_l ex03l_sd))) <= 1000000)%Z /\ (Z.of_nat (length (bc_list_l (written_doc_l ex03l_sd))) <= 1000000)%Z /\
  (Z.of_nat (length (lit_list_l (written_doc_l ex03l_sd))) <= 1000000)%Z /\
  to_string_sd ex03l_sd = of_string
"/*---------------------------------*- C++ -*----------------------------------*\
filetype dictionary; coding utf-8; version 0.1; local --; purpose --;
\*----------------------------------------------------------------------------*/
/* three */
// seven $x 'q' COMMENT
a                             0012;
cases
(
    1                 'x y'
    {
        // two
        k                     1;
        /* five
   more # */
    }
    3                 (
        4
        {
            // four
            k                 2;
        }
        5
    )

    {
        sub
        {
            m
            (

                {
                    /* six */
                    // one
                }
            );
        }
    }
    6
);
" /\
  parse_string true [] 41 (to_string_sd ex03l_sd) = Ok (mkParsed (number_l 41 (written_doc_l ex03l_sd)) 46) /\
  (* the comments in text order, lists entered, renumbered 42.. (line) and 0.. (block, the default header first) *)
  sd_lc (number_l 41 (written_doc_l ex03l_sd)) =
    [(42, of_string "// seven $x 'q' COMMENT"); (43, of_string "// two"); (44, of_string "// four"); (45, of_string "// one")] /\
  map fst (sd_bc (number_l 41 (written_doc_l ex03l_sd))) = [0; 1; 2; 3] /\
  (* the data read back: the placeholder entries inside the list dicts carry the new numbers *)
  sd_data (number_l 41 (written_doc_l ex03l_sd)) =
    [ ex03l_ph w_BLOCKCOMMENT 0; ex03l_ph w_BLOCKCOMMENT 1; ex03l_ph w_LINECOMMENT 42;
      (KS (of_string "a"), Leaf (SInt 12));
      (KS (of_string "cases"),
       Lst [ Leaf (SInt 1); Leaf (SStr (of_string "x y"));
             Dict [ex03l_ph w_LINECOMMENT 43; (KS (of_string "k"), Leaf (SInt 1)); ex03l_ph w_BLOCKCOMMENT 2];
             Leaf (SInt 3);
             Lst [ Leaf (SInt 4); Dict [ex03l_ph w_LINECOMMENT 44; (KS (of_string "k"), Leaf (SInt 2))]; Leaf (SInt 5) ];
             Dict [ (KS (of_string "sub"), Dict [ (KS (of_string "m"), Lst [ Dict [ex03l_ph w_BLOCKCOMMENT 3; ex03l_ph w_LINECOMMENT 45] ]) ]) ];
             Leaf (SInt 6) ]) ].
Proof.
  assert (H0 : rereadable_l ex03l_sd = true) by (vm_compute; reflexivity).
  assert (H1 : (Z.of_nat (length (lc_list_l (written_doc_l ex03l_sd))) <= 1000000)%Z) by (vm_compute; discriminate).
  assert (H2 : (Z.of_nat (length (bc_list_l (written_doc_l ex03l_sd))) <= 1000000)%Z) by (vm_compute; discriminate).
  assert (H3 : (Z.of_nat (length (lit_list_l (written_doc_l ex03l_sd))) <= 1000000)%Z) by (vm_compute; discriminate).
  pose proof (C03_reread_list_partial ex03l_sd [] 41%Z H0 ltac:(lia) H1 H2 H3) as R.
  assert (Hc : count_after_l 41 (written_doc_l ex03l_sd) = 46%Z) by (vm_compute; reflexivity). rewrite Hc in R.
  refine (conj H0 (conj H1 (conj H2 (conj H3 (conj _ (conj R _)))))); vm_compute; repeat split; reflexivity.
Qed.

Example C03_reread_list_fixed_point_partial_nonvacuous :
  let c := written_doc_l ex03l_sd in let s1 := number_l 41 c in let s2 := number_l 46 (cwv_l c) in
  rereadable_l ex03l_sd = true /\
  parse_string true [] 41 (to_string_sd ex03l_sd) = Ok (mkParsed s1 46) /\ rereadable_l s1 = true /\
  parse_string true [] 46 (to_string_sd s1) = Ok (mkParsed s2 51) /\
  canon_l s1 = cwv_l c /\ canon_l s2 = cwv_l c /\ to_string_sd s2 = to_string_sd s1 /\
  (* the first cycle changes the text (0012 becomes 12) *)
  to_string_sd s1 <> to_string_sd ex03l_sd.
Proof.
  intros c s1 s2.
  assert (H0 : rereadable_l ex03l_sd = true) by (vm_compute; reflexivity).
  assert (H1 : (Z.of_nat (length (lc_list_l (written_doc_l ex03l_sd))) <= 1000000)%Z) by (vm_compute; discriminate).
  assert (H2 : (Z.of_nat (length (bc_list_l (written_doc_l ex03l_sd))) <= 1000000)%Z) by (vm_compute; discriminate).
  assert (H3 : (Z.of_nat (length (lit_list_l (written_doc_l ex03l_sd))) <= 1000000)%Z) by (vm_compute; discriminate).
  destruct (C03_reread_list_fixed_point_partial ex03l_sd [] 41%Z [] 46%Z H0 ltac:(lia) ltac:(lia) H1 H2 H3) as (A & B & C & D & E & F).
  assert (Hc1 : count_after_l 41 (written_doc_l ex03l_sd) = 46%Z) by (vm_compute; reflexivity). rewrite Hc1 in A.
  assert (Hc2 : count_after_l 46 (cwv_l (written_doc_l ex03l_sd)) = 51%Z) by (vm_compute; reflexivity). rewrite Hc2 in C.
  refine (conj H0 (conj A (conj B (conj C (conj D (conj E (conj F _))))))). vm_compute. discriminate.
Qed.

Example C03_reread_list_closed_nonvacuous :
  let c := written_doc_l ex03l_sd in
  cdoc_ok_l c = true /\ csort_l c = c /\ has_header_l c = true /\
  (Z.of_nat (length (lc_list_l c)) <= 1000000)%Z /\ (Z.of_nat (length (bc_list_l c)) <= 1000000)%Z /\
  rereadable_l (number_l 41 c) = true /\ written_doc_l (number_l 41 c) = cwv_l c.
Proof.
  intros c.
  assert (H0 : cdoc_ok_l c = true) by (vm_compute; reflexivity).
  assert (H1 : csort_l c = c) by (vm_compute; reflexivity).
  assert (H2 : has_header_l c = true) by (vm_compute; reflexivity).
  assert (H3 : (Z.of_nat (length (lc_list_l c)) <= 1000000)%Z) by (vm_compute; discriminate).
  assert (H4 : (Z.of_nat (length (bc_list_l c)) <= 1000000)%Z) by (vm_compute; discriminate).
  exact (conj H0 (conj H1 (conj H2 (conj H3 (conj H4 (C03_reread_list_closed c 41%Z H0 H1 H2 ltac:(lia) H3 H4)))))).
Qed.

(* ================================================================================================== *)
(* added from Properties/C03_add2.v (2026-10-01)                                              *)
(* ================================================================================================== *)
(* C03 (addition)  The fixed point at the level of DictReader.read: read (root + included file), write, read again. *)
From Coq Require Import String.   (* string literals of the examples; imported first so the list names win *)
From Coq Require Import NArith ZArith List Bool Lia.
From DictIO Require Import Chars Str Value Scalar KeyPath SDict Layout Lexer TokParser Reader Paths TreeSpec NativeSpec LayoutSpec E2ESpec MiscSpec.
From DictIO Require Import E2EFullProofs RereadPlain RereadTree RereadProofs RereadFix AppendSeq AppendCommented.
From DictIO Require Import RereadIncRead RereadIncWrite RereadIncProofs RereadIncFix RereadRead.
Import ListNotations.
Open Scope N_scope.

(* C03_reread_inc_fixed_point_partial and C12_includes_survive_partial are about NativeParser.parse_string on ONE text:
   the included files are never merged.  Here the reader is DictReader.read with includes and comments on
   ( read_plain fs root true true c : parse the root, merge the included files, final self-merge), the writer is
   NativeFormatter.to_string, and the second read finds the included file still in place.

   WANTED (full statement): for every file system in which the first read succeeds, with s1 = the state read, fs' = fs with
   the root overwritten by the text written for s1, the second read returns a state s2 with the ordinary data and the
   comments of s1 and the same included files, and writing s2 reproduces the text written for s1 byte for byte.
   PROVED (partial): this, for a root whose parse A is in the class rereadable_inc (comments at any dict level, include
   entries at top level: C12_add.v) with ONE include entry, the included file being the writer's text of a plain dict db
   of the writer domain (no comments, no includes of its own: to_string_plain db).
     s1 = merged_state_inc A m : A with m = db as it is read back merged FIRST-WINS into its data (keys of the root win,
          dicts present on both sides are merged recursively, new keys go behind the entries of their level); the
          comment and include entries at their places; the tables of A.  The merged keys are ordinary entries of s1.
     The writer emits the directive AND the merged keys; the second read merges the included file into a state that
     holds its keys already: s2 = number_inc (dir_of root) c' (written_doc_inc s1) [n], the parse of the written root
     ALONE (C03_reread_inc_partial); it is in the class again, has the canonical document of s1 with the leaves read
     back, the same include name and the same path.
     Bytes: the second cycle writes the bytes of the first as soon as the leaves of the ROOT's parse are stable
     (cwv (written_doc_inc A) = written_doc_inc A : every ordinary leaf is read back from its written form as itself;
     so for every root the library wrote: C03_reread_inc_fixed_point_partial).  This is a hypothesis of convenience:
     no parse with an unstable leaf was found (the model carries a float as its source literal, so the library's
     first-cycle normalisation 1.50 -> 1.5 is outside the model).
   Side conditions and why:
     merge_safe (sd_data A) m, merge_safe (cwv (written_doc_inc s1)) m : no entry that m addresses at top level is
        self-named (value = key, key of the form of a placeholder, or value referring to $key): SDict.merge REPLACES
        such an entry (C16_self_named_finding);
     str_eqb pb (norm_path root) = false : the include does not name the root itself;
     (-1 <= cA) : the counter after the parse of the root; always true for c >= -1, there is no general lemma for it;
     inc_ids A = [i] and the path of the table entry = path_join (dir_of root) n : the ONE table entry belongs to the ONE
        include entry of the data and its path is the one the parser computes (true of every parse; not proved in
        general, computed on the example);
     the six-digit bounds on comments, quoted literals (those of the root plus those of db). *)
Theorem C03_read_write_read_partial : forall fs root c c' text A cA i d n db,
  fs_lookup (norm_path root) fs = Some (FNative text) ->
  parse_string true (dir_of root) c text = Ok (mkParsed A cA) -> (-1 <= cA)%Z -> (-1 <= c')%Z ->
  rereadable_inc A = true ->
  sd_inc A = [(i, (d, n, path_join (dir_of root) n))] -> inc_ids A = [i] ->
  let pb := norm_path (path_join (dir_of root) n) in
  str_eqb pb (norm_path root) = false ->
  fs_lookup pb fs = Some (FNative (to_string_plain db)) ->
  wdom db = true ->
  let m := reread_plain db in
  merge_safe (sd_data A) m = true ->
  let s1 := merged_state_inc A m in
  merge_safe (cwv (written_doc_inc s1)) m = true ->
  (Z.of_nat (length (sd_lc A)) < 1000000)%Z ->
  (Z.of_nat (length (lc_list (written_doc_inc A))) < 1000000)%Z -> (Z.of_nat (length (bc_list (written_doc_inc A))) <= 1000000)%Z ->
  (Z.of_nat (length (lit_list (written_doc_inc A)) + nq (Dict db)) <= 1000000)%Z ->
  let fs' := fs_put (norm_path root) (FNative (to_string_sd s1)) fs in
  let s2 := number_inc (dir_of root) c' (written_doc_inc s1) [n] in
  exists c1 c2,
    read_plain fs root true true c = Ok (s1, c1) /\ rereadable_inc s1 = true /\
    read_plain fs' root true true c' = Ok (s2, c2) /\ rereadable_inc s2 = true /\
    cstrip (Dict (sd_data (strip_inc s1))) = Dict (merge_spec (kvs_of (cstrip (Dict (sd_data (strip_inc A))))) m) /\
    cstrip (Dict (sd_data (strip_inc s2))) = map_leaves written_value (cstrip (Dict (sd_data (strip_inc s1)))) /\
    written_doc_inc s2 = cwv (written_doc_inc s1) /\
    inc_names s1 = [n] /\ inc_names s2 = [n] /\
    map (fun e => snd (snd e)) (sd_inc s2) = [path_join (dir_of root) n] /\
    (cwv (written_doc_inc A) = written_doc_inc A ->
     cstrip (Dict (sd_data (strip_inc s2))) = cstrip (Dict (sd_data (strip_inc s1))) /\
     written_doc_inc s2 = written_doc_inc s1 /\ to_string_sd s2 = to_string_sd s1).
Proof. exact read_write_read. Qed.
Print Assumptions C03_read_write_read_partial.

(* the two-file instance: the root holds a line comment, the directive, a key, a dict with a block comment and a quoted
   string, and a dict z that the included file has too (merged recursively: the root's entry v first, then w); the
   included file is the writer's text of { y 2; z { w '0012' } } -- the string 0012 is read back as the int 12 *)
Definition ex03r_root : str := of_string "/d/root.dict".
Definition ex03r_text : str := of_string "// hello
#include 'b.dict'
x 1;
sub { /* inner */ q 'a b'; }
z { v 7; }
".
Definition ex03r_db : list (key * tree) :=
  [(KS (of_string "y"), Leaf (SInt 2)); (KS (of_string "z"), Dict [(KS (of_string "w"), Leaf (SStr (of_string "0012")))])].
Definition ex03r_fs : fsys := [(ex03r_root, FNative ex03r_text); (of_string "/d/b.dict", FNative (to_string_plain ex03r_db))].
Definition ex03r_A : sdict :=
  match parse_string true (dir_of ex03r_root) 41 ex03r_text with Ok p => pr_sd p | Raise _ => sd_empty end.

Example C03_read_write_read_partial_nonvacuous :
  let m := reread_plain ex03r_db in let s1 := merged_state_inc ex03r_A m in
  let fs' := fs_put (norm_path ex03r_root) (FNative (to_string_sd s1)) ex03r_fs in
  let s2 := number_inc (of_string "/d") 44 (written_doc_inc s1) [of_string "b.dict"] in
  to_string_plain ex03r_db = of_string
"y                             2;
z
{
    w                         0012;
}
" /\
  parse_string true (dir_of ex03r_root) 41 ex03r_text = Ok (mkParsed ex03r_A 44) /\ rereadable_inc ex03r_A = true /\
  sd_inc ex03r_A = [(43, (of_string "#include 'b.dict'", of_string "b.dict", of_string "/d/b.dict"))] /\
  (exists c1 c2,
    read_plain ex03r_fs ex03r_root true true 41 = Ok (s1, c1) /\ rereadable_inc s1 = true /\
    read_plain fs' ex03r_root true true 44 = Ok (s2, c2) /\ rereadable_inc s2 = true /\
    cstrip (Dict (sd_data (strip_inc s2))) = cstrip (Dict (sd_data (strip_inc s1))) /\
    inc_names s1 = [of_string "b.dict"] /\ inc_names s2 = [of_string "b.dict"] /\
    map (fun e => snd (snd e)) (sd_inc s2) = [of_string "/d/b.dict"] /\
    to_string_sd s2 = to_string_sd s1) /\
  (* the first state: the include entry, the comment entries, the root's keys, then the merged keys; z merged *)
  sd_data s1 =
    [ (KS (of_string "LINECOMMENT000042"), Leaf (SStr (of_string "LINECOMMENT000042")));
      (KS (of_string "INCLUDE000043"), Leaf (SStr (of_string "INCLUDE000043")));
      (KS (of_string "x"), Leaf (SInt 1));
      (KS (of_string "sub"), Dict [ (KS (of_string "BLOCKCOMMENT000000"), Leaf (SStr (of_string "BLOCKCOMMENT000000")));
                                    (KS (of_string "q"), Leaf (SStr (of_string "a b"))) ]);
      (KS (of_string "z"), Dict [ (KS (of_string "v"), Leaf (SInt 7)); (KS (of_string "w"), Leaf (SInt 12)) ]);
      (KS (of_string "y"), Leaf (SInt 2)) ] /\
  (* the text written in both cycles: the directive AND the merged keys *)
  to_string_sd s1 = native_header ++ of_string
"#include b.dict
// hello
x                             1;
sub
{
    /* inner */
    q                         'a b';
}
z
{
    v                         7;
    w                         12;
}
y                             2;
" /\
  (* the ordinary data of both states *)
  cstrip (Dict (sd_data (strip_inc s2))) =
    Dict [ (KS (of_string "x"), Leaf (SInt 1)); (KS (of_string "sub"), Dict [(KS (of_string "q"), Leaf (SStr (of_string "a b")))]);
           (KS (of_string "z"), Dict [ (KS (of_string "v"), Leaf (SInt 7)); (KS (of_string "w"), Leaf (SInt 12)) ]);
           (KS (of_string "y"), Leaf (SInt 2)) ].
Proof.
  intros m s1 fs' s2.
  assert (Hp : parse_string true (dir_of ex03r_root) 41 ex03r_text = Ok (mkParsed ex03r_A 44)) by (vm_compute; reflexivity).
  assert (Hf : fs_lookup (norm_path ex03r_root) ex03r_fs = Some (FNative ex03r_text)) by (vm_compute; reflexivity).
  assert (Hr : rereadable_inc ex03r_A = true) by (vm_compute; reflexivity).
  assert (Hi : sd_inc ex03r_A = [(43, (of_string "#include 'b.dict'", of_string "b.dict", path_join (dir_of ex03r_root) (of_string "b.dict")))])
    by (vm_compute; reflexivity).
  assert (Hids : inc_ids ex03r_A = [43]) by (vm_compute; reflexivity).
  assert (Hne : str_eqb (norm_path (path_join (dir_of ex03r_root) (of_string "b.dict"))) (norm_path ex03r_root) = false) by (vm_compute; reflexivity).
  assert (Hfb : fs_lookup (norm_path (path_join (dir_of ex03r_root) (of_string "b.dict"))) ex03r_fs = Some (FNative (to_string_plain ex03r_db)))
    by (vm_compute; reflexivity).
  assert (Hdb : wdom ex03r_db = true) by (vm_compute; reflexivity).
  assert (Hs1 : merge_safe (sd_data ex03r_A) (reread_plain ex03r_db) = true) by (vm_compute; reflexivity).
  assert (Hs2 : merge_safe (cwv (written_doc_inc (merged_state_inc ex03r_A (reread_plain ex03r_db)))) (reread_plain ex03r_db) = true)
    by (vm_compute; reflexivity).
  assert (Bl : (Z.of_nat (length (sd_lc ex03r_A)) < 1000000)%Z) by (vm_compute; reflexivity).
  assert (B1 : (Z.of_nat (length (lc_list (written_doc_inc ex03r_A))) < 1000000)%Z) by (vm_compute; reflexivity).
  assert (B2 : (Z.of_nat (length (bc_list (written_doc_inc ex03r_A))) <= 1000000)%Z) by (vm_compute; discriminate).
  assert (B3 : (Z.of_nat (length (lit_list (written_doc_inc ex03r_A)) + nq (Dict ex03r_db)) <= 1000000)%Z) by (vm_compute; discriminate).
  assert (Hst : cwv (written_doc_inc ex03r_A) = written_doc_inc ex03r_A) by (vm_compute; reflexivity).
  destruct (C03_read_write_read_partial ex03r_fs ex03r_root 41%Z 44%Z ex03r_text ex03r_A 44%Z 43 _ (of_string "b.dict") ex03r_db
              Hf Hp ltac:(lia) ltac:(lia) Hr Hi Hids Hne Hfb Hdb Hs1 Hs2 Bl B1 B2 B3)
    as (c1 & c2 & R1 & R2 & R3 & R4 & _ & _ & _ & R8 & R9 & R10 & R11).
  destruct (R11 Hst) as (S1 & _ & S3).
  assert (Ed : dir_of ex03r_root = of_string "/d") by (vm_compute; reflexivity). rewrite Ed in R3, R4, R9, R10, S1, S3.
  assert (Epj : path_join (of_string "/d") (of_string "b.dict") = of_string "/d/b.dict") by (vm_compute; reflexivity). rewrite Epj in R10.
  split; [vm_compute; reflexivity|]. split; [exact Hp|]. split; [exact Hr|]. split; [vm_compute; reflexivity|].
  split; [exists c1, c2; exact (conj R1 (conj R2 (conj R3 (conj R4 (conj S1 (conj R8 (conj R9 (conj R10 S3))))))))|].
  split; [vm_compute; reflexivity|]. split; [vm_compute; reflexivity|]. vm_compute. reflexivity.
Qed.

(* ---- the data of the second read, from conditions on the STATE that is written ----------------------------------- *)
(* WANTED (C03_read_write_read_data): for ANY file system in which the first read succeeded with a state s1 of the class,
   the second read's ordinary data are those of s1.
   PROVED (partial): no reference to the first read at all -- s1 is ANY state of the class rereadable_inc with ONE include
   entry (name n); the file the name points to (in the file system fs' of the second read) is the writer's text of a plain
   dict db of the writer domain; the canonical document of s1 holds m = db as it is read back ALREADY
   ( merge_spec (written_doc_inc s1) m = written_doc_inc s1 : a decidable condition on s1 and db; it holds for every
   s1 = merged_state_inc A m, by idempotence of the merge).  Then the second read succeeds, its state is in the class,
   its ordinary data are those of s1 with every leaf as the classifier reads its written form, its canonical document
   is that of s1 with the leaves read back, it has the same include name and the path of that name.
   Missing for the full statement: several include entries, included files with comments / includes of their own / JSON
   included files (their placeholder ids differ between the two reads; the merged comment entries are de-duplicated
   by the clean-up by TEXT). *)
Theorem C03_read_write_read_data_partial : forall fs' root c' s1 n db,
  rereadable_inc s1 = true -> (Z.of_nat (length (sd_lc s1)) < 1000000)%Z -> (-1 <= c')%Z ->
  (Z.of_nat (length (lc_list (written_doc_inc s1))) < 1000000)%Z -> (Z.of_nat (length (bc_list (written_doc_inc s1))) <= 1000000)%Z ->
  (Z.of_nat (length (lit_list (written_doc_inc s1))) <= 1000000)%Z ->
  inc_names s1 = [n] ->
  wdom db = true -> (Z.of_nat (nq (Dict db)) <= 1000000)%Z ->
  let m := reread_plain db in
  merge_spec (written_doc_inc s1) m = written_doc_inc s1 ->
  merge_safe (cwv (written_doc_inc s1)) m = true ->
  fs_lookup (norm_path root) fs' = Some (FNative (to_string_sd s1)) ->
  fs_lookup (norm_path (path_join (dir_of root) n)) fs' = Some (FNative (to_string_plain db)) ->
  exists s2 c2, read_plain fs' root true true c' = Ok (s2, c2) /\ rereadable_inc s2 = true /\
    cstrip (Dict (sd_data (strip_inc s2))) = map_leaves written_value (cstrip (Dict (sd_data (strip_inc s1)))) /\
    written_doc_inc s2 = cwv (written_doc_inc s1) /\ inc_names s2 = inc_names s1 /\
    map (fun e => snd (snd e)) (sd_inc s2) = [path_join (dir_of root) n].
Proof. exact second_read_data. Qed.
Print Assumptions C03_read_write_read_data_partial.

(* a state that no read produced: an include entry between two keys, a line comment, the key z that the included file has
   too, the string 0012 (not yet re-typed: the leaves of this state are NOT stable, the data of the second read are the
   re-typed ones) *)
Definition ex03r_ph (w : str) (i : N) : key * tree := (KS (placeholder w i), Leaf (SStr (placeholder w i))).
Definition ex03r_s : sdict :=
  mkSD [ (KS (of_string "a"), Leaf (SStr (of_string "0012"))); ex03r_ph w_INCLUDE 7; ex03r_ph w_LINECOMMENT 3;
         (KS (of_string "z"), Dict [(KS (of_string "v"), Leaf (SInt 7)); (KS (of_string "w"), Leaf (SInt 99))]);
         (KS (of_string "y"), Leaf (SStr (of_string "kept"))) ]
       [(3, of_string "// three")] []
       [(7, (of_string "#include 'b.dict'", of_string "b.dict", of_string "/elsewhere/b.dict"))] [].

Example C03_read_write_read_data_partial_nonvacuous :
  let fs' := [(of_string "/d/root.dict", FNative (to_string_sd ex03r_s)); (of_string "/d/b.dict", FNative (to_string_plain ex03r_db))] in
  rereadable_inc ex03r_s = true /\ inc_names ex03r_s = [of_string "b.dict"] /\ wdom ex03r_db = true /\
  merge_spec (written_doc_inc ex03r_s) (reread_plain ex03r_db) = written_doc_inc ex03r_s /\
  exists s2 c2, read_plain fs' ex03r_root true true 5 = Ok (s2, c2) /\ rereadable_inc s2 = true /\
    cstrip (Dict (sd_data (strip_inc s2))) =
      Dict [ (KS (of_string "a"), Leaf (SInt 12));
             (KS (of_string "z"), Dict [(KS (of_string "v"), Leaf (SInt 7)); (KS (of_string "w"), Leaf (SInt 99))]);
             (KS (of_string "y"), Leaf (SStr (of_string "kept"))) ] /\
    inc_names s2 = [of_string "b.dict"] /\ map (fun e => snd (snd e)) (sd_inc s2) = [of_string "/d/b.dict"].
Proof.
  intros fs'.
  assert (Hr : rereadable_inc ex03r_s = true) by (vm_compute; reflexivity).
  assert (Hn : inc_names ex03r_s = [of_string "b.dict"]) by (vm_compute; reflexivity).
  assert (Hdb : wdom ex03r_db = true) by (vm_compute; reflexivity).
  assert (Habs : merge_spec (written_doc_inc ex03r_s) (reread_plain ex03r_db) = written_doc_inc ex03r_s) by (vm_compute; reflexivity).
  assert (Hs2 : merge_safe (cwv (written_doc_inc ex03r_s)) (reread_plain ex03r_db) = true) by (vm_compute; reflexivity).
  assert (Bl : (Z.of_nat (length (sd_lc ex03r_s)) < 1000000)%Z) by (vm_compute; reflexivity).
  assert (B1 : (Z.of_nat (length (lc_list (written_doc_inc ex03r_s))) < 1000000)%Z) by (vm_compute; reflexivity).
  assert (B2 : (Z.of_nat (length (bc_list (written_doc_inc ex03r_s))) <= 1000000)%Z) by (vm_compute; discriminate).
  assert (B3 : (Z.of_nat (length (lit_list (written_doc_inc ex03r_s))) <= 1000000)%Z) by (vm_compute; discriminate).
  assert (Bq : (Z.of_nat (nq (Dict ex03r_db)) <= 1000000)%Z) by (vm_compute; discriminate).
  assert (Hf : fs_lookup (norm_path ex03r_root) fs' = Some (FNative (to_string_sd ex03r_s))) by (vm_compute; reflexivity).
  assert (Hfb : fs_lookup (norm_path (path_join (dir_of ex03r_root) (of_string "b.dict"))) fs' = Some (FNative (to_string_plain ex03r_db)))
    by (vm_compute; reflexivity).
  destruct (C03_read_write_read_data_partial fs' ex03r_root 5%Z ex03r_s (of_string "b.dict") ex03r_db Hr Bl ltac:(lia) B1 B2 B3 Hn Hdb Bq Habs Hs2 Hf Hfb)
    as (s2 & c2 & R1 & R2 & R3 & _ & R5 & R6).
  split; [exact Hr|]. split; [exact Hn|]. split; [exact Hdb|]. split; [exact Habs|].
  exists s2, c2. split; [exact R1|]. split; [exact R2|]. split; [|split].
  - rewrite R3. vm_compute. reflexivity.
  - rewrite R5. exact Hn.
  - rewrite R6. vm_compute. reflexivity.
Qed.

(* why merge_safe is asked (checked on the library: DictReader.read of a root  #include 'b.dict' / AB000001 AB000001; / k k;
   with b.dict = AB000001 5; k 6;  returns AB000001 = 5 and k = 'k'): a top-level entry of the ROOT whose value spells its
   own key, the key having the form of a placeholder (upper case letters + six digits), is REPLACED by the value of the
   included file -- the including file does not win for this key, so the first state is not the first-wins merge.  (The
   round trip itself is still a fixed point on this instance: the second read keeps 5.) *)
Definition ex03r_fn_root : str := of_string "/d/root.dict".
Definition ex03r_fn_text : str := of_string "#include 'b.dict'
AB000001 AB000001;
k k;
".
Definition ex03r_fn_db : list (key * tree) := [(KS (of_string "AB000001"), Leaf (SInt 5)); (KS (of_string "k"), Leaf (SInt 6))].
Definition ex03r_fn_fs : fsys := [(ex03r_fn_root, FNative ex03r_fn_text); (of_string "/d/b.dict", FNative (to_string_plain ex03r_fn_db))].
Definition ex03r_fn_A : sdict :=
  match parse_string true (dir_of ex03r_fn_root) (-1) ex03r_fn_text with Ok p => pr_sd p | Raise _ => sd_empty end.
Definition ex03r_fn_s1 : sdict :=
  match read_plain ex03r_fn_fs ex03r_fn_root true true (-1) with Ok (s, _) => s | Raise _ => sd_empty end.

Example C03_read_include_self_named_finding :
  parse_string true (dir_of ex03r_fn_root) (-1) ex03r_fn_text = Ok (mkParsed ex03r_fn_A 0) /\
  rereadable_inc ex03r_fn_A = true /\ wdom ex03r_fn_db = true /\
  merge_safe (sd_data ex03r_fn_A) (reread_plain ex03r_fn_db) = false /\
  read_plain ex03r_fn_fs ex03r_fn_root true true (-1) = Ok (ex03r_fn_s1, 0%Z) /\
  alookup (KS (of_string "AB000001")) (sd_data ex03r_fn_A) = Some (Leaf (SStr (of_string "AB000001"))) /\
  alookup (KS (of_string "AB000001")) (sd_data ex03r_fn_s1) = Some (Leaf (SInt 5)) /\
  alookup (KS (of_string "AB000001")) (sd_data (merged_state_inc ex03r_fn_A (reread_plain ex03r_fn_db))) = Some (Leaf (SStr (of_string "AB000001"))) /\
  alookup (KS (of_string "k")) (sd_data ex03r_fn_s1) = Some (Leaf (SStr (of_string "k"))).
Proof. repeat split; vm_compute; reflexivity. Qed.
