(* C01  Native dict files: what is written is what is read back.  Layer (b): quoting / literal extraction.
   (layer (a), the token round trip, is in C01_tok once integrated) *)

From Coq Require Import NArith ZArith List Bool.
From DictIO Require Import Chars Str Value Scalar KeyPath SDict Layout Lexer TokParser TreeSpec NativeSpec QuoteProofs.
Import ListNotations.

(* a string without single quotes, wrapped in single quotes, is found as exactly one single-quoted literal spanning
   the whole text (whatever else it contains: blanks, delimiters, backslashes, double quotes, non-ASCII) ... *)
Theorem C01_sq_literal : forall s fuel, no_sq s = true -> (0 < fuel)%nat ->
  find_quoted fuel c_sq 0 false (sq s) = [(0%nat, (length s + 2)%nat, sq s)].
Proof. exact sq_literal_found. Qed.
Print Assumptions C01_sq_literal.

(* ... likewise for double quotes *)
Theorem C01_dq_literal : forall s fuel, no_dq s = true -> (0 < fuel)%nat ->
  find_quoted fuel c_dq 0 false (dq s) = [(0%nat, (length s + 2)%nat, dq s)].
Proof. exact dq_literal_found. Qed.
Print Assumptions C01_dq_literal.

(* what is registered for the literal is the string itself *)
Theorem C01_unquote : forall s, remove_quotes (sq s) = s /\ remove_quotes (dq s) = s.
Proof. exact unquote_quoted. Qed.
Print Assumptions C01_unquote.

(* the writer's choice: whenever the string needs quotes it is wrapped in a quote character it does not contain;
   otherwise it is written bare and is free of blanks, delimiters and quotes *)
Theorem C01_format_choice : forall s, has_char c_dollar s = false -> (has_char c_sq s && has_char c_dq s) = false ->
  (format_string s = sq s /\ no_sq s = true) \/
  (format_string s = dq s /\ no_dq s = true) \/
  (format_string s = s /\ nonempty s = true /\ forallb (fun c => negb (is_struct_char c || is_quote c)) s = true).
Proof. exact format_string_choice. Qed.
Print Assumptions C01_format_choice.

