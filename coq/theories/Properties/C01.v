(* C01  Native dict files: what is written is what is read back.  Layer (b): quoting / literal extraction.
   Layer (a): the token round trip (end of this file). *)

From Coq Require Import NArith ZArith List Bool.
From DictIO Require Import Chars Str Value Scalar KeyPath SDict Layout Lexer TokParser TreeSpec NativeSpec QuoteProofs TokProofs.
Import ListNotations.

(* a string without single quotes, wrapped in single quotes, is found as exactly one single-quoted literal spanning
   the whole text (whatever else it contains: blanks, delimiters, backslashes, double quotes, non-ASCII) ... *)
Theorem C01_sq_literal : forall s fuel, no_sq s = true -> (0 < fuel)%nat ->
  find_quoted fuel c_sq 0 false (sq s) = [(0%nat, (length s + 2)%nat, sq s)].
Proof. exact sq_literal_found. Qed.
Print Assumptions C01_sq_literal.

(* ... likewise for double quotes *)
Theorem C01_dq_literal : forall s fuel, no_dq s = true -> (0 < fuel)%nat ->
  find_quoted fuel c_dq 0 false (dq s) = [(0%nat, (length s + 2)%nat, dq s)].
Proof. exact dq_literal_found. Qed.
Print Assumptions C01_dq_literal.

(* what is registered for the literal is the string itself *)
Theorem C01_unquote : forall s, remove_quotes (sq s) = s /\ remove_quotes (dq s) = s.
Proof. exact unquote_quoted. Qed.
Print Assumptions C01_unquote.

(* the writer's choice: whenever the string needs quotes it is wrapped in a quote character it does not contain;
   otherwise it is written bare and is free of blanks, delimiters and quotes *)
Theorem C01_format_choice : forall s, has_char c_dollar s = false -> (has_char c_sq s && has_char c_dq s) = false ->
  (format_string s = sq s /\ no_sq s = true) \/
  (format_string s = dq s /\ no_dq s = true) \/
  (format_string s = s /\ nonempty s = true /\ forallb (fun c => negb (is_struct_char c || is_quote c)) s = true).
Proof. exact format_string_choice. Qed.
Print Assumptions C01_format_choice.


(* ---- layer (a): token hierarchy -> dict / list reconstruction inverts the token grammar ---------------- *)
(* For every tree (any depth, any width), any rendering of scalars and keys as single plain tokens that the
   scalar classifier reads back: parsing the token stream of the document reconstructs the tree, same keys in the
   same order, same nesting of dicts and lists, every leaf re-typed by the classifier. *)
Theorem C01_tok_roundtrip : forall (lt : scalar -> str) (kt : key -> str) (nv : scalar -> scalar) kvs,
  (forall v, plain_token (lt v) = true /\ parse_value (lt v) = Ok (nv v)) ->
  (forall k, plain_token (kt k) = true /\ parse_key (kt k) = Ok k) ->
  wf (Dict kvs) = true ->
  parse_tokens (toks_doc lt kt kvs) = Ok (kvs_of (map_leaves nv (Dict kvs))).
Proof. exact tok_roundtrip. Qed.
Print Assumptions C01_tok_roundtrip.
