(* C01  Native dict files: what is written is what is read back.  Layer (b): quoting / literal extraction.
   Layer (a): the token round trip (end of this file). *)

From Coq Require Import String.
From Coq Require Import NArith ZArith List Bool.
From DictIO Require Import Chars Str Value Scalar KeyPath SDict Layout Lexer TokParser TreeSpec NativeSpec E2ESpec QuoteProofs TokProofs E2EProofs E2EFullProofs.
Import ListNotations.

(* a string without single quotes, wrapped in single quotes, is matched at its opening quote as exactly one
   single-quoted literal that ends at its own closing quote -- whatever else it contains (blanks, delimiters,
   backslashes, double quotes, non-ASCII) and whatever text follows it *)
Theorem C01_sq_literal : forall s rest, no_sq s = true ->
  quoted_at c_sq false (sq s ++ rest) = Some (sq s, rest).
Proof. exact sq_literal_found. Qed.
Print Assumptions C01_sq_literal.

(* non-vacuity: a string with blanks, delimiters, braces, double quotes, a backslash, a dollar and a comment marker,
   followed by a text that contains another single-quoted literal *)
Example C01_sq_literal_nonvacuous :
  let s := of_string "a b; {x} ""q"" \ $y // z" in
  let rest := of_string " 'next' ;" in
  no_sq s = true /\ quoted_at c_sq false (sq s ++ rest) = Some (sq s, rest).
Proof. intros s rest. assert (H : no_sq s = true) by (vm_compute; reflexivity). exact (conj H (C01_sq_literal s rest H)). Qed.

(* ... likewise for double quotes (and the single-quote alternative, tried first, does not match there) *)
Theorem C01_dq_literal : forall s rest, no_dq s = true ->
  quoted_at c_sq false (dq s ++ rest) = None /\ quoted_at c_dq false (dq s ++ rest) = Some (dq s, rest).
Proof. intros s rest H. split; [exact (dq_not_sq_opener s rest) | exact (dq_literal_found s rest H)]. Qed.
Print Assumptions C01_dq_literal.

Example C01_dq_literal_nonvacuous :
  let s := of_string "it's a {b}; \ (c) // d" in
  let rest := of_string " ""next"" 'x';" in
  no_dq s = true /\
  quoted_at c_sq false (dq s ++ rest) = None /\ quoted_at c_dq false (dq s ++ rest) = Some (dq s, rest).
Proof. intros s rest. assert (H : no_dq s = true) by (vm_compute; reflexivity). exact (conj H (C01_dq_literal s rest H)). Qed.

(* what is registered for the literal is the string itself *)
Theorem C01_unquote : forall s, remove_quotes (sq s) = s /\ remove_quotes (dq s) = s.
Proof. exact unquote_quoted. Qed.
Print Assumptions C01_unquote.

(* the writer's choice: whenever the string needs quotes it is wrapped in a quote character it does not contain;
   otherwise it is written bare and is free of blanks, delimiters and quotes *)
Theorem C01_format_choice : forall s, has_char c_dollar s = false -> (has_char c_sq s && has_char c_dq s) = false ->
  (format_string s = sq s /\ no_sq s = true) \/
  (format_string s = dq s /\ no_dq s = true) \/
  (format_string s = s /\ nonempty s = true /\ forallb (fun c => negb (is_struct_char c || is_quote c)) s = true).
Proof. exact format_string_choice. Qed.
Print Assumptions C01_format_choice.

(* non-vacuity: one string for each of the three alternatives (and the empty string, which is single-quoted) *)
Example C01_format_choice_nonvacuous :
  let a := of_string "say ""hi"" {now}" in let b := of_string "it's; here" in let c := of_string "plain-1.x" in
  (has_char c_dollar a = false /\ (has_char c_sq a && has_char c_dq a) = false /\ format_string a = sq a /\ no_sq a = true) /\
  (has_char c_dollar b = false /\ (has_char c_sq b && has_char c_dq b) = false /\ format_string b = dq b /\ no_dq b = true) /\
  (has_char c_dollar c = false /\ (has_char c_sq c && has_char c_dq c) = false /\ format_string c = c) /\
  format_string [] = sq [].
Proof. vm_compute. repeat split; reflexivity. Qed.


(* ---- layer (a): token hierarchy -> dict / list reconstruction inverts the token grammar ---------------- *)
(* For every tree (any depth, any width) whose keys and leaves are simple tokens, and any rendering of scalars and
   keys as single plain tokens that the scalar classifier reads back: parsing the token stream of the document
   reconstructs the tree, same keys in the same order, same nesting of dicts and lists, every leaf re-typed by the
   classifier.
   (An earlier version of this statement asked  parse_key (kt k) = Ok k  of EVERY key k, which no rendering can
   satisfy -- a key that spells a reserved placeholder word is not a plain token -- so it was vacuous; found while
   proving the end-to-end theorem below.  The hypothesis on keys is now relative to the keys that are simple, and
   the example after the theorem instantiates all hypotheses.) *)
Theorem C01_tok_roundtrip : forall (lt : scalar -> str) (kt : key -> str) (nv : scalar -> scalar) kvs,
  (forall v, plain_token (lt v) = true /\ parse_value (lt v) = Ok (nv v)) ->
  (forall k, plain_token (kt k) = true) ->
  (forall k, simple_key k = true -> parse_key (kt k) = Ok k) ->
  wf (Dict kvs) = true -> simple_tree (Dict kvs) = true ->
  parse_tokens (toks_doc lt kt kvs) = Ok (kvs_of (map_leaves nv (Dict kvs))).
Proof. intros lt kt nv kvs Hlt Hkt Hkp. exact (TR.tok_roundtrip_main lt kt nv Hlt Hkt Hkp kvs). Qed.
Print Assumptions C01_tok_roundtrip.

(* non-vacuity: the three hypotheses that quantify over ALL scalars / keys are met by the total renderings
   ltS / ktS / nvS of E2EProofs (the writer's format_scalar / format_key on simple leaves and keys, the token x
   elsewhere); the tree has int, float, bool, none and word leaves, an int key, nested dicts, an empty dict, a list
   of lists and a dict inside a list *)
Example C01_tok_roundtrip_nonvacuous :
  let d := [(KS (of_string "alpha"), Leaf (SInt 12));
            (KI 3, Dict [(KS (of_string "b"), Lst [Leaf (SBool true); Lst [Leaf SNone]; Dict [(KS (of_string "c"), Leaf (SFloat (of_string "1.5")))]]);
                         (KS (of_string "e"), Dict [])]);
            (KS (of_string "w"), Leaf (SStr (of_string "word.x-1")))] in
  (forall v, plain_token (ltS v) = true /\ parse_value (ltS v) = Ok (nvS v)) /\
  (forall k, plain_token (ktS k) = true) /\
  (forall k, simple_key k = true -> parse_key (ktS k) = Ok k) /\
  wf (Dict d) = true /\ simple_tree (Dict d) = true /\
  toks_doc ltS ktS d = map of_string ["alpha"; "12"; ";"; "3"; "{"; "b"; "("; "true"; "("; "NULL"; ")"; "{"; "c"; "1.5"; ";"; "}"; ")"; ";";
                                      "e"; "{"; "}"; "}"; "w"; "word.x-1"; ";"; ""]%string /\
  parse_tokens (toks_doc ltS ktS d) = Ok (kvs_of (map_leaves nvS (Dict d))).
Proof.
  intros d.
  assert (Hw : wf (Dict d) = true) by (vm_compute; reflexivity).
  assert (Hs : simple_tree (Dict d) = true) by (vm_compute; reflexivity).
  refine (conj HltS (conj HktpS (conj HkpkS (conj Hw (conj Hs (conj _ _)))))).
  - vm_compute. reflexivity.
  - exact (C01_tok_roundtrip ltS ktS nvS d HltS HktpS HkpkS Hw Hs).
Qed.

(* ---- end to end on quote-free documents: writing a dict with NativeFormatter and reading the text with
   NativeParser returns the dict (leaves re-typed by the classifier): character level, any depth and width;
   the placeholder counter is untouched and all side tables stay empty *)
Theorem C01_roundtrip_quote_free : forall kvs dirc count,
  wf (Dict kvs) = true -> simple_tree (Dict kvs) = true ->
  parse_string true dirc count (to_string_plain kvs) =
    Ok (mkParsed (mkSD (kvs_of (map_leaves norm_scalar (Dict kvs))) [] [] [] []) count).
Proof. exact roundtrip_quote_free. Qed.
Print Assumptions C01_roundtrip_quote_free.

(* non-vacuity: ints, floats, bools, none, words, int keys, nested dicts, lists of lists and of dicts *)
Example C01_roundtrip_quote_free_nonvacuous :
  let d := [(KS (of_string "alpha"), Leaf (SInt (-12))); (KI 3, Dict [(KS (of_string "b"), Lst [Leaf (SBool true); Lst [Leaf SNone]; Dict [(KS (of_string "c"), Leaf (SFloat (of_string "1.5e-3")))]]); (KS (of_string "e"), Dict [])]);
            (KS (of_string "w"), Leaf (SStr (of_string "word.x-1"))); (KS (of_string "n"), Leaf (SStr (of_string "0012")))] in
  wf (Dict d) = true /\ simple_tree (Dict d) = true /\
  (* the written text ... *)
  to_string_plain d = of_string
"alpha                         -12;
3
{
    b
    (
        true                  (
            NULL
        )

        {
            c                 1.5e-3;
        }
    );
    e
    {
    }
}
w                             word.x-1;
n                             0012;
" /\
  (* ... is read back as the dict (the string leaf 0012 re-typed to the int 12: documented normalisation) *)
  parse_string true (of_string "/some/dir") 41 (to_string_plain d) =
    Ok (mkParsed (mkSD (kvs_of (map_leaves norm_scalar (Dict d))) [] [] [] []) 41) /\
  alookup (KS (of_string "n")) (kvs_of (map_leaves norm_scalar (Dict d))) = Some (Leaf (SInt 12)).
Proof.
  intros d.
  assert (Hw : wf (Dict d) = true) by (vm_compute; reflexivity).
  assert (Hs : simple_tree (Dict d) = true) by (vm_compute; reflexivity).
  refine (conj Hw (conj Hs (conj _ (conj (C01_roundtrip_quote_free d _ _ Hw Hs) _)))); vm_compute; reflexivity.
Qed.

Example C01_e2e_example :
  let d := [(KS (of_string "alpha"), Leaf (SInt 12)); (KI 3, Dict [(KS (of_string "b"), Lst [Leaf (SBool true); Lst [Leaf SNone]; Dict [(KS (of_string "c"), Leaf (SFloat (of_string "1.5")))]]); (KS (of_string "e"), Dict [])]);
            (KS (of_string "w"), Leaf (SStr (of_string "word.x-1")))] in
  wf (Dict d) = true /\ simple_tree (Dict d) = true /\
  parse_string true [] 7 (to_string_plain d) = Ok (mkParsed (mkSD (kvs_of (map_leaves norm_scalar (Dict d))) [] [] [] []) 7).
Proof. vm_compute. repeat split; reflexivity. Qed.

(* ---- end to end on the full writer domain: string leaves that the writer wraps in quotes included ------------- *)
(* Writing a dict and reading the text back returns the dict, every leaf as the classifier reads the CONTENT of its
   written form (written_value): blanks, delimiters, backslashes, an apostrophe or an inner double-quoted segment,
   non-ASCII text, the empty string.  Side conditions, each forced by a counterexample found while proving
   (C01_roundtrip_refuted below is the machine-checked negation of the statement without them):
     -1 <= count                    the placeholder counter never is below -1 (BorgCounter starts at -1, wraps to 0);
                                    the model clamps a negative number to 0, so two literals would share an id
     at most 1000000 quoted leaves  placeholders carry six digits; beyond that the counter wraps and ids collide
     quoted_within 11               a quoted literal more than ten keys deep makes set_global_key raise (the library's
                                    documented limit of ten nesting levels; the quantifier of C01 stops at nine) *)
Theorem C01_roundtrip : forall kvs dirc count,
  wf (Dict kvs) = true -> writable_tree (Dict kvs) = true ->
  (-1 <= count)%Z -> (Z.of_nat (nq (Dict kvs)) <= 1000000)%Z -> quoted_within 11 (Dict kvs) = true ->
  exists count',
  parse_string true dirc count (to_string_plain kvs) =
    Ok (mkParsed (mkSD (kvs_of (map_leaves written_value (Dict kvs))) [] [] [] []) count').
Proof. exact roundtrip_native_partial. Qed.
Print Assumptions C01_roundtrip.

Theorem C01_roundtrip_refuted :
  ~ (forall kvs dirc count, wf (Dict kvs) = true -> writable_tree (Dict kvs) = true ->
     exists count', parse_string true dirc count (to_string_plain kvs) =
       Ok (mkParsed (mkSD (kvs_of (map_leaves written_value (Dict kvs))) [] [] [] []) count')).
Proof. exact roundtrip_native_false. Qed.
Print Assumptions C01_roundtrip_refuted.

(* a string leaf that the classifier does not re-type comes back as itself *)
Theorem C01_string_unchanged : forall s, writable_leaf (SStr s) = true -> parse_value s = Ok (SStr s) ->
  written_value (SStr s) = SStr s.
Proof. exact written_value_string. Qed.
Print Assumptions C01_string_unchanged.

Example C01_roundtrip_nonvacuous :
  let d := [(KS (of_string "alpha"), Leaf (SStr (of_string "two words")));
    (KI 3, Dict [(KS (of_string "b"), Lst [Leaf (SStr (of_string "it's")); Lst [Leaf (SStr (of_string "say ""hi"" now"))];
                                             Dict [(KS (of_string "c"), Leaf (SStr (of_string "a;b")))]]);
                 (KS (of_string "e"), Leaf (SStr (of_string "")))]);
    (KS (of_string "w"), Leaf (SStr (of_string " true "))); (KS (of_string "p"), Leaf (SStr (of_string "C:\dir\")));
    (KS (of_string "q"), Leaf (SStr (of_string "(")))] in
  wf (Dict d) = true /\ writable_tree (Dict d) = true /\ (Z.of_nat (nq (Dict d)) <= 1000000)%Z /\ quoted_within 11 (Dict d) = true /\
  parse_string true [] 7 (to_string_plain d) = Ok (mkParsed (mkSD (kvs_of (map_leaves written_value (Dict d))) [] [] [] []) 15).
Proof. vm_compute. repeat split; try reflexivity; discriminate. Qed.

(* ================================================================================================== *)
(* non-vacuity examples added after the reviewer's audit (Properties/C01_nv.v, 2026-10-01)         *)
(* ================================================================================================== *)

(* ==== non-vacuity instances obtained BY APPLYING the theorems above (added after review) ================== *)
From Coq Require Import Lia.

(* C01_unquote on a string with blanks, delimiters, braces, a backslash, a dollar and a comment marker *)
Example C01_unquote_nonvacuous :
  let s := of_string "a b; {x} \ $y // z (1 2)" in
  (remove_quotes (sq s) = s /\ remove_quotes (dq s) = s) /\
  sq s = of_string "'a b; {x} \ $y // z (1 2)'" /\ dq s = of_string """a b; {x} \ $y // z (1 2)""".
Proof. intros s. split; [exact (C01_unquote s) | vm_compute; split; reflexivity]. Qed.

(* C01_format_choice: both hypotheses computed, the three-way disjunction obtained from the theorem, for one string of
   each alternative; the alternative actually taken is shown by computation *)
Example C01_format_choice_applied :
  let a := of_string "say ""hi"" {now}" in let b := of_string "it's; here" in let c := of_string "plain-1.x" in
  let choice s := (format_string s = sq s /\ no_sq s = true) \/ (format_string s = dq s /\ no_dq s = true) \/
     (format_string s = s /\ nonempty s = true /\ forallb (fun c => negb (is_struct_char c || is_quote c)) s = true) in
  (choice a /\ choice b /\ choice c) /\
  format_string a = of_string "'say ""hi"" {now}'" /\ format_string b = of_string """it's; here""" /\ format_string c = c.
Proof.
  intros a b c choice. split.
  - repeat split; apply C01_format_choice; vm_compute; reflexivity.
  - vm_compute. repeat split; reflexivity.
Qed.

(* C01_roundtrip: the quoted-leaves document of C01_roundtrip_nonvacuous, counter -1 (a fresh BorgCounter) and a
   counter five steps before the six-digit wrap-around (eight quoted leaves: the numbering wraps inside the document) *)
Example C01_roundtrip_applied :
  let d := [(KS (of_string "alpha"), Leaf (SStr (of_string "two words")));
    (KI 3, Dict [(KS (of_string "b"), Lst [Leaf (SStr (of_string "it's")); Lst [Leaf (SStr (of_string "say ""hi"" now"))];
                                             Dict [(KS (of_string "c"), Leaf (SStr (of_string "a;b")))]]);
                 (KS (of_string "e"), Leaf (SStr (of_string "")))]);
    (KS (of_string "w"), Leaf (SStr (of_string " true "))); (KS (of_string "p"), Leaf (SStr (of_string "C:\dir\")));
    (KS (of_string "q"), Leaf (SStr (of_string "(")))] in
  let dirc := of_string "/some/dir" in
  wf (Dict d) = true /\ writable_tree (Dict d) = true /\ (Z.of_nat (nq (Dict d)) <= 1000000)%Z /\ quoted_within 11 (Dict d) = true /\
  nq (Dict d) = 8%nat /\
  (exists count', parse_string true dirc (-1) (to_string_plain d) =
      Ok (mkParsed (mkSD (kvs_of (map_leaves written_value (Dict d))) [] [] [] []) count')) /\
  (exists count', parse_string true dirc 999994 (to_string_plain d) =
      Ok (mkParsed (mkSD (kvs_of (map_leaves written_value (Dict d))) [] [] [] []) count')) /\
  parse_string true dirc 999994 (to_string_plain d) =
      Ok (mkParsed (mkSD (kvs_of (map_leaves written_value (Dict d))) [] [] [] []) 2).
Proof.
  intros d dirc.
  assert (Hw : wf (Dict d) = true) by (vm_compute; reflexivity).
  assert (Hwr : writable_tree (Dict d) = true) by (vm_compute; reflexivity).
  assert (Hn : (Z.of_nat (nq (Dict d)) <= 1000000)%Z) by (vm_compute; discriminate).
  assert (Hq : quoted_within 11 (Dict d) = true) by (vm_compute; reflexivity).
  refine (conj Hw (conj Hwr (conj Hn (conj Hq (conj _ (conj _ (conj _ _))))))).
  - vm_compute. reflexivity.
  - apply C01_roundtrip; [exact Hw | exact Hwr | lia | exact Hn | exact Hq].
  - apply C01_roundtrip; [exact Hw | exact Hwr | lia | exact Hn | exact Hq].
  - vm_compute. reflexivity.
Qed.

(* C01_roundtrip_refuted: the statement refuted is the one without the three side conditions; the input that refutes it
   (a quoted literal eleven keys deep) satisfies the two remaining premises and makes the reader raise *)
Example C01_roundtrip_refuted_witness :
  wf (Dict ce_deep) = true /\ writable_tree (Dict ce_deep) = true /\ quoted_within 11 (Dict ce_deep) = false /\
  parse_string true [] 0%Z (to_string_plain ce_deep) = Raise E_Recursion /\
  ~ (forall kvs dirc count, wf (Dict kvs) = true -> writable_tree (Dict kvs) = true ->
     exists count', parse_string true dirc count (to_string_plain kvs) =
       Ok (mkParsed (mkSD (kvs_of (map_leaves written_value (Dict kvs))) [] [] [] []) count')).
Proof. refine (conj _ (conj _ (conj _ (conj _ C01_roundtrip_refuted)))); vm_compute; reflexivity. Qed.

(* C01_string_unchanged: strings that need quotes and that the classifier leaves alone (blanks, an apostrophe, a
   delimiter, a trailing backslash) come back as themselves *)
Example C01_string_unchanged_nonvacuous :
  let l := map of_string ["two words"; "it's"; "a;b"; "C:\dir\"; "say ""hi"" now"]%string in
  Forall (fun s => writable_leaf (SStr s) = true /\ parse_value s = Ok (SStr s) /\ written_value (SStr s) = SStr s) l.
Proof.
  assert (A : forall s, writable_leaf (SStr s) = true -> parse_value s = Ok (SStr s) ->
              writable_leaf (SStr s) = true /\ parse_value s = Ok (SStr s) /\ written_value (SStr s) = SStr s)
    by (intros s H1 H2; exact (conj H1 (conj H2 (C01_string_unchanged s H1 H2)))).
  intros l. repeat (apply Forall_cons; [apply A; vm_compute; reflexivity|]). apply Forall_nil.
Qed.
