(* C01  Native dict files: what is written is what is read back.  Layer (b): quoting / literal extraction.
   Layer (a): the token round trip (end of this file). *)

From Coq Require Import String.
From Coq Require Import NArith ZArith List Bool.
From DictIO Require Import Chars Str Value Scalar KeyPath SDict Layout Lexer TokParser TreeSpec NativeSpec E2ESpec QuoteProofs TokProofs E2EProofs.
Import ListNotations.

(* a string without single quotes, wrapped in single quotes, is matched at its opening quote as exactly one
   single-quoted literal that ends at its own closing quote -- whatever else it contains (blanks, delimiters,
   backslashes, double quotes, non-ASCII) and whatever text follows it *)
Theorem C01_sq_literal : forall s rest, no_sq s = true ->
  quoted_at c_sq false (sq s ++ rest) = Some (sq s, rest).
Proof. exact sq_literal_found. Qed.
Print Assumptions C01_sq_literal.

(* ... likewise for double quotes (and the single-quote alternative, tried first, does not match there) *)
Theorem C01_dq_literal : forall s rest, no_dq s = true ->
  quoted_at c_sq false (dq s ++ rest) = None /\ quoted_at c_dq false (dq s ++ rest) = Some (dq s, rest).
Proof. intros s rest H. split; [exact (dq_not_sq_opener s rest) | exact (dq_literal_found s rest H)]. Qed.
Print Assumptions C01_dq_literal.

(* what is registered for the literal is the string itself *)
Theorem C01_unquote : forall s, remove_quotes (sq s) = s /\ remove_quotes (dq s) = s.
Proof. exact unquote_quoted. Qed.
Print Assumptions C01_unquote.

(* the writer's choice: whenever the string needs quotes it is wrapped in a quote character it does not contain;
   otherwise it is written bare and is free of blanks, delimiters and quotes *)
Theorem C01_format_choice : forall s, has_char c_dollar s = false -> (has_char c_sq s && has_char c_dq s) = false ->
  (format_string s = sq s /\ no_sq s = true) \/
  (format_string s = dq s /\ no_dq s = true) \/
  (format_string s = s /\ nonempty s = true /\ forallb (fun c => negb (is_struct_char c || is_quote c)) s = true).
Proof. exact format_string_choice. Qed.
Print Assumptions C01_format_choice.


(* ---- layer (a): token hierarchy -> dict / list reconstruction inverts the token grammar ---------------- *)
(* For every tree (any depth, any width) whose keys and leaves are simple tokens, and any rendering of scalars and
   keys as single plain tokens that the scalar classifier reads back: parsing the token stream of the document
   reconstructs the tree, same keys in the same order, same nesting of dicts and lists, every leaf re-typed by the
   classifier.
   (An earlier version of this statement asked  parse_key (kt k) = Ok k  of EVERY key k, which no rendering can
   satisfy -- a key that spells a reserved placeholder word is not a plain token -- so it was vacuous; found while
   proving the end-to-end theorem below.  The hypothesis on keys is now relative to the keys that are simple, and
   the example after the theorem instantiates all hypotheses.) *)
Theorem C01_tok_roundtrip : forall (lt : scalar -> str) (kt : key -> str) (nv : scalar -> scalar) kvs,
  (forall v, plain_token (lt v) = true /\ parse_value (lt v) = Ok (nv v)) ->
  (forall k, plain_token (kt k) = true) ->
  (forall k, simple_key k = true -> parse_key (kt k) = Ok k) ->
  wf (Dict kvs) = true -> simple_tree (Dict kvs) = true ->
  parse_tokens (toks_doc lt kt kvs) = Ok (kvs_of (map_leaves nv (Dict kvs))).
Proof. intros lt kt nv kvs Hlt Hkt Hkp. exact (TR.tok_roundtrip_main lt kt nv Hlt Hkt Hkp kvs). Qed.
Print Assumptions C01_tok_roundtrip.

(* ---- end to end on quote-free documents: writing a dict with NativeFormatter and reading the text with
   NativeParser returns the dict (leaves re-typed by the classifier): character level, any depth and width;
   the placeholder counter is untouched and all side tables stay empty *)
Theorem C01_roundtrip_quote_free : forall kvs dirc count,
  wf (Dict kvs) = true -> simple_tree (Dict kvs) = true ->
  parse_string true dirc count (to_string_plain kvs) =
    Ok (mkParsed (mkSD (kvs_of (map_leaves norm_scalar (Dict kvs))) [] [] [] []) count).
Proof. exact roundtrip_quote_free. Qed.
Print Assumptions C01_roundtrip_quote_free.

(* non-vacuity: ints, floats, bools, none, words, int keys, nested dicts, lists of lists and of dicts *)
Example C01_e2e_example :
  let d := [(KS (of_string "alpha"), Leaf (SInt 12)); (KI 3, Dict [(KS (of_string "b"), Lst [Leaf (SBool true); Lst [Leaf SNone]; Dict [(KS (of_string "c"), Leaf (SFloat (of_string "1.5")))]]); (KS (of_string "e"), Dict [])]);
            (KS (of_string "w"), Leaf (SStr (of_string "word.x-1")))] in
  wf (Dict d) = true /\ simple_tree (Dict d) = true /\
  parse_string true [] 7 (to_string_plain d) = Ok (mkParsed (mkSD (kvs_of (map_leaves norm_scalar (Dict d))) [] [] [] []) 7).
Proof. vm_compute. repeat split; reflexivity. Qed.
