(* placeholder until the proofs are written *)
From DictIO Require Import Chars Str Value Scalar.
Theorem C04_placeholder : True. Proof. exact I. Qed.
Print Assumptions C04_placeholder.
