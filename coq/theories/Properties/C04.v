(* C04  Scalar typing is total, deterministic and follows the documented type table.
   This file contains only theorem statements closed by [exact lemma] and Print Assumptions. *)
From Coq Require Import NArith ZArith List Bool.
From DictIO Require Import Chars Str Value Scalar TypeTable ScalarProofs.
Import ListNotations.

(* never fails *)
Theorem C04_total : forall s e, parse_value s <> Raise e.
Proof. exact parse_value_total. Qed.
Print Assumptions C04_total.

(* follows the documented table ... *)
Theorem C04_table : forall s, exists v, parse_value s = Ok v /\ classify s v.
Proof. exact parse_value_table. Qed.
Print Assumptions C04_table.

(* ... which is deterministic *)
Theorem C04_table_functional : forall s v1 v2, classify s v1 -> classify s v2 -> v1 = v2.
Proof. exact classify_functional. Qed.
Print Assumptions C04_table_functional.

(* classifying an already classified quote-free value changes nothing *)
Theorem C04_idem : forall s v, quote_free s = true -> parse_value s = Ok v -> parse_scalar v = Ok v.
Proof. exact parse_value_idem. Qed.
Print Assumptions C04_idem.

(* writer spellings are classified back to the value they came from: every int, bool, None, finite float repr *)
Theorem C04_fmt_int : forall z, parse_value (format_scalar (SInt z)) = Ok (SInt z).
Proof. exact fmt_int_roundtrip. Qed.
Print Assumptions C04_fmt_int.

Theorem C04_fmt_bool_none :
  (forall b, parse_value (format_scalar (SBool b)) = Ok (SBool b)) /\ parse_value (format_scalar SNone) = Ok SNone.
Proof. exact fmt_bool_none_roundtrip. Qed.
Print Assumptions C04_fmt_bool_none.

Theorem C04_fmt_float : forall r, is_py_repr r = true -> parse_value (format_scalar (SFloat r)) = Ok (SFloat r).
Proof. exact fmt_float_roundtrip. Qed.
Print Assumptions C04_fmt_float.

(* the strings handed to int() / float() are inside CPython's literal grammars *)
Theorem C04_numeric_safe : forall s,
  (re_int s = true -> py_int_ok s = true) /\
  (re_float2 s = true -> py_float_ok s = true) /\ (re_float3 s = true -> py_float_ok s = true).
Proof. exact numeric_regexes_safe. Qed.
Print Assumptions C04_numeric_safe.
