(* C04  Scalar typing is total, deterministic and follows the documented type table.
   This file contains only theorem statements closed by [exact lemma] and Print Assumptions. *)
From Coq Require Import String.   (* string literals of the examples; imported first so the list names win *)
From Coq Require Import NArith ZArith List Bool.
From DictIO Require Import Chars Str Value Scalar TypeTable ScalarProofs.
Import ListNotations.

(* never fails *)
Theorem C04_total : forall s e, parse_value s <> Raise e.
Proof. exact parse_value_total. Qed.
Print Assumptions C04_total.

(* follows the documented table ... *)
Theorem C04_table : forall s, exists v, parse_value s = Ok v /\ classify s v.
Proof. exact parse_value_table. Qed.
Print Assumptions C04_table.

(* ... which is deterministic *)
Theorem C04_table_functional : forall s v1 v2, classify s v1 -> classify s v2 -> v1 = v2.
Proof. exact classify_functional. Qed.
Print Assumptions C04_table_functional.

(* non-vacuity: the table relates concrete strings of every row to a value (obtained through C04_table), and by
   functionality to no other value *)
Example C04_table_functional_nonvacuous :
  (classify (of_string "-0012") (SInt (-12)) /\ forall v, classify (of_string "-0012") v -> v = SInt (-12)) /\
  (classify (of_string ".5E-3") (SFloat (of_string ".5E-3")) /\ forall v, classify (of_string ".5E-3") v -> v = SFloat (of_string ".5E-3")) /\
  (classify (of_string " oN ") (SBool true) /\ forall v, classify (of_string " oN ") v -> v = SBool true) /\
  (classify (of_string "'a b'") (SStr (of_string "a b")) /\ forall v, classify (of_string "'a b'") v -> v = SStr (of_string "a b")) /\
  (classify (of_string "-") (SStr (of_string "-")) /\ forall v, classify (of_string "-") v -> v = SStr (of_string "-")).
Proof.
  repeat match goal with |- _ /\ _ => split end;
  try (match goal with |- classify ?s ?v =>
         destruct (C04_table s) as [w [Hp Hc]]; vm_compute in Hp; injection Hp as <-; exact Hc end);
  match goal with |- forall v, classify ?s v -> v = ?x =>
    intros v Hv; destruct (C04_table s) as [w [Hp Hc]]; vm_compute in Hp; injection Hp as <-;
    exact (C04_table_functional s v _ Hv Hc) end.
Qed.

(* classifying an already classified quote-free value changes nothing *)
Theorem C04_idem : forall s v, quote_free s = true -> parse_value s = Ok v -> parse_scalar v = Ok v.
Proof. exact parse_value_idem. Qed.
Print Assumptions C04_idem.

(* non-vacuity: quote-free strings of every class; the interesting case is a string result, which is classified again *)
Example C04_idem_nonvacuous :
  let a := of_string "hello world" in let b := of_string " 12" in let c := of_string "1.5e3" in let d := of_string "TRUE" in
  (quote_free a = true /\ parse_value a = Ok (SStr a) /\ parse_scalar (SStr a) = Ok (SStr a)) /\
  (quote_free b = true /\ parse_value b = Ok (SStr b) /\ parse_scalar (SStr b) = Ok (SStr b)) /\
  (quote_free c = true /\ parse_value c = Ok (SFloat c) /\ parse_scalar (SFloat c) = Ok (SFloat c)) /\
  (quote_free d = true /\ parse_value d = Ok (SBool true) /\ parse_scalar (SBool true) = Ok (SBool true)).
Proof.
  intros a b c d.
  assert (Ha : quote_free a = true /\ parse_value a = Ok (SStr a)) by (vm_compute; split; reflexivity).
  assert (Hb : quote_free b = true /\ parse_value b = Ok (SStr b)) by (vm_compute; split; reflexivity).
  assert (Hc : quote_free c = true /\ parse_value c = Ok (SFloat c)) by (vm_compute; split; reflexivity).
  assert (Hd : quote_free d = true /\ parse_value d = Ok (SBool true)) by (vm_compute; split; reflexivity).
  exact (conj (conj (proj1 Ha) (conj (proj2 Ha) (C04_idem a _ (proj1 Ha) (proj2 Ha))))
        (conj (conj (proj1 Hb) (conj (proj2 Hb) (C04_idem b _ (proj1 Hb) (proj2 Hb))))
        (conj (conj (proj1 Hc) (conj (proj2 Hc) (C04_idem c _ (proj1 Hc) (proj2 Hc))))
              (conj (proj1 Hd) (conj (proj2 Hd) (C04_idem d _ (proj1 Hd) (proj2 Hd))))))).
Qed.
(* the restriction to quote-free strings is needed: a doubly quoted number is a string first and a number next *)
Example C04_idem_needs_quote_free :
  parse_value (of_string "''12''") = Ok (SStr (of_string "'12'")) /\ parse_scalar (SStr (of_string "'12'")) = Ok (SStr (of_string "12")).
Proof. vm_compute. split; reflexivity. Qed.

(* writer spellings are classified back to the value they came from: every int, bool, None, finite float repr *)
Theorem C04_fmt_int : forall z, parse_value (format_scalar (SInt z)) = Ok (SInt z).
Proof. exact fmt_int_roundtrip. Qed.
Print Assumptions C04_fmt_int.

Theorem C04_fmt_bool_none :
  (forall b, parse_value (format_scalar (SBool b)) = Ok (SBool b)) /\ parse_value (format_scalar SNone) = Ok SNone.
Proof. exact fmt_bool_none_roundtrip. Qed.
Print Assumptions C04_fmt_bool_none.

Theorem C04_fmt_float : forall r, is_py_repr r = true -> parse_value (format_scalar (SFloat r)) = Ok (SFloat r).
Proof. exact fmt_float_roundtrip. Qed.
Print Assumptions C04_fmt_float.

(* non-vacuity: float reprs of both shapes, with and without sign and exponent *)
Example C04_fmt_float_nonvacuous :
  let rs := map of_string ["1.5"; "-0.001"; "1e+16"; "-2.5e-07"; "123456789.123"]%string in
  forallb is_py_repr rs = true /\ Forall (fun r => parse_value (format_scalar (SFloat r)) = Ok (SFloat r)) rs.
Proof.
  intros rs. assert (H : forallb is_py_repr rs = true) by (vm_compute; reflexivity). split; [exact H|].
  apply Forall_forall. intros r Hr. apply C04_fmt_float. exact (proj1 (forallb_forall _ _) H r Hr).
Qed.

(* the strings handed to int() / float() are inside CPython's literal grammars *)
Theorem C04_numeric_safe : forall s,
  (re_int s = true -> py_int_ok s = true) /\
  (re_float2 s = true -> py_float_ok s = true) /\ (re_float3 s = true -> py_float_ok s = true).
Proof. exact numeric_regexes_safe. Qed.
Print Assumptions C04_numeric_safe.

(* the premises of the three implications are met *)
Example C04_numeric_safe_nonvacuous :
  (re_int (of_string "+0012") = true /\ py_int_ok (of_string "+0012") = true) /\
  (re_float2 (of_string "-12.") = true /\ py_float_ok (of_string "-12.") = true) /\
  (re_float3 (of_string ".5E-3") = true /\ py_float_ok (of_string ".5E-3") = true).
Proof.
  assert (H1 : re_int (of_string "+0012") = true) by (vm_compute; reflexivity).
  assert (H2 : re_float2 (of_string "-12.") = true) by (vm_compute; reflexivity).
  assert (H3 : re_float3 (of_string ".5E-3") = true) by (vm_compute; reflexivity).
  exact (conj (conj H1 (proj1 (C04_numeric_safe _) H1))
        (conj (conj H2 (proj1 (proj2 (C04_numeric_safe _)) H2)) (conj H3 (proj2 (proj2 (C04_numeric_safe _)) H3)))).
Qed.

(* ================================================================================================== *)
(* non-vacuity examples added after the reviewer's audit (Properties/C04_nv.v, 2026-10-01)         *)
(* ================================================================================================== *)

(* ==== non-vacuity instances obtained BY APPLYING the theorems above (added after review) ================== *)

(* C04_total: strings of every row of the table, malformed numbers, unbalanced quotes, the empty string, non-ASCII: no
   error of any kind; the values are shown by computation *)
Example C04_total_nonvacuous :
  let l := map of_string ["-0012"; ".5E-3"; "1e"; "--1"; "'a b"; "''"; ""; " oN "; "NULL"; "1_000"; "0x1F"; "é1"]%string in
  Forall (fun s => parse_value s <> Raise E_Fuel /\ parse_value s <> Raise E_Index /\ parse_value s <> Raise E_Recursion) l /\
  map parse_value l = [Ok (SInt (-12)); Ok (SFloat (of_string ".5E-3")); Ok (SStr (of_string "1e")); Ok (SStr (of_string "--1"));
                       Ok (SStr (of_string "a b")); Ok (SStr []); Ok (SStr []); Ok (SBool true); Ok SNone;
                       Ok (SStr (of_string "1_000")); Ok (SStr (of_string "0x1F")); Ok (SStr (of_string "é1"))].
Proof.
  intros l. split.
  - apply Forall_forall. intros s _. exact (conj (C04_total s _) (conj (C04_total s _) (C04_total s _))).
  - vm_compute. reflexivity.
Qed.

(* C04_fmt_int: zero, a negative number, numbers beyond 64 bits *)
Example C04_fmt_int_nonvacuous :
  let zs := [0; -12; 7; 18446744073709551616; -340282366920938463463374607431768211456]%Z in
  Forall (fun z => parse_value (format_scalar (SInt z)) = Ok (SInt z)) zs /\
  map (fun z => format_scalar (SInt z)) zs =
    map of_string ["0"; "-12"; "7"; "18446744073709551616"; "-340282366920938463463374607431768211456"]%string.
Proof.
  intros zs. split; [apply Forall_forall; intros z _; exact (C04_fmt_int z) | vm_compute; reflexivity].
Qed.

(* C04_fmt_bool_none: both booleans and None, with their spellings *)
Example C04_fmt_bool_none_nonvacuous :
  (parse_value (format_scalar (SBool true)) = Ok (SBool true) /\ parse_value (format_scalar (SBool false)) = Ok (SBool false) /\
   parse_value (format_scalar SNone) = Ok SNone) /\
  format_scalar (SBool true) = of_string "true" /\ format_scalar (SBool false) = of_string "false" /\ format_scalar SNone = of_string "NULL".
Proof.
  split.
  - exact (conj (proj1 C04_fmt_bool_none true) (conj (proj1 C04_fmt_bool_none false) (proj2 C04_fmt_bool_none))).
  - vm_compute. repeat split; reflexivity.
Qed.
