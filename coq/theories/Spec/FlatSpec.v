(* Vocabulary for C05 (expressions): flat documents -- every top-level key holds an integer or an arithmetic
   expression over references --, the direct recursive evaluation of such a document, and the SDict the reader
   hands to _eval_expressions for it. *)
From Coq Require Import String.
From Coq Require Import NArith ZArith List Bool.
From DictIO Require Import Chars Str Value Scalar KeyPath SDict Expr Eval MiscSpec EvalSpec.
Import ListNotations.
Open Scope N_scope.

(* the value of a name: an integer, or the expression with id i, written with the layout g *)
Inductive fval := FInt (z : Z) | FExp (i : N) (g : nat -> str) (a : aexp).
Definition fdoc := list (str * fval).

Fixpoint flookup (x : str) (d : fdoc) : option fval :=
  match d with
  | [] => None
  | (y, v) :: d' => if str_eqb x y then Some v else flookup x d'
  end.

Definition is_some {A} (o : option A) : bool := match o with Some _ => true | None => false end.

(* ---- direct evaluation ---------------------------------------------------------------------------------- *)
Definition known_all (k : str -> option Z) (a : aexp) : bool := forallb (fun y => is_some (k y)) (avars a).
Definition env_of (k : str -> option Z) : str -> Z := fun y => match k y with Some v => v | None => 0%Z end.
Definition eval_in (k : str -> option Z) (a : aexp) : option Z :=
  if known_all k a then Some (aeval (env_of k) a) else None.
(* one round: an integer is known; an expression is known once everything it refers to is *)
Definition kstep (d : fdoc) (k : str -> option Z) : str -> option Z := fun x =>
  match flookup x d with
  | Some (FInt z) => Some z
  | Some (FExp _ _ a) => eval_in k a
  | None => None
  end.
Fixpoint know (d : fdoc) (n : nat) : str -> option Z :=
  match n with
  | O => fun _ => None
  | S n' => kstep d (know d n')
  end.
(* recursion depth = number of entries + 1: enough for every acyclic document *)
Definition denote (d : fdoc) (x : str) : option Z := know d (S (length d)) x.

(* ---- the SDict of a flat document ---------------------------------------------------------------------------- *)
Definition ph_of (i : N) : str := placeholder w_EXPRESSION i.

(* [k]: the expressions evaluated so far; [rho]: the references already replaced in the stored texts *)
Definition fleaf (k : str -> option Z) (x : str) (v : fval) : tree :=
  match v with
  | FInt z => Leaf (SInt z)
  | FExp i _ _ => match k x with Some z => Leaf (SInt z) | None => Leaf (SStr (ph_of i)) end
  end.
Definition fdata (d : fdoc) (k : str -> option Z) : list (key * tree) :=
  map (fun xv => (KS (fst xv), fleaf k (fst xv) (snd xv))) d.
Definition fentry (rho k : str -> option Z) (xv : str * fval) : list (N * expr_entry) :=
  match snd xv with
  | FExp i g a => match k (fst xv) with
                  | None => [(i, (render_in rho g a, ph_of i))]
                  | Some _ => []
                  end
  | FInt _ => []
  end.
Definition ftable (d : fdoc) (rho k : str -> option Z) : list (N * expr_entry) := flat_map (fentry rho k) d.

Definition nothing : str -> option Z := fun _ => None.
Definition fstate (d : fdoc) (lc bc : list (N * str)) (inc : list (N * include_entry)) (rho k : str -> option Z) : sdict :=
  mkSD (fdata d k) lc bc inc (ftable d rho k).
(* what the parser delivers: every expression is a placeholder leaf, the table holds the texts in document order *)
Definition flat_sdict (d : fdoc) (lc bc : list (N * str)) (inc : list (N * include_entry)) : sdict :=
  fstate d lc bc inc nothing nothing.

(* ---- well-formedness of a flat document (all decidable on a concrete document) ------------------------------- *)
Definition fexp_ids (d : fdoc) : list N :=
  flat_map (fun xv => match snd xv with FExp i _ _ => [i] | FInt _ => [] end) d.
Definition fexp_ok (v : fval) : Prop :=
  match v with
  | FInt _ => True
  | FExp i g a =>
      (i < 1000000) /\                          (* placeholders carry six digits *)
      blank_fn g /\                             (* the layout inserts blanks only *)
      Forall word_name (avars a) /\             (* references are dollar + word characters *)
      avars a <> [] /\                          (* a quoted text without a dollar is a string, not an expression *)
      (forall x, a <> AVar x)                   (* the bare reference "$x" is treated by a separate rule *)
  end.
Definition fdoc_ok (d : fdoc) : Prop :=
  NoDup (map fst d) /\ NoDup (fexp_ids d) /\ Forall fexp_ok (map snd d).
