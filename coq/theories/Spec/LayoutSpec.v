(* Specification vocabulary for C02, C03, C12, C05, C06, C09, C11. *)
From Coq Require Import String.
From Coq Require Import NArith ZArith List Bool.
From DictIO Require Import Chars Str Value Scalar KeyPath SDict Layout Lexer TokParser Reader Expr Xml TreeSpec MiscSpec.
Import ListNotations.
Open Scope N_scope.

(* ---- C02 : lexemes and admissible layouts ------------------------------------------------------------ *)
Definition delim_lexeme (x : str) : Prop := exists d, x = [d] /\ is_delim d = true.
(* a word lexeme: non-empty, no white space, no delimiter character *)
Definition word_lexeme (x : str) : Prop :=
  x <> [] /\ Forall (fun c => is_space c = false /\ is_delim c = false) x.
Definition lexeme (x : str) : Prop := delim_lexeme x \/ word_lexeme x.
Definition ws_run (w : str) : Prop := Forall (fun c => is_space c = true) w.
(* text = lexemes separated by white space runs (blank, tab, LF, CR, ...); the run may be empty when one of the
   two neighbours is a delimiter *)
Inductive rendering : list str -> str -> Prop :=
  | r_nil : rendering [] []
  | r_one x : rendering [x] x
  | r_cons x y l w txt :
      rendering (y :: l) txt -> ws_run w -> (w <> [] \/ delim_lexeme x \/ delim_lexeme y) ->
      rendering (x :: y :: l) (x ++ w ++ txt).

(* ---- C12 ---------------------------------------------------------------------------------------------- *)
Definition no_slash (s : str) : Prop := has_char c_slash s = false.
Definition no_lf (s : str) : Prop := has_char c_lf s = false.
(* the text in front of the comment does not end with a colon (a colon directly before the slashes means URL) *)
Definition no_colon_end (s : str) : Prop := match rev s with c :: _ => (c =? c_colon) = false | [] => True end.
Definition line_end (nl : str) : Prop := nl = [] \/ nl = [c_lf].

(* ---- C09 ---------------------------------------------------------------------------------------------- *)
Definition no_include_keys (kvs : list (key * tree)) : bool := forallb (fun kv => negb (is_include_key_json (fst kv))) kvs.

(* ---- C11 ---------------------------------------------------------------------------------------------- *)
Definition elem_children (e : elem) : list elem := match e with Elem _ _ _ k => k end.
Definition special_xml_key (s : str) : bool :=
  starts_with (of_string "_content") s || starts_with (of_string "_attrib") s || is_skip_key s.
