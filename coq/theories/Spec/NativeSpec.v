(* Specification vocabulary for the native text format (C01, C02, C10). *)
From Coq Require Import NArith ZArith List Bool.
From DictIO Require Import Chars Str Value Scalar KeyPath SDict Layout Lexer TokParser.
Import ListNotations.
Open Scope N_scope.

(* ---- the token grammar of the format ------------------------------------------------------------ *)
(* A scalar occupies exactly one token.  [lt] renders a leaf as its token, [kt] a key. *)
Section TokenGrammar.
  Variable lt : scalar -> str.
  Variable kt : key -> str.

  Fixpoint toks_tree (in_list : bool) (t : tree) : list str :=
    match t with
    | Leaf v => [lt v]
    | Dict kvs =>
        (if in_list then [t_lbrace] else []) ++
        (fix entries (l : list (key * tree)) : list str :=
           match l with
           | [] => []
           | (k, c) :: l' =>
               (match c with
                | Leaf v => [kt k; lt v; t_semi]
                | Dict _ => [kt k; t_lbrace] ++ toks_tree false c ++ [t_rbrace]
                | Lst _ => [kt k] ++ toks_tree true c ++ [t_semi]
                end) ++ entries l'
           end) kvs ++
        (if in_list then [t_rbrace] else [])
    | Lst ts =>
        [t_lpar] ++
        (fix items (l : list tree) : list str :=
           match l with [] => [] | c :: l' => toks_tree true c ++ items l' end) ts ++
        [t_rpar]
    end.
  (* the token list of a whole document: the statements of the top-level dict, then the empty token that
     re.split leaves behind the final delimiter *)
  Definition toks_doc (kvs : list (key * tree)) : list str := toks_tree false (Dict kvs) ++ [[]].
End TokenGrammar.

(* a token that can stand for a scalar or key: not empty, not structural, not a comment / include marker *)
Definition plain_token (s : str) : bool :=
  nonempty s && negb (is_open s) && negb (is_close s) && negb (str_eqb s t_semi)
  && negb (is_comment_tok s) && negb (is_include_tok s).

(* map the leaves of a tree *)
Fixpoint map_leaves (f : scalar -> scalar) (t : tree) : tree :=
  match t with
  | Leaf v => Leaf (f v)
  | Dict kvs => Dict ((fix go (l : list (key * tree)) := match l with [] => [] | (k, c) :: l' => (k, map_leaves f c) :: go l' end) kvs)
  | Lst ts => Lst ((fix go (l : list tree) := match l with [] => [] | c :: l' => map_leaves f c :: go l' end) ts)
  end.

(* ---- string domain at the character level ------------------------------------------------------- *)
Definition no_sq (s : str) : bool := negb (has_char c_sq s).
Definition no_dq (s : str) : bool := negb (has_char c_dq s).

(* ---- underscore keys (Foam) --------------------------------------------------------------------- *)
Definition foam_key_text (k : key) : str := match k with KI z => Z_to_dec z | KS s => foam_format_string s end.
Definition us_key (k : key) : bool := starts_with [c_us] (foam_key_text k).
(* some key at some level of nesting (through dicts and lists) starts with an underscore *)
Fixpoint has_us_key (t : tree) : bool :=
  match t with
  | Leaf _ => false
  | Dict kvs => (fix go (l : list (key * tree)) : bool :=
                   match l with [] => false | (k, c) :: l' => us_key k || has_us_key c || go l' end) kvs
  | Lst ts => (fix go (l : list tree) : bool :=
                 match l with [] => false | c :: l' => has_us_key c || go l' end) ts
  end.
