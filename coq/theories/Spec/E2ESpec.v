(* Specification vocabulary for the end-to-end native round trip on quote-free documents (C01 layer (c) for the
   sub-domain where no literal extraction is involved). *)
From Coq Require Import String.
From Coq Require Import NArith ZArith List Bool.
From DictIO Require Import Chars Str Value Scalar KeyPath SDict Layout Lexer TokParser TreeSpec NativeSpec.
Import ListNotations.
Open Scope N_scope.

(* characters a bare token may consist of: word characters and a few harmless punctuation marks; in particular no
   white space, delimiter, bracket, quote, dollar, slash, backslash, colon, hash *)
Definition simple_char (c : cp) : bool :=
  is_word c || (c =? c_dot) || (c =? c_minus) || (c =? c_plus) || (c =? c_star) || (c =? 61) || (c =? 33) || (c =? 37)
  || (c =? 38) || (c =? 124) || (c =? 126) || (c =? 94) || (c =? 64) || (c =? 63).
Definition no_reserved_word (s : str) : bool :=
  negb (contains w_COMMENT s) && negb (contains w_INCLUDE s) && negb (contains w_EXPRESSION s) && negb (contains w_STRINGLITERAL s).
Definition simple_tok (s : str) : bool := nonempty s && forallb simple_char s && no_reserved_word s.

(* the leaf as the classifier reads its written form back (documented normalisation) *)
Definition norm_scalar (v : scalar) : scalar :=
  match parse_value (format_scalar v) with Ok x => x | Raise _ => v end.

(* quote-free documents: every leaf and key is written as one bare token; keys read back as themselves *)
Definition simple_leaf (v : scalar) : bool := simple_tok (format_scalar v).
Definition simple_key (k : key) : bool :=
  simple_tok (format_key k) && str_eqb (format_key k) (key_text k) &&
  match parse_key (format_key k) with Ok k' => key_eqb k k' | Raise _ => false end &&
  negb (key_eqb k (KS (of_string "_variables"))) && negb (key_eqb k (KS (of_string "_includes"))).
Fixpoint simple_tree (t : tree) : bool :=
  match t with
  | Leaf v => simple_leaf v
  | Dict kvs => (fix go (l : list (key * tree)) : bool :=
                   match l with [] => true | (k, c) :: l' => simple_key k && simple_tree c && go l' end) kvs
  | Lst ts => (fix go (l : list tree) : bool :=
                 match l with [] => true | c :: l' => simple_tree c && go l' end) ts
  end.

(* ---- the full writer domain: string leaves that the writer wraps in quotes ---------------------------------- *)
(* single-line strings free of dollar, comment markers and reserved placeholder words (the quantifier of C01), using at
   most one flavour of quote character, and not starting or ending with a quote character (one INNER quoted segment) *)
Definition lit_char (c : cp) : bool := negb (is_linebreak c) && negb (c =? c_dollar).
Definition quote_at_end (s : str) : bool :=
  match s with c :: _ => is_quote c | [] => false end || match rev s with c :: _ => is_quote c | [] => false end.
Definition quotable (s : str) : bool :=
  forallb lit_char s && no_reserved_word s
  && negb (contains [c_slash; c_slash] s) && negb (contains [c_slash; c_star] s)
  && negb (has_char c_sq s && has_char c_dq s) && negb (quote_at_end s).
Definition is_quoted_form (s : str) : bool := str_eqb (format_string s) (sq s) || str_eqb (format_string s) (dq s).
Definition writable_leaf (v : scalar) : bool :=
  simple_leaf v || match v with SStr s => quotable s && is_quoted_form s | _ => false end.
Fixpoint writable_tree (t : tree) : bool :=
  match t with
  | Leaf v => writable_leaf v
  | Dict kvs => (fix go (l : list (key * tree)) : bool :=
                   match l with [] => true | (k, c) :: l' => simple_key k && writable_tree c && go l' end) kvs
  | Lst ts => (fix go (l : list tree) : bool :=
                 match l with [] => true | c :: l' => writable_tree c && go l' end) ts
  end.
(* the leaf as the classifier reads the CONTENT of its written form back (documented normalisation): for a bare
   token this is norm_scalar; for a quoted string it is the classifier applied to the string itself *)
Definition written_value (v : scalar) : scalar :=
  match parse_value (remove_quotes (format_scalar v)) with Ok x => x | Raise _ => v end.
