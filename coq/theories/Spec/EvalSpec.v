(* Vocabulary for C05 (expressions): arithmetic expressions over references, their value, and how they are written. *)
From Coq Require Import String.
From Coq Require Import NArith ZArith List Bool.
From DictIO Require Import Chars Str Value.
Import ListNotations.
Open Scope N_scope.

(* ---- abstract syntax ---------------------------------------------------------------------------------- *)
Inductive aexp :=
  | ANum (n : N)                 (* a decimal literal *)
  | AVar (x : str)               (* a reference $x *)
  | ANeg (a : aexp)              (* - a *)
  | APos (a : aexp)              (* + a *)
  | AAdd (a b : aexp)
  | ASub (a b : aexp)
  | AMul (a b : aexp)
  | APar (a : aexp).             (* ( a ) *)

Fixpoint aeval (env : str -> Z) (a : aexp) : Z :=
  match a with
  | ANum n => Z.of_N n
  | AVar x => env x
  | ANeg a => (- aeval env a)%Z
  | APos a => aeval env a
  | AAdd a b => (aeval env a + aeval env b)%Z
  | ASub a b => (aeval env a - aeval env b)%Z
  | AMul a b => (aeval env a * aeval env b)%Z
  | APar a => aeval env a
  end.

Fixpoint avars (a : aexp) : list str :=
  match a with
  | ANum _ => []
  | AVar x => [x]
  | ANeg a | APos a | APar a => avars a
  | AAdd a b | ASub a b | AMul a b => avars a ++ avars b
  end.

(* ---- concrete syntax ----------------------------------------------------------------------------------- *)
(* binding strength of the outermost operator: 0 sum, 1 product, 2 factor *)
Definition alevel (a : aexp) : nat :=
  match a with
  | AAdd _ _ | ASub _ _ => 0
  | AMul _ _ => 1
  | _ => 2
  end.

Inductive dtok := DNum (n : N) | DVar (x : str) | DPlus | DMinus | DStar | DLp | DRp.

(* an operand that binds weaker than its position requires is parenthesised *)
Definition dwrap (l : nat) (a : aexp) (ts : list dtok) : list dtok :=
  if Nat.ltb (alevel a) l then DLp :: ts ++ [DRp] else ts.

Fixpoint dtoks (a : aexp) : list dtok :=
  match a with
  | ANum n => [DNum n]
  | AVar x => [DVar x]
  | ANeg a => DMinus :: dwrap 2 a (dtoks a)
  | APos a => DPlus :: dwrap 2 a (dtoks a)
  | AAdd a b => dtoks a ++ DPlus :: dwrap 1 b (dtoks b)
  | ASub a b => dtoks a ++ DMinus :: dwrap 1 b (dtoks b)
  | AMul a b => dwrap 1 a (dtoks a) ++ DStar :: dwrap 2 b (dtoks b)
  | APar a => DLp :: dtoks a ++ [DRp]
  end.

(* the text of one token; a reference whose value is known (rho) is written as that value, str(int) *)
Definition dtext (rho : str -> option Z) (t : dtok) : str :=
  match t with
  | DNum n => N_to_dec n
  | DVar x => match rho x with Some z => Z_to_dec z | None => c_dollar :: x end
  | DPlus => [c_plus]
  | DMinus => [c_minus]
  | DStar => [c_star]
  | DLp => [c_lpar]
  | DRp => [c_rpar]
  end.

(* [g i] is the (possibly empty) run of blanks in front of the i-th token; [g (number of tokens)] trails *)
Fixpoint layout (g : nat -> str) (rho : str -> option Z) (i : nat) (ts : list dtok) : str :=
  match ts with
  | [] => g i
  | t :: ts' => g i ++ dtext rho t ++ layout g rho (S i) ts'
  end.

Definition render_in (rho : str -> option Z) (g : nat -> str) (a : aexp) : str := layout g rho 0 (dtoks a).
Definition render (g : nat -> str) (a : aexp) : str := render_in (fun _ => None) g a.

Definition is_blank (c : cp) : bool := (c =? c_sp) || (c =? c_tab).
Definition blank_fn (g : nat -> str) : Prop := forall i, forallb is_blank (g i) = true.

(* two layouts: no blanks at all; one blank in front of every token but the first *)
Definition g_tight : nat -> str := fun _ => [].
Definition g_spaced : nat -> str := fun i => match i with O => [] | _ => [c_sp] end.
