(* The documented element-type table, stated declaratively (no recognisers, no regexes):
   which strings are integer / float literals, boolean / none words, and what everything else maps to. *)
From Coq Require Import NArith ZArith List Bool.
From DictIO Require Import Chars Str Value Scalar.
Import ListNotations.
Open Scope N_scope.

Definition sgn (s : str) : Prop := s = [] \/ s = [c_plus] \/ s = [c_minus].
Definition digits (s : str) : Prop := Forall (fun c => is_digit c = true) s.
Definition digits1 (s : str) : Prop := digits s /\ s <> [].
(* mantissa: 12   12.   12.5   .5 *)
Definition mant (m : str) : Prop :=
  digits1 m \/ exists d1 d2, m = d1 ++ c_dot :: d2 /\ digits d1 /\ digits d2 /\ (d1 <> [] \/ d2 <> []).
(* exponent: e5  E-3  e+12 *)
Definition expo (x : str) : Prop :=
  exists c sg ds, x = c :: sg ++ ds /\ (c = c_e \/ c = c_E) /\ sgn sg /\ digits1 ds.
(* a final line feed is not part of the literal *)
Definition fin (e : str) : Prop := e = [] \/ e = [c_lf].

Definition int_lit (s : str) : Prop :=
  exists sg ds e, s = sg ++ ds ++ e /\ sgn sg /\ digits1 ds /\ fin e.
Definition float_lit (s : str) : Prop :=
  exists sg m x e, s = sg ++ m ++ x ++ e /\ sgn sg /\ mant m /\ (x = [] \/ expo x) /\ fin e.
Definition reserved (s : str) : Prop := s = [c_minus] \/ s = [c_us] \/ s = [c_dot].
Definition word (s : str) : str := lower (strip s).
Definition is_word_lit (s : str) : Prop :=
  word s = w_true \/ word s = w_false \/ word s = w_on \/ word s = w_off \/ word s = w_none \/ word s = w_null.

(* value denoted by an integer literal: sign * sum of digits, independent of int_value *)
Fixpoint dec_value (ds : str) (acc : Z) : Z :=
  match ds with
  | [] => acc
  | c :: r => dec_value r (10 * acc + Z.of_N (c - 48))%Z
  end.
Definition int_denotes (s : str) (z : Z) : Prop :=
  exists sg ds e, s = sg ++ ds ++ e /\ sgn sg /\ digits1 ds /\ fin e /\
                  z = (if str_eqb sg [c_minus] then - dec_value ds 0 else dec_value ds 0)%Z.

Inductive classify (s : str) : scalar -> Prop :=
  | cl_empty : remove_quotes s = [] -> classify s (SStr [])
  | cl_reserved : remove_quotes s <> [] -> reserved s -> classify s (SStr s)
  | cl_int z : remove_quotes s <> [] -> ~ reserved s -> int_denotes s z -> classify s (SInt z)
  | cl_float : remove_quotes s <> [] -> ~ reserved s -> ~ int_lit s -> float_lit s -> classify s (SFloat s)
  | cl_true : remove_quotes s <> [] -> ~ reserved s -> ~ int_lit s -> ~ float_lit s ->
              (word s = w_true \/ word s = w_on) -> classify s (SBool true)
  | cl_false : remove_quotes s <> [] -> ~ reserved s -> ~ int_lit s -> ~ float_lit s ->
               (word s = w_false \/ word s = w_off) -> classify s (SBool false)
  | cl_none : remove_quotes s <> [] -> ~ reserved s -> ~ int_lit s -> ~ float_lit s ->
              (word s = w_none \/ word s = w_null) -> classify s SNone
  | cl_str : remove_quotes s <> [] -> ~ reserved s -> ~ int_lit s -> ~ float_lit s -> ~ is_word_lit s ->
             classify s (SStr (remove_quotes s)).

(* grammar of repr(x) for a finite Python float x:  -?D+.D+  |  -?D+(.D+)?e[+-]DD+  *)
Definition repr_exp (x : str) : bool :=
  match x with
  | c :: sg :: ds => (c =? c_e) && is_sign sg && nonempty ds && forallb is_digit ds
  | _ => false
  end.
Definition is_py_repr (r : str) : bool :=
  let r := match r with c :: r' => if c =? c_minus then r' else r | [] => [] end in
  let (d1, r1) := span is_digit r in
  nonempty d1 &&
  match r1 with
  | c :: r2 =>
      if c =? c_dot then
        let (d2, r3) := span is_digit r2 in
        nonempty d2 && (match r3 with [] => true | _ => repr_exp r3 end)
      else repr_exp r1
  | [] => false
  end.
Definition quote_free (s : str) : bool := forallb (fun c => negb (is_quote c)) s.
