(* Specification vocabulary for the tree algebra properties (C14, C15, C07). *)
From Coq Require Import NArith ZArith List Bool Sorted Permutation.
From DictIO Require Import Chars Str Value Scalar KeyPath SDict.
Import ListNotations.

(* ---- paths ------------------------------------------------------------------------------------- *)
(* list indices written without Python's negative-index aliasing *)
Definition nonneg_key (k : key) : bool := match k with KI z => (0 <=? z)%Z | KS _ => true end.
Definition nonneg (p : list key) : bool := forallb nonneg_key p.
(* two paths that part at some position *)
Definition diverge (p q : list key) : Prop :=
  exists r k1 k2 p' q', p = r ++ k1 :: p' /\ q = r ++ k2 :: q' /\ k1 <> k2.
Definition strict_prefix (r p : list key) : Prop := exists k p', p = r ++ k :: p'.
(* what a container looks like from outside: its keys in order / its length *)
Inductive csig := SigDict (ks : list key) | SigList (n : nat) | SigLeaf.
Definition container_sig (t : option tree) : option csig :=
  match t with
  | Some (Dict kvs) => Some (SigDict (map fst kvs))
  | Some (Lst ts) => Some (SigList (length ts))
  | Some (Leaf _) => Some SigLeaf
  | None => None
  end.

(* walk through dicts only (scope paths) *)
Fixpoint get_dpath (t : tree) (p : list key) : option tree :=
  match p with
  | [] => Some t
  | k :: p' => match t with
               | Dict kvs => match alookup k kvs with Some c => get_dpath c p' | None => None end
               | _ => None
               end
  end.

(* ---- ordering ---------------------------------------------------------------------------------- *)
Fixpoint keys_sorted (ks : list key) : bool :=
  match ks with
  | [] => true
  | k :: ks' => match ks' with [] => true | k' :: _ => key_leb k k' end && keys_sorted ks'
  end.
(* sorted at every dict level reachable through dicts *)
Fixpoint sorted_deep (t : tree) : bool :=
  match t with
  | Dict kvs => keys_sorted (map fst kvs) &&
                (fix go (l : list (key * tree)) : bool :=
                   match l with
                   | [] => true
                   | (_, c) :: l' => match c with Dict _ => sorted_deep c | _ => true end && go l'
                   end) kvs
  | _ => true
  end.
Definition order_child (c : tree) : tree := match c with Dict _ => order_tree c | _ => c end.
Definition kvs_of (t : tree) : list (key * tree) := match t with Dict kvs => kvs | _ => [] end.

(* ---- builtin dict as specification of the SDict API ------------------------------------------- *)
(* first-wins recursive merge (structural on the merged-in dict) *)
Fixpoint merge_spec_tree (tv ov : tree) : tree :=
  match tv, ov with
  | Dict tsub, Dict osub =>
      Dict ((fix go (o : list (key * tree)) (tgt : list (key * tree)) : list (key * tree) :=
               match o with
               | [] => tgt
               | (k, ov') :: o' =>
                   go o' (match alookup k tgt with
                          | Some tv' => match tv', ov' with
                                        | Dict _, Dict _ => aset k (merge_spec_tree tv' ov') tgt
                                        | _, _ => tgt
                                        end
                          | None => aset k ov' tgt
                          end)
               end) osub tsub)
  | _, _ => tv
  end.
Definition merge_spec (target other : list (key * tree)) : list (key * tree) :=
  kvs_of (merge_spec_tree (Dict target) (Dict other)).

Definition py_step (d : list (key * tree)) (op : sdop) : res (list (key * tree)) :=
  match op with
  | OSet k v => Ok (aset k v d)
  | ODel k | OPop k => if amem k d then Ok (adel k d) else Raise E_Key
  | OUpdate m _ | OOr m _ => Ok (aupdate d m)
  | ORor m => Ok (aupdate m d)
  | OSetdefault k v => Ok (if amem k d then d else aset k v d)
  | OClear => Ok []
  | OCopy | OCtor => Ok d
  | OMerge m _ => Ok (merge_spec d m)
  end.
Definition py_step' (d : list (key * tree)) (op : sdop) : list (key * tree) :=
  match py_step d op with Ok d' => d' | Raise _ => d end.
Definition py_run (d : list (key * tree)) (ops : list sdop) : list (key * tree) := fold_left py_step' ops d.

(* ordinary data: no key at any level is a placeholder key or has the shape of a placeholder word
   (upper case letters + six digits), and no string leaf contains a dollar sign or names an EXPRESSION
   placeholder (so nothing refers to its own key) *)
Definition ordinary_key (k : key) : bool :=
  match ph_kind_of k with None => true | Some _ => false end &&
  match k with KS s => negb (is_placeholder_name s) | KI _ => true end.
Definition ordinary_leaf (v : scalar) : bool :=
  match v with
  | SStr s => negb (has_char c_dollar s) && negb (has_placeholder w_EXPRESSION s)
  | _ => true
  end.
Fixpoint ordinary (t : tree) : bool :=
  match t with
  | Leaf v => ordinary_leaf v
  | Dict kvs => (fix go (l : list (key * tree)) : bool :=
                   match l with [] => true | (k, c) :: l' => ordinary_key k && ordinary c && go l' end) kvs
  | Lst ts => (fix go (l : list tree) : bool :=
                 match l with [] => true | c :: l' => ordinary c && go l' end) ts
  end.
Definition ordinary_kvs (d : list (key * tree)) : bool := ordinary (Dict d).
Definition ordinary_op (op : sdop) : bool :=
  match op with
  | OSet k v | OSetdefault k v => ordinary_key k && ordinary v
  | OUpdate m _ | OOr m _ | OMerge m _ | ORor m => ordinary_kvs m
  | _ => true
  end.
Definition ids_nodup {V} (l : list (N * V)) : Prop := NoDup (map fst l).
