(* Specification vocabulary for C05, C06, C08, C13, C16, C17, C18. *)
From Coq Require Import String.
From Coq Require Import NArith ZArith List Bool.
From DictIO Require Import Chars Str Value Scalar KeyPath SDict Layout Lexer TokParser Reader Expr Cli Paths TreeSpec.
Import ListNotations.
Open Scope N_scope.

(* ---- C18 -------------------------------------------------------------------------------------------- *)
Definition nodots (p : comps) : Prop := Forall (fun c => str_eqb c dotdot = false) p.

(* ---- C17 -------------------------------------------------------------------------------------------- *)
(* the documented meaning of the flags, written out flag by flag *)
Definition spec_kwargs (f : flags) : kwargs :=
  {| k_includes := if f_ignore_includes f then false else true;
     k_mode_append := f_append f;
     k_order := f_order f;
     k_comments := if f_ignore_comments f then false else true;
     k_scope := option_map validate_scope (f_scope f);
     k_output := match f_output f with None => OCpp | Some o => o end |}.
(* a scope key as typed on the command line: a word that the type table leaves a string *)
Definition scope_word (k : str) : Prop :=
  k <> [] /\ Forall (fun c => is_word c = true) k /\ parse_value k = Ok (SStr k).
Definition bracketed (ks : list str) : str := [c_lbrk] ++ join [c_comma; c_sp] ks ++ [c_rbrk].
Definition quoted_bracketed (ks : list str) : str := [c_lbrk] ++ join [c_comma; c_sp] (map sq ks) ++ [c_rbrk].

(* ---- C08 -------------------------------------------------------------------------------------------- *)
Fixpoint counter_iter (n : nat) (c : Z) : Z := match n with O => c | S n' => counter_next (counter_iter n' c) end.
Definition counter_ok (c : Z) : Prop := (-1 <= c <= 999999)%Z.

(* ---- C13 : a file system as a finite map; reads are no-ops, a write sets exactly its target --------- *)
Definition fsmap := list (str * str).
Fixpoint fs_get (p : str) (fs : fsmap) : option str :=
  match fs with [] => None | (q, t) :: fs' => if str_eqb p q then Some t else fs_get p fs' end.
Fixpoint fs_set (p : str) (t : str) (fs : fsmap) : fsmap :=
  match fs with
  | [] => [(p, t)]
  | (q, t') :: fs' => if str_eqb p q then (q, t) :: fs' else (q, t') :: fs_set p t fs'
  end.
Inductive fsop :=
  | FRead (p : str)                              (* read / load / parse_file *)
  | FWrite (target : str) (content : res str).   (* serialise first, then open the target *)
Definition fs_step (fs : fsmap) (op : fsop) : fsmap :=
  match op with
  | FRead _ => fs
  | FWrite t (Ok txt) => fs_set t txt fs
  | FWrite _ (Raise _) => fs
  end.
Definition w_parsed := of_string "parsed".

(* ---- C16 : the specification of a write sequence to one target (data level) -------------------------- *)
Definition spec_write (state : option (list (key * tree))) (w : list (key * tree) * bool) : option (list (key * tree)) :=
  match state, w with
  | Some s, (d, true) => Some (merge_spec s d)       (* append onto an existing file: existing wins *)
  | _, (d, _) => Some d                               (* no file yet, or overwrite *)
  end.
Definition spec_writes (ws : list (list (key * tree) * bool)) (st : option (list (key * tree))) :=
  fold_left spec_write ws st.

(* ---- C05 -------------------------------------------------------------------------------------------- *)
Definition ref_of (name : str) : str := c_dollar :: name.
Definition word_name (n : str) : Prop := n <> [] /\ Forall (fun c => is_word c = true) n.
