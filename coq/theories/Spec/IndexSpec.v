(* Vocabulary for C05 (expressions), documents with nested dicts of integers, lists of integers, indexed and bare
   references: reference names with index brackets, static values, the document, its data, its flattened
   (semantic) document, well-formedness. *)
From Coq Require Import String.
From Coq Require Import NArith ZArith List Bool.
From DictIO Require Import Chars Str Value Scalar KeyPath SDict Expr Eval MiscSpec EvalSpec FlatSpec.
Import ListNotations.

(* ---- reference names ------------------------------------------------------------------------------------- *)
(* brackets are matched and not nested: [inside] = an opening bracket is pending *)
Fixpoint brk (inside : bool) (s : str) : bool :=
  match s with
  | [] => negb inside
  | c :: s' =>
      if (c =? c_lbrk)%N then (if inside then false else brk true s')
      else if (c =? c_rbrk)%N then (if inside then brk false s' else false)
      else brk inside s'
  end.

(* the name of a reference: a word character, then word characters and matched square brackets *)
Definition rname (y : str) : Prop :=
  (exists w t, y = w :: t /\ is_word w = true) /\ Forall (fun c => is_ref_char c = true) y /\ brk false y = true.

(* ---- expressions over reference names with indices; the expression may be a bare reference ---------------- *)
Definition gexp_ok (v : fval) : Prop :=
  match v with
  | FInt _ => True
  | FExp i g a => (i < 1000000)%N /\ blank_fn g /\ Forall rname (avars a) /\ avars a <> []
  end.

(* ---- static values: scalars without a dollar sign and without the word EXPRESSION (integers, booleans, None, such
        floats and strings), lists of them, dicts (string keys) of static values ----------------------------------- *)
Definition inert (v : scalar) : bool :=
  negb (has_char c_dollar (py_str v)) && negb (contains w_EXPRESSION (py_str v)).
Definition inert_leaf (t : tree) : bool := match t with Leaf v => inert v | _ => false end.
Definition str_key (k : key) : bool := match k with KS _ => true | KI _ => false end.

Fixpoint stat (t : tree) : bool :=
  match t with
  | Leaf v => inert v
  | Lst ts => forallb inert_leaf ts
  | Dict kvs => (fix go (l : list (key * tree)) : bool :=
                   match l with
                   | [] => true
                   | (k, c) :: l' => str_key k && stat c && go l'
                   end) kvs
  end.

(* the bindings vars_tree makes for the entries of a dict (nested dicts first, then the entry itself) *)
Fixpoint tbinds (t : tree) : list (str * tree) :=
  match t with
  | Dict kvs => (fix go (l : list (key * tree)) : list (str * tree) :=
                   match l with
                   | [] => []
                   | (k, c) :: l' => (tbinds c ++ match k with KS x => [(x, c)] | KI _ => [] end) ++ go l'
                   end) kvs
  | _ => []
  end.
Definition ebinds (kv : key * tree) : list (str * tree) :=
  tbinds (snd kv) ++ match fst kv with KS x => [(x, snd kv)] | KI _ => [] end.

(* ---- the document ------------------------------------------------------------------------------------------ *)
(* the text of an index: the reference $l[1] has the name  l ++ idx 1 *)
Definition idx (n : N) : str := c_lbrk :: N_to_dec n ++ [c_rbrk].

(* a top-level entry: an integer / an expression (FInt / FExp), or a static value *)
Inductive pitem := PDyn (x : str) (v : fval) | PStat (x : str) (t : tree).
Definition pdoc := list pitem.
Definition pname (it : pitem) : str := match it with PDyn x _ | PStat x _ => x end.
Definition pentry (k : str -> option Z) (it : pitem) : key * tree :=
  match it with
  | PDyn x v => (KS x, fleaf k x v)
  | PStat x t => (KS x, t)
  end.
Definition pdata (p : pdoc) (k : str -> option Z) : list (key * tree) := map (pentry k) p.

(* the integers a binding declares: the value itself, or the elements of a list under their indexed names *)
Fixpoint elems (l : str) (pos : nat) (ts : list tree) : fdoc :=
  match ts with
  | [] => []
  | c :: ts' => match c with Leaf (SInt z) => [(l ++ idx (N.of_nat pos), FInt z)] | _ => [] end ++ elems l (S pos) ts'
  end.
Definition decl (b : str * tree) : fdoc :=
  match snd b with
  | Leaf (SInt z) => [(fst b, FInt z)]
  | Lst ts => elems (fst b) 0 ts
  | _ => []
  end.
(* the static bindings of the document, all nesting levels *)
Definition sbinds_item (it : pitem) : list (str * tree) :=
  match it with PDyn _ _ => [] | PStat x t => ebinds (KS x, t) end.
(* the flattened (semantic) document: every referable name with its integer / its expression *)
Definition psem_item (it : pitem) : fdoc :=
  match it with PDyn x v => [(x, v)] | PStat _ _ => flat_map decl (sbinds_item it) end.
Definition psem (p : pdoc) : fdoc := flat_map psem_item p.
(* every declared name, all nesting levels *)
Definition pall_item (it : pitem) : list str :=
  match it with PDyn x _ => [x] | PStat _ _ => map fst (sbinds_item it) end.
Definition pall (p : pdoc) : list str := flat_map pall_item p.

Definition stat_item (it : pitem) : Prop := match it with PDyn _ _ => True | PStat _ t => stat t = true end.

Definition pdoc_ok (p : pdoc) : Prop :=
  NoDup (pall p) /\ Forall word_name (pall p) /\ Forall stat_item p /\
  NoDup (map fst (psem p)) /\ NoDup (fexp_ids (psem p)) /\ Forall gexp_ok (map snd (psem p)).

(* the SDict the parser delivers.  [d]: the entries of the flattened document in the order of the table of expressions
   (the parser numbers the quoted expressions of a file first, then the unquoted references) *)
Definition psdict_ord (p : pdoc) (d : fdoc) (lc bc : list (N * str)) (inc : list (N * include_entry)) : sdict :=
  mkSD (pdata p nothing) lc bc inc (ftable d nothing nothing).
(* ... when the table is in the order of the document *)
Definition psdict (p : pdoc) (lc bc : list (N * str)) (inc : list (N * include_entry)) : sdict :=
  psdict_ord p (psem p) lc bc inc.

(* the flattened document: every declared integer and every expression at top level *)
Definition pflat (p : pdoc) : pdoc := map (fun xv => PDyn (fst xv) (snd xv)) (psem p).
