(* C12 on include directives, part 4: reading a written document that carries include directives.
   The document: the top-level block comments first (the header among them), then the directive lines, then everything
   else (ordinary entries, line comments, nested dicts with comments): this is the order NativeFormatter.to_string gives
   every document.  RereadProofs.reader_canon is replayed on the comment document with the directive entries spliced in
   behind the leading block comments. *)
From Coq Require Import String.
From Coq Require Import NArith ZArith List Bool Lia ZifyBool ZifyN ZifyNat.
From DictIO Require Import Chars Str Value Scalar KeyPath SDict Layout Lexer TokParser TreeSpec NativeSpec LayoutSpec E2ESpec.
From DictIO Require ScalarProofs SDictProofs TokProofs LayoutProofs SemProofs QuoteProofs KeyPathProofs.
From DictIO Require Import E2EProofs E2EHoles E2EInsert E2EKeyTok E2EFullProofs RereadStr RereadTree RereadWrite RereadLex RereadParse RereadNum RereadProofs.
From DictIO Require Import RereadIncStage RereadIncLex RereadIncParse.
Import ListNotations.
Import LayoutProofs.
Open Scope N_scope.

(* ================================================================================================ *)
(* 1. event lists: bookkeeping over concatenations                                                  *)
(* ================================================================================================ *)

Lemma lcx_app a b : lcx (a ++ b) = lcx a ++ lcx b.
Proof. rewrite !lcx_wxe. apply wxe_app. Qed.
Lemma bcx_app a b : bcx (a ++ b) = bcx a ++ bcx b.
Proof. rewrite !bcx_wxe. apply wxe_app. Qed.
Lemma icx_app a b : icx (a ++ b) = icx a ++ icx b.
Proof.
  induction a as [|e a IH]; [reflexivity|]. destruct e as [lvl k v|lvl k l|lvl k|lvl|lvl n x]; cbn [app icx]; try exact IH.
  destruct (str_eqb n w_INCTAG); cbn [app]; rewrite IH; reflexivity.
Qed.

Lemma relab_nil cm es : relab cm [] es = es.
Proof.
  induction es as [|e es IH]; [reflexivity|]. destruct e as [lvl k v|lvl k l|lvl k|lvl|lvl n x]; cbn [relab]; try (rewrite IH; reflexivity).
  destruct (str_eqb n w_LINECOMMENT); rewrite IH; reflexivity.
Qed.
Lemma relabI_nil es : relabI [] es = es.
Proof.
  induction es as [|e es IH]; [reflexivity|]. destruct e as [lvl k v|lvl k l|lvl k|lvl|lvl n x]; cbn [relabI]; try (rewrite IH; reflexivity).
  destruct (str_eqb n w_INCTAG); rewrite IH; reflexivity.
Qed.

(* a prefix without line comments is skipped by relab, one without directives by relabI *)
Lemma relab_skip cm a : lcx a = [] -> forall ks b, relab cm ks (a ++ b) = a ++ relab cm ks b.
Proof.
  induction a as [|e a IH]; intros H ks b; [reflexivity|].
  destruct e as [lvl k v|lvl k l|lvl k|lvl|lvl n x]; cbn [lcx app relab] in *; try (rewrite (IH H); reflexivity).
  destruct (str_eqb n w_LINECOMMENT); [discriminate H|]. rewrite (IH H). reflexivity.
Qed.
Lemma relabI_skip a : icx a = [] -> forall ks b, relabI ks (a ++ b) = a ++ relabI ks b.
Proof.
  induction a as [|e a IH]; intros H ks b; [reflexivity|].
  destruct e as [lvl k v|lvl k l|lvl k|lvl|lvl n x]; cbn [icx app relabI] in *; try (rewrite (IH H); reflexivity).
  destruct (str_eqb n w_INCTAG); [discriminate H|]. rewrite (IH H). reflexivity.
Qed.

(* events whose comment entries are line or block comments carry no directive *)
Lemma src_no_inc es : Forall ev_src es -> icx es = [].
Proof.
  induction 1 as [|e es He _ IH]; [reflexivity|]. destruct e as [lvl k v|lvl k l|lvl k|lvl|lvl n x]; cbn [icx]; try exact IH.
  cbn [ev_src] in He. destruct He as [[-> _]|[-> _]]; exact IH.
Qed.
Lemma relab_names_icx cm es ks : icx (relab cm ks es) = icx es.
Proof. apply relab_icx. Qed.

Lemma ev_src_srcI e : ev_src e -> ev_srcI e.
Proof. destruct e; cbn [ev_src ev_srcI]; tauto. Qed.

(* the directive events and their placeholder events *)
Definition inc_ev (name : str) : ev := ECm 0 w_INCTAG (inc_directive name).
Definition inc_ph_ev (k : N) : ev := ECm 0 w_INCTAG (iph k).

Lemma inc_evs_src names : forallb inc_name_ok names = true -> Forall ev_srcI (map inc_ev names).
Proof.
  intros H. apply Forall_forall. intros e He. apply in_map_iff in He. destruct He as (nm & <- & Hin).
  cbn [inc_ev ev_srcI]. right. right. split; [reflexivity|]. exists nm. split; [reflexivity|].
  rewrite forallb_forall in H. exact (H nm Hin).
Qed.

Lemma inc_evs_facts names : forallb inc_name_ok names = true ->
  lcx (map inc_ev names) = [] /\ bcx (map inc_ev names) = [] /\ lits (map inc_ev names) = [] /\
  icx (map inc_ev names) = map (fun nm => (0%nat, nm)) names.
Proof.
  induction names as [|nm names IH]; intros H; [repeat split; reflexivity|].
  cbn [forallb] in H. apply andb_true_iff in H. destruct H as [H1 H2]. destruct (IH H2) as (A & B & C & D).
  cbn [map inc_ev lcx bcx icx]. replace (str_eqb w_INCTAG w_LINECOMMENT) with false by reflexivity.
  replace (str_eqb w_INCTAG w_BLOCKCOMMENT) with false by reflexivity. replace (str_eqb w_INCTAG w_INCTAG) with true by reflexivity.
  rewrite (dname_directive nm (proj1 (inc_name_ok_inv nm H1))). fold (inc_ev nm). rewrite D.
  split; [exact A|]. split; [exact B|]. split; [exact C|reflexivity].
Qed.

Lemma relabI_inc_evs : forall names ks b, length ks = length names ->
  relabI ks (map inc_ev names ++ b) = map inc_ph_ev ks ++ relabI [] b.
Proof.
  induction names as [|nm names IH]; intros ks b Hl; destruct ks as [|k ks]; try discriminate Hl; [reflexivity|].
  cbn [map app inc_ev relabI]. replace (str_eqb w_INCTAG w_INCTAG) with true by reflexivity.
  fold (inc_ev nm). cbn [length] in Hl. rewrite (IH ks b ltac:(lia)). reflexivity.
Qed.

Lemma numB_inc_ph cm tab ks : map (numB cm tab) (map inc_ph_ev ks) = map inc_ph_ev ks.
Proof. induction ks as [|k ks IH]; [reflexivity|]. cbn [map inc_ph_ev numB]. fold (inc_ph_ev k). rewrite IH. reflexivity. Qed.

Lemma first_nc_cm_prefix (a b : list ev) : Forall (fun e => match e with ECm _ _ _ => True | _ => False end) a -> first_nc b -> first_nc (a ++ b).
Proof.
  induction 1 as [|e a He _ IH]; intros Hb; [exact Hb|]. destruct e; try contradiction. cbn [app first_nc]. exact (IH Hb).
Qed.

Lemma evs_tokL_app a : forall ks b, evs_tokL ks (a ++ b) = evs_tokL ks a ++ evs_tokL (skipn (length (lits a)) ks) b.
Proof.
  induction a as [|e a IH]; intros ks b; [reflexivity|]. cbn [app evs_tokL]. rewrite IH, <- app_assoc. f_equal. f_equal. f_equal.
  change (lits (e :: a)) with (ev_lits e ++ lits a). rewrite app_length, skipn_add. reflexivity.
Qed.

(* ================================================================================================ *)
(* 2. _clean keeps a document with include placeholder entries                                      *)
(* ================================================================================================ *)

Lemma inc_eqb_eq a b : inc_eqb a b = true -> a = b.
Proof.
  destruct a as [[a1 a2] a3], b as [[b1 b2] b3]. cbn [inc_eqb]. intros H. apply andb_true_iff in H. destruct H as [H H3].
  apply andb_true_iff in H. destruct H as [H1 H2]. apply SDictProofs.str_eqb_eq in H1, H2, H3. subst. reflexivity.
Qed.

(* at every dict level the include entries looked up for the include placeholder keys are pairwise distinct *)
Fixpoint ctabsI (inc : list (N * include_entry)) (t : tree) {struct t} : Prop :=
  match t with
  | Dict kvs =>
      NoDup (kvals (keys_of_kind PhInclude kvs) inc) /\
      (fix go (l : list (key * tree)) : Prop :=
         match l with [] => True | (_, c) :: l' => (match c with Dict _ => ctabsI inc c | _ => True end) /\ go l' end) kvs
  | _ => True
  end.

Lemma ctabsI_child inc kvs k sub : ctabsI inc (Dict kvs) -> In (k, Dict sub) kvs -> ctabsI inc (Dict sub).
Proof.
  intros (_ & H) Hin. induction kvs as [|[k' c'] kvs IH]; [destruct Hin|]. destruct H as [H1 H2].
  destruct Hin as [Heq|Hin]; [inversion Heq; subst; exact H1|exact (IH H2 Hin)].
Qed.

Lemma clean_level_keep3 data s :
  NoDup (kvals (keys_of_kind PhBlock data) (sd_bc s)) -> NoDup (kvals (keys_of_kind PhInclude data) (sd_inc s)) ->
  NoDup (kvals (keys_of_kind PhLine data) (sd_lc s)) -> clean_level data s = (data, s).
Proof.
  intros Hb Hi Hl. unfold clean_level. rewrite (clean_kind_keep str_eqb str_eqb_eq' _ data (sd_bc s) [] Hb).
  rewrite (clean_kind_keep inc_eqb inc_eqb_eq _ data (sd_inc s) [] Hi).
  rewrite (clean_kind_keep str_eqb str_eqb_eq' _ data (sd_lc s) [] Hl).
  destruct s as [d lc bc inc ex]. reflexivity.
Qed.

Lemma clean_tree_keep3 : forall fuel data s, ctabs (sd_lc s) (sd_bc s) (Dict data) -> ctabsI (sd_inc s) (Dict data) -> wf (Dict data) = true ->
  clean_tree fuel data s = (data, s).
Proof.
  induction fuel as [|f IH]; intros data s Hc Hci Hw; [reflexivity|].
  rewrite SDictProofs.clean_tree_S. apply SDictProofs.wf_Dict_iff in Hw. destruct Hw as [Hnd Hw].
  pose proof Hc as (Hb & Hl & _). pose proof Hci as (Hi & _). rewrite (clean_level_keep3 data s Hb Hi Hl). cbn [fst].
  assert (Hgen : forall l, (forall kv, In kv l -> In kv data) -> fold_left (SDictProofs.cstep f) l (data, s) = (data, s)).
  { induction l as [|[k v] l IHl]; intros Hsub; [reflexivity|]. cbn [fold_left].
    assert (Hin : In (k, v) data) by (apply Hsub; left; reflexivity).
    assert (Hcs : SDictProofs.cstep f (data, s) (k, v) = (data, s)).
    { unfold SDictProofs.cstep. cbn [fst snd]. destruct v as [x|sub|ts]; try reflexivity.
      rewrite Forall_forall in Hw. pose proof (Hw _ Hin) as Hws. unfold SDictProofs.wfkv in Hws. cbn [snd] in Hws.
      rewrite (IH sub s (ctabs_child _ _ _ _ _ Hc Hin) (ctabsI_child _ _ _ _ Hci Hin) Hws).
      rewrite SDictProofs.aset_same; [reflexivity|]. apply SDictProofs.alookup_In_nodup; assumption. }
    rewrite Hcs. apply IHl. intros kv H'. apply Hsub. right. exact H'. }
  apply Hgen. auto.
Qed.

Lemma sd_clean_keep3 d lc bc inc ex : ctabs lc bc (Dict d) -> ctabsI inc (Dict d) -> wf (Dict d) = true ->
  sd_clean (mkSD d lc bc inc ex) = mkSD d lc bc inc ex.
Proof.
  intros Hc Hci Hw. unfold sd_clean. cbn [sd_data]. rewrite (clean_tree_keep3 _ d (mkSD d lc bc inc ex)); [reflexivity|exact Hc|exact Hci|exact Hw].
Qed.

(* ---- trees without include placeholder keys -------------------------------------------------------- *)
Fixpoint noinc (t : tree) {struct t} : Prop :=
  match t with
  | Dict kvs =>
      (fix go (l : list (key * tree)) : Prop :=
         match l with [] => True | (k, c) :: l' => is_include_key k = false /\ (match c with Dict _ => noinc c | _ => True end) /\ go l' end) kvs
  | _ => True
  end.

Lemma noinc_dict kvs : noinc (Dict kvs) <-> Forall (fun kc => is_include_key (fst kc) = false /\ match snd kc with Dict d => noinc (Dict d) | _ => True end) kvs.
Proof.
  induction kvs as [|[k c] kvs IH]; [split; [constructor|intros _; exact I]|]. split.
  - intros (H1 & H2 & H3). constructor; [split; [exact H1|destruct c; try exact I; exact H2]|apply IH; exact H3].
  - intros H. inversion H as [|x xs [H1 H2] H3]; subst. cbn [fst snd] in *. split; [exact H1|]. split; [destruct c; try exact I; exact H2|apply IH; exact H3].
Qed.

Lemma kok_inc_nil kvs : (forall kc : key * tree, In kc kvs -> is_include_key (fst kc) = false) -> keys_of_kind PhInclude kvs = [].
Proof.
  induction kvs as [|kc kvs IH]; intros H; [reflexivity|]. rewrite keys_of_kind_cons, IH by (intros kc' Hin; apply H; right; exact Hin).
  pose proof (H kc (or_introl eq_refl)) as Hk. destruct (fst kc) as [z|s]; [reflexivity|]. cbn [ph_kind_of]. cbn [is_include_key] in Hk.
  rewrite Hk. destruct (has_placeholder w_BLOCKCOMMENT s); [reflexivity|]. destruct (has_placeholder w_LINECOMMENT s); reflexivity.
Qed.

Lemma noinc_ctabsI inc : forall t, noinc t -> ctabsI inc t.
Proof.
  induction t as [v|kvs IH|ts IH] using tree_ind'; intros H; try exact I.
  apply noinc_dict in H. cbn [ctabsI]. split.
  - rewrite kok_inc_nil; [constructor|]. intros kc Hin. rewrite Forall_forall in H. exact (proj1 (H kc Hin)).
  - induction IH as [|[k c] kvs Hc _ IHk]; [exact I|]. inversion H as [|x xs [_ H2] H3]; subst. cbn [snd] in *. split.
    + destruct c as [v|d|l]; try exact I. exact (Hc H2).
    + exact (IHk H3).
Qed.

Lemma noinc_map_leaves g : forall t, noinc (map_leaves g t) -> noinc t.
Proof.
  induction t as [v|kvs IH|ts IH] using tree_ind'; intros H; try exact I.
  rewrite TokProofs.map_leaves_dict in H. apply noinc_dict in H. apply noinc_dict.
  induction IH as [|[k c] kvs Hc _ IHk]; [constructor|]. cbn [map] in H. inversion H as [|x xs [H1 H2] H3]; subst.
  unfold TokProofs.mkv in H1, H2. cbn [fst snd] in *. constructor; [|exact (IHk H3)]. split; [exact H1|].
  destruct c as [v|d|l]; try exact I. apply Hc. rewrite TokProofs.map_leaves_dict in *. exact H2.
Qed.

(* the numbered comment document has no include placeholder key *)
Lemma numT_noinc ltab btab f : forall t, cshape t = true -> noinc (numT ltab btab f t).
Proof.
  induction t as [v|kvs IH|ts IH] using tree_ind'; intros Hs; try discriminate Hs.
  unfold numT. rewrite cmapg_dict. apply noinc_dict.
  revert Hs. induction IH as [|[k c] kvs Hc _ IHk]; intros Hs; [constructor|].
  rewrite cshape_cons in Hs. apply andb_true_iff in Hs. destruct Hs as [Hs1 Hs2]. cbn [map]. constructor; [|exact (IHk Hs2)].
  unfold cshape_entry in Hs1. unfold cmap_entry. cbn [snd] in Hc. destruct (cm_entry (k, c)) as [[n x]|] eqn:Ec.
  - unfold gkv. cbn [fst snd]. split; [|exact I]. destruct (gx_cases ltab btab n x) as (w & i & Hw & ->).
    cbn [is_include_key]. destruct (has_placeholder w_INCLUDE (placeholder w i)) eqn:E; [|reflexivity]. exfalso.
    apply has_placeholder_contains in E. pose proof (contains_In w_INCLUDE _ ltac:(discriminate) E 85) as H.
    assert (Hu : In 85 w_INCLUDE) by (cbn; tauto). specialize (H Hu). destruct (cph_In w i 85 Hw H) as [H1|H1]; [|discriminate H1].
    destruct Hw as [-> | ->]; cbn in H1; repeat (destruct H1 as [H1|H1]; [discriminate H1|]); exact H1.
  - cbn [fst snd] in *. apply andb_true_iff in Hs1. destruct Hs1 as [Hk Hc1]. split; [exact (proj2 (simple_key_unsorted _ Hk))|].
    destruct c as [v|d|l]; try exact I.
    fold (numT ltab btab f (Dict d)). destruct (numT_dict ltab btab f d) as [d' Ed]. rewrite Ed. rewrite <- Ed. exact (Hc Hc1).
Qed.

(* ================================================================================================ *)
(* 3. include placeholder entries spliced into a document                                           *)
(* ================================================================================================ *)
From Coq Require Import Permutation.

Definition ikey (k : N) : key := KS (iph k).
Definition inc_ph_entry (k : N) : key * tree := (ikey k, Leaf (SStr (iph k))).

Lemma iph_not_block k : has_placeholder w_BLOCKCOMMENT (iph k) = false.
Proof.
  destruct (has_placeholder w_BLOCKCOMMENT (iph k)) eqn:E; [|reflexivity]. exfalso.
  apply has_placeholder_contains in E. apply contains_head_In in E. unfold iph, placeholder in E. apply in_app_or in E. destruct E as [E|E].
  - cbn in E. repeat (destruct E as [E|E]; [discriminate E|]). exact E.
  - pose proof (forallb_In _ _ _ (pad6_digits k) E) as H. discriminate H.
Qed.

Lemma iph_include k : k < 1000000 -> has_placeholder w_INCLUDE (iph k) = true.
Proof.
  intros Hk. unfold iph, placeholder.
  assert (E : forall d : list N, all_digits_n 6 d = true -> has_placeholder w_INCLUDE (w_INCLUDE ++ d) = true).
  { intros d Hd. change (w_INCLUDE ++ d) with (73 :: (skipn 1 w_INCLUDE ++ d)). cbn [has_placeholder].
    change (73 :: skipn 1 w_INCLUDE ++ d) with (w_INCLUDE ++ d). rewrite starts_with_app, drop_n_app, Hd. reflexivity. }
  apply E. pose proof (all_digits_app (pad6 k) [] (pad6_digits k)) as H. rewrite (pad6_length k Hk), app_nil_r in H. exact H.
Qed.

Lemma ikey_kind k : k < 1000000 -> ph_kind_of (ikey k) = Some PhInclude.
Proof. intros Hk. unfold ikey. cbn [ph_kind_of]. rewrite iph_not_block, (iph_include k Hk). reflexivity. Qed.

Lemma ikey_is_include k : k < 1000000 -> is_include_key (ikey k) = true.
Proof. intros Hk. exact (iph_include k Hk). Qed.

Lemma ikey_id k : k < 1000000 -> key_id (ikey k) = Some k.
Proof.
  intros Hi. unfold ikey, key_id, iph, placeholder.
  assert (G : forall u : list N, forallb is_upper u = true -> first_6digits (u ++ pad6 k) = Some k).
  { induction u as [|c u IH]; intros H.
    - cbn [app]. pose proof (all_digits_app (pad6 k) [] (pad6_digits k)) as Hd. rewrite (pad6_length k Hi), app_nil_r in Hd.
      destruct (pad6 k) as [|d0 d] eqn:Ed; [rewrite <- Ed in Hd; pose proof (pad6_length k Hi) as Hl; rewrite Ed in Hl; discriminate Hl|].
      cbn [first_6digits]. rewrite Hd. pose proof (take_n_app (d0 :: d) []) as Ht. rewrite app_nil_r in Ht.
      rewrite <- Ed, (pad6_length k Hi) in Ht. rewrite <- Ed, Ht, dec_to_N_pad6. reflexivity.
    - cbn [forallb] in H. apply andb_true_iff in H. destruct H as [Hc Hu']. cbn [app first_6digits all_digits_n].
      assert (Hd : is_digit c = false) by (unfold is_upper, is_digit in *; lia). rewrite Hd. cbn [andb]. exact (IH Hu'). }
  apply G. reflexivity.
Qed.

Lemma keys_of_kind_app kd (a b : list (key * tree)) : keys_of_kind kd (a ++ b) = keys_of_kind kd a ++ keys_of_kind kd b.
Proof. unfold keys_of_kind. rewrite map_app, filter_app. reflexivity. Qed.

Lemma kok_inc_entries kd ks : small ks ->
  keys_of_kind kd (map inc_ph_entry ks) = match kd with PhInclude => map ikey ks | _ => [] end.
Proof.
  induction ks as [|k ks IH]; intros H; [destruct kd; reflexivity|]. inversion H as [|x xs Hk Hks]; subst.
  cbn [map]. rewrite keys_of_kind_cons, (IH Hks). unfold inc_ph_entry at 1. cbn [fst]. rewrite (ikey_kind k Hk). destruct kd; reflexivity.
Qed.

Lemma kvals_cons_other {V} keys k (e : V) tab : (forall k', In k' keys -> key_id k' <> Some k) -> kvals keys ((k, e) :: tab) = kvals keys tab.
Proof.
  induction keys as [|k0 keys IH]; intros H; [reflexivity|]. unfold kvals in *. cbn [flat_map].
  rewrite IH by (intros k' Hin; apply H; right; exact Hin). f_equal.
  pose proof (H k0 (or_introl eq_refl)) as Hk. destruct (key_id k0) as [i|]; [|reflexivity]. cbn [tlookup].
  destruct (i =? k) eqn:E; [apply N.eqb_eq in E; subst i; congruence|reflexivity].
Qed.

Lemma kvals_inc {V} : forall ks (es : list V), NoDup ks -> small ks -> length ks = length es -> kvals (map ikey ks) (combine ks es) = es.
Proof.
  induction ks as [|k ks IH]; intros es Hnd Hsm Hl; destruct es as [|e es]; try discriminate Hl; [reflexivity|].
  inversion Hnd as [|x xs Hx Hnd']; subst. inversion Hsm as [|x xs Hk Hsm']; subst. cbn [map combine].
  change (ikey k :: map ikey ks) with ([ikey k] ++ map ikey ks). rewrite kvals_app.
  assert (E1 : kvals [ikey k] ((k, e) :: combine ks es) = [e]).
  { unfold kvals. cbn [flat_map]. rewrite (ikey_id k Hk). cbn [tlookup]. rewrite N.eqb_refl. reflexivity. }
  rewrite E1. cbn [app]. f_equal. rewrite kvals_cons_other.
  - apply IH; [exact Hnd'|exact Hsm'|cbn [length] in Hl; lia].
  - intros k' Hin. apply in_map_iff in Hin. destruct Hin as (j & <- & Hj). unfold small in Hsm'. rewrite Forall_forall in Hsm'.
    rewrite (ikey_id j (Hsm' j Hj)). intros E. inversion E; subst. exact (Hx Hj).
Qed.

Lemma NoDup_app_intro {A} (l1 l2 : list A) : NoDup l1 -> NoDup l2 -> (forall x, In x l1 -> ~ In x l2) -> NoDup (l1 ++ l2).
Proof.
  induction 1 as [|x l1 Hx _ IH]; intros H2 Hd; [exact H2|]. cbn [app]. constructor.
  - intros Hin. apply in_app_or in Hin. destruct Hin as [Hin|Hin]; [exact (Hx Hin)|exact (Hd x (or_introl eq_refl) Hin)].
  - apply IH; [exact H2|]. intros y Hy. apply Hd. right. exact Hy.
Qed.

Lemma NoDup_splice {A} (a m b : list A) : NoDup (a ++ b) -> NoDup m -> (forall x, In x m -> ~ In x (a ++ b)) -> NoDup (a ++ m ++ b).
Proof.
  intros Hab Hm Hd. apply (Permutation_NoDup (l := m ++ (a ++ b))).
  - rewrite app_assoc, (app_assoc a m b). apply Permutation_app_tail. apply Permutation_app_comm.
  - apply NoDup_app_intro; assumption.
Qed.

Section Splice.
  Variable lc bc : list (N * str).
  Variable ks : list N.
  Variable es : list include_entry.
  Hypothesis Hks_nd : NoDup ks.
  Hypothesis Hks_sm : small ks.
  Hypothesis Hlen : length ks = length es.
  Hypothesis Hes_nd : NoDup es.
  Notation IE := (map inc_ph_entry ks).

  Lemma In_splice {A} (a m b : list A) x : In x (a ++ m ++ b) <-> In x m \/ In x (a ++ b).
  Proof. rewrite !in_app_iff. tauto. Qed.

  Lemma ctabs_splice a b : ctabs lc bc (Dict (a ++ b)) -> ctabs lc bc (Dict (a ++ IE ++ b)).
  Proof.
    intros H. pose proof H as (H1 & H2 & _). apply ctabs_dict.
    - rewrite !keys_of_kind_app, (kok_inc_entries PhBlock ks Hks_sm). cbn [app]. rewrite <- keys_of_kind_app. exact H1.
    - rewrite !keys_of_kind_app, (kok_inc_entries PhLine ks Hks_sm). cbn [app]. rewrite <- keys_of_kind_app. exact H2.
    - intros k d Hin. apply In_splice in Hin. destruct Hin as [Hin|Hin].
      + apply in_map_iff in Hin. destruct Hin as (j & Ej & _). discriminate Ej.
      + exact (ctabs_child _ _ _ _ _ H Hin).
  Qed.

  Lemma ctabsI_dict inc (kvs : list (key * tree)) :
    NoDup (kvals (keys_of_kind PhInclude kvs) inc) -> (forall k d, In (k, Dict d) kvs -> ctabsI inc (Dict d)) -> ctabsI inc (Dict kvs).
  Proof.
    intros H1 H3. cbn [ctabsI]. split; [exact H1|]. clear H1. induction kvs as [|[k c] kvs IH]; [exact I|]. split.
    - destruct c as [v|d|l]; try exact I. apply (H3 k d). left. reflexivity.
    - apply IH. intros k' d' Hin. apply (H3 k' d'). right. exact Hin.
  Qed.

  Lemma noinc_keys kvs : noinc (Dict kvs) -> forall kc, In kc kvs -> is_include_key (fst kc) = false.
  Proof. intros H kc Hin. apply noinc_dict in H. rewrite Forall_forall in H. exact (proj1 (H kc Hin)). Qed.

  Lemma noinc_child kvs k d : noinc (Dict kvs) -> In (k, Dict d) kvs -> noinc (Dict d).
  Proof. intros H Hin. apply noinc_dict in H. rewrite Forall_forall in H. exact (proj2 (H _ Hin)). Qed.

  Lemma ctabsI_splice a b : noinc (Dict (a ++ b)) -> ctabsI (combine ks es) (Dict (a ++ IE ++ b)).
  Proof.
    intros H. assert (Ha : forall kc, In kc a -> is_include_key (fst kc) = false) by (intros kc Hin; apply (noinc_keys _ H); apply in_or_app; left; exact Hin).
    assert (Hb : forall kc, In kc b -> is_include_key (fst kc) = false) by (intros kc Hin; apply (noinc_keys _ H); apply in_or_app; right; exact Hin).
    apply ctabsI_dict.
    - rewrite !keys_of_kind_app, (kok_inc_nil a Ha), (kok_inc_nil b Hb), (kok_inc_entries PhInclude ks Hks_sm), app_nil_r. cbn [app].
      rewrite (kvals_inc ks es Hks_nd Hks_sm Hlen). exact Hes_nd.
    - intros k d Hin. apply In_splice in Hin. destruct Hin as [Hin|Hin].
      + apply in_map_iff in Hin. destruct Hin as (j & Ej & _). discriminate Ej.
      + apply noinc_ctabsI. exact (noinc_child _ _ _ H Hin).
  Qed.

  Lemma wf_splice a b : wf (Dict (a ++ b)) = true -> noinc (Dict (a ++ b)) -> wf (Dict (a ++ IE ++ b)) = true.
  Proof.
    intros Hw Hn. apply SDictProofs.wf_Dict_iff in Hw. destruct Hw as [Hnd Hw]. apply SDictProofs.wf_Dict_iff.
    assert (Hsm : forall x, In x ks -> x < 1000000) by (intros x Hx; unfold small in Hks_sm; rewrite Forall_forall in Hks_sm; exact (Hks_sm x Hx)).
    split.
    - rewrite !map_app. rewrite map_app in Hnd. apply NoDup_splice; [exact Hnd| |].
      + rewrite map_map. cbn [inc_ph_entry fst]. apply NoDup_map_on; [|exact Hks_nd]. intros x y Hx Hy E.
        assert (E' : iph x = iph y) by (unfold ikey in E; congruence).
        exact (placeholder_injective _ _ _ (Hsm x Hx) (Hsm y Hy) E').
      + intros x Hx Hin. rewrite map_map in Hx. apply in_map_iff in Hx. destruct Hx as (j & <- & Hj). rewrite <- map_app in Hin.
        apply in_map_iff in Hin. destruct Hin as (kc & Ekc & Hkc). pose proof (noinc_keys _ Hn kc Hkc) as Hf.
        cbn [inc_ph_entry fst] in Ekc. rewrite Ekc in Hf.
        rewrite (ikey_is_include j (Hsm j Hj)) in Hf. discriminate Hf.
    - apply Forall_forall. intros kc Hin. apply In_splice in Hin. destruct Hin as [Hin|Hin].
      + apply in_map_iff in Hin. destruct Hin as (j & <- & _). reflexivity.
      + rewrite Forall_forall in Hw. exact (Hw kc Hin).
  Qed.
End Splice.

(* ================================================================================================ *)
(* 4. the document and the result                                                                   *)
(* ================================================================================================ *)

Definition bpart (c : list (key * tree)) : list (key * tree) := filter is_bc_entry c.
Definition rpart (c : list (key * tree)) : list (key * tree) := filter (fun kc => negb (is_bc_entry kc)) c.
(* the events of the written document: top-level block comments, directive lines, everything else *)
Definition inc_events (c : list (key * tree)) (names : list str) : list ev :=
  events 0 (Dict (bpart c)) ++ map inc_ev names ++ events 0 (Dict (rpart c)).
(* the include table the reader builds: directive as written, name, path of the name relative to the folder of the file *)
Definition inc_tab (dir : str) (ks : list N) (names : list str) : list (N * include_entry) :=
  combine ks (map (fun nm => (inc_directive nm, nm, path_join dir nm)) names).
(* the SDict the reader returns: the numbered comment document (RereadProofs.number) with one include placeholder entry
   per directive spliced in behind the top-level block comments; the include ids are the counter values that follow
   those of the line comments *)
Definition number_inc (dir : str) (count : Z) (c : list (key * tree)) (names : list str) : sdict :=
  let ks := ids (cafter count (length (lc_list c))) (length names) in
  let d := sd_data (number count c) in let nb := length (bpart c) in
  mkSD (firstn nb d ++ map inc_ph_entry ks ++ skipn nb d) (lc_tab count c) (bc_tab c) (inc_tab dir ks names) [].
Definition count_after_inc (count : Z) (c : list (key * tree)) (names : list str) : Z :=
  cafter (cafter (cafter count (length (lc_list c))) (length names)) (length (lit_list c)).

Lemma is_bcn_lc : is_bcn w_LINECOMMENT = false.
Proof. reflexivity. Qed.

(* the events of the leading block comments *)
Definition bc_ev (e : ev) : Prop := match e with ECm _ n _ => n = w_BLOCKCOMMENT | _ => False end.

Lemma bpart_events : forall c, Forall ev_src (events 0 (Dict (bpart c))) -> Forall bc_ev (events 0 (Dict (bpart c))).
Proof.
  induction c as [|kc c IH]; intros H; [constructor|]. unfold bpart in *. cbn [filter] in *.
  destruct (is_bc_entry kc) eqn:Eb; [|exact (IH H)]. rewrite events_cons in *. apply Forall_app in H. destruct H as [H1 H2].
  apply Forall_app. split; [|exact (IH H2)]. unfold is_bc_entry in Eb. unfold entry_events in *.
  destruct (cm_entry kc) as [[n x]|]; [|discriminate Eb]. inversion H1 as [|e es He _]; subst. constructor; [|constructor].
  cbn [ev_src bc_ev] in *. destruct He as [[-> _]|[-> _]]; [discriminate Eb|reflexivity].
Qed.

Lemma bc_evs_facts es : Forall bc_ev es ->
  lcx es = [] /\ icx es = [] /\ lits es = [] /\ Forall (fun e => match e with ECm _ _ _ => True | _ => False end) es /\
  (forall ks, evs_lab ks es = es) /\ (forall cm tab, map (relL cm tab) es = es).
Proof.
  induction 1 as [|e es He _ (A & B & C & D & E & F)]; [repeat split; try reflexivity; constructor|].
  destruct e as [lvl k v|lvl k l|lvl k|lvl|lvl n x]; try contradiction. cbn [bc_ev] in He. subst n.
  cbn [lcx icx]. replace (str_eqb w_BLOCKCOMMENT w_LINECOMMENT) with false by reflexivity.
  replace (str_eqb w_BLOCKCOMMENT w_INCTAG) with false by reflexivity.
  split; [exact A|]. split; [exact B|]. split; [exact C|]. split; [constructor; [exact I|exact D]|]. split.
  - intros ks. cbn [evs_lab ev_lab ev_lits length skipn]. rewrite E. reflexivity.
  - intros cm tab. cbn [map relL]. replace (str_eqb w_BLOCKCOMMENT w_LINECOMMENT) with false by reflexivity. rewrite F. reflexivity.
Qed.

Lemma inc_ph_evs_facts ks : lits (map inc_ph_ev ks) = [] /\ (forall ks', evs_lab ks' (map inc_ph_ev ks) = map inc_ph_ev ks).
Proof.
  induction ks as [|k ks [A B]]; [split; reflexivity|]. split; [exact A|]. intros ks'. cbn [map inc_ph_ev evs_lab ev_lab ev_lits length skipn].
  fold (inc_ph_ev k). rewrite B. reflexivity.
Qed.

Lemma csort_parts c : csort c = c -> c = bpart c ++ rpart c.
Proof. intros H. symmetry. exact H. Qed.

Definition inc_tag_entry (k : N) : key * tree := (KS w_INCTAG, Leaf (SStr (iph k))).

Lemma inc_tag_events ks : events 0 (Dict (map inc_tag_entry ks)) = map inc_ph_ev ks.
Proof. induction ks as [|k ks IH]; [reflexivity|]. cbn [map]. rewrite events_cons, IH. reflexivity. Qed.

Lemma iph_noW k : contains w_STRINGLITERAL (iph k) = false.
Proof.
  destruct (contains w_STRINGLITERAL (iph k)) eqn:E; [|reflexivity]. exfalso.
  apply contains_head_In in E. unfold iph, placeholder in E. apply in_app_or in E. destruct E as [E|E].
  - cbn in E. repeat (destruct E as [E|E]; [discriminate E|]). exact E.
  - pose proof (forallb_In _ _ _ (pad6_digits k) E) as H. discriminate H.
Qed.

Lemma iph_ctokb k : TRI.ctokb (iph k) = true.
Proof.
  assert (Hh : exists c r, iph k = c :: r /\ simple_char c = true) by (unfold iph, placeholder; eexists; eexists; split; reflexivity).
  destruct Hh as (c & r & E & Hs). destruct (simple_not_struct c r Hs) as (B1 & B2 & B3).
  assert (A1 : is_open (iph k) = false) by (rewrite E; exact B1).
  assert (A2 : is_close (iph k) = false) by (rewrite E; exact B2).
  assert (A3 : str_eqb (iph k) t_semi = false) by (rewrite E; exact B3).
  assert (Hi : is_include_tok (iph k) = true) by (unfold is_include_tok, iph, placeholder; apply contains_app_l; reflexivity).
  unfold TRI.ctokb, TRI.is_cmi_tok. rewrite A1, A2, A3, Hi. cbn [negb andb]. apply orb_true_r.
Qed.

Lemma call_mono (p q : str -> bool) : (forall x, p x = true -> q x = true) -> forall t, TRC.call p t = true -> TRC.call q t = true.
Proof.
  intros Hpq. induction t as [v|kvs IH|ts IH] using tree_ind'; intros H; try reflexivity.
  revert H. induction IH as [|[k c] kvs Hc _ IHk]; intros H; [reflexivity|]. rewrite TRC.call_cons in *.
  apply andb_true_iff in H. destruct H as [H1 H2]. rewrite (IHk H2), andb_true_r. cbn [snd] in Hc.
  unfold TRC.call_entry in *. destruct (cm_entry (k, c)) as [[n x]|]; [exact (Hpq x H1)|]. cbn [snd] in *. destruct c; try reflexivity. exact (Hc H1).
Qed.

Lemma cskeys_app a b : TRC.cskeys (Dict (a ++ b)) = TRC.cskeys (Dict a) && TRC.cskeys (Dict b).
Proof. induction a as [|kc a IH]; [reflexivity|]. cbn [app]. rewrite !TRC.cskeys_cons, IH, andb_assoc. reflexivity. Qed.
Lemma call_app p a b : TRC.call p (Dict (a ++ b)) = TRC.call p (Dict a) && TRC.call p (Dict b).
Proof. induction a as [|kc a IH]; [reflexivity|]. cbn [app]. rewrite !TRC.call_cons, IH, andb_assoc. reflexivity. Qed.

Lemma inc_tag_tree ks : TRC.cskeys (Dict (map inc_tag_entry ks)) = true /\ TRC.call TRI.ctokb (Dict (map inc_tag_entry ks)) = true /\
  kvs_of (TRC.cres nvL (Dict (map inc_tag_entry ks))) = map inc_ph_entry ks.
Proof.
  induction ks as [|k ks (A & B & C)]; [repeat split; reflexivity|]. cbn [map]. rewrite TRC.cskeys_cons, TRC.call_cons, A, B.
  split; [reflexivity|]. split; [unfold TRC.call_entry; cbn [inc_tag_entry cm_entry]; replace (is_cm w_INCTAG) with true by reflexivity; rewrite iph_ctokb; reflexivity|].
  unfold TRC.cres in *. rewrite cmapg_dict in *. cbn [kvs_of map] in *. rewrite C. reflexivity.
Qed.

(* ================================================================================================ *)
(* 5. reading the document                                                                          *)
(* ================================================================================================ *)

Lemma bc_ev_map gn gx es : (forall n x, gn n x = n) -> Forall bc_ev es -> Forall bc_ev (map (ev_map gn gx idf) es).
Proof.
  intros Hgn. induction 1 as [|e es He _ IH]; [constructor|]. cbn [map]. constructor; [|exact IH].
  destruct e; try contradiction. cbn [ev_map bc_ev] in *. rewrite Hgn. exact He.
Qed.

Lemma cshape_app a b : cshape (Dict (a ++ b)) = cshape (Dict a) && cshape (Dict b).
Proof. rewrite !cshape_forallb. apply forallb_app. Qed.

Lemma cstrip_app a b : cstrip (Dict (a ++ b)) = Dict (kvs_of (cstrip (Dict a)) ++ kvs_of (cstrip (Dict b))).
Proof. rewrite !cstrip_dict. cbn [kvs_of]. rewrite flat_map_app. reflexivity. Qed.

Lemma numT_keys_plain ltab btab f c kc : cshape (Dict c) = true -> In kc (kvs_of (numT ltab btab f (Dict c))) ->
  fst kc <> KS (of_string "_variables") /\ fst kc <> KS (of_string "_includes").
Proof.
  intros Hs Hin. unfold numT in Hin. rewrite cmapg_dict in Hin. cbn [kvs_of] in Hin. apply in_map_iff in Hin. destruct Hin as (kc0 & <- & Hin).
  rewrite fst_ce. rewrite cshape_forallb, forallb_forall in Hs. pose proof (Hs kc0 Hin) as Hk. unfold cshape_entry in Hk.
  destruct (cm_entry kc0) as [[n x]|].
  - destruct (gx_cases ltab btab n x) as (w & i & Hw & ->). split; intros E; destruct Hw as [-> | ->]; inversion E.
  - apply andb_true_iff in Hk. destruct Hk as [Hk _]. destruct (simple_key_inv _ Hk) as (_ & _ & _ & N1 & N2). split; assumption.
Qed.

Theorem reader_canon_inc c names dir count : cdoc_ok c = true -> csort c = c ->
  forallb inc_name_ok names = true -> NoDup names -> (-1 <= count)%Z ->
  (Z.of_nat (length (lc_list c)) <= 1000000)%Z -> (Z.of_nat (length (bc_list c)) <= 1000000)%Z ->
  (Z.of_nat (length (lit_list c)) <= 1000000)%Z -> (Z.of_nat (length names) <= 1000000)%Z ->
  parse_string true dir count (catR (inc_events c names)) =
  Ok (mkParsed (number_inc dir count c names) (count_after_inc count c names)).
Proof.
  intros Hc Hcs Hnm Hnmnd Hcount Hnl Hnb Hnq Hni.
  destruct (cdoc_ok_inv c Hc) as (Hs & Hw & Hqw & Hcm & Hlnd & Hbnd).
  set (B := bpart c). set (R := rpart c).
  assert (Ec : c = B ++ R) by (apply csort_parts; exact Hcs).
  set (EB := events 0 (Dict B)). set (ER := events 0 (Dict R)). set (EI := map inc_ev names).
  assert (Ees0 : events 0 (Dict c) = EB ++ ER) by (rewrite Ec at 1; apply events_app).
  assert (Hok0 : Forall ev_ok (events 0 (Dict c))) by (apply cshape_events; exact Hs).
  assert (Hsrc0 : Forall ev_src (events 0 (Dict c))) by (apply cms_of_events_src; assumption).
  rewrite Ees0 in Hsrc0. apply Forall_app in Hsrc0. destruct Hsrc0 as [HsrcB HsrcR].
  assert (HbcB : Forall bc_ev EB) by exact (bpart_events c HsrcB).
  destruct (bc_evs_facts EB HbcB) as (LB & IB & QB & CB & LabB & RelB).
  destruct (inc_evs_facts names Hnm) as (LI & BI & QI & II). fold EI in LI, BI, QI, II.
  assert (HsBR : cshape (Dict B) = true /\ cshape (Dict R) = true).
  { rewrite Ec, cshape_app in Hs. apply andb_true_iff in Hs. exact Hs. }
  destruct HsBR as [HsB HsR].
  (* the lists of the whole event list *)
  set (es := inc_events c names).
  assert (Ees : es = EB ++ EI ++ ER) by reflexivity.
  assert (Hes : Forall ev_srcI es).
  { rewrite Ees. apply Forall_app; split; [revert HsrcB; apply Forall_impl; exact ev_src_srcI|].
    apply Forall_app; split; [exact (inc_evs_src names Hnm)|revert HsrcR; apply Forall_impl; exact ev_src_srcI]. }
  assert (ElR : lcx ER = lc_list c) by (unfold lc_list; rewrite Ees0, lcx_app, LB; reflexivity).
  assert (EqR : lits ER = lit_list c) by (unfold lit_list; rewrite Ees0, lits_app, QB; reflexivity).
  assert (EbBR : bcx EB ++ bcx ER = bc_list c) by (unfold bc_list; rewrite Ees0, bcx_app; reflexivity).
  assert (El : lcx es = lc_list c) by (rewrite Ees, !lcx_app, LB, LI; exact ElR).
  assert (Eb : bcx es = bc_list c) by (rewrite Ees, !bcx_app, BI; exact EbBR).
  assert (Eq : lits es = lit_list c) by (rewrite Ees, !lits_app, QB, QI; exact EqR).
  assert (Ei : icx es = map (fun nm => (0%nat, nm)) names) by (rewrite Ees, !icx_app, IB, II, (src_no_inc ER HsrcR), app_nil_r; reflexivity).
  assert (Hfn : first_nc es).
  { rewrite Ees. apply first_nc_cm_prefix; [exact CB|]. apply first_nc_cm_prefix; [|exact (events_first_nc (Dict R) 0)].
    apply Forall_forall. intros e He. apply in_map_iff in He. destruct He as (nm & <- & _). exact I. }
  set (nl := length (lc_list c)) in *. set (ni := length names) in *. set (nq := length (lit_list c)) in *.
  set (c1 := cafter count nl). set (c2 := cafter c1 ni).
  set (lids := ids count nl). set (iids := ids c1 ni). set (ks := ids c2 nq).
  set (ltab := lc_tab count c). set (btab := bc_tab c). set (tab := combine ks (lit_list c)).
  assert (Hc1 : (-1 <= c1)%Z) by (apply cafter_ge; exact Hcount).
  assert (Hc2 : (-1 <= c2)%Z) by (apply cafter_ge; exact Hc1).
  assert (Hlids : NoDup lids) by (apply ids_nodup; assumption).
  assert (Hiids : NoDup iids) by (apply ids_nodup; assumption).
  assert (Hks : NoDup ks) by (apply ids_nodup; assumption).
  assert (Hlen_l : length lids = length (lc_list c)) by apply ids_length.
  assert (Hlen_i : length iids = length names) by apply ids_length.
  assert (Hlen_k : length ks = length (lit_list c)) by apply ids_length.
  (* the tables *)
  assert (TLnd : NoDup (map fst ltab)) by (unfold ltab, lc_tab; fold nl lids; rewrite (combine_fst _ _ Hlen_l); exact Hlids).
  assert (TBnd : NoDup (map fst btab)) by apply number_from_nodup.
  assert (TLlt : forall i x, In (i, x) ltab -> i < 1000000).
  { intros i x Hin. apply in_combine_l in Hin. pose proof (ids_small count nl) as Hsm. unfold small in Hsm. rewrite Forall_forall in Hsm. exact (Hsm i Hin). }
  assert (TBlt : forall i x, In (i, x) btab -> i < 1000000).
  { intros i x Hin. apply number_from_lt in Hin. fold (bc_list c) in Hnb. lia. }
  assert (TLin : forall x, In x (lc_list c) -> inb x ltab = true) by (intros x Hx; apply inb_combine; [exact Hlen_l|exact Hx]).
  assert (TBin : forall x, In x (bc_list c) -> inb x btab = true) by (intros x Hx; apply inb_number_from; exact Hx).
  assert (TBinB : forall x, In x (bcx EB) -> inb x btab = true) by (intros x Hx; apply TBin; rewrite <- EbBR; apply in_or_app; left; exact Hx).
  assert (TBinR : forall x, In x (bcx ER) -> inb x btab = true) by (intros x Hx; apply TBin; rewrite <- EbBR; apply in_or_app; right; exact Hx).
  (* the numbered comment document *)
  assert (Hsrct : src_tree ltab btab (Dict c) 0).
  { split; [exact Hs|]. split; [exact Hw|]. split; [rewrite Ees0; apply Forall_app; split; assumption|]. rewrite <- lcx_wxe, <- bcx_wxe. repeat split; assumption. }
  destruct (num_ok ltab btab TLnd TBnd TLlt TBlt written_value (Dict c) 0%nat Hsrct) as [Wnum Cnum].
  (* the lexer *)
  destruct (lex_events_inc true dir count es Hes Hfn) as (tl & Htl & Elex).
  { rewrite Eb. exact Hbnd. }
  { rewrite El. exact Hlids. }
  { rewrite El, Ei, map_length. exact Hiids. }
  rewrite El, Eb, Eq, Ei, map_length in Elex. fold nl ni nq in Elex. fold c1 in Elex. fold c2 in Elex. fold lids iids ks in Elex.
  change (number_from 0 (bc_list c)) with btab in Elex. change (combine lids (lc_list c)) with ltab in Elex.
  assert (Etab : combine iids (map (inc_entry dir) (map (fun nm => (0%nat, nm)) names)) = inc_tab dir iids names).
  { unfold inc_tab. rewrite map_map. reflexivity. }
  rewrite Etab in Elex. clear Etab.
  (* the final events *)
  set (PB := events 0 (doc2 ltab btab (Dict B))). set (PR := events 0 (doc2 ltab btab (Dict R))).
  assert (HE2 : map (numB true btab) (relabI iids (relab true lids es)) = PB ++ map inc_ph_ev iids ++ PR).
  { rewrite Ees. rewrite (relab_skip true EB LB), (relab_skip true EI LI).
    rewrite (relabI_skip EB IB), (relabI_inc_evs names iids _ Hlen_i), relabI_nil.
    rewrite !map_app, numB_inc_ph. f_equal; [|f_equal].
    - transitivity (map (numB true btab) (map (relL true ltab) EB)); [rewrite RelB; reflexivity|].
      rewrite (passes_keyed ltab btab EB HsrcB TBinB). symmetry. apply doc2_events. exact HsB.
    - rewrite (relab_keyed true ER lids) by (rewrite ElR; assumption). rewrite ElR.
      change (map (numB true btab) (map (relL true ltab) ER) = PR).
      rewrite (passes_keyed ltab btab ER HsrcR TBinR). symmetry. apply doc2_events. exact HsR. }
  assert (Hfin : Forall ev_fin (PB ++ map inc_ph_ev iids ++ PR)).
  { rewrite <- HE2. apply final_eventsI; [exact Hes|rewrite Eb; exact TBin|rewrite El; exact Hlen_l|rewrite Ei, map_length; exact Hlen_i]. }
  rewrite HE2 in Elex.
  assert (HbcPB : Forall bc_ev PB).
  { unfold PB. rewrite (doc2_events ltab btab (Dict B) 0 HsB). apply bc_ev_map; [reflexivity|exact HbcB]. }
  destruct (bc_evs_facts PB HbcPB) as (_ & _ & QPB & _ & LabPB & _).
  destruct (inc_ph_evs_facts iids) as (QPI & LabPI).
  assert (Hnb0 : forall lvl n, ~ In (ECm lvl n []) (PB ++ map inc_ph_ev iids ++ PR)).
  { assert (G : forall t, cshape t = true -> forall lvl n, ~ In (ECm lvl n []) (events 0 (doc2 ltab btab t))).
    { intros t Ht lvl n Hin. rewrite (doc2_events ltab btab t 0 Ht) in Hin. apply in_map_iff in Hin. destruct Hin as (e & Ee & _).
      destruct e as [l k v|l k ts|l k|l|l m y]; cbn [ev_map] in Ee; try discriminate Ee. inversion Ee as [[E1 E2 E3]].
      destruct (gx_cases ltab btab m y) as (w & i & Hcw & Eg). rewrite Eg in E3. exact (cph_ne w i Hcw E3). }
    intros lvl n Hin. apply in_app_or in Hin. destruct Hin as [Hin|Hin]; [exact (G (Dict B) HsB lvl n Hin)|].
    apply in_app_or in Hin. destruct Hin as [Hin|Hin]; [|exact (G (Dict R) HsR lvl n Hin)].
    apply in_map_iff in Hin. destruct Hin as (k & Ek & _). inversion Ek. }
  rewrite (evs_tokL_lab _ ks Hfin Hnb0) in Elex.
  (* the labelled trees *)
  destruct (events_clabel (doc2 ltab btab (Dict B)) 0%nat ks (doc2_cshape ltab btab (Dict B) HsB)) as [ElabB _].
  destruct (events_clabel (doc2 ltab btab (Dict R)) 0%nat ks (doc2_cshape ltab btab (Dict R) HsR)) as [ElabR _].
  fold PB in ElabB. fold PR in ElabR. fold (doc3 ltab btab ks (Dict B)) in ElabB. fold (doc3 ltab btab ks (Dict R)) in ElabR.
  assert (Elab : evs_lab ks (PB ++ map inc_ph_ev iids ++ PR) =
                 events 0 (doc3 ltab btab ks (Dict B)) ++ map inc_ph_ev iids ++ events 0 (doc3 ltab btab ks (Dict R))).
  { rewrite !evs_lab_app, QPB, QPI. cbn [length skipn]. rewrite LabPI, ElabB, ElabR. reflexivity. }
  rewrite Elab in Elex. clear Elab.
  (* values *)
  assert (Hlits : Forall qlit (lit_list c)) by (apply lits_qlit_ok; exact Hok0).
  assert (Hpv : Forall (fun s => PWs (pv s) = false) (lit_list c)).
  { revert Hlits. apply Forall_impl. intros s Hq. destruct (qlit_content s Hq) as [A0 B0]. apply PWs_pv; assumption. }
  assert (Hrel : Forall2 (Rel tab) ks (lit_list c)) by (apply rel_top; [exact Hks|apply ids_small|exact Hlen_k|exact Hpv]).
  assert (HrelB : Forall2 (Rel tab) ks (lits (events 0 (Dict B)) ++ lit_list c)) by (fold EB; rewrite QB; exact Hrel).
  assert (HrelR : Forall2 (Rel tab) ks (lits (events 0 (Dict R)) ++ [])) by (fold ER; rewrite EqR, app_nil_r; exact Hrel).
  destruct (Vc_all ltab btab tab (Dict B) HsB 0%nat ks (lit_list c) 11%nat HrelB) as (V1B & V2B & V3B & V4B).
  destruct (Vc_all ltab btab tab (Dict R) HsR 0%nat ks [] 11%nat HrelR) as (V1R & V2R & V3R & V4R).
  assert (HqBR : quoted_within 11 (cstrip (Dict B)) = true /\ quoted_within 11 (cstrip (Dict R)) = true).
  { rewrite Ec, cstrip_app in Hqw. unfold quoted_within in *. rewrite lw_dict, forallb_app in Hqw. apply andb_true_iff in Hqw.
    rewrite !cstrip_dict in *. cbn [kvs_of] in Hqw. rewrite !lw_dict. exact Hqw. }
  destruct HqBR as [HqB HqR]. specialize (V2B HqB). specialize (V2R HqR).
  destruct (clabel_dict ks (kvs_of (doc2 ltab btab (Dict B)))) as [k3B Ek3B].
  destruct (clabel_dict ks (kvs_of (doc2 ltab btab (Dict R)))) as [k3R Ek3R].
  assert (Ed2B : exists d2, doc2 ltab btab (Dict B) = Dict d2) by (unfold doc2; rewrite cmapg_dict; eexists; reflexivity).
  assert (Ed2R : exists d2, doc2 ltab btab (Dict R) = Dict d2) by (unfold doc2; rewrite cmapg_dict; eexists; reflexivity).
  destruct Ed2B as [d2B Ed2B]. destruct Ed2R as [d2R Ed2R]. unfold doc3 in *. rewrite Ed2B, Ed2R in *. cbn [kvs_of] in Ek3B, Ek3R.
  rewrite Ek3B, Ek3R in *.
  set (d0B := kvs_of (TRC.cres nvL (Dict k3B))). set (d0R := kvs_of (TRC.cres nvL (Dict k3R))).
  assert (Ed0B : TRC.cres nvL (Dict k3B) = Dict d0B) by (unfold d0B, TRC.cres; rewrite cmapg_dict; reflexivity).
  assert (Ed0R : TRC.cres nvL (Dict k3R) = Dict d0R) by (unfold d0R, TRC.cres; rewrite cmapg_dict; reflexivity).
  rewrite Ed0B in V1B, V2B. rewrite Ed0R in V1R, V2R.
  destruct (numT_dict ltab btab written_value B) as [nB EnB]. destruct (numT_dict ltab btab written_value R) as [nR EnR].
  rewrite EnB in V1B. rewrite EnR in V1R.
  assert (Enum : numT ltab btab written_value (Dict c) = Dict (nB ++ nR)).
  { rewrite Ec. unfold numT in *. rewrite cmapg_dict in *. rewrite map_app. inversion EnB as [EB']. inversion EnR as [ER']. reflexivity. }
  assert (V1 : map_leaves (Gfun tab) (Dict (d0B ++ d0R)) = Dict (nB ++ nR)).
  { rewrite TokProofs.map_leaves_dict, map_app. rewrite TokProofs.map_leaves_dict in V1B, V1R. inversion V1B as [E1]. inversion V1R as [E2]. reflexivity. }
  rewrite Enum in Wnum, Cnum.
  assert (Wd0 : wf (Dict (d0B ++ d0R)) = true) by (rewrite <- (wf_map_leaves (Gfun tab)), V1; exact Wnum).
  assert (Cd0 : ctabs ltab btab (Dict (d0B ++ d0R))) by (apply (ctabs_map_leaves _ _ (Gfun tab)); rewrite V1; exact Cnum).
  assert (Nnum : noinc (Dict (nB ++ nR))) by (rewrite <- Enum; apply numT_noinc; exact Hs).
  assert (Nd0 : noinc (Dict (d0B ++ d0R))) by (apply (noinc_map_leaves (Gfun tab)); rewrite V1; exact Nnum).
  (* the include table *)
  set (ies := map (fun nm => (inc_directive nm, nm, path_join dir nm)) names).
  assert (Hies_len : length iids = length ies) by (unfold ies; rewrite map_length; exact Hlen_i).
  assert (Hies_nd : NoDup ies).
  { unfold ies. apply NoDup_map_on; [|exact Hnmnd]. intros x y _ _ E. inversion E. reflexivity. }
  assert (Hiids_sm : small iids) by apply ids_small.
  (* the token parser *)
  set (T3 := k3B ++ map inc_tag_entry iids ++ k3R).
  assert (ET3 : events 0 (Dict k3B) ++ map inc_ph_ev iids ++ events 0 (Dict k3R) = events 0 (Dict T3)).
  { unfold T3. rewrite !events_app, inc_tag_events. reflexivity. }
  rewrite ET3 in Elex.
  destruct (inc_tag_tree iids) as (I1 & I2 & I3).
  assert (ER3 : kvs_of (TRC.cres nvL (Dict T3)) = d0B ++ map inc_ph_entry iids ++ d0R).
  { unfold T3, TRC.cres. rewrite cmapg_dict, !map_app. cbn [kvs_of]. unfold TRC.cres in I3. rewrite cmapg_dict in I3. cbn [kvs_of] in I3. rewrite I3.
    unfold d0B, d0R, TRC.cres. rewrite !cmapg_dict. reflexivity. }
  assert (Wd0' : wf (Dict (d0B ++ map inc_ph_entry iids ++ d0R)) = true) by (apply wf_splice; assumption).
  unfold parse_string. cbv zeta. rewrite Elex. cbn [lxd_tokens lxd_count lxd_lc lxd_bc lxd_inc lxd_expr lxd_lit].
  rewrite (TRI.tok_roundtrip ltL ktS nvL HltL HktpS HkpkS T3 tl Htl).
  2:{ assert (E : TRC.cres nvL (Dict T3) = Dict (kvs_of (TRC.cres nvL (Dict T3)))) by (unfold TRC.cres; rewrite cmapg_dict; reflexivity).
      rewrite E, ER3. exact Wd0'. }
  2:{ unfold T3. rewrite !cskeys_app, V3B, I1, V3R. reflexivity. }
  2:{ unfold T3. rewrite !call_app, I2, (call_mono _ _ TRI.ctokb_of_comment _ V4B), (call_mono _ _ TRI.ctokb_of_comment _ V4R). reflexivity. }
  rewrite ER3. cbn [bind].
  rewrite (sd_clean_keep3 _ ltab btab (inc_tab dir iids names) []);
    [|apply ctabs_splice; [exact Hiids_sm|exact Cd0]|unfold inc_tab; fold ies; apply ctabsI_splice; assumption|exact Wd0'].
  cbn [sd_data sd_lc sd_bc sd_inc sd_expr].
  assert (Htab : tupdate [] (combine ks (lit_list c)) = tab).
  { apply (tupdate_fresh (combine ks (lit_list c)) []). cbn [app]. rewrite (combine_fst ks _ Hlen_k). exact Hks. }
  rewrite Htab, (insert_all tab _ Wd0').
  2:{ rewrite lw_dict, !forallb_app. rewrite lw_dict in V2B, V2R. rewrite V2B, V2R. cbn [andb]. rewrite andb_true_r.
      apply forallb_forall. intros e He. apply in_map_iff in He. destruct He as (k & <- & _). cbn [inc_ph_entry snd lw]. unfold PWs. cbn [py_str].
      rewrite iph_noW. reflexivity. }
  2:{ apply Forall_forall. intros [k s] Hin. cbn [snd]. rewrite Forall_forall in Hpv. apply Hpv. exact (in_combine_r _ _ _ _ Hin). }
  cbn [bind].
  assert (V1' : kvs_of (map_leaves (Gfun tab) (Dict (d0B ++ map inc_ph_entry iids ++ d0R))) = nB ++ map inc_ph_entry iids ++ nR).
  { rewrite TokProofs.map_leaves_dict, !map_app. cbn [kvs_of]. rewrite TokProofs.map_leaves_dict in V1B, V1R. inversion V1B as [E1]. inversion V1R as [E2].
    f_equal. f_equal. rewrite map_map. apply map_ext. intros k. unfold TokProofs.mkv, inc_ph_entry. cbn [fst snd map_leaves].
    rewrite Gfun_noW; [reflexivity|]. unfold PWs. cbn [py_str]. apply iph_noW. }
  rewrite V1'.
  assert (Wd1 : wf (Dict (nB ++ map inc_ph_entry iids ++ nR)) = true) by (apply wf_splice; assumption).
  assert (Hpc : parser_clean (nB ++ map inc_ph_entry iids ++ nR) = nB ++ map inc_ph_entry iids ++ nR).
  { assert (G : forall k0, (k0 = KS (of_string "_variables") \/ k0 = KS (of_string "_includes")) ->
                adel k0 (nB ++ map inc_ph_entry iids ++ nR) = nB ++ map inc_ph_entry iids ++ nR).
    { intros k0 Hk0. apply adel_absent. intros kc Hin. apply SDictProofs.key_eqb_neq. apply In_splice in Hin. destruct Hin as [Hin|Hin].
      - apply in_map_iff in Hin. destruct Hin as (k & <- & _). cbn [inc_ph_entry fst]. unfold ikey. destruct Hk0 as [-> | ->]; intros E; inversion E.
      - assert (Hin' : In kc (kvs_of (numT ltab btab written_value (Dict c)))) by (rewrite Enum; exact Hin).
        destruct (numT_keys_plain ltab btab written_value c kc Hs Hin') as [N1 N2]. destruct Hk0 as [-> | ->]; intros E; [apply N1|apply N2]; symmetry; exact E. }
    unfold parser_clean. rewrite (G _ (or_introl eq_refl)). apply (G _ (or_intror eq_refl)). }
  rewrite Hpc.
  rewrite (sd_clean_keep3 _ ltab btab (inc_tab dir iids names) []);
    [|apply ctabs_splice; [exact Hiids_sm|exact Cnum]|unfold inc_tab; fold ies; apply ctabsI_splice; assumption|exact Wd1].
  unfold number_inc, count_after_inc, number. cbn [sd_data]. fold nl ni nq c1 c2 iids ltab btab. rewrite Enum. cbn [kvs_of].
  assert (Hnb' : length (bpart c) = length nB).
  { fold B. unfold numT in EnB. rewrite cmapg_dict in EnB. inversion EnB as [E']. rewrite map_length. reflexivity. }
  rewrite Hnb', firstn_app, Nat.sub_diag, firstn_all, skipn_app, Nat.sub_diag, skipn_all. cbn [firstn skipn app]. rewrite app_nil_r. reflexivity.
Qed.

Print Assumptions reader_canon_inc.

(* ================================================================================================ *)
(* 6. the written text: remove_trailing_spaces leaves the directive lines alone                     *)
(* ================================================================================================ *)

Lemma inc_directive_stable name : name_ok name = true ->
  remove_trailing_spaces (inc_directive name ++ [c_lf]) = inc_directive name ++ [c_lf].
Proof.
  intros Hok. destruct (nolb_nolf _ (inc_directive_nolb name Hok)) as [Hlf _].
  change (inc_directive name ++ [c_lf]) with (inc_directive name ++ c_lf :: []). rewrite (rts_line _ [] Hlf). f_equal.
  destruct (format_name_facts name Hok) as (_ & _ & (r & e & Ee & He)). unfold inc_directive. rewrite Ee, app_assoc.
  apply rstrip_nonspace_last. exact He.
Qed.

Lemma rts_catI es : Forall ev_srcI es -> remove_trailing_spaces (cat cm_line es) = catR es.
Proof.
  induction 1 as [|e es He _ IH]; [reflexivity|]. rewrite cat_cons, catR_cons, rts_app by exact (proj1 (ev_text_ends_lf e)).
  rewrite IH. f_equal.
  assert (G : ev_lexW e -> remove_trailing_spaces (ev_text cm_line e) = tR e).
  { intros Hl. pose proof (rts_cat [e] (Forall_cons _ Hl (Forall_nil _))) as H. rewrite cat_cons, catR_cons in H. cbn [cat catR flat_map] in H.
    rewrite !app_nil_r in H. exact H. }
  destruct e as [lvl k v|lvl k l|lvl k|lvl|lvl n x]; try (apply G; exact He).
  cbn [ev_srcI] in He. destruct He as [H|[H|(_ & name & -> & Hn)]].
  - apply G. cbn [ev_lexW]. left. exact H.
  - apply G. cbn [ev_lexW]. right. left. exact H.
  - cbn [ev_text tR]. unfold cm_line. destruct (inc_name_ok_inv name Hn) as [Hok _].
    apply (cm_line_stable lvl (inc_directive name) c_hash (w_include ++ c_sp :: format_string name)); [reflexivity|reflexivity|].
    exact (inc_directive_stable name Hok).
Qed.

Lemma inc_events_src c names : cdoc_ok c = true -> csort c = c -> forallb inc_name_ok names = true -> Forall ev_srcI (inc_events c names).
Proof.
  intros Hc Hcs Hnm. destruct (cdoc_ok_inv c Hc) as (Hs & _ & _ & Hcm & _).
  assert (Hsrc0 : Forall ev_src (events 0 (Dict c))) by (apply cms_of_events_src; [apply cshape_events; exact Hs|exact Hcm]).
  rewrite (csort_parts c Hcs), events_app in Hsrc0. apply Forall_app in Hsrc0. destruct Hsrc0 as [HB HR].
  unfold inc_events. apply Forall_app; split; [revert HB; apply Forall_impl; exact ev_src_srcI|].
  apply Forall_app; split; [exact (inc_evs_src names Hnm)|revert HR; apply Forall_impl; exact ev_src_srcI].
Qed.

(* the reader on the text as it is written *)
Theorem reader_text_inc c names dir count : cdoc_ok c = true -> csort c = c ->
  forallb inc_name_ok names = true -> NoDup names -> (-1 <= count)%Z ->
  (Z.of_nat (length (lc_list c)) <= 1000000)%Z -> (Z.of_nat (length (bc_list c)) <= 1000000)%Z ->
  (Z.of_nat (length (lit_list c)) <= 1000000)%Z -> (Z.of_nat (length names) <= 1000000)%Z ->
  parse_string true dir count (remove_trailing_spaces (cat cm_line (inc_events c names))) =
  Ok (mkParsed (number_inc dir count c names) (count_after_inc count c names)).
Proof.
  intros Hc Hcs Hnm Hnd Hcount H1 H2 H3 H4. rewrite (rts_catI _ (inc_events_src c names Hc Hcs Hnm)).
  exact (reader_canon_inc c names dir count Hc Hcs Hnm Hnd Hcount H1 H2 H3 H4).
Qed.

Print Assumptions reader_text_inc.
