(* Proofs for C09 (JSON front end), C05 (references), C06 (includes), C11 (XML mapping). *)
From Coq Require Import String.
From Coq Require Import NArith ZArith List Bool Lia.
From DictIO Require Import Chars Str Value Scalar KeyPath SDict Layout Lexer TokParser Reader Expr Xml
     TreeSpec MiscSpec LayoutSpec ScalarProofs KeyPathProofs SDictProofs.
Import ListNotations.

(* ================================================================================================ *)
(* C06 : small facts                                                                                *)
(* ================================================================================================ *)
Lemma chain_cut : forall p chain, in_chain p (chain ++ [p]) = true.
Proof.
  intros p chain. unfold in_chain. rewrite existsb_app. simpl.
  rewrite ScalarProofs.str_eqb_refl. rewrite orb_true_r. reflexivity.
Qed.

Lemma include_anchor : forall dirc name, name <> [] ->
  (match name with c :: _ => (c =? c_slash)%N = false | [] => True end) ->
  path_join dirc name = dirc ++ [c_slash] ++ name.
Proof.
  intros dirc [|c name] Hne H; [contradiction|]. unfold path_join. rewrite H. reflexivity.
Qed.

Lemma read_off_no_include : forall fs root com c s c',
  read_plain fs root false com c = Ok (s, c') ->
  forallb (fun kv => match fst kv with KS k => negb (has_include_mark k) | KI _ => true end) (sd_data s) = true.
Proof.
  intros fs root com c s c' H. unfold read_plain in H.
  destruct (fs_lookup (norm_path root) fs) as [u|]; [|discriminate].
  destruct (parse_unit com root c u) as [pr|e]; [|discriminate].
  cbn [bind] in H. inversion H; subst. cbn [sd_data]. unfold remove_include_keys.
  apply forallb_forall. intros kv Hin. apply filter_In in Hin. destruct Hin as [_ Hf]. exact Hf.
Qed.

(* ================================================================================================ *)
(* C05 : substitution                                                                               *)
(* ================================================================================================ *)
Lemma starts_with_app : forall r post : list N, starts_with r (r ++ post) = true.
Proof. induction r as [|x r IH]; intro post; simpl; [reflexivity|]. rewrite N.eqb_refl. apply IH. Qed.

Lemma drop_n_app : forall (r post : list N), drop_n (length r) (r ++ post) = post.
Proof. induction r as [|x r IH]; intro post; simpl; [reflexivity | apply IH]. Qed.

Lemma subst_whole_token : forall name val post fuel, word_name name ->
  (match post with c :: _ => is_word c = false /\ c <> c_lbrk | [] => True end) ->
  (length (ref_of name ++ post) < fuel)%nat ->
  subst_token fuel (ref_of name) val (ref_of name ++ post) =
  val ++ subst_token (fuel - 1) (ref_of name) val post.
Proof.
  intros name val post fuel _ Hpost Hlen. destruct fuel as [|f]; [inversion Hlen|].
  replace (S f - 1)%nat with f by lia.
  remember (ref_of name) as r eqn:Er.
  assert (Hc : exists c e', r ++ post = c :: e').
  { subst r. unfold ref_of. simpl. eauto. }
  destruct Hc as [c [e' He]].
  cbn [subst_token]. rewrite He. rewrite <- He.
  rewrite starts_with_app, drop_n_app.
  destruct post as [|d post']; [reflexivity|]. destruct Hpost as [H1 H2]. rewrite H1.
  apply N.eqb_neq in H2. rewrite H2. reflexivity.
Qed.

Lemma dollar_not_word : is_word c_dollar = false.
Proof. reflexivity. Qed.

Lemma subst_words_id : forall a val fuel e, Forall (fun c => is_word c = true) e ->
  subst_token fuel (c_dollar :: a) val e = e.
Proof.
  intros a val. induction fuel as [|f IH]; intros e He; [reflexivity|].
  destruct e as [|c e']; [reflexivity|]. inversion He as [|? ? Hc He']; subst.
  cbn [subst_token starts_with].
  assert (Hd : (c_dollar =? c)%N = false).
  { apply N.eqb_neq. intro E. subst c. rewrite dollar_not_word in Hc. discriminate. }
  rewrite Hd. cbn [andb]. rewrite (IH e' He'). reflexivity.
Qed.

Lemma subst_prefix_safe : forall a more val fuel, word_name a -> word_name more ->
  (length (ref_of (a ++ more)) < fuel)%nat ->
  subst_token fuel (ref_of a) val (ref_of (a ++ more)) = ref_of (a ++ more).
Proof.
  intros a more val fuel [_ Ha] [Hne Hm] Hlen. destruct fuel as [|f]; [inversion Hlen|].
  unfold ref_of.
  change (c_dollar :: a ++ more) with ((c_dollar :: a) ++ more).
  cbn [subst_token]. change ((c_dollar :: a) ++ more) with (c_dollar :: a ++ more) at 1.
  cbv iota beta.
  rewrite starts_with_app, drop_n_app.
  destruct more as [|d more']; [contradiction|].
  inversion Hm as [|? ? Hd Hm']; subst. rewrite Hd. cbn [orb negb andb].
  rewrite subst_words_id; [reflexivity|].
  apply Forall_app. split; assumption.
Qed.

Lemma subst_absent : forall r val e fuel, r <> [] -> contains r e = false -> subst_token fuel r val e = e.
Proof.
  intros r val e fuel Hr. revert e. induction fuel as [|f IH]; intros e H; [reflexivity|].
  destruct e as [|c e']; [reflexivity|].
  cbn [contains] in H. apply orb_false_iff in H. destruct H as [H1 H2].
  cbn [subst_token]. rewrite H1. cbn [andb]. rewrite (IH e' H2). reflexivity.
Qed.

Lemma resolve_undeclared : forall vars r, alookup (KS (ref_name r)) vars = None -> resolve_reference vars r = RNone.
Proof.
  intros vars r H. unfold resolve_reference. cbn [resolve_ref existsb]. rewrite H. reflexivity.
Qed.

(* ================================================================================================ *)
(* C11 : populate                                                                                   *)
(* ================================================================================================ *)
Definition pop_child (kv : key * tree) : elem :=
  match snd kv with
  | Leaf SNone => Elem (strip_numbering (key_text_xml (fst kv))) [] (Some []) []
  | _ => populate (strip_numbering (key_text_xml (fst kv))) (snd kv)
  end.
Definition pop_ns (kv : key * tree) : bool := negb (special_xml_key (key_text_xml (fst kv))).

Definition pop_go : list (key * tree) -> list (str * str) -> option str -> list elem ->
                    list (str * str) * option str * list elem :=
  fix go (l : list (key * tree)) (attrs : list (str * str)) (text : option str) (kids : list elem) :=
    match l with
    | [] => (attrs, text, rev kids)
    | (k, item) :: l' =>
        let skey := key_text_xml k in
        if starts_with (of_string "_content") skey then go l' attrs (Some (content_text item)) kids
        else if starts_with (of_string "_attrib") skey then
          match item with
          | Dict avs =>
              go l' (fold_right (fun (kv : key * tree) acc =>
                                   let v := py_str_tree (snd kv) in
                                   if nonempty v then (key_text_xml (fst kv), attr_text (snd kv)) :: acc else acc) [] avs)
                 text kids
          | _ => go l' attrs text kids
          end
        else if is_skip_key skey then go l' attrs text kids
        else
          go l' attrs text ((match item with
                             | Leaf SNone => Elem (strip_numbering skey) [] (Some []) []
                             | _ => populate (strip_numbering skey) item
                             end) :: kids)
    end.

Lemma populate_dict : forall tag kvs,
  populate tag (Dict kvs) = let '(attrs, text, kids) := pop_go kvs [] None [] in Elem tag attrs text kids.
Proof. reflexivity. Qed.

Lemma pop_go_kids : forall l attrs text kids,
  snd (pop_go l attrs text kids) = rev kids ++ map pop_child (filter pop_ns l).
Proof.
  induction l as [|[k item] l IH]; intros attrs text kids.
  - simpl. rewrite app_nil_r. reflexivity.
  - cbn [pop_go filter]. unfold pop_ns at 1. unfold special_xml_key. cbn [fst].
    destruct (starts_with (of_string "_content") (key_text_xml k)); cbn [orb negb]; [apply IH|].
    destruct (starts_with (of_string "_attrib") (key_text_xml k)); cbn [orb negb].
    + destruct item; apply IH.
    + destruct (is_skip_key (key_text_xml k)); cbn [negb]; [apply IH|].
      rewrite IH. cbn [rev map]. rewrite <- app_assoc. reflexivity.
Qed.

Lemma elem_children_populate_dict : forall tag kvs,
  elem_children (populate tag (Dict kvs)) = map pop_child (filter pop_ns kvs).
Proof.
  intros tag kvs. rewrite populate_dict. pose proof (pop_go_kids kvs [] None []) as H.
  destruct (pop_go kvs [] None []) as [[attrs text] kids]. cbn [snd rev app] in H. exact H.
Qed.

Lemma populate_leaf : forall tag kvs k v, wf (Dict kvs) = true ->
  alookup k kvs = Some (Leaf v) -> special_xml_key (key_text_xml k) = false -> v <> SNone ->
  In (Elem (strip_numbering (key_text_xml k)) [] (Some (py_str v)) []) (elem_children (populate tag (Dict kvs))).
Proof.
  intros tag kvs k v _ Hl Hs Hv. rewrite elem_children_populate_dict.
  apply in_map_iff. exists (k, Leaf v). split.
  - unfold pop_child. cbn [fst snd]. destruct v; try reflexivity. contradiction.
  - apply filter_In. split; [apply SDictProofs.alookup_Some_In; exact Hl|].
    unfold pop_ns. cbn [fst]. rewrite Hs. reflexivity.
Qed.

Lemma populate_tag : forall tag t, match populate tag t with Elem t' _ _ _ => t' end = tag.
Proof.
  intros tag [v|kvs|ts]; try reflexivity.
  rewrite populate_dict. destruct (pop_go kvs [] None []) as [[a x] kd]. reflexivity.
Qed.

Lemma populate_order : forall tag kvs,
  map (fun e => match e with Elem t _ _ _ => t end) (elem_children (populate tag (Dict kvs))) =
  map (fun kv => strip_numbering (key_text_xml (fst kv))) (filter (fun kv => negb (special_xml_key (key_text_xml (fst kv)))) kvs).
Proof.
  intros tag kvs. rewrite elem_children_populate_dict. rewrite map_map. fold pop_ns.
  apply map_ext. intros [k item]. unfold pop_child. cbn [fst snd].
  destruct item as [[]| |]; try reflexivity; apply populate_tag.
Qed.

(* ================================================================================================ *)
(* C11 : numbering                                                                                  *)
(* ================================================================================================ *)
Local Open Scope N_scope.

Lemma pos_digits_len : forall k f n acc, n < 10 ^ N.of_nat (S k) ->
  (length (pos_digits_fuel f n acc) <= length acc + S k)%nat.
Proof.
  induction k as [|k IH]; intros f n acc Hn; (destruct f as [|f]; [simpl; lia|]); rewrite pos_digits_fuel_S.
  - change (10 ^ N.of_nat 1) with 10 in Hn. rewrite (N.div_small n 10 Hn). cbn [N.eqb]. simpl. lia.
  - destruct (n / 10 =? 0) eqn:Hq; [simpl; lia|].
    rewrite (Nat2N.inj_succ (S k)), N.pow_succ_r' in Hn.
    assert (Hq' : n / 10 < 10 ^ N.of_nat (S k)).
    { apply N.div_lt_upper_bound; [lia|exact Hn]. }
    pose proof (IH f (n / 10) ((48 + n mod 10) :: acc) Hq') as H. cbn [Datatypes.length] in H. lia.
Qed.

Lemma pad6_props : forall i, i < 1000000 ->
  Forall (fun c => is_digit c = true) (pad6 i) /\ (length (pad6 i) = 6)%nat.
Proof.
  intros i Hi. unfold pad6.
  destruct (N_to_dec_spec i) as [[Hd Hne] _].
  assert (Hl : (length (N_to_dec i) <= 6)%nat).
  { unfold N_to_dec. apply (pos_digits_len 5 _ i [] Hi). }
  split.
  - apply Forall_app. split; [|exact Hd]. apply Forall_forall. intros x Hx. apply repeat_spec in Hx. subst x. reflexivity.
  - rewrite app_length, repeat_length. lia.
Qed.

Lemma numbering_removed : forall i tag, (i < 1000000)%N ->
  strip_numbering (pad6 i ++ [c_us] ++ tag) = tag.
Proof.
  intros i tag Hi. destruct (pad6_props i Hi) as [Hd Hl]. unfold strip_numbering.
  rewrite (span_app is_digit (pad6 i) ([c_us] ++ tag) Hd) by reflexivity.
  destruct (pad6 i) as [|d ds] eqn:E; [discriminate|].
  cbn [app]. rewrite N.eqb_refl, Hl. reflexivity.
Qed.

(* ================================================================================================ *)
(* C06 : path normalisation is idempotent                                                           *)
(* ================================================================================================ *)
Definition nosep (sep : N) (c : list N) : Prop := Forall (fun x => (x =? sep) = false) c.
Definition good_comp (c : list N) : Prop :=
  str_eqb c [] = false /\ str_eqb c [c_dot] = false /\ str_eqb c [c_dot; c_dot] = false /\ nosep c_slash c.

Lemma split_on_nosep : forall sep (s cur : list N), nosep sep cur -> Forall (nosep sep) (split_on sep cur s).
Proof.
  intros sep. induction s as [|c s IH]; intros cur Hc; cbn [split_on].
  - constructor; [|constructor]. unfold nosep. apply Forall_rev. exact Hc.
  - destruct (c =? sep) eqn:E.
    + constructor; [unfold nosep; apply Forall_rev; exact Hc|]. apply IH. constructor.
    + apply IH. constructor; assumption.
Qed.

Lemma split_on_comp : forall sep (c cur rest : list N), nosep sep c ->
  split_on sep cur (c ++ rest) = split_on sep (rev c ++ cur) rest.
Proof.
  intros sep. induction c as [|x c IH]; intros cur rest Hc; [reflexivity|].
  inversion Hc as [|? ? Hx Hc']; subst. cbn [app split_on]. rewrite Hx. rewrite (IH (x :: cur) rest Hc').
  cbn [rev]. rewrite <- app_assoc. reflexivity.
Qed.

Lemma split_on_join : forall sep (comps : list (list N)) (cur : list N), Forall (nosep sep) comps ->
  split_on sep cur (flat_map (fun c => sep :: c) comps) = rev cur :: comps.
Proof.
  intros sep. induction comps as [|c comps IH]; intros cur H; [reflexivity|].
  inversion H as [|? ? Hc H']; subst. cbn [flat_map app split_on]. rewrite N.eqb_refl.
  rewrite (split_on_comp sep c [] _ Hc). rewrite app_nil_r. rewrite (IH (rev c) H'). rewrite rev_involutive.
  reflexivity.
Qed.

Definition nc_step (acc : list str) (c : str) : list str :=
  if str_eqb c [] || str_eqb c [c_dot] then acc
  else if str_eqb c [c_dot; c_dot] then tl acc
  else c :: acc.

Lemma norm_components_fold : forall comps, norm_components comps = rev (fold_left nc_step comps []).
Proof. reflexivity. Qed.

Lemma nc_fold_good : forall comps acc, Forall (nosep c_slash) comps -> Forall good_comp acc ->
  Forall good_comp (fold_left nc_step comps acc).
Proof.
  induction comps as [|c comps IH]; intros acc Hc Ha; [exact Ha|].
  inversion Hc as [|? ? H1 H2]; subst. cbn [fold_left]. apply IH; [exact H2|].
  unfold nc_step. destruct (str_eqb c []) eqn:E1; [exact Ha|].
  destruct (str_eqb c [c_dot]) eqn:E2; [exact Ha|]. cbn [orb].
  destruct (str_eqb c [c_dot; c_dot]) eqn:E3.
  - destruct acc; [constructor|]. inversion Ha; assumption.
  - constructor; [|exact Ha]. repeat split; assumption.
Qed.

Lemma nc_fold_id : forall comps acc, Forall good_comp comps -> fold_left nc_step comps acc = rev comps ++ acc.
Proof.
  induction comps as [|c comps IH]; intros acc H; [reflexivity|].
  inversion H as [|? ? [E1 [E2 [E3 _]]] H']; subst. cbn [fold_left]. unfold nc_step at 2.
  rewrite E1, E2, E3. cbn [orb]. rewrite (IH _ H'). cbn [rev]. rewrite <- app_assoc. reflexivity.
Qed.

Lemma norm_path_idem : forall p, norm_path (norm_path p) = norm_path p.
Proof.
  intro p. unfold norm_path.
  assert (Hg : Forall good_comp (norm_components (split_on c_slash [] p))).
  { rewrite norm_components_fold. apply Forall_rev. apply nc_fold_good; [|constructor].
    apply split_on_nosep. constructor. }
  remember (norm_components (split_on c_slash [] p)) as comps eqn:Ec.
  rewrite split_on_join.
  - rewrite norm_components_fold. cbn [rev fold_left]. unfold nc_step at 2. cbn [str_eqb orb].
    rewrite (nc_fold_id comps [] Hg). rewrite app_nil_r, rev_involutive. reflexivity.
  - eapply Forall_impl; [|exact Hg]. intros c [_ [_ [_ H]]]. exact H.
Qed.

(* ================================================================================================ *)
(* C09 : the JSON front end                                                                         *)
(* ================================================================================================ *)
Lemma find_reference_none : forall (s acc : list N), has_char c_dollar s = false -> find_reference acc s = None.
Proof.
  induction s as [|d s IH]; intros acc H; [reflexivity|].
  unfold has_char in H. cbn [existsb] in H. apply orb_false_iff in H. destruct H as [H1 H2].
  cbn [find_reference]. destruct s as [|w r]; [reflexivity|].
  rewrite N.eqb_sym in H1. rewrite H1. cbn [andb]. apply IH. exact H2.
Qed.

Lemma json_extract_id : forall c s, has_char c_dollar s = false -> json_extract_expression c s = (s, c, []).
Proof.
  intros c s H. unfold json_extract_expression. cbn [find_refs]. rewrite (find_reference_none s [] H). reflexivity.
Qed.

Lemma json_leaf_untouched : forall s c tab, has_char c_dollar s = false ->
  json_expressions (Leaf (SStr s)) c tab = (Leaf (SStr s), c, tab).
Proof.
  intros s c tab H. cbn [json_expressions]. rewrite (json_extract_id c s H).
  destruct (parse_value s) as [[]|]; reflexivity.
Qed.

Definition je_kvs : list (key * tree) -> Z -> list (N * expr_entry) -> list (key * tree) * Z * list (N * expr_entry) :=
  fix go (l : list (key * tree)) (c : Z) (tb : list (N * expr_entry)) :=
    match l with
    | [] => ([], c, tb)
    | (k, v) :: l' => let '(v', c1, tb1) := json_expressions v c tb in
                      let '(r, c2, tb2) := go l' c1 tb1 in ((k, v') :: r, c2, tb2)
    end.
Definition je_ts : list tree -> Z -> list (N * expr_entry) -> list tree * Z * list (N * expr_entry) :=
  fix go (l : list tree) (c : Z) (tb : list (N * expr_entry)) :=
    match l with
    | [] => ([], c, tb)
    | v :: l' => let '(v', c1, tb1) := json_expressions v c tb in
                 let '(r, c2, tb2) := go l' c1 tb1 in (v' :: r, c2, tb2)
    end.
Lemma json_expressions_dict : forall kvs c tab,
  json_expressions (Dict kvs) c tab = let '(kvs', c', tb) := je_kvs kvs c tab in (Dict kvs', c', tb).
Proof. reflexivity. Qed.
Lemma json_expressions_lst : forall ts c tab,
  json_expressions (Lst ts) c tab = let '(ts', c', tb) := je_ts ts c tab in (Lst ts', c', tb).
Proof. reflexivity. Qed.

Lemma ordinary_Lst_iff : forall l, ordinary (Lst l) = true <-> Forall (fun c => ordinary c = true) l.
Proof.
  induction l as [|c l IH].
  - split; [constructor | reflexivity].
  - change (ordinary (Lst (c :: l))) with (ordinary c && ordinary (Lst l)).
    rewrite andb_true_iff, IH. split.
    + intros [H1 H2]. constructor; assumption.
    + intro H. inversion H; subst. auto.
Qed.

Lemma json_expressions_id : forall t, ordinary t = true -> forall c tab, json_expressions t c tab = (t, c, tab).
Proof.
  induction t as [v|kvs IH|ts IH] using tree_ind'; intros Ho c tab.
  - destruct v as [z|l|b| |s]; try reflexivity.
    apply json_leaf_untouched. cbn [ordinary ordinary_leaf] in Ho. apply andb_true_iff in Ho. destruct Ho as [Ho _].
    apply negb_true_iff in Ho. exact Ho.
  - apply ordinary_Dict_iff in Ho. rewrite json_expressions_dict.
    assert (E : je_kvs kvs c tab = (kvs, c, tab)).
    { revert c tab. induction kvs as [|[k v] kvs IHk]; intros c tab; [reflexivity|].
      inversion IH as [|? ? I1 I2]; subst. inversion Ho as [|? ? [_ O1] O2]; subst. cbn [snd] in *.
      cbn [je_kvs]. rewrite (I1 O1 c tab). fold je_kvs. rewrite (IHk I2 O2 c tab). reflexivity. }
    rewrite E. reflexivity.
  - apply ordinary_Lst_iff in Ho. rewrite json_expressions_lst.
    assert (E : je_ts ts c tab = (ts, c, tab)).
    { revert c tab. induction ts as [|v ts IHk]; intros c tab; [reflexivity|].
      inversion IH as [|? ? I1 I2]; subst. inversion Ho as [|? ? O1 O2]; subst.
      cbn [je_ts]. rewrite (I1 O1 c tab). fold je_ts. rewrite (IHk I2 O2 c tab). reflexivity. }
    rewrite E. reflexivity.
Qed.

Lemma json_includes_none : forall dir kvs c, no_include_keys kvs = true -> json_includes dir c kvs = ([], kvs, c, []).
Proof.
  intros dir. induction kvs as [|[k v] kvs IH]; intros c H; [reflexivity|].
  unfold no_include_keys in H. cbn [forallb fst] in H. apply andb_true_iff in H. destruct H as [H1 H2].
  apply negb_true_iff in H1. cbn [json_includes]. rewrite H1. rewrite (IH c H2). reflexivity.
Qed.

(* clean-up leaves ordinary, well formed data and all tables exactly as they are *)
Lemma clean_level_ordinary_full : forall data s, Forall ordkv data -> clean_level data s = (data, s).
Proof.
  intros data s H. unfold clean_level. rewrite !keys_of_kind_ordinary by assumption. cbn [clean_kind].
  destruct s; reflexivity.
Qed.

Lemma clean_tree_id_full : forall fuel data s, ordinary (Dict data) = true -> wf (Dict data) = true ->
  clean_tree fuel data s = (data, s).
Proof.
  induction fuel as [|f IH]; intros data s Ho Hw; [reflexivity|].
  rewrite clean_tree_S. apply ordinary_Dict_iff in Ho. apply wf_Dict_iff in Hw. destruct Hw as [Hnd Hw].
  rewrite (clean_level_ordinary_full data s Ho). cbn [fst].
  assert (Hgen : forall l, (forall kv, In kv l -> In kv data) -> fold_left (cstep f) l (data, s) = (data, s)).
  { induction l as [|[k v] l IHl]; intros Hsub; [reflexivity|]. cbn [fold_left].
    assert (Hin : In (k, v) data) by (apply Hsub; left; reflexivity).
    assert (Hc : cstep f (data, s) (k, v) = (data, s)).
    { unfold cstep. cbn [fst snd]. destruct v as [x|sub|ts]; try reflexivity.
      rewrite Forall_forall in Ho, Hw. destruct (Ho _ Hin) as [_ Hos]. pose proof (Hw _ Hin) as Hws.
      unfold wfkv in Hws. cbn [snd] in Hos, Hws. rewrite (IH sub s Hos Hws).
      rewrite SDictProofs.aset_same; [reflexivity|]. apply alookup_In_nodup; assumption. }
    rewrite Hc. apply IHl. intros kv H'. apply Hsub. right. assumption. }
  apply Hgen. auto.
Qed.

Lemma sd_clean_id : forall s, ordinary (Dict (sd_data s)) = true -> wf (Dict (sd_data s)) = true -> sd_clean s = s.
Proof.
  intros s Ho Hw. unfold sd_clean. rewrite (clean_tree_id_full _ _ s Ho Hw). destruct s; reflexivity.
Qed.

Lemma json_front_end_identity : forall dir c kvs,
  wf (Dict kvs) = true -> ordinary_kvs kvs = true -> no_include_keys kvs = true ->
  sd_data (pr_sd (json_parse dir c kvs)) = kvs /\ pr_count (json_parse dir c kvs) = c /\
  sd_inc (pr_sd (json_parse dir c kvs)) = [] /\ sd_expr (pr_sd (json_parse dir c kvs)) = [].
Proof.
  intros dir c kvs Hw Ho Hn. unfold ordinary_kvs in Ho.
  assert (Hk : sd_clean (mkSD kvs [] [] [] []) = mkSD kvs [] [] [] []) by (apply sd_clean_id; assumption).
  assert (He : sd_clean (mkSD [] [] [] [] []) = mkSD [] [] [] [] []) by (apply sd_clean_id; reflexivity).
  assert (Hu : aupdate [] kvs = kvs).
  { rewrite aupdate_app; [reflexivity|]. cbn [app]. apply wf_Dict_iff in Hw. tauto. }
  assert (H0 : sd_update sd_empty kvs None = mkSD kvs [] [] [] []).
  { unfold sd_update, sd_empty. cbn [sd_data sd_lc sd_bc sd_inc sd_expr post_update]. rewrite Hu. exact Hk. }
  unfold json_parse. rewrite H0. cbn [sd_data sd_lc sd_bc sd_inc sd_expr].
  rewrite (json_includes_none dir kvs c Hn).
  assert (H1 : sd_update (mkSD [] [] [] [] []) [] None = mkSD [] [] [] [] []).
  { unfold sd_update. cbn [sd_data sd_lc sd_bc sd_inc sd_expr post_update aupdate fold_left]. exact He. }
  rewrite H1.
  assert (H2 : sd_update (mkSD [] [] [] [] []) kvs (Some (mkSD kvs [] [] [] [])) = mkSD kvs [] [] [] []).
  { unfold sd_update. cbn [sd_data sd_lc sd_bc sd_inc sd_expr post_update tupdate fold_left]. rewrite Hu. exact Hk. }
  rewrite H2. cbn [sd_data sd_lc sd_bc sd_inc sd_expr].
  rewrite (json_expressions_id (Dict kvs) Ho c []). cbn [kvs_of_tree]. rewrite Hk.
  cbn [pr_sd pr_count sd_data sd_inc sd_expr]. repeat split; reflexivity.
Qed.

(* ================================================================================================ *)
(* C05 : termination of reference resolution (repaired resolver: the while-loop remembers the       *)
(*       reference texts it has tried, follows plain references only, and the index applies to the  *)
(*       value the chain ends in)                                                                   *)
(* ================================================================================================ *)
Definition chase_f (rr : str -> rres) : nat -> option tree -> option str -> list str -> rres * option str :=
  fix chase_f (g : nat) (value : option tree) (last_ref : option str) (tried : list str) {struct g}
    : rres * option str :=
    match g with
    | O => (RFuel, last_ref)
    | S g' =>
        match value with
        | None => (RNone, last_ref)
        | Some t =>
            if tree_has_dollar t then
              let r2 := py_str_tree t in
              if existsb (str_eqb r2) tried then (RNone, last_ref) else
              if negb (is_plain_reference r2) then (RNone, last_ref) else
              match rr r2 with
              | RVal t' => chase_f g' (Some t') (Some r2) (r2 :: tried)
              | RNone => (RNone, Some r2)
              | ROutside => (ROutside, Some r2)
              | RFuel => (RFuel, Some r2)
              end
            else (RVal t, last_ref)
        end
    end.

Definition resolve_tail (reference : str) (chased : rres * option str) : rres :=
  let indexing := ref_indexing reference in
  let '(val, last_ref) := chased in
  match val with
  | RFuel => RFuel
  | ROutside => ROutside
  | _ =>
      match indexing with
      | [] => val
      | _ =>
          match parse_indices (S (length indexing)) indexing with
          | None => ROutside
          | Some idx =>
              match val with
              | RVal t => match index_tree t idx with Some t' => RVal t' | None => RNone end
              | _ => val
              end
          end
      end
  end.

Lemma resolve_ref_S : forall f vars seen reference,
  resolve_ref (S f) vars seen reference =
  let name := ref_name reference in
  if existsb (str_eqb name) seen then RNone else
  match alookup (KS name) vars with
  | None => RNone
  | Some v0 => resolve_tail reference
                 (chase_f (resolve_ref f vars (seen ++ [name])) (S (vars_size vars)) (Some v0) None [])
  end.
Proof. reflexivity. Qed.

(* ---- indexing a value without a dollar sign gives a value without a dollar sign ------------------------ *)
Lemma tree_has_dollar_lst : forall ts,
  tree_has_dollar (Lst ts) = existsb tree_has_dollar ts.
Proof. induction ts as [|c ts IH]; [reflexivity|]. cbn [existsb]. rewrite <- IH. reflexivity. Qed.

Lemma index_no_dollar : forall idx t t', tree_has_dollar t = false -> index_tree t idx = Some t' ->
  tree_has_dollar t' = false.
Proof.
  induction idx as [|i idx IH]; intros t t' D H; cbn [index_tree] in H; [inversion H; subst; exact D|].
  destruct t as [v|kvs|ts]; [|discriminate|].
  - destruct v as [z|l|b| |s]; try discriminate.
    destruct (norm_index i (length s)) as [n|]; [|discriminate].
    destruct (nth_error s n) as [c|] eqn:En; [|discriminate].
    apply (IH _ _ ) in H; [exact H|]. cbn [tree_has_dollar] in D |- *. unfold has_char in *. cbn [existsb].
    rewrite orb_false_r. destruct (c_dollar =? c) eqn:E; [|reflexivity].
    assert (existsb (N.eqb c_dollar) s = true); [|congruence].
    apply existsb_exists. exists c. split; [eapply nth_error_In; exact En | exact E].
  - destruct (norm_index i (length ts)) as [n|]; [|discriminate].
    destruct (nth_error ts n) as [c|] eqn:En; [|discriminate].
    apply (IH _ _) in H; [exact H|]. rewrite tree_has_dollar_lst in D.
    destruct (tree_has_dollar c) eqn:E; [|reflexivity].
    assert (existsb tree_has_dollar ts = true); [|congruence].
    apply existsb_exists. exists c. split; [eapply nth_error_In; exact En | exact E].
Qed.

(* the loop: an inner resolution never hands back a value with a dollar sign, so two rounds are enough *)
Lemma chase_ok : forall rr,
  (forall r2, rr r2 <> RFuel) ->
  (forall r2 t, rr r2 = RVal t -> tree_has_dollar t = false) ->
  forall g t lr tried, (2 <= g)%nat ->
  fst (chase_f rr g (Some t) lr tried) <> RFuel /\
  (forall t', fst (chase_f rr g (Some t) lr tried) = RVal t' -> tree_has_dollar t' = false).
Proof.
  intros rr H1 H2 g t lr tried Hg. destruct g as [|[|g]]; [lia|lia|].
  cbn [chase_f]. destruct (tree_has_dollar t) eqn:D0;
    [|cbn [fst]; split; [discriminate | intros t' E; inversion E; subst; exact D0]].
  cbv zeta. destruct (existsb (str_eqb (py_str_tree t)) tried);
    [cbn [fst]; split; [discriminate | intros; discriminate]|].
  destruct (negb (is_plain_reference (py_str_tree t)));
    [cbn [fst]; split; [discriminate | intros; discriminate]|].
  destruct (rr (py_str_tree t)) as [|t1| |] eqn:R1; cbn [fst];
    try (split; [discriminate | intros; discriminate]); [|exfalso; exact (H1 _ R1)].
  rewrite (H2 _ _ R1). cbn [fst]. split; [discriminate|]. intros t' E. inversion E; subst. exact (H2 _ _ R1).
Qed.

Lemma resolve_tail_ok : forall r val lr,
  val <> RFuel -> (forall t, val = RVal t -> tree_has_dollar t = false) ->
  resolve_tail r (val, lr) <> RFuel /\
  (forall t, resolve_tail r (val, lr) = RVal t -> tree_has_dollar t = false).
Proof.
  intros r val lr Hf Hd. unfold resolve_tail.
  destruct val as [|t0| |]; [ | | split; [discriminate | intros; discriminate] | exfalso; apply Hf; reflexivity].
  all: destruct (ref_indexing r) as [|x ix]; [split; [exact Hf | exact Hd]|].
  all: destruct (parse_indices (S (length (x :: ix))) (x :: ix)) as [idx|];
       [|split; [discriminate | intros; discriminate]].
  - split; [exact Hf | exact Hd].
  - destruct (index_tree t0 idx) as [ti|] eqn:Ex; [|split; [discriminate | intros; discriminate]].
    split; [discriminate|]. intros t E. inversion E; subst t.
    exact (index_no_dollar idx t0 ti (Hd t0 eq_refl) Ex).
Qed.

Lemma NoDup_snoc : forall {A} (l : list A) x, NoDup l -> ~ In x l -> NoDup (l ++ [x]).
Proof.
  intros A l x. induction l as [|y l IH]; intros Hnd Hn; cbn [app].
  - constructor; [intros []|constructor].
  - inversion Hnd as [|? ? Hy Hl]; subst. constructor.
    + intro Hin. apply in_app_or in Hin. destruct Hin as [Hin|[Hin|[]]]; [contradiction|].
      subst. apply Hn. left. reflexivity.
    + apply IH; [exact Hl|]. intro Hin. apply Hn. right. exact Hin.
Qed.

(* the cycle guard: [seen] holds distinct keys of the table *)
Lemma seen_bound : forall (vars : vtab) (seen : list str),
  NoDup seen -> (forall n, In n seen -> In (KS n) (map fst vars)) -> (length seen <= length vars)%nat.
Proof.
  intros vars seen Hnd Hin.
  assert (Hm : NoDup (map KS seen)).
  { induction Hnd as [|x l Hx Hl IH]; cbn [map]; constructor.
    - intro H. apply in_map_iff in H. destruct H as [y [E Hy]]. inversion E; subst. contradiction.
    - apply IH. intros n Hn. apply Hin. right. exact Hn. }
  pose proof (NoDup_incl_length Hm (l' := map fst vars)) as H. rewrite !map_length in H. apply H.
  intros k Hk. apply in_map_iff in Hk. destruct Hk as [n [E Hn]]. subst k. apply Hin. exact Hn.
Qed.

Lemma tree_size_pos : forall t, (1 <= tree_size t)%nat.
Proof. intros [[]| |]; cbn [tree_size]; lia. Qed.

Lemma vars_size_length : forall vars : vtab, (length vars <= vars_size vars)%nat.
Proof.
  induction vars as [|[k v] vars IH]; [simpl; lia|].
  unfold vars_size in *. cbn [fold_right length snd]. pose proof (tree_size_pos v). lia.
Qed.

Lemma resolve_ok : forall vars fuel seen r,
  NoDup seen -> (forall n, In n seen -> In (KS n) (map fst vars)) ->
  (length vars + 1 <= fuel + length seen)%nat ->
  resolve_ref fuel vars seen r <> RFuel /\
  (forall t, resolve_ref fuel vars seen r = RVal t -> tree_has_dollar t = false).
Proof.
  intros vars. induction fuel as [|f IH]; intros seen r Hnd Hin Hlen.
  - pose proof (seen_bound vars seen Hnd Hin). lia.
  - rewrite resolve_ref_S. cbv zeta.
    destruct (existsb (str_eqb (ref_name r)) seen) eqn:Es; [split; [discriminate | intros; discriminate]|].
    destruct (alookup (KS (ref_name r)) vars) as [v0|] eqn:Ea; [|split; [discriminate | intros; discriminate]].
    set (name := ref_name r) in *. set (seen' := seen ++ [name]).
    assert (Hnd' : NoDup seen').
    { apply NoDup_snoc; [exact Hnd|]. intro Hx.
      assert (existsb (str_eqb name) seen = true).
      { apply existsb_exists. exists name. split; [exact Hx | apply ScalarProofs.str_eqb_refl]. }
      congruence. }
    assert (Hin' : forall n, In n seen' -> In (KS n) (map fst vars)).
    { intros n Hn. apply in_app_or in Hn. destruct Hn as [Hn|[Hn|[]]]; [apply Hin; exact Hn|]. subst n.
      apply SDictProofs.alookup_Some_In in Ea. apply in_map_iff. exists (KS name, v0). split; [reflexivity|exact Ea]. }
    assert (Hl' : length seen' = S (length seen)) by (unfold seen'; rewrite app_length; simpl; lia).
    assert (Hrr : forall r2, resolve_ref f vars seen' r2 <> RFuel /\
                   (forall t, resolve_ref f vars seen' r2 = RVal t -> tree_has_dollar t = false)).
    { intro r2. apply IH; [exact Hnd' | exact Hin' | lia]. }
    assert (Hv : (1 <= length vars)%nat).
    { destruct vars; [discriminate Ea | simpl; lia]. }
    pose proof (vars_size_length vars) as Hvs.
    destruct (chase_ok (resolve_ref f vars seen')
                (fun r2 => proj1 (Hrr r2)) (fun r2 => proj2 (Hrr r2))
                (S (vars_size vars)) v0 None []) as [C1 C2]; [lia|].
    destruct (chase_f (resolve_ref f vars seen') (S (vars_size vars)) (Some v0) None []) as [val lr].
    cbn [fst] in C1, C2.
    exact (resolve_tail_ok r val lr C1 C2).
Qed.

Lemma resolve_terminates : forall vars r, resolve_reference vars r <> RFuel.
Proof.
  intros vars r. unfold resolve_reference.
  apply (resolve_ok vars (S (S (length vars))) [] r); [constructor | intros n [] | simpl; lia].
Qed.

(* a resolved reference never has a dollar sign left in it *)
Lemma resolve_value_no_dollar : forall vars r t, resolve_reference vars r = RVal t -> tree_has_dollar t = false.
Proof.
  intros vars r. unfold resolve_reference.
  apply (resolve_ok vars (S (S (length vars))) [] r); [constructor | intros n [] | simpl; lia].
Qed.

(* the table on which the unrepaired resolver looped for ever:  a = "$b[0]"  b = "$c"  c = ["$b[0]"] *)
Definition loop_vars : vtab :=
  [(KS (of_string "a"), Leaf (SStr (of_string "$b[0]")));
   (KS (of_string "b"), Leaf (SStr (of_string "$c")));
   (KS (of_string "c"), Lst [Leaf (SStr (of_string "$b[0]"))])].
Lemma loop_vars_unresolved : resolve_reference loop_vars (of_string "$a") = RNone.
Proof. vm_compute. reflexivity. Qed.
