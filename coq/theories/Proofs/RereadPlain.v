(* C03 on plain dicts: one write/read cycle is idempotent on the data.
   written_value (the classifier applied to the content of the written form) is idempotent on the writer domain, the
   domain is closed under it, and the side conditions of the end-to-end round trip (number and depth of the quoted
   literals) are inherited by the re-read dict.  The TEXT of the second cycle differs from the first exactly where a
   string leaf is re-typed (a string 0012 is written 0012, read back as the int 12 and then written 12); from the
   second cycle on text and data are fixed. *)
From Coq Require Import String.
From Coq Require Import NArith ZArith List Bool Lia ZifyBool ZifyN ZifyNat.
From DictIO Require Import Chars Str Value Scalar KeyPath SDict Layout Lexer TokParser TreeSpec NativeSpec LayoutSpec E2ESpec TypeTable.
From DictIO Require ScalarProofs SDictProofs TokProofs LayoutProofs SemProofs QuoteProofs KeyPathProofs.
From DictIO Require Import E2EProofs E2EHoles E2EInsert E2EKeyTok E2EFullProofs.
Import ListNotations.
Open Scope N_scope.

(* ================================================================================================ *)
(* 1. the written form of a classified value                                                        *)
(* ================================================================================================ *)

Lemma simple_chars_tchars (a : list N) : forallb simple_char a = true -> forallb tchar a = true.
Proof.
  intros H. apply forallb_forall. intros c Hc. apply simple_tchar. exact (forallb_In _ _ _ H Hc).
Qed.

Lemma simple_not_structc c : simple_char c = true -> is_struct_char c = false.
Proof. intros H. unfold is_struct_char. tch. Qed.

Lemma format_string_simple (a : list N) : forallb simple_char a = true -> a <> [] -> format_string a = a.
Proof.
  intros Hc Hne. pose proof (simple_chars_tchars a Hc) as Ht.
  unfold format_string, classify_string.
  rewrite (tchars_no c_dollar a Ht eq_refl), (tchars_no c_dq a Ht eq_refl), (tchars_no c_sq a Ht eq_refl).
  destruct a as [|x a]; [congruence|]. cbn [nonempty negb].
  assert (E : existsb is_struct_char (x :: a) = false).
  { destruct (existsb is_struct_char (x :: a)) eqn:E; [|reflexivity]. apply existsb_exists in E.
    destruct E as (y & Hy & Ey). rewrite (simple_not_structc y (forallb_In _ _ _ Hc Hy)) in Ey. discriminate Ey. }
  rewrite E. reflexivity.
Qed.

Lemma simple_tok_self (a : list N) : simple_tok a = true -> simple_leaf (SStr a) = true /\ format_string a = a.
Proof.
  intros H. destruct (simple_tok_inv a H) as (Hne & Hc & _).
  pose proof (format_string_simple a Hc Hne) as E. split; [|exact E].
  unfold simple_leaf. cbn [format_scalar]. rewrite E. exact H.
Qed.

Lemma Z_to_dec_simple z : simple_tok (Z_to_dec z) = true.
Proof.
  assert (Hc : forallb simple_char (Z_to_dec z) = true).
  { apply forallb_forall. intros c Hc. destruct (Z_to_dec_chars z c Hc) as [Hd| ->]; [|reflexivity].
    unfold simple_char, is_word. rewrite Hd. reflexivity. }
  assert (Hne : Z_to_dec z <> []).
  { destruct z as [|p|p]; cbn [Z_to_dec]; try discriminate.
    destruct (ScalarProofs.N_to_dec_spec (Npos p)) as [[_ Hn] _]. exact Hn. }
  unfold simple_tok. rewrite Hc. destruct (Z_to_dec z) as [|x r] eqn:E; [congruence|]. cbn [nonempty andb].
  unfold no_reserved_word.
  assert (G : forall w : list N, (match w with y :: _ => simple_char y && negb (is_digit y) && negb (y =? c_minus) | [] => false end) = true ->
              contains w (x :: r) = false).
  { intros w Hw. destruct w as [|y w]; [discriminate Hw|]. destruct (contains (y :: w) (x :: r)) eqn:Ec; [|reflexivity].
    apply contains_head_In in Ec. rewrite <- E in Ec. destruct (Z_to_dec_chars z y Ec) as [Hd| ->].
    - rewrite Hd in Hw. cbn in Hw. rewrite andb_false_r in Hw. discriminate Hw.
    - cbn in Hw. discriminate Hw. }
  rewrite !G by reflexivity. reflexivity.
Qed.

(* the characters of a float literal *)
Definition fchar (c : N) : bool := is_digit c || (c =? c_dot) || (c =? c_e) || (c =? c_E) || is_sign c || (c =? c_lf).

Lemma Forall_fchar_app (a b : list N) : Forall (fun c => fchar c = true) a -> Forall (fun c => fchar c = true) b ->
  Forall (fun c => fchar c = true) (a ++ b).
Proof. intros Ha Hb. apply Forall_app. split; assumption. Qed.

Lemma digits_fchar ds : digits ds -> Forall (fun c => fchar c = true) ds.
Proof. unfold digits. apply Forall_impl. intros c Hc. unfold fchar. rewrite Hc. reflexivity. Qed.

Lemma sgn_fchar sg : sgn sg -> Forall (fun c => fchar c = true) sg.
Proof. intros [-> |[-> | ->]]; repeat constructor. Qed.

Lemma float_lit_fchars s : float_lit s -> Forall (fun c => fchar c = true) s.
Proof.
  intros (sg & m & x & e & -> & Hsg & Hm & Hx & He).
  apply Forall_fchar_app; [apply sgn_fchar; exact Hsg|]. apply Forall_fchar_app; [|apply Forall_fchar_app].
  - destruct Hm as [[Hd _]|(d1 & d2 & -> & H1 & H2 & _)]; [apply digits_fchar; exact Hd|].
    apply Forall_fchar_app; [apply digits_fchar; exact H1|]. constructor; [reflexivity|apply digits_fchar; exact H2].
  - destruct Hx as [-> |(c & sg' & ds & -> & Hc & Hsg' & [Hds _])]; [constructor|].
    constructor; [destruct Hc as [-> | ->]; reflexivity|]. apply Forall_fchar_app; [apply sgn_fchar; exact Hsg'|apply digits_fchar; exact Hds].
  - destruct He as [-> | ->]; repeat constructor.
Qed.

Lemma fchar_simple c : fchar c = true -> (c =? c_lf) = false -> simple_char c = true.
Proof. unfold fchar. intros H1 H2. tch. Qed.

Lemma float_lit_simple_chars s : float_lit s -> has_char c_lf s = false -> forallb simple_char s = true.
Proof.
  intros Hf Hl. pose proof (float_lit_fchars s Hf) as Hc. rewrite Forall_forall in Hc.
  apply forallb_forall. intros c Hin. apply fchar_simple; [exact (Hc c Hin)|].
  exact (has_char_In c_lf s Hl c Hin).
Qed.

(* ================================================================================================ *)
(* 2. written_value is idempotent on the writer domain, and the domain is closed under it          *)
(* ================================================================================================ *)

Definition wv_ok (x : scalar) : Prop := simple_leaf x = true /\ written_value x = x.

Lemma wv_ok_int z : wv_ok (SInt z).
Proof.
  split; [exact (Z_to_dec_simple z)|]. rewrite written_simple by exact (Z_to_dec_simple z).
  unfold norm_scalar. rewrite ScalarProofs.fmt_int_roundtrip. reflexivity.
Qed.
Lemma wv_ok_bool b : wv_ok (SBool b).
Proof. destruct b; split; vm_compute; reflexivity. Qed.
Lemma wv_ok_none : wv_ok SNone.
Proof. split; vm_compute; reflexivity. Qed.

Lemma wv_ok_tok (a : list N) x : simple_tok a = true -> parse_value a = Ok x -> classify a x -> wv_ok x.
Proof.
  intros Ha E Hc. pose proof (simple_tok_noquote a Ha) as Hq.
  destruct (simple_tok_inv a Ha) as (Hne & Hch & Hrw).
  inversion Hc; subst.
  - rewrite Hq in H. congruence.
  - destruct (simple_tok_self a Ha) as [S1 S2]. split; [exact S1|].
    rewrite (written_simple _ S1). unfold norm_scalar. cbn [format_scalar]. rewrite S2, E. reflexivity.
  - apply wv_ok_int.
  - split; [exact Ha|]. rewrite (written_simple (SFloat a) Ha). unfold norm_scalar. cbn [format_scalar]. rewrite E. reflexivity.
  - apply wv_ok_bool.
  - apply wv_ok_bool.
  - apply wv_ok_none.
  - rewrite Hq in *. destruct (simple_tok_self a Ha) as [S1 S2]. split; [exact S1|].
    rewrite (written_simple _ S1). unfold norm_scalar. cbn [format_scalar]. rewrite S2, E. reflexivity.
Qed.

(* one cycle on a leaf: the result is a bare token that is its own written value, or the quoted string itself *)
Lemma written_value_cases v : writable_leaf v = true ->
  wv_ok (written_value v) \/ (simple_leaf v = false /\ written_value v = v).
Proof.
  intros Hv. destruct (writable_leaf_cases v Hv) as [Es|(Es & s & -> & Hq)].
  - left. rewrite (written_simple v Es), norm_pv.
    destruct (ScalarProofs.parse_value_table (FS v)) as (x & E & Hc). unfold pv. rewrite E.
    exact (wv_ok_tok (FS v) x Es E Hc).
  - rewrite (written_quoted s Hq). destruct (qlit_content s Hq) as [Hrw Hrq].
    destruct (ScalarProofs.parse_value_table s) as (x & E & Hc). unfold pv. rewrite E.
    destruct Hq as [Hqa Hqf]. destruct (quotable_inv s Hqa) as (Hlc & _).
    inversion Hc; subst.
    + right. split; [exact Es|]. rewrite Hrq in H. subst s. reflexivity.
    + exfalso. unfold is_quoted_form in Hqf. destruct H0 as [-> |[-> | ->]]; vm_compute in Hqf; discriminate Hqf.
    + left. apply wv_ok_int.
    + left. assert (Hs : simple_tok s = true).
      { unfold simple_tok. rewrite Hrw, andb_true_r.
        assert (Hl : has_char c_lf s = false).
        { apply forallb_nochar. apply forallb_forall. intros c Hin.
          destruct (lit_char_facts c (forallb_In _ _ _ Hlc Hin)) as (_ & A & _). cbn beta. rewrite A. reflexivity. }
        rewrite (float_lit_simple_chars s H2 Hl), andb_true_r.
        destruct s; [exfalso; exact (ScalarProofs.float_lit_nonempty _ H2 eq_refl)|reflexivity]. }
      split; [exact Hs|]. rewrite (written_simple (SFloat s) Hs). unfold norm_scalar. cbn [format_scalar]. rewrite E. reflexivity.
    + left. apply wv_ok_bool.
    + left. apply wv_ok_bool.
    + left. apply wv_ok_none.
    + right. split; [exact Es|]. rewrite Hrq. reflexivity.
Qed.

Lemma wv_ok_writable x : wv_ok x -> writable_leaf x = true.
Proof. intros [H _]. unfold writable_leaf. rewrite H. reflexivity. Qed.

Theorem written_value_closed v : writable_leaf v = true -> writable_leaf (written_value v) = true.
Proof.
  intros Hv. destruct (written_value_cases v Hv) as [H|[_ ->]]; [exact (wv_ok_writable _ H)|exact Hv].
Qed.

Theorem written_value_idem v : writable_leaf v = true -> written_value (written_value v) = written_value v.
Proof.
  intros Hv. destruct (written_value_cases v Hv) as [[_ H]|[_ H]]; [exact H|rewrite H; exact H].
Qed.

(* ================================================================================================ *)
(* 3. the re-read tree                                                                              *)
(* ================================================================================================ *)

Notation wvt := (map_leaves written_value).

Lemma qstr_wv v : writable_leaf v = true ->
  qstr (written_value v) = [] \/ (written_value v = v).
Proof.
  intros Hv. destruct (written_value_cases v Hv) as [[H _]|[_ H]]; [left|right; exact H].
  unfold qstr. rewrite H. reflexivity.
Qed.

Lemma wvt_facts : forall t, ktree writable_leaf t = true ->
  ktree writable_leaf (wvt t) = true /\ wvt (wvt t) = wvt t /\ (nq (wvt t) <= nq t)%nat /\
  (forall b, quoted_within b t = true -> quoted_within b (wvt t) = true).
Proof.
  induction t as [v|kvs IH|ts IH] using tree_ind'; intros H.
  - cbn [ktree map_leaves] in *. split; [exact (written_value_closed v H)|].
    split; [rewrite (written_value_idem v H); reflexivity|]. split.
    + unfold nq. cbn [qstrs]. destruct (qstr_wv v H) as [E|E]; rewrite E; [cbn [length]; lia|lia].
    + intros b Hb. unfold quoted_within in *. cbn [lw] in *.
      destruct (written_value_cases v H) as [[E _]|[_ E]]; [rewrite E; reflexivity|rewrite E; exact Hb].
  - rewrite !TokProofs.map_leaves_dict.
    assert (G : ktree writable_leaf (Dict (map (TokProofs.mkv written_value) kvs)) = true /\
                map (TokProofs.mkv written_value) (map (TokProofs.mkv written_value) kvs) = map (TokProofs.mkv written_value) kvs /\
                (nq (Dict (map (TokProofs.mkv written_value) kvs)) <= nq (Dict kvs))%nat /\
                (forall b, forallb (fun kc => quoted_within b (snd kc)) kvs = true ->
                           forallb (fun kc => quoted_within b (snd kc)) (map (TokProofs.mkv written_value) kvs) = true)).
    { induction IH as [|[k c] kvs Hc _ IHk]; [repeat split; try reflexivity; lia|].
      rewrite ktree_dict_cons in H. apply andb_true_iff in H. destruct H as [H H3].
      apply andb_true_iff in H. destruct H as [H1 H2]. cbn [snd] in Hc.
      destruct (Hc H2) as (C1 & C2 & C3 & C4). destruct (IHk H3) as (I1 & I2 & I3 & I4).
      cbn [map]. change (TokProofs.mkv written_value (k, c)) with (k, wvt c).
      change (TokProofs.mkv written_value (k, wvt c)) with (k, wvt (wvt c)).
      split; [rewrite ktree_dict_cons, H1, C1, I1; reflexivity|]. split; [rewrite C2, I2; reflexivity|]. split.
      - rewrite !nq_dict_cons. lia.
      - intros b Hb. cbn [forallb snd] in *. apply andb_true_iff in Hb. destruct Hb as [Hb1 Hb2].
        rewrite (C4 b Hb1), (I4 b Hb2). reflexivity. }
    destruct G as (G1 & G2 & G3 & G4). split; [exact G1|]. split; [rewrite G2; reflexivity|]. split; [exact G3|].
    intros b. unfold quoted_within. rewrite !lw_dict. exact (G4 (Nat.pred b)).
  - rewrite !TokProofs.map_leaves_lst.
    assert (G : ktree writable_leaf (Lst (map wvt ts)) = true /\
                map wvt (map wvt ts) = map wvt ts /\
                (nq (Lst (map wvt ts)) <= nq (Lst ts))%nat /\
                (forall b, forallb (quoted_within b) ts = true -> forallb (quoted_within b) (map wvt ts) = true)).
    { induction IH as [|c l Hc _ IHl]; [repeat split; try reflexivity; lia|].
      rewrite ktree_lst_cons in H. apply andb_true_iff in H. destruct H as [H1 H2].
      destruct (Hc H1) as (C1 & C2 & C3 & C4). destruct (IHl H2) as (I1 & I2 & I3 & I4).
      cbn [map]. split; [rewrite ktree_lst_cons, C1, I1; reflexivity|]. split; [rewrite C2, I2; reflexivity|]. split.
      - rewrite !nq_lst_cons. lia.
      - intros b Hb. cbn [forallb] in *. apply andb_true_iff in Hb. destruct Hb as [Hb1 Hb2].
        rewrite (C4 b Hb1), (I4 b Hb2). reflexivity. }
    destruct G as (G1 & G2 & G3 & G4). split; [exact G1|]. split; [rewrite G2; reflexivity|]. split; [exact G3|].
    intros b. unfold quoted_within. rewrite !lw_lst. exact (G4 (Nat.pred b)).
Qed.

(* the data read back from the text written for kvs *)
Definition reread_plain (kvs : list (key * tree)) : list (key * tree) := kvs_of (wvt (Dict kvs)).

Lemma reread_plain_dict kvs : Dict (reread_plain kvs) = wvt (Dict kvs).
Proof. unfold reread_plain. rewrite TokProofs.map_leaves_dict. reflexivity. Qed.

(* one write/read cycle is idempotent on the data: the first cycle yields reread_plain kvs, every later cycle returns
   its input; hence the text is fixed from the second cycle on *)
Theorem plain_fixed_point : forall kvs dirc count dirc' count',
  wf (Dict kvs) = true -> writable_tree (Dict kvs) = true ->
  (-1 <= count)%Z -> (-1 <= count')%Z -> (Z.of_nat (nq (Dict kvs)) <= 1000000)%Z -> quoted_within 11 (Dict kvs) = true ->
  let d1 := reread_plain kvs in
  (exists c1, parse_string true dirc count (to_string_plain kvs) = Ok (mkParsed (mkSD d1 [] [] [] []) c1)) /\
  (exists c2, parse_string true dirc' count' (to_string_plain d1) = Ok (mkParsed (mkSD d1 [] [] [] []) c2)) /\
  wf (Dict d1) = true /\ writable_tree (Dict d1) = true /\ reread_plain d1 = d1 /\
  to_string_plain (reread_plain d1) = to_string_plain d1.
Proof.
  intros kvs dirc count dirc' count' Hw Hwr Hc Hc' Hn Hdeep d1.
  pose proof Hwr as Hk. rewrite writable_ktree in Hk.
  destruct (wvt_facts (Dict kvs) Hk) as (F1 & F2 & F3 & F4).
  assert (Ed : Dict d1 = wvt (Dict kvs)) by apply reread_plain_dict.
  assert (Hw1 : wf (Dict d1) = true) by (rewrite Ed, wf_map_leaves; exact Hw).
  assert (Hwr1 : writable_tree (Dict d1) = true) by (rewrite writable_ktree, Ed; exact F1).
  assert (Hid : reread_plain d1 = d1).
  { unfold reread_plain at 1. rewrite Ed, F2, <- Ed. reflexivity. }
  split; [exact (roundtrip_native_partial kvs dirc count Hw Hwr Hc Hn Hdeep)|].
  split; [|split; [exact Hw1|split; [exact Hwr1|split; [exact Hid|rewrite Hid; reflexivity]]]].
  destruct (roundtrip_native_partial d1 dirc' count' Hw1 Hwr1 Hc') as [c2 E2].
  - rewrite Ed. lia.
  - rewrite Ed. apply F4. exact Hdeep.
  - exists c2. rewrite E2. fold (reread_plain d1). rewrite Hid. reflexivity.
Qed.

(* ---- the text of the first cycle: where it is reproduced and where not --------------------------- *)
(* a leaf whose written form does not change by one cycle *)
Definition stable_leaf (v : scalar) : bool := str_eqb (FS (written_value v)) (FS v).

Lemma fmt_tree_leaves (f : scalar -> scalar) : forall t level anc,
  ktree (fun v => str_eqb (FS (f v)) (FS v)) t = true ->
  fmt_tree FS FK level anc (map_leaves f t) = fmt_tree FS FK level anc t.
Proof.
  induction t as [v|kvs IH|ts IH] using tree_ind'; intros level anc H.
  - cbn [ktree map_leaves fmt_tree] in *. apply SDictProofs.str_eqb_eq. exact H.
  - rewrite TokProofs.map_leaves_dict, !fmt_dict. revert H level.
    induction IH as [|[k c] kvs Hc _ IHk]; intros H level; [reflexivity|].
    rewrite ktree_dict_cons in H. apply andb_true_iff in H. destruct H as [H H3].
    apply andb_true_iff in H. destruct H as [_ H2]. cbn [snd] in Hc.
    cbn [map]. unfold TokProofs.mkv at 1. cbn [fst snd fentries]. rewrite (IHk H3 level). f_equal.
    destruct c as [v|d|l].
    + cbn [map_leaves]. cbn [ktree] in H2. apply SDictProofs.str_eqb_eq in H2. rewrite H2. reflexivity.
    + rewrite TokProofs.map_leaves_dict, <- (TokProofs.map_leaves_dict f d). rewrite (Hc (S level) false H2). reflexivity.
    + rewrite TokProofs.map_leaves_lst, <- (TokProofs.map_leaves_lst f l). rewrite (Hc level false H2). reflexivity.
  - rewrite TokProofs.map_leaves_lst, !fmt_lst, map_length. f_equal. f_equal.
    generalize (length ts). intros len. generalize 0%nat at 1 2. generalize true at 1 2. revert H.
    induction IH as [|c l Hc _ IHl]; intros H first idx; [reflexivity|].
    rewrite ktree_lst_cons in H. apply andb_true_iff in H. destruct H as [H1 H2].
    cbn [map fitems]. destruct c as [v|d|l'].
    + cbn [map_leaves]. cbn [ktree] in H1. apply SDictProofs.str_eqb_eq in H1. unfold list_item. rewrite H1.
      destruct (Nat.eqb (Nat.modulo (S idx) 10) 0 || Nat.eqb (S idx) len); rewrite (IHl H2); reflexivity.
    + rewrite TokProofs.map_leaves_dict, <- (TokProofs.map_leaves_dict f d). rewrite (Hc (S (S level)) false H1), (IHl H2). reflexivity.
    + rewrite TokProofs.map_leaves_lst, <- (TokProofs.map_leaves_lst f l'). rewrite (Hc (S level) true H1), (IHl H2). reflexivity.
Qed.

Theorem plain_text_stable kvs : ktree stable_leaf (Dict kvs) = true ->
  to_string_plain (reread_plain kvs) = to_string_plain kvs.
Proof.
  intros H. unfold to_string_plain, native_body, reread_plain. rewrite TokProofs.map_leaves_dict. cbn [kvs_of].
  pose proof (ktree_dict_keys _ kvs H) as Hk.
  rewrite (sort_top_keys kvs Hk), (sort_top_keys (map (TokProofs.mkv written_value) kvs)).
  - rewrite <- TokProofs.map_leaves_dict. f_equal. apply fmt_tree_leaves.
    clear Hk. revert H. generalize (Dict kvs). intros t H.
    induction t as [v|l IH|l IH] using tree_ind'; [exact H| |].
    + induction IH as [|[k c] l Hc _ IHk]; [reflexivity|]. rewrite ktree_dict_cons in *.
      apply andb_true_iff in H. destruct H as [H H3]. apply andb_true_iff in H. destruct H as [H1 H2].
      cbn [snd] in Hc. rewrite H1, (Hc H2), (IHk H3). reflexivity.
    + induction IH as [|c l Hc _ IHl]; [reflexivity|]. rewrite ktree_lst_cons in *.
      apply andb_true_iff in H. destruct H as [H1 H2]. rewrite (Hc H1), (IHl H2). reflexivity.
  - intros kc Hin. apply in_map_iff in Hin. destruct Hin as (kc0 & <- & Hin0). cbn [TokProofs.mkv fst]. exact (Hk kc0 Hin0).
Qed.

(* the text of the first cycle is NOT reproduced in general: a string leaf that the classifier re-types is written in
   the spelling of its new type *)
Example plain_text_not_stable :
  let d := [(KS (of_string "n"), Leaf (SStr (of_string "0012")))] in
  wf (Dict d) = true /\ writable_tree (Dict d) = true /\
  to_string_plain d = of_string "n                             0012;
" /\
  reread_plain d = [(KS (of_string "n"), Leaf (SInt 12))] /\
  to_string_plain (reread_plain d) = of_string "n                             12;
".
Proof. vm_compute. repeat split; reflexivity. Qed.

Print Assumptions plain_fixed_point.
Print Assumptions plain_text_stable.
