(* Proofs for C05 (expressions): the substitute-and-evaluate loop on a document whose DATA has an arbitrary shape.
   The loop of EvalProofs.v (section FlatDoc) is redone for
     - a semantic document d : fdoc  (every referable name with its integer / its expression),
     - a function [data] that lays the current values out as the data of the SDict (nested dicts, lists, ...),
   under three assumptions on [data] (what it depends on; where a placeholder is found and overwritten; what a reference
   resolves to).  References may carry indices ($l[1]: the name is  l[1] ); an expression may be a bare reference,
   which the resolver follows at once ([term]: the name such a chain ends in). *)
From Coq Require Import String.
From Coq Require Import NArith ZArith List Bool Lia.
From DictIO Require Import Chars Str Value Scalar KeyPath SDict Layout Lexer TokParser Reader Expr Eval
     MiscSpec EvalSpec FlatSpec IndexSpec ScalarProofs KeyPathProofs SDictProofs SemProofs ArithProofs TextProofs FlatDataProofs
     EvalProofs RefTextProofs.
Import ListNotations.

Lemma dollar_render' : forall rho g a, blank_fn g -> has_char c_dollar (render_in rho g a) = negb (known_all rho a).
Proof.
  intros rho g a Hg. unfold render_in, known_all. rewrite (dollar_layout g rho Hg). rewrite tvars_dtoks. reflexivity.
Qed.

Lemma render_not_plain' : forall rho g a, blank_fn g -> (forall x, a <> AVar x) ->
  is_plain_reference (strip (render_in rho g a)) = false.
Proof.
  intros rho g a Hg Hv. destruct (dtoks_shape a) as [[n ->]|[[x ->]|(t & Hin & Ht)]].
  - assert (Hp : ~ In c_dollar (render_in rho g (ANum n))).
    { apply plain_no_dollar. unfold render_in. cbn [dtoks layout dtext].
      apply Forall_app. split; [apply plain_blank; exact Hg|].
      apply Forall_app. split; [apply plain_N|apply plain_blank; exact Hg]. }
    apply not_plain_nodollar. intros H. apply Hp. apply strip_in. exact H.
  - exfalso. apply (Hv x). reflexivity.
  - destruct (layout_in_op g rho t Ht (dtoks a) 0%nat Hin) as (c & Hc & Ho).
    fold (render_in rho g a) in Hc.
    apply (not_plain_op _ c); [|exact Ho]. apply strip_keep; [exact Hc|]. apply opch_not_space. exact Ho.
Qed.

Lemma all_refs_gtable : forall d rho k, Forall gexp_ok (map snd d) ->
  all_refs (ftable d rho k) = map ref_of (pvars d rho k).
Proof.
  induction d as [|[x v] d IH]; intros rho k H; [reflexivity|].
  cbn [map snd] in H. inversion H as [|? ? Hv Hd]; subst.
  unfold ftable, pvars in *. cbn [flat_map]. rewrite all_refs_app, map_app, (IH rho k Hd). f_equal.
  unfold fentry, pvars_entry. cbn [fst snd]. destruct v as [z|i g a]; [reflexivity|].
  destruct (k x); [reflexivity|]. cbn [all_refs flat_map fst snd]. rewrite app_nil_r.
  destruct Hv as [_ [Hg [Hw _]]]. apply rrefs_render; assumption.
Qed.

(* one step of a pass, by the three outcomes *)
Definition sel (res : list (str * tree)) (e0 : str) : option tree :=
  if is_plain_reference (strip e0) then rlookup (strip e0) res else None.

Lemma pass_step_value : forall res st key e0 ph t d',
  sel res e0 = Some t ->
  insert_result (S (count_leaves (Dict (sd_data st)))) ph t (Dict (sd_data st)) = Ok (Dict d') ->
  pass_step res (Some (Ok st)) (key, (e0, ph)) =
  Some (Ok (mkSD d' (sd_lc st) (sd_bc st) (sd_inc st) (tdel key (sd_expr st)))).
Proof.
  intros res st key e0 ph t d' Hs Hi. unfold sel in Hs. cbn [pass_step]. rewrite Hs, Hi. reflexivity.
Qed.

Lemma pass_step_eval' : forall res st key e0 ph z d',
  sel res e0 = None ->
  has_char c_dollar (substitute res e0) = false ->
  pyeval (substitute res e0) = EvInt z ->
  insert_result (S (count_leaves (Dict (sd_data st)))) ph (Leaf (SInt z)) (Dict (sd_data st)) = Ok (Dict d') ->
  pass_step res (Some (Ok st)) (key, (e0, ph)) =
  Some (Ok (mkSD d' (sd_lc st) (sd_bc st) (sd_inc st) (tdel key (sd_expr st)))).
Proof.
  intros res st key e0 ph z d' Hs Hd He Hi. unfold sel in Hs. cbn [pass_step]. rewrite Hs, Hd, He, Hi. reflexivity.
Qed.

Lemma pass_step_keep' : forall res st key e0 ph,
  sel res e0 = None ->
  has_char c_dollar (substitute res e0) = true ->
  pass_step res (Some (Ok st)) (key, (e0, ph)) =
  Some (Ok (mkSD (sd_data st) (sd_lc st) (sd_bc st) (sd_inc st) (tset key (substitute res e0, ph) (sd_expr st)))).
Proof.
  intros res st key e0 ph Hs Hd. unfold sel in Hs. cbn [pass_step]. rewrite Hs, Hd. reflexivity.
Qed.

Section Engine.
  Variable d : fdoc.
  Variable data : (str -> option Z) -> list (key * tree).
  (* the name a reference to y finally leads to: bare references ("$y'") are followed by the resolver at once *)
  Variable term : str -> str.
  Variables (lc bc : list (N * str)) (inc : list (N * include_entry)).

  Hypothesis Hnames : NoDup (map fst d).
  Hypothesis Hids : NoDup (fexp_ids d).
  Hypothesis Hexps : Forall gexp_ok (map snd d).

  (* what a reference to y resolves to when the expressions evaluated so far are k *)
  Definition R0 (k : str -> option Z) : str -> option Z := fun y =>
    match flookup y d with
    | Some (FInt z) => Some z
    | Some (FExp _ _ _) => k y
    | None => None
    end.
  Definition R (k : str -> option Z) : str -> option Z := fun y => R0 k (term y).

  Definition gstate (rho k : str -> option Z) : sdict := mkSD (data k) lc bc inc (ftable d rho k).

  Record ginv (rho k : str -> option Z) : Prop := {
    ginv_le : env_le rho (R k);
    ginv_dollar : forall x i g a, In (x, FExp i g a) d -> k x = None -> known_all rho a = false;
    ginv_chain : forall x v, k x = Some v -> R k x = Some v
  }.

  (* the data depends on the values of the expressions only *)
  Hypothesis HX : forall k k2, (forall x i g a, In (x, FExp i g a) d -> k x = k2 x) -> data k = data k2.
  (* the placeholder of a pending expression is found and overwritten *)
  Hypothesis HI : forall kk x i g a z, In (x, FExp i g a) d -> kk x = None ->
    insert_result (S (count_leaves (Dict (data kk)))) (ph_of i) (Leaf (SInt z)) (Dict (data kk)) =
    Ok (Dict (data (upd kk x z))).
  (* what the references of the expressions resolve to *)
  Hypothesis HR : forall rho k x i g a y, ginv rho k -> In (x, FExp i g a) d -> In y (avars a) ->
    resolve_reference (variables_of (gstate rho k)) (ref_of y) =
    match R k y with Some v => RVal (Leaf (SInt v)) | None => RNone end.
  (* only bare references are followed *)
  Hypothesis HTb : forall x i g y, In (x, FExp i g (AVar y)) d -> term x = x \/ term x = term y.
  Hypothesis HTn : forall x, (forall i g y, ~ In (x, FExp i g (AVar y)) d) -> term x = x.

  Lemma gexp_in : forall x i g a, In (x, FExp i g a) d ->
    (i < 1000000)%N /\ blank_fn g /\ Forall rname (avars a) /\ avars a <> [].
  Proof.
    intros x i g a Hin. assert (H : gexp_ok (FExp i g a)).
    { rewrite Forall_forall in Hexps. apply Hexps. apply in_map_iff. exists (x, FExp i g a). split; [reflexivity|exact Hin]. }
    exact H.
  Qed.

  Lemma R_mono : forall k k2, env_le k k2 -> env_le (R k) (R k2).
  Proof.
    intros k k2 H y v. unfold R, R0. destruct (flookup (term y) d) as [[z|i g a]|]; try (intro E; exact E). apply H.
  Qed.

  Lemma eval_in_var : forall r y v, eval_in r (AVar y) = Some v -> r y = Some v.
  Proof.
    intros r y v H. unfold eval_in, known_all in H. cbn [avars forallb] in H.
    destruct (r y) as [w|] eqn:E; [|discriminate H]. cbn [is_some andb] in H. unfold env_of in H. cbn [aeval] in H.
    rewrite E in H. exact H.
  Qed.

  Lemma resolve_all_gstate : forall rho k, ginv rho k ->
    resolve_all (gstate rho k) =
    Some (res_list (R k) (pnames d rho k), unres_count (R k) (pnames d rho k)).
  Proof.
    intros rho k Hinv. rewrite resolve_all_body. unfold gstate at 2. cbn [sd_expr].
    rewrite (all_refs_gtable d rho k Hexps).
    change (@nil str) with (map ref_of []) at 1. rewrite dedup_map_ref. fold (pnames d rho k).
    apply resolve_body_names. intros y Hy. unfold pnames in Hy. apply (proj1 (dedup_in _ _)) in Hy.
    destruct (pvars_inv d rho k y Hy) as [x [i [g [a [Hin [_ [Hya _]]]]]]].
    apply (HR rho k x i g a y Hinv Hin Hya).
  Qed.

  (* ---- one pass ---------------------------------------------------------------------------------------- *)
  Section Pass.
    Variables rho k k' : str -> option Z.
    Hypothesis Hinv : ginv rho k.
    Hypothesis Hk'_new : forall x i g a, In (x, FExp i g a) d -> k x = None -> k' x = eval_in (R k) a.
    Hypothesis Hk'_old : forall x v, k x = Some v -> k' x = Some v.

    Let rho' := R k.
    Let res := res_list (R k) (pnames d rho k).

    Definition mixk (d1 : fdoc) : str -> option Z :=
      fun x => if existsb (str_eqb x) (map fst d1) then k' x else k x.
    Definition gmixed (d1 d2 : fdoc) : sdict :=
      mkSD (data (mixk d1)) lc bc inc (ftable d1 rho' k' ++ ftable d2 rho k).

    Lemma mixk_snoc : forall d1 x v y, mixk (d1 ++ [(x, v)]) y = if str_eqb y x then k' y else mixk d1 y.
    Proof.
      intros d1 x v y. unfold mixk. rewrite map_app, existsb_app. cbn [map fst existsb]. rewrite orb_false_r.
      destruct (existsb (str_eqb y) (map fst d1)); cbn [orb]; [destruct (str_eqb y x); reflexivity | reflexivity].
    Qed.

    Lemma mixk_notin : forall d1 x, ~ In x (map fst d1) -> mixk d1 x = k x.
    Proof.
      intros d1 x H. unfold mixk. destruct (existsb (str_eqb x) (map fst d1)) eqn:E; [|reflexivity].
      exfalso. apply existsb_exists in E. destruct E as [y [Hy E]]. apply str_eqb_eq in E. subst y. exact (H Hy).
    Qed.

    Lemma gsubstitute_entry : forall x i g a, In (x, FExp i g a) d -> k x = None ->
      substitute res (render_in rho g a) = render_in rho' g a.
    Proof.
      intros x i g a Hin Hk. destruct (gexp_in _ _ _ _ Hin) as [Hi [Hg [Hw _]]].
      rewrite (rsubstitute_render res rho (R k) g a Hg Hw).
      - apply render_ext. intros y Hy. unfold join_env, rho'. destruct (rho y) as [v|] eqn:Er; [|reflexivity].
        symmetry. apply (ginv_le rho k Hinv). exact Er.
      - intros y Hy Hr. unfold res. apply rlookup_res_list. eapply pvars_in; eassumption.
    Qed.

    (* the selection rule for plain references agrees with evaluating the (one-token) expression *)
    Lemma sel_entry : forall x i g a, In (x, FExp i g a) d -> k x = None ->
      sel res (render_in rho g a) =
      match a with AVar y => option_map (fun v => Leaf (SInt v)) (R k y) | _ => None end.
    Proof.
      intros x i g a Hin Hk. destruct (gexp_in _ _ _ _ Hin) as [Hi [Hg [Hw _]]].
      assert (Hnp : (forall y, a <> AVar y) -> sel res (render_in rho g a) = None).
      { intro Hv. unfold sel. rewrite (render_not_plain' rho g a Hg Hv). reflexivity. }
      destruct a as [n|y|a|a|a b|a b|a b|a]; try (apply Hnp; intros y E; discriminate E).
      rewrite render_var.
      pose proof (ginv_dollar rho k Hinv x i g (AVar y) Hin Hk) as Hd.
      unfold known_all in Hd. cbn [avars forallb] in Hd. rewrite andb_true_r in Hd.
      destruct (rho y) as [z|] eqn:Er; [discriminate|].
      assert (Hy : rname y) by (cbn [avars] in Hw; inversion Hw; assumption).
      unfold sel. rewrite (strip_bare g y Hg Hy), (plain_ref_of y Hy).
      unfold res. apply rlookup_res_list. apply (pvars_in d rho k x i g (AVar y) y Hin Hk); [left; reflexivity | exact Er].
    Qed.

    Lemma data_mix_same : forall d1 x v, In (x, v) d ->
      (forall i g a, v = FExp i g a -> k' x = mixk d1 x) ->
      data (mixk (d1 ++ [(x, v)])) = data (mixk d1).
    Proof.
      intros d1 x v Hin Hv. apply HX. intros x' i g a Hin'. rewrite mixk_snoc.
      destruct (str_eqb x' x) eqn:E; [|reflexivity]. apply str_eqb_eq in E. subst x'.
      assert (Ev : v = FExp i g a).
      { pose proof (flookup_in d x _ Hnames Hin) as E1. pose proof (flookup_in d x _ Hnames Hin') as E2. congruence. }
      apply (Hv i g a Ev).
    Qed.

    Lemma gpass_mixed : forall d2 d1, d = d1 ++ d2 ->
      fold_left (pass_step res) (ftable d2 rho k) (Some (Ok (gmixed d1 d2))) = Some (Ok (gmixed d [])).
    Proof.
      induction d2 as [|[x v] d2 IH]; intros d1 Hd.
      - rewrite app_nil_r in Hd. subst d1. reflexivity.
      - assert (Hd' : d = (d1 ++ [(x, v)]) ++ d2) by (rewrite <- app_assoc; exact Hd).
        assert (Hin : In (x, v) d) by (rewrite Hd; apply in_or_app; right; left; reflexivity).
        assert (Hx1 : ~ In x (map fst d1)).
        { pose proof Hnames as H. rewrite Hd, map_app in H. cbn [map fst] in H. apply NoDup_remove_2 in H.
          intro Hc. apply H. apply in_or_app. left. exact Hc. }
        unfold ftable. cbn [flat_map]. rewrite fold_left_app. fold (ftable d2 rho k).
        assert (Hstep : fold_left (pass_step res) (fentry rho k (x, v)) (Some (Ok (gmixed d1 ((x, v) :: d2)))) =
                        Some (Ok (gmixed (d1 ++ [(x, v)]) d2))).
        { unfold fentry. cbn [fst snd]. destruct v as [z|i g a].
          - cbn [fold_left]. unfold gmixed. rewrite ftable_app. cbn [ftable flat_map fentry fst snd app].
            rewrite <- !app_assoc. cbn [app].
            rewrite (data_mix_same d1 x (FInt z) Hin) by (intros; discriminate). reflexivity.
          - destruct (k x) as [z|] eqn:Ek.
            + cbn [fold_left]. unfold gmixed. rewrite ftable_app.
              cbn [ftable flat_map fentry fst snd app]. rewrite Ek, (Hk'_old x z Ek).
              rewrite <- !app_assoc. cbn [app].
              rewrite (data_mix_same d1 x (FExp i g a) Hin)
                by (intros; rewrite (mixk_notin d1 x Hx1), Ek; apply (Hk'_old x z Ek)).
              reflexivity.
            + cbn [fold_left].
              destruct (gexp_in _ _ _ _ Hin) as [Hi [Hg [Hw _]]].
              pose proof (gsubstitute_entry x i g a Hin Ek) as Hsub.
              pose proof (sel_entry x i g a Hin Ek) as Hsel.
              assert (Hids' : NoDup (fexp_ids d1 ++ i :: fexp_ids d2)).
              { pose proof Hids as H. rewrite Hd, fexp_ids_app in H. exact H. }
              assert (Hi1 : ~ In i (fexp_ids d1)).
              { intro H. apply NoDup_remove_2 in Hids'. apply Hids'. apply in_or_app. left. exact H. }
              assert (HT1 : ~ In i (map fst (ftable d1 rho' k'))).
              { intro H. apply Hi1. eapply ftable_ids_sub. exact H. }
              unfold gmixed at 1. unfold ftable at 2. cbn [flat_map fentry fst snd]. rewrite Ek. cbn [app].
              fold (ftable d2 rho k).
              pose proof (Hk'_new x i g a Hin Ek) as Hnew. unfold eval_in in Hnew.
              assert (Hmx : mixk d1 x = None) by (rewrite (mixk_notin d1 x Hx1); exact Ek).
              destruct (known_all (R k) a) eqn:Eka.
              * (* everything it refers to is resolved: the value is inserted *)
                set (z := aeval (env_of (R k)) a) in *.
                assert (Hdata : data (upd (mixk d1) x z) = data (mixk (d1 ++ [(x, FExp i g a)]))).
                { apply HX. intros x' i' g' a' Hin'. rewrite mixk_snoc. unfold upd.
                  destruct (str_eqb x' x) eqn:E; [|reflexivity]. apply str_eqb_eq in E. subst x'. symmetry. exact Hnew. }
                assert (Hins : insert_result (S (count_leaves (Dict (data (mixk d1))))) (ph_of i) (Leaf (SInt z)) (Dict (data (mixk d1)))
                               = Ok (Dict (data (mixk (d1 ++ [(x, FExp i g a)]))))).
                { rewrite (HI (mixk d1) x i g a z Hin Hmx), Hdata. reflexivity. }
                assert (Hgoal : forall o, o = Some (Ok (mkSD (data (mixk (d1 ++ [(x, FExp i g a)]))) lc bc inc
                                  (tdel i (ftable d1 rho' k' ++ (i, (render_in rho g a, ph_of i)) :: ftable d2 rho k)))) ->
                                o = Some (Ok (gmixed (d1 ++ [(x, FExp i g a)]) d2))).
                { intros o ->. rewrite (tdel_mid _ _ i _ HT1). unfold gmixed. rewrite ftable_app.
                  cbn [ftable flat_map fentry fst snd app]. rewrite Hnew. rewrite <- !app_assoc. cbn [app]. reflexivity. }
                apply Hgoal.
                destruct (sel res (render_in rho g a)) as [t|] eqn:Es.
                -- (* a bare reference *)
                   destruct a as [n|y|a|a|a b|a b|a b|a]; try discriminate Hsel.
                   unfold known_all in Eka. cbn [avars forallb] in Eka. rewrite andb_true_r in Eka.
                   destruct (R k y) as [w|] eqn:Ey; [|discriminate Eka]. cbn [option_map] in Hsel.
                   assert (Ez : z = w) by (unfold z, env_of; cbn [aeval]; rewrite Ey; reflexivity).
                   injection Hsel as Ht.
                   erewrite pass_step_value; [reflexivity | exact Es | cbn [sd_data]; rewrite Ht, <- Ez; exact Hins].
                -- erewrite pass_step_eval' with (z := z);
                     [ reflexivity | exact Es
                     | rewrite Hsub; unfold rho'; rewrite (dollar_render' _ g a Hg), Eka; reflexivity
                     | rewrite Hsub; unfold rho'; apply pyeval_render_in; [exact Hg|];
                       intros y Hy; apply known_all_iff with (y := y) in Eka; [|exact Hy];
                       destruct Eka as [w Ew]; unfold env_of; rewrite Ew; reflexivity
                     | cbn [sd_data]; exact Hins ].
              * (* something is still unresolved: the partly substituted text is stored *)
                assert (Es : sel res (render_in rho g a) = None).
                { rewrite Hsel. destruct a as [n|y|a|a|a b|a b|a b|a]; try reflexivity.
                  unfold known_all in Eka. cbn [avars forallb] in Eka. rewrite andb_true_r in Eka.
                  destruct (R k y); [discriminate Eka | reflexivity]. }
                rewrite pass_step_keep';
                  [ | exact Es | rewrite Hsub; unfold rho'; rewrite (dollar_render' _ g a Hg), Eka; reflexivity ].
                cbn [sd_data sd_lc sd_bc sd_inc sd_expr]. rewrite (tset_mid _ _ i _ _ HT1). rewrite Hsub.
                unfold gmixed. rewrite ftable_app.
                cbn [ftable flat_map fentry fst snd app]. rewrite Hnew. rewrite <- !app_assoc. cbn [app].
                rewrite (data_mix_same d1 x (FExp i g a) Hin) by (intros; rewrite Hmx; exact Hnew).
                reflexivity. }
        rewrite Hstep. apply IH. exact Hd'.
    Qed.

    Lemma gmixed_start : gmixed [] d = gstate rho k.
    Proof. unfold gmixed, gstate. cbn [ftable flat_map app]. f_equal. Qed.

    Lemma gmixed_end : gmixed d [] = gstate rho' k'.
    Proof.
      unfold gmixed, gstate. cbn [ftable flat_map]. rewrite app_nil_r. f_equal.
      apply HX. intros x i g a Hin. unfold mixk.
      assert (E : existsb (str_eqb x) (map fst d) = true).
      { apply existsb_exists. exists x. split; [|apply str_eqb_refl]. apply in_map_iff. exists (x, FExp i g a). split; [reflexivity|exact Hin]. }
      rewrite E. reflexivity.
    Qed.

    Lemma gpass : eval_pass res (gstate rho k) = Some (Ok (gstate rho' k')).
    Proof.
      rewrite eval_pass_fold. unfold gstate at 1. cbn [sd_expr]. rewrite <- gmixed_end, <- gmixed_start.
      apply gpass_mixed. reflexivity.
    Qed.
  End Pass.

  (* ---- the states the loop runs through --------------------------------------------------------------- *)
  Fixpoint K (n : nat) : str -> option Z :=
    match n with
    | O => fun _ => None
    | S n' => fun x => match flookup x d with
                       | Some (FExp i g a) => eval_in (R (K n')) a
                       | _ => None
                       end
    end.
  Definition Rho (n : nat) : str -> option Z := match n with O => fun _ => None | S n' => R (K n') end.

  Lemma K_fexp : forall n x i g a, In (x, FExp i g a) d -> K (S n) x = eval_in (R (K n)) a.
  Proof. intros n x i g a Hin. cbn [K]. rewrite (flookup_in d x _ Hnames Hin). reflexivity. Qed.

  Lemma K_mono1 : forall n, env_le (K n) (K (S n)).
  Proof.
    induction n as [|n IH]; intros x v H; [discriminate H|].
    cbn [K] in *. destruct (flookup x d) as [[z|i g a]|]; try discriminate H.
    apply (eval_in_mono (R (K n)) (R (K (S n))) a v); [apply R_mono; exact IH | exact H].
  Qed.

  Lemma K_mono : forall n m, (n <= m)%nat -> env_le (K n) (K m).
  Proof.
    intros n m H. induction H as [|m H IH]; [intros y v E; exact E|].
    intros y v E. apply (K_mono1 m). apply IH. exact E.
  Qed.

  Lemma K_none_down : forall n m y, (n <= m)%nat -> K m y = None -> K n y = None.
  Proof.
    intros n m y Hle H. destruct (K n y) as [v|] eqn:E; [|reflexivity].
    rewrite (K_mono n m Hle y v E) in H. discriminate.
  Qed.

  Lemma RK_none_down : forall n m y, (n <= m)%nat -> R (K m) y = None -> R (K n) y = None.
  Proof.
    intros n m y Hle H. destruct (R (K n) y) as [v|] eqn:E; [|reflexivity].
    rewrite (R_mono (K n) (K m) (K_mono n m Hle) y v E) in H. discriminate.
  Qed.

  Lemma K_chain : forall n x v, K n x = Some v -> R (K n) x = Some v.
  Proof.
    intros [|n] x v Hk; [discriminate Hk|].
    pose proof Hk as Hk0. cbn [K] in Hk. destruct (flookup x d) as [[z|i g a]|] eqn:Ef; try discriminate Hk.
    pose proof (flookup_some_in d x _ Ef) as Hin.
    assert (Hself : term x = x -> R (K (S n)) x = Some v).
    { intro E. unfold R, R0. rewrite E, Ef. exact Hk0. }
    destruct a as [m|y|a1|a1|a1 b1|a1 b1|a1 b1|a1];
      try (apply Hself; apply HTn; intros i' g' y' Hc;
           pose proof (flookup_in d x _ Hnames Hc) as E2; rewrite Ef in E2; discriminate E2).
    destruct (HTb x i g y Hin) as [E|E]; [apply (Hself E)|].
    apply eval_in_var in Hk. unfold R. rewrite E. apply (R_mono (K n) (K (S n)) (K_mono1 n) y v Hk).
  Qed.

  Lemma ginv_K : forall n, ginv (Rho n) (K n).
  Proof.
    intro n. split.
    - destruct n as [|n]; [intros y v H; discriminate H|]. cbn [Rho]. apply R_mono. apply K_mono1.
    - intros x i g a Hin Hk. destruct n as [|n].
      + cbn [Rho]. destruct (gexp_in _ _ _ _ Hin) as [_ [_ [_ Hne]]].
        unfold known_all. destruct (avars a) as [|y l]; [contradiction Hne; reflexivity | reflexivity].
      + cbn [Rho]. rewrite (K_fexp n x i g a Hin) in Hk. unfold eval_in in Hk.
        destruct (known_all (R (K n)) a); [discriminate | reflexivity].
    - apply K_chain.
  Qed.

  Definition St (n : nat) : sdict := gstate (Rho n) (K n).
  Definition RL (n : nat) : list (str * tree) := res_list (R (K n)) (pnames d (Rho n) (K n)).
  Definition UL (n : nat) : list str := filter (EvalProofs.unknown (R (K n))) (pnames d (Rho n) (K n)).
  Definition U (n : nat) : nat := length (UL n).

  Lemma resolve_all_St : forall n, resolve_all (St n) = Some (RL n, U n).
  Proof. intro n. unfold St. rewrite (resolve_all_gstate _ _ (ginv_K n)). reflexivity. Qed.

  Lemma pass_St : forall n, eval_pass (RL n) (St n) = Some (Ok (St (S n))).
  Proof.
    intro n. unfold RL, St.
    rewrite (gpass (Rho n) (K n) (K (S n)) (ginv_K n)); [reflexivity | |].
    - intros x i g a Hin _. apply (K_fexp n x i g a Hin).
    - intros x v H. apply (K_mono1 n). exact H.
  Qed.

  Lemma loop_St : forall f n, (S (U n) <= f)%nat ->
    exists m, (n <= m)%nat /\ (U m <= U (S m))%nat /\ eval_loop f (St n) (RL n) (U n) = Some (Ok (St (S m))).
  Proof.
    induction f as [|f IH]; intros n Hf; [lia|].
    cbn [eval_loop]. rewrite pass_St, resolve_all_St.
    destruct (Nat.ltb (U (S n)) (U n)) eqn:E.
    - apply Nat.ltb_lt in E. destruct (IH (S n)) as [m [Hm [Hs He]]]; [lia|].
      exists m. split; [lia|]. split; [exact Hs | exact He].
    - apply Nat.ltb_ge in E. exists n. split; [lia|]. split; [exact E | reflexivity].
  Qed.

  (* ---- when the count stops decreasing nothing more can be evaluated ------------------------------------ *)
  Lemma UL_in : forall n y, In y (UL n) <->
    (exists x i g a, In (x, FExp i g a) d /\ K n x = None /\ In y (avars a)) /\ R (K n) y = None.
  Proof.
    intros n y. unfold UL. rewrite filter_In. unfold pnames. rewrite dedup_in. unfold EvalProofs.unknown. split.
    - intros [Hp Hu]. apply pvars_inv in Hp. destruct Hp as [x [i [g [a [Hin [Hk [Hy _]]]]]]]. split.
      + exists x, i, g, a. tauto.
      + destruct (R (K n) y); [discriminate | reflexivity].
    - intros [[x [i [g [a [Hin [Hk Hy]]]]]] Hn]. split.
      + unfold pvars. apply in_flat_map. exists (x, FExp i g a). split; [exact Hin|].
        unfold pvars_entry. cbn [fst snd]. rewrite Hk. apply filter_In. split; [exact Hy|].
        unfold EvalProofs.unknown.
        destruct (Rho n y) as [v|] eqn:Er; [|reflexivity].
        rewrite (ginv_le _ _ (ginv_K n) y v Er) in Hn. discriminate.
      + rewrite Hn. reflexivity.
  Qed.

  Lemma UL_nodup : forall n, NoDup (UL n).
  Proof. intro n. unfold UL. apply NoDup_filter'. unfold pnames. apply dedup_nodup. Qed.

  Lemma K_not_fexp : forall n x, (forall i g a, ~ In (x, FExp i g a) d) -> K n x = None.
  Proof.
    intros [|n] x H; [reflexivity|]. cbn [K]. destruct (flookup x d) as [[z|i g a]|] eqn:Ef; try reflexivity.
    exfalso. apply (H i g a). apply flookup_some_in. exact Ef.
  Qed.

  Lemma stall_fixpoint : forall m, (U m <= U (S m))%nat -> forall x, K (S (S m)) x = K (S m) x.
  Proof.
    intros m Hs x.
    destruct (K (S m) x) as [v|] eqn:E2; [apply (K_mono1 (S m)); exact E2|].
    destruct (K (S (S m)) x) as [v|] eqn:E3; [|reflexivity]. exfalso.
    assert (Hx : exists i g a, In (x, FExp i g a) d).
    { cbn [K] in E3. destruct (flookup x d) as [[z|i g a]|] eqn:Ef; try discriminate E3.
      exists i, g, a. apply flookup_some_in. exact Ef. }
    destruct Hx as [i [g [a Hin]]].
    rewrite (K_fexp (S m) x i g a Hin) in E3. rewrite (K_fexp m x i g a Hin) in E2.
    unfold eval_in in E2, E3.
    destruct (known_all (R (K (S m))) a) eqn:K3; [|discriminate].
    destruct (known_all (R (K m)) a) eqn:K2; [discriminate|].
    unfold known_all in K2. apply forallb_false_ex in K2. destruct K2 as [y0 [Hy0 Ey0]].
    assert (N2 : R (K m) y0 = None) by (destruct (R (K m) y0); [discriminate | reflexivity]).
    apply known_all_iff with (y := y0) in K3; [|exact Hy0]. destruct K3 as [w Ew].
    assert (Hxm : K m x = None).
    { apply (K_none_down m (S m)); [lia|]. rewrite (K_fexp m x i g a Hin). unfold eval_in.
      assert (Hk : known_all (R (K m)) a = false).
      { unfold known_all. apply not_true_is_false. intro Ht. rewrite forallb_forall in Ht. specialize (Ht y0 Hy0).
        rewrite Ey0 in Ht. discriminate. }
      rewrite Hk. reflexivity. }
    assert (HA : In y0 (UL m)).
    { apply UL_in. split; [|exact N2]. exists x, i, g, a. tauto. }
    assert (HB : ~ In y0 (UL (S m))).
    { intro H. apply UL_in in H. destruct H as [_ H]. congruence. }
    assert (Hincl : incl (y0 :: UL (S m)) (UL m)).
    { intros y [Hy|Hy]; [subst y; exact HA|]. apply UL_in in Hy. destruct Hy as [[x1 [i1 [g1 [a1 [Hin1 [Hk1 Hy1]]]]]] Hn1].
      apply UL_in. split.
      - exists x1, i1, g1, a1. split; [exact Hin1|]. split; [|exact Hy1]. apply (K_none_down m (S m)); [lia | exact Hk1].
      - apply (RK_none_down m (S m)); [lia | exact Hn1]. }
    assert (Hnd : NoDup (y0 :: UL (S m))) by (constructor; [exact HB | apply UL_nodup]).
    pose proof (NoDup_incl_length Hnd Hincl) as Hlen. cbn [length] in Hlen. unfold U in Hs. lia.
  Qed.

  (* ---- the start ------------------------------------------------------------------------------------- *)
  Lemma eval_expressions_gen : exists m, (U m <= U (S m))%nat /\
    eval_expressions (gstate (fun _ => None) (fun _ => None)) = Some (back_insert (St (S m))).
  Proof.
    change (gstate (fun _ => None) (fun _ => None)) with (St 0).
    unfold eval_expressions. rewrite resolve_all_St.
    destruct (loop_St (S (S (U 0))) 0) as [m [_ [Hs He]]]; [lia|].
    exists m. split; [exact Hs|]. rewrite He. reflexivity.
  Qed.

  (* ---- every name has a value: the result is the direct evaluation -------------------------------------- *)
  Lemma know_le_R : forall m, (forall x, K (S (S m)) x = K (S m) x) -> forall n, env_le (know d n) (R (K (S m))).
  Proof.
    intros m Hfix. induction n as [|n IH]; intros x v H; [discriminate H|].
    cbn [know] in H. unfold kstep in H.
    destruct (flookup x d) as [[z|i g a]|] eqn:Ef; [ | | discriminate H].
    - assert (Et : term x = x).
      { apply HTn. intros i g y Hc. pose proof (flookup_in d x _ Hnames Hc) as E2. rewrite Ef in E2. discriminate E2. }
      unfold R, R0. rewrite Et, Ef. exact H.
    - pose proof (flookup_some_in d x _ Ef) as Hin.
      assert (Hk : K (S m) x = Some v).
      { rewrite <- Hfix. rewrite (K_fexp (S m) x i g a Hin). apply (eval_in_mono _ _ a v IH H). }
      apply (K_chain (S m) x v Hk).
  Qed.

  Theorem engine_total :
    (forall x, In x (map fst d) -> denote d x <> None) ->
    eval_expressions (gstate (fun _ => None) (fun _ => None)) = Some (Ok (mkSD (data (denote d)) lc bc inc [])).
  Proof.
    intro Htot. destruct eval_expressions_gen as [m [Hs He]]. rewrite He. clear He.
    pose proof (stall_fixpoint m Hs) as Hfix.
    assert (Hk : forall x i g a, In (x, FExp i g a) d -> K (S m) x = denote d x).
    { intros x i g a Hin.
      assert (Hx : In x (map fst d)) by (apply in_map_iff; exists (x, FExp i g a); split; [reflexivity | exact Hin]).
      specialize (Htot x Hx). destruct (denote d x) as [v|] eqn:E; [|contradiction].
      unfold denote in E. cbn [know] in E. unfold kstep in E. rewrite (flookup_in d x _ Hnames Hin) in E.
      rewrite <- Hfix, (K_fexp (S m) x i g a Hin).
      apply (eval_in_mono _ _ a v (know_le_R m Hfix (length d)) E). }
    unfold St, gstate, back_insert. cbn [sd_expr sd_data sd_lc sd_bc sd_inc].
    assert (Et : ftable d (Rho (S m)) (K (S m)) = []).
    { unfold ftable.
      assert (G : forall dd, (forall xv, In xv dd -> In xv d) -> flat_map (fentry (Rho (S m)) (K (S m))) dd = []).
      { induction dd as [|[x v] dd IH]; intro Hsub; [reflexivity|]. cbn [flat_map].
        rewrite IH by (intros; apply Hsub; right; assumption). rewrite app_nil_r.
        unfold fentry. cbn [fst snd]. destruct v as [z|i g a]; [reflexivity|].
        assert (Hin : In (x, FExp i g a) d) by (apply Hsub; left; reflexivity).
        rewrite (Hk x i g a Hin).
        assert (Hx : In x (map fst d)) by (apply in_map_iff; exists (x, FExp i g a); split; [reflexivity | exact Hin]).
        specialize (Htot x Hx). destruct (denote d x); [reflexivity | contradiction]. }
      apply G. auto. }
    rewrite Et. cbn [fold_left bind]. do 3 f_equal.
    apply HX. intros x i g a Hin. apply (Hk x i g a Hin).
  Qed.
End Engine.

Print Assumptions engine_total.
