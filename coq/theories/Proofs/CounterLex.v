(* C08, counter independence, part 2: the lexer commutes with the renaming of placeholder ids. *)
From Coq Require Import String.
From Coq Require Import NArith ZArith Bool Lia ZifyBool ZifyN ZifyNat.
From DictIO Require Import Chars Str Value Scalar KeyPath SDict Lexer MiscSpec CliProofs.
From DictIO Require ScalarProofs SemProofs LayoutProofs AnyLayoutLex.
From DictIO Require Import CounterBase.
From Coq Require Import List.
Import ListNotations.
Open Scope N_scope.

(* ================================================================================================ *)
(* 0. general list facts                                                                            *)
(* ================================================================================================ *)
Lemma app_eq_len {A} (a b a' b' : list A) : a ++ b = a' ++ b' -> length a = length a' -> a = a' /\ b = b'.
Proof.
  revert a'. induction a as [|x a IH]; intros [|y a'] E L; try discriminate L; [split; [reflexivity|exact E]|].
  cbn [app] in E. injection E as -> E. cbn [length] in L. destruct (IH a' E ltac:(lia)) as [-> ->]. split; reflexivity.
Qed.

Lemma Forall2_app_len {A B} (P : A -> B -> Prop) a b a' b' : Forall2 P (a ++ b) (a' ++ b') -> length a = length a' ->
  Forall2 P a a' /\ Forall2 P b b'.
Proof.
  revert a'. induction a as [|x a IH]; intros [|y a'] H L; try discriminate L; [split; [constructor|exact H]|].
  cbn [app] in H. inversion H; subst. cbn [length] in L. destruct (IH a' H5 ltac:(lia)) as [I1 I2]. split; [constructor; assumption|exact I2].
Qed.

Lemma dsim_snoc_inv (a : list N) (c : N) (X : list N) : dsim (a ++ [c]) X -> exists t c', X = t ++ [c'] /\ dsim a t /\ dsim1 c c'.
Proof.
  intros H. destruct X as [|y X _] using rev_ind.
  - apply dsim_length in H. rewrite app_length in H. cbn in H. lia.
  - assert (L : length a = length X). { apply dsim_length in H. rewrite !app_length in H. cbn [length] in H. lia. }
    destruct (Forall2_app_len _ _ _ _ _ H L) as [H1 H2]. inversion H2; subst. exists X, y. repeat split; assumption.
Qed.

Lemma dsim_cons_inv (c : N) (s X : list N) : dsim (c :: s) X -> exists c' t, X = c' :: t /\ dsim1 c c' /\ dsim s t.
Proof. intros H. inversion H; subst. eexists _, _. repeat split; eassumption. Qed.

(* ---- character classes that do not distinguish digits ---------------------------------------------- *)
Lemma digit_facts a : is_digit a = true ->
  is_space a = false /\ is_upper a = false /\ is_quote a = false /\ is_delim a = false /\ is_linebreak a = false
  /\ is_word a = true /\ is_ref_char a = true /\ isAN a = true /\ is_lower a = false.
Proof.
  intros H. unfold is_digit in H.
  assert (Ha : a = 48 \/ a = 49 \/ a = 50 \/ a = 51 \/ a = 52 \/ a = 53 \/ a = 54 \/ a = 55 \/ a = 56 \/ a = 57) by lia.
  repeat (destruct Ha as [->|Ha]; [vm_compute; repeat split; reflexivity|]). subst a. vm_compute. repeat split; reflexivity.
Qed.

Ltac dclass := let a := fresh "a" in let b := fresh "b" in let H1 := fresh in let H2 := fresh in
  intros a b [->|[H1 H2]]; [reflexivity|];
  pose proof (digit_facts a H1); pose proof (digit_facts b H2); intuition congruence.
Lemma ds_space : forall a b, dsim1 a b -> is_space a = is_space b. Proof. dclass. Qed.
Lemma ds_upper : forall a b, dsim1 a b -> is_upper a = is_upper b. Proof. dclass. Qed.
Lemma ds_quote : forall a b, dsim1 a b -> is_quote a = is_quote b. Proof. dclass. Qed.
Lemma ds_delim : forall a b, dsim1 a b -> is_delim a = is_delim b. Proof. dclass. Qed.
Lemma ds_linebreak : forall a b, dsim1 a b -> is_linebreak a = is_linebreak b. Proof. dclass. Qed.
Lemma ds_word : forall a b, dsim1 a b -> is_word a = is_word b. Proof. dclass. Qed.
Lemma ds_ref : forall a b, dsim1 a b -> is_ref_char a = is_ref_char b. Proof. dclass. Qed.
Lemma ds_AN : forall a b, dsim1 a b -> isAN a = isAN b. Proof. dclass. Qed.
Lemma ds_digit : forall a b, dsim1 a b -> is_digit a = is_digit b. Proof. exact dsim1_digit. Qed.
Lemma ds_eqb k : is_digit k = false -> forall a b, dsim1 a b -> (a =? k) = (b =? k).
Proof. intros Hk a b H. apply dsim1_eqb'; assumption. Qed.

Lemma nAN_nupper c : isAN c = false -> is_upper c = false.
Proof. unfold isAN. intros H. apply orb_false_iff in H. exact (proj1 H). Qed.
Lemma space_nAN c : is_space c = true -> isAN c = false.
Proof.
  intros H. unfold isAN, is_upper, is_digit. unfold is_space, is_uni_space in H. lia.
Qed.

Lemma rename_snoc d (a : list N) (c : N) : isAN c = false -> rename_str d (a ++ [c]) = rename_str d a ++ [c].
Proof.
  intros H. rewrite rename_app by (apply nostr_r; exact H).
  rewrite rename_char by (apply ph_word_not_upper; apply nAN_nupper; exact H). reflexivity.
Qed.

(* a string that ends with a safe character starts a text iff its renaming starts the renamed text *)
Lemma sw_fwd d (o2 : list N) (z : N) (t : list N) : isAN z = false -> starts_with (o2 ++ [z]) t = true ->
  starts_with (rename_str d (o2 ++ [z])) (rename_str d t) = true.
Proof.
  intros Hz H. apply starts_with_eq in H. rewrite H. rewrite (rename_app d (o2 ++ [z])) by (apply nostr_l; exact Hz).
  apply starts_with_app.
Qed.
Lemma sw_iff d (o2 : list N) (z : N) (t : list N) : isAN z = false ->
  starts_with (rename_str d (o2 ++ [z])) (rename_str d t) = starts_with (o2 ++ [z]) t.
Proof.
  intros Hz. destruct (starts_with (o2 ++ [z]) t) eqn:E; [apply sw_fwd; assumption|].
  destruct (starts_with (rename_str d (o2 ++ [z])) (rename_str d t)) eqn:E2; [|reflexivity].
  rewrite rename_snoc in E2 by exact Hz.
  apply (sw_fwd (- d)) in E2; [|exact Hz].
  rewrite <- rename_snoc in E2 by exact Hz.
  rewrite !rename_inv in E2. congruence.
Qed.

(* nothing straddles the end of a placeholder *)
Lemma ph_tail_core (w ds q ds0 e : str) : forallb is_upper w = true -> length ds = 6%nat -> length ds0 = 6%nat ->
  forallb is_digit ds0 = true -> w ++ ds = q ++ ds0 ++ e -> e = [].
Proof.
  intros U L L0 D0 E. apply app_eq_app in E. destruct E as [m [[E1 E2]|[E1 E2]]].
  - destruct m as [|z m].
    + cbn [app] in E2. apply (f_equal (@length N)) in E2. rewrite app_length in E2. destruct e; [reflexivity|cbn [length] in E2; lia].
    + destruct ds0 as [|z0 ds0]; [discriminate L0|]. cbn [app] in E2. injection E2 as -> _. exfalso.
      cbn [forallb] in D0. apply andb_true_iff in D0. apply (upper_not_digit z); [|exact (proj1 D0)].
      rewrite forallb_forall in U. apply U. rewrite E1. apply in_or_app. right. left. reflexivity.
  - apply (f_equal (@length N)) in E2. rewrite !app_length in E2. destruct e; [reflexivity|cbn [length] in E2; lia].
Qed.

Lemma nostr_after_ph (x W ds0 y : str) : In W all_words -> length ds0 = 6%nat -> forallb is_digit ds0 = true ->
  nostr (x ++ W ++ ds0) y.
Proof.
  intros HW L0 D0. apply nostr_from. intros a1 a2 w ds e r E Hne Hin L D He E1 _.
  destruct (all_words_upper w (shifted_all w Hin)) as [Uw Hwne].
  apply app_eq_app in E. destruct E as [l [[E2 E3]|[E2 E3]]].
  - rewrite E3, <- !app_assoc in E1. rewrite app_assoc in E1. apply He. exact (ph_tail_core w ds (l ++ W) ds0 e Uw L L0 D0 E1).
  - apply app_eq_app in E3. destruct E3 as [m [[E4 E5]|[E4 E5]]].
    + rewrite E5, <- app_assoc in E1. apply He. exact (ph_tail_core w ds m ds0 e Uw L L0 D0 E1).
    + destruct a2 as [|z a2]; [congruence|]. destruct w as [|z' w]; [congruence|]. cbn [app] in E1. injection E1 as -> _.
      cbn [forallb] in Uw. apply andb_true_iff in Uw. apply (upper_not_digit z); [exact (proj1 Uw)|].
      rewrite forallb_forall in D0. apply D0. rewrite E5. apply in_or_app. right. left. reflexivity.
Qed.

Section Lex.
Variable d : Z.
Notation R := (rename_str d).

(* ================================================================================================ *)
(* 1. elementary cuts                                                                               *)
(* ================================================================================================ *)
Lemma R_cons (c : N) (s : list N) : is_upper c = false -> R (c :: s) = c :: R s.
Proof. intros H. apply rename_char. apply ph_word_not_upper. exact H. Qed.
Lemma R_app_r (a : list N) (c : N) (b : list N) : isAN c = false -> R (a ++ c :: b) = R a ++ R (c :: b).
Proof. intros H. apply rename_app. apply nostr_r. exact H. Qed.
Lemma R_app_r' (a : list N) (c : N) (b : list N) : isAN c = false -> R (a ++ c :: b) = R a ++ c :: R b.
Proof. intros H. rewrite R_app_r by exact H. rewrite R_cons by (apply nAN_nupper; exact H). reflexivity. Qed.
Lemma R_app_l (a : list N) (c : N) (b : list N) : isAN c = false -> R ((a ++ [c]) ++ b) = R (a ++ [c]) ++ R b.
Proof. intros H. apply rename_app. apply nostr_l. exact H. Qed.
Lemma R_snoc (a : list N) (c : N) : isAN c = false -> R (a ++ [c]) = R a ++ [c].
Proof. intros H. rewrite R_app_r' by exact H. reflexivity. Qed.
Lemma R_cons_inv (c : N) (s : list N) : exists c' t, R (c :: s) = c' :: t /\ dsim1 c c' /\ dsim s t.
Proof. apply dsim_cons_inv. apply dsim_rename. Qed.
Lemma R_snoc_inv (a : list N) (c : N) : exists t c', R (a ++ [c]) = t ++ [c'] /\ dsim a t /\ dsim1 c c'.
Proof. apply dsim_snoc_inv. apply dsim_rename. Qed.

(* the suffix of a renamed text that corresponds to a suffix of the text *)
Definition rsuf (s s' : str) : Prop := exists p p', length p = length p' /\ R (p ++ s) = p' ++ s'.

Lemma rsuf_R s : rsuf s (R s).
Proof. exists [], []. split; reflexivity. Qed.
Lemma rsuf_dsim s s' : rsuf s s' -> dsim s s'.
Proof.
  intros (p & p' & L & E). pose proof (dsim_rename d (p ++ s)) as H. rewrite E in H.
  exact (proj2 (Forall2_app_len _ _ _ _ _ H L)).
Qed.
Lemma rsuf_tl (c : N) (s : list N) (c' : N) (s' : list N) : rsuf (c :: s) (c' :: s') -> rsuf s s'.
Proof.
  intros (p & p' & L & E). exists (p ++ [c]), (p' ++ [c']). split; [rewrite !app_length; cbn [length]; lia|].
  rewrite <- !app_assoc. exact E.
Qed.
Lemma rsuf_safe (c : N) (s s' : list N) : isAN c = false -> rsuf (c :: s) s' -> s' = R (c :: s).
Proof.
  intros H (p & p' & L & E). rewrite R_app_r in E by exact H.
  apply app_eq_len in E; [symmetry; exact (proj2 E)|rewrite rename_length; exact L].
Qed.
Lemma rsuf_nil s' : rsuf [] s' -> s' = [].
Proof. intros H. apply rsuf_dsim in H. inversion H. reflexivity. Qed.
Lemma rsuf_cons_inv (c : N) (s s' : list N) : rsuf (c :: s) s' -> exists c' t, s' = c' :: t /\ dsim1 c c' /\ rsuf s t.
Proof.
  intros H. pose proof (rsuf_dsim _ _ H) as Hd. apply dsim_cons_inv in Hd. destruct Hd as (c' & t & -> & H1 & _).
  exists c', t. repeat split; [exact H1|exact (rsuf_tl _ _ _ _ H)].
Qed.
(* the part before the suffix *)
Lemma rsuf_acc (out out' : str) s s' : length out = length out' -> R (rev out ++ s) = rev out' ++ s' -> rsuf s s'.
Proof. intros L E. exists (rev out), (rev out'). split; [rewrite !rev_length; exact L|exact E]. Qed.

(* ================================================================================================ *)
(* 2. strip functions                                                                               *)
(* ================================================================================================ *)
Lemma lstrip_R s : lstrip (R s) = R (lstrip s).
Proof.
  induction s as [|c s IH]; [reflexivity|]. cbn [lstrip]. destruct (is_space c) eqn:E.
  - rewrite R_cons by (apply nAN_nupper; apply space_nAN; exact E). cbn [lstrip]. rewrite E. exact IH.
  - destruct (R_cons_inv c s) as (c' & t & Ec & H1 & _). rewrite Ec. cbn [lstrip]. rewrite <- (ds_space _ _ H1), E. reflexivity.
Qed.

Lemma rstrip_snoc_space (s : list N) (c : N) : is_space c = true -> rstrip (s ++ [c]) = rstrip s.
Proof. intros H. unfold rstrip. rewrite rev_app_distr. cbn [rev app lstrip]. rewrite H. reflexivity. Qed.
Lemma rstrip_snoc_nspace (s : list N) (c : N) : is_space c = false -> rstrip (s ++ [c]) = s ++ [c].
Proof. intros H. unfold rstrip. rewrite rev_app_distr. cbn [rev app lstrip]. rewrite H. cbn [rev]. rewrite rev_involutive. reflexivity. Qed.

Lemma rstrip_R s : rstrip (R s) = R (rstrip s).
Proof.
  induction s as [|c s IH] using rev_ind; [reflexivity|]. destruct (is_space c) eqn:E.
  - rewrite R_snoc by (apply space_nAN; exact E). rewrite !rstrip_snoc_space by exact E. exact IH.
  - destruct (R_snoc_inv s c) as (t & c' & Ec & _ & H1). rewrite Ec. rewrite !rstrip_snoc_nspace; [symmetry; exact Ec|exact E|].
    rewrite <- (ds_space _ _ H1). exact E.
Qed.

Lemma strip_R s : strip (R s) = R (strip s).
Proof. unfold strip. rewrite lstrip_R, rstrip_R. reflexivity. Qed.

Lemma quote_nAN c : is_quote c = true -> isAN c = false.
Proof. unfold is_quote, isAN, is_upper, is_digit, c_sq, c_dq. lia. Qed.

Lemma strip_lead_quote_R s : strip_lead_quote (R s) = R (strip_lead_quote s).
Proof.
  destruct s as [|c s]; [reflexivity|]. cbn [strip_lead_quote]. destruct (is_quote c) eqn:E.
  - rewrite R_cons by (apply nAN_nupper; apply quote_nAN; exact E). cbn [strip_lead_quote]. rewrite E. reflexivity.
  - destruct (R_cons_inv c s) as (c' & t & Ec & H1 & _). rewrite Ec. cbn [strip_lead_quote]. rewrite <- (ds_quote _ _ H1), E. reflexivity.
Qed.

Lemma stq_snoc (a : list N) (c : N) : strip_trail_quote (a ++ [c]) =
  if is_quote c then a
  else if c =? c_lf then match rev a with q :: t' => if is_quote q then rev t' ++ [c] else a ++ [c] | [] => a ++ [c] end
       else a ++ [c].
Proof.
  unfold strip_trail_quote. rewrite rev_app_distr. cbn [rev app]. destruct (is_quote c); [apply rev_involutive|].
  destruct (c =? c_lf); [|reflexivity]. destruct (rev a) as [|q t']; [reflexivity|]. destruct (is_quote q); reflexivity.
Qed.

Lemma strip_trail_quote_R s : strip_trail_quote (R s) = R (strip_trail_quote s).
Proof.
  destruct s as [|c a _] using rev_ind; [reflexivity|]. rewrite (stq_snoc a c).
  destruct (is_quote c) eqn:Eq.
  - rewrite R_snoc by (apply quote_nAN; exact Eq). rewrite stq_snoc, Eq. reflexivity.
  - destruct (c =? c_lf) eqn:El.
    + apply N.eqb_eq in El. subst c. rewrite R_snoc by reflexivity. rewrite stq_snoc. cbn [is_quote N.eqb orb]. rewrite N.eqb_refl.
      destruct a as [|q a' _] using rev_ind; [reflexivity|]. rewrite rev_app_distr. cbn [rev app].
      destruct (is_quote q) eqn:Eq2.
      * rewrite R_snoc by (apply quote_nAN; exact Eq2). rewrite rev_app_distr. cbn [rev app]. rewrite Eq2, !rev_involutive.
        rewrite R_snoc by reflexivity. reflexivity.
      * destruct (R_snoc_inv a' q) as (t & q' & Ec & _ & H1). rewrite Ec, rev_app_distr. cbn [rev app].
        rewrite <- (ds_quote _ _ H1), Eq2. rewrite <- Ec. rewrite ?Eq. symmetry. apply R_snoc. reflexivity.
    + destruct (R_snoc_inv a c) as (t & c' & Ec & _ & H1). rewrite Ec, stq_snoc.
      rewrite <- (ds_quote _ _ H1), Eq. rewrite <- (ds_eqb c_lf eq_refl _ _ H1), El. reflexivity.
Qed.

Lemma remove_quotes_R s : remove_quotes (R s) = R (remove_quotes s).
Proof. unfold remove_quotes. rewrite strip_lead_quote_R, strip_trail_quote_R. reflexivity. Qed.

Lemma chomp_snoc (a : list N) (c : N) : chomp_lf (a ++ [c]) = if c =? c_lf then (a, [c_lf]) else (a ++ [c], []).
Proof. unfold chomp_lf. rewrite rev_app_distr. cbn [rev app]. destruct (c =? c_lf); [rewrite rev_involutive|]; reflexivity. Qed.

Lemma chomp_lf_R s : chomp_lf (R s) = (R (fst (chomp_lf s)), snd (chomp_lf s)).
Proof.
  destruct s as [|c a _] using rev_ind; [reflexivity|]. rewrite (chomp_snoc a c). destruct (c =? c_lf) eqn:El.
  - apply N.eqb_eq in El. subst c. rewrite R_snoc by reflexivity. rewrite chomp_snoc, N.eqb_refl. reflexivity.
  - destruct (R_snoc_inv a c) as (t & c' & Ec & _ & H1). rewrite Ec, chomp_snoc. rewrite <- (ds_eqb c_lf eq_refl _ _ H1), El.
    cbn [fst snd]. rewrite Ec. reflexivity.
Qed.

Lemma chomp_app s : fst (chomp_lf s) ++ snd (chomp_lf s) = s.
Proof.
  destruct s as [|c a _] using rev_ind; [reflexivity|]. rewrite chomp_snoc. destruct (c =? c_lf) eqn:El; cbn [fst snd].
  - apply N.eqb_eq in El. subst c. reflexivity.
  - apply app_nil_r.
Qed.

(* ================================================================================================ *)
(* 3. id-keyed tables                                                                               *)
(* ================================================================================================ *)
Section Tab.
  Context {V : Type} (f : V -> V) (sh : N -> N).
  Hypothesis sh_eqb : forall i j, (sh i =? sh j) = (i =? j).
  Definition rtab (t : list (N * V)) : list (N * V) := map (fun kv => (sh (fst kv), f (snd kv))) t.
  Lemma rtab_cons j v t : rtab ((j, v) :: t) = (sh j, f v) :: rtab t.
  Proof. reflexivity. Qed.
  Lemma rtab_tset i v t : tset (sh i) (f v) (rtab t) = rtab (tset i v t).
  Proof.
    induction t as [|[j v'] t IH]; [reflexivity|]. rewrite rtab_cons. cbn [tset]. rewrite sh_eqb.
    destruct (i =? j); [reflexivity|]. rewrite rtab_cons, IH. reflexivity.
  Qed.
  Lemma rtab_tupdate t m : tupdate (rtab t) (rtab m) = rtab (tupdate t m).
  Proof.
    unfold tupdate. revert t. induction m as [|[j v] m IH]; intros t; [reflexivity|].
    rewrite rtab_cons. cbn [fold_left fst snd]. rewrite rtab_tset. apply IH.
  Qed.
  Lemma rtab_tlookup i t : tlookup (sh i) (rtab t) = option_map f (tlookup i t).
  Proof.
    induction t as [|[j v] t IH]; [reflexivity|]. rewrite rtab_cons. cbn [tlookup]. rewrite sh_eqb.
    destruct (i =? j); [reflexivity|exact IH].
  Qed.
  Lemma rtab_tdel i t : tdel (sh i) (rtab t) = rtab (tdel i t).
  Proof.
    induction t as [|[j v] t IH]; [reflexivity|]. rewrite rtab_cons. cbn [tdel]. rewrite sh_eqb.
    destruct (i =? j); [reflexivity|]. rewrite rtab_cons, IH. reflexivity.
  Qed.
End Tab.

(* ================================================================================================ *)
(* 4. str.replace                                                                                   *)
(* ================================================================================================ *)
Lemma replace_go_skip old new : forall s k, replace_go old new k s = replace_go old new 0 (drop_n k s).
Proof. induction s as [|c s IH]; intros [|k]; try reflexivity. cbn [replace_go drop_n]. apply IH. Qed.

Lemma replace_go_hit old new t : old <> [] -> starts_with old t = true ->
  replace_go old new 0 t = new ++ replace_go old new 0 (drop_n (length old) t).
Proof.
  intros Hne H. destruct t as [|c t]; [destruct old; [congruence|discriminate H]|]. cbn [replace_go]. rewrite H.
  rewrite replace_go_skip. destruct old as [|x o]; [congruence|]. reflexivity.
Qed.
Lemma replace_go_miss (old new : list N) (c : N) (t : list N) : starts_with old (c :: t) = false -> replace_go old new 0 (c :: t) = c :: replace_go old new 0 t.
Proof. intros H. cbn [replace_go]. rewrite H. reflexivity. Qed.

Lemma replace_go_AN (x : N) (o1 new u t : list N) : isAN x = false -> forallb isAN u = true ->
  replace_go (x :: o1) new 0 (u ++ t) = u ++ replace_go (x :: o1) new 0 t.
Proof.
  intros Hx. induction u as [|a u IH]; intros H; [reflexivity|]. cbn [forallb] in H. apply andb_true_iff in H. destruct H as [H1 H2].
  cbn [app]. rewrite replace_go_miss; [rewrite IH by exact H2; reflexivity|]. cbn [starts_with].
  destruct (x =? a) eqn:E; [|reflexivity]. apply N.eqb_eq in E. subst a. congruence.
Qed.

Lemma an_split (s : list N) : exists (u t : list N), s = u ++ t /\ forallb isAN u = true /\ (t = [] \/ exists (x : N) (t' : list N), t = x :: t' /\ isAN x = false).
Proof.
  induction s as [|c s (u & t & E & U & T)]; [exists [], []; repeat split; left; reflexivity|].
  destruct (isAN c) eqn:Ec.
  - exists (c :: u), t. repeat split; [rewrite E; reflexivity|cbn [forallb]; rewrite Ec, U; reflexivity|exact T].
  - exists [], (c :: s). repeat split. right. exists c, s. split; [reflexivity|exact Ec].
Qed.

Lemma forallb_dsim (p : cp -> bool) (s t : str) : (forall a b, dsim1 a b -> p a = p b) -> dsim s t -> forallb p s = forallb p t.
Proof. intros Hp H. induction H as [|a b s t Hab _ IH]; [reflexivity|]. cbn [forallb]. rewrite (Hp a b Hab), IH. reflexivity. Qed.
Lemma AN_R (u : str) : forallb isAN u = true -> forallb isAN (R u) = true.
Proof. intros H. rewrite <- (forallb_dsim isAN u (R u) ds_AN (dsim_rename d u)). exact H. Qed.

Section Replace.
  Variables (P : list N -> Prop) (o o' ph ph' : list N) (x : N) (o1 o1' : list N).
  Hypothesis Eo : o = x :: o1.
  Hypothesis Eo' : o' = x :: o1'.
  Hypothesis Hx : isAN x = false.
  Hypothesis Hlen : length o' = length o.
  Hypothesis HP : forall a b, P (a ++ b) -> P b.
  Hypothesis Hhit : forall t, P t -> starts_with o t = true ->
    starts_with o' (R t) = true /\ drop_n (length o) (R t) = R (drop_n (length o) t).
  Hypothesis Hmiss : forall t, P t -> starts_with o t = false -> starts_with o' (R t) = false.
  Hypothesis Hph : forall a y, R (a ++ ph ++ y) = R a ++ ph' ++ R y.

  Lemma replace_gen : forall s, P s -> R (replace_go o ph 0 s) = replace_go o' ph' 0 (R s).
  Proof.
    intros s. remember (length s) as n eqn:En. revert s En. induction n as [n IH] using lt_wf_ind. intros s En Ps.
    destruct (an_split s) as (u & t & Es & U & [->|(x0 & t' & -> & Hx0)]).
    - rewrite app_nil_r in Es. subst s. rewrite <- (app_nil_r u) at 1. rewrite Eo, replace_go_AN by assumption.
      cbn [replace_go]. rewrite app_nil_r. rewrite <- (app_nil_r (R u)) at 2. rewrite Eo', replace_go_AN by (try apply AN_R; assumption).
      cbn [replace_go]. rewrite app_nil_r. reflexivity.
    - assert (Pt : P (x0 :: t')) by (apply (HP u); rewrite <- Es; exact Ps).
      rewrite Es. rewrite (R_app_r' u x0 t') by exact Hx0.
      rewrite Eo at 1. rewrite replace_go_AN by assumption. rewrite <- Eo.
      rewrite Eo' at 1. rewrite replace_go_AN by (try apply AN_R; assumption). rewrite <- Eo'.
      rewrite <- (R_cons x0 t') by (apply nAN_nupper; exact Hx0).
      destruct (starts_with o (x0 :: t')) eqn:Et.
      + destruct (Hhit _ Pt Et) as [H1 H2].
        rewrite (replace_go_hit o) by (try exact Et; rewrite Eo; discriminate).
        rewrite (replace_go_hit o') by (try exact H1; rewrite Eo'; discriminate).
        rewrite Hph. f_equal. f_equal. rewrite Hlen, H2.
        assert (Erest : x0 :: t' = o ++ drop_n (length o) (x0 :: t')) by (apply starts_with_eq; exact Et).
        apply (IH (length (drop_n (length o) (x0 :: t')))); [|reflexivity|apply (HP o); rewrite <- Erest; exact Pt].
        rewrite En, Es, app_length, drop_n_length. rewrite Eo. cbn [length]. lia.
      + pose proof (Hmiss _ Pt Et) as H1. rewrite (R_cons x0 t') in H1 by (apply nAN_nupper; exact Hx0).
        rewrite (R_cons x0 t') by (apply nAN_nupper; exact Hx0).
        rewrite replace_go_miss by exact Et. rewrite replace_go_miss by exact H1.
        rewrite (R_app_r' u x0) by exact Hx0. f_equal. f_equal.
        apply (IH (length t')); [rewrite En, Es, app_length; cbn [length]; lia|reflexivity|].
        apply (HP [x0]). exact Pt.
  Qed.
End Replace.

(* the replaced string begins and ends with safe characters: comments and expressions in later stages *)
Lemma replace_R (o2 : list N) (x z : N) (o1 ph ph' : list N) : isAN x = false -> isAN z = false -> x :: o1 = o2 ++ [z] ->
  (forall a y, R (a ++ ph ++ y) = R a ++ ph' ++ R y) ->
  forall s, R (replace_all (x :: o1) ph s) = replace_all (R (x :: o1)) ph' (R s).
Proof.
  intros Hx Hz Eo Hph s. unfold replace_all.
  rewrite (R_cons x o1) by (apply nAN_nupper; exact Hx).
  rewrite <- (R_cons x o1) by (apply nAN_nupper; exact Hx).
  apply (replace_gen (fun _ => True) (x :: o1) (R (x :: o1)) ph ph' x o1 (R o1)); try trivial.
  - apply R_cons. apply nAN_nupper. exact Hx.
  - apply rename_length.
  - intros t _ Ht. split.
    + rewrite Eo. rewrite sw_iff by exact Hz. rewrite <- Eo. exact Ht.
    + apply starts_with_eq in Ht.
      assert (E2 : R t = R (x :: o1) ++ R (drop_n (length (x :: o1)) t)).
      { rewrite Ht at 1. rewrite Eo. apply R_app_l. exact Hz. }
      rewrite E2. rewrite <- (rename_length d (x :: o1)). apply drop_n_app.
  - intros t _ Ht. rewrite Eo. rewrite sw_iff by exact Hz. rewrite <- Eo. exact Ht.
Qed.

(* a clean source line: the renaming only sees the placeholders put in *)
Lemma replace_clean (x : N) (o1 ph ph' : list N) : isAN x = false ->
  (forall a y, R (a ++ ph ++ y) = R a ++ ph' ++ R y) ->
  forall s, cleanb s = true -> R (replace_all (x :: o1) ph s) = replace_all (x :: o1) ph' s.
Proof.
  intros Hx Hph s Hs. unfold replace_all. rewrite <- (rename_clean d s Hs) at 2.
  apply (replace_gen (fun t => cleanb t = true) (x :: o1) (x :: o1) ph ph' x o1 o1); try trivial.
  - intros a b H. exact (proj2 (cleanb_app_inv a b H)).
  - intros t Pt Ht. rewrite (rename_clean d t Pt). split; [exact Ht|].
    apply starts_with_eq in Ht. rewrite Ht in Pt. apply cleanb_app_inv in Pt. rewrite (rename_clean d _ (proj2 Pt)). reflexivity.
  - intros t Pt Ht. rewrite (rename_clean d t Pt). exact Ht.
Qed.

(* ================================================================================================ *)
(* 5. lines and their junctions                                                                     *)
(* ================================================================================================ *)
Definition rsafe (l : list N) : Prop := forall y, R (l ++ y) = R l ++ R y.
Definition endn (s : list N) : Prop := forall (a : list N) (c : N), s = a ++ [c] -> isAN c = false.
Fixpoint butlast_all (Q : list N -> Prop) (ls : list (list N)) : Prop :=
  match ls with [] => True | l :: ls' => (ls' = [] \/ Q l) /\ butlast_all Q ls' end.

Lemma endn_suffix (p t : list N) : endn (p ++ t) -> endn t.
Proof. intros H a c E. apply (H (p ++ a) c). rewrite E, app_assoc. reflexivity. Qed.
Lemma endn_rsafe l : endn l -> rsafe l.
Proof.
  intros H y. destruct l as [|c a _] using rev_ind; [reflexivity|]. apply R_app_l. exact (H a c eq_refl).
Qed.
Lemma endn_AN (u : list N) : forallb isAN u = true -> endn u -> u = [].
Proof.
  intros U H. destruct u as [|c a _] using rev_ind; [reflexivity|]. pose proof (H a c eq_refl) as Hc.
  rewrite forallb_app in U. apply andb_true_iff in U. destruct U as [_ U]. cbn [forallb] in U. rewrite Hc in U. discriminate U.
Qed.

Lemma concat_R ls : butlast_all rsafe ls -> R (concat ls) = concat (map R ls).
Proof.
  induction ls as [|l ls IH]; intros H; [reflexivity|]. cbn [butlast_all] in H. destruct H as [[->|H1] H2].
  - cbn [concat map]. rewrite !app_nil_r. reflexivity.
  - cbn [concat map]. rewrite H1, IH by exact H2. reflexivity.
Qed.

Lemma replace_endcut (x : N) (o1 ph ph' : list N) : isAN x = false ->
  (forall a y, R (a ++ ph ++ y) = R a ++ ph' ++ R y) ->
  forall s, endn s -> forall y, R (replace_go (x :: o1) ph 0 s ++ y) = R (replace_go (x :: o1) ph 0 s) ++ R y.
Proof.
  intros Hx Hph s. remember (length s) as n eqn:En. revert s En. induction n as [n IH] using lt_wf_ind. intros s En Hs y.
  destruct (an_split s) as (u & t & Es & U & [->|(x0 & t' & -> & Hx0)]).
  - rewrite app_nil_r in Es. subst s. rewrite (endn_AN u U Hs). reflexivity.
  - rewrite Es. rewrite replace_go_AN by assumption.
    destruct (starts_with (x :: o1) (x0 :: t')) eqn:Et.
    + rewrite replace_go_hit by (try exact Et; discriminate). rewrite <- !app_assoc. rewrite !Hph.
      assert (Erest : x0 :: t' = (x :: o1) ++ drop_n (length (x :: o1)) (x0 :: t')) by (apply starts_with_eq; exact Et).
      rewrite (IH (length (drop_n (length (x :: o1)) (x0 :: t')))); [rewrite <- !app_assoc; reflexivity| |reflexivity|].
      * rewrite En, Es, app_length, drop_n_length. cbn [length]. lia.
      * apply (endn_suffix (u ++ x :: o1)). rewrite <- app_assoc, <- Erest, <- Es. exact Hs.
    + rewrite replace_go_miss by exact Et. rewrite <- app_assoc. cbn [app]. rewrite !(R_app_r' u x0) by exact Hx0.
      rewrite (IH (length t')); [rewrite <- app_assoc; reflexivity|rewrite En, Es, app_length; cbn [length]; lia|reflexivity|].
      apply (endn_suffix (u ++ [x0])). rewrite <- app_assoc. cbn [app]. rewrite <- Es. exact Hs.
Qed.

Lemma linebreak_nAN c : is_linebreak c = true -> isAN c = false.
Proof. unfold is_linebreak, isAN, is_upper, is_digit, c_lf, c_cr, c_vt, c_ff. lia. Qed.

Lemma splitlines_go_endn : forall s cur, butlast_all endn (splitlines_go cur s).
Proof.
  assert (He : forall (a : list N) (c : N), isAN c = false -> endn (a ++ [c])).
  { intros a c Hc a' c' E. apply app_inj_tail in E. destruct E as [_ <-]. exact Hc. }
  induction s as [|c s IH]; intros cur.
  - cbn [splitlines_go]. destruct cur; cbn [butlast_all]; [exact I|]. split; [left; reflexivity|exact I].
  - cbn [splitlines_go]. destruct (c =? c_cr) eqn:Ec.
    + apply N.eqb_eq in Ec. subst c. destruct s as [|c2 s'].
      * cbn [butlast_all]. split; [left; reflexivity|exact I].
      * destruct (c2 =? c_lf) eqn:E2.
        -- apply N.eqb_eq in E2. subst c2. cbn [butlast_all]. split.
           ++ right. cbn [rev]. apply He. reflexivity.
           ++ pose proof (IH []) as H. cbn [splitlines_go] in H. cbn [N.eqb c_lf c_cr Pos.eqb is_linebreak] in H.
              change (butlast_all endn ([c_lf] :: splitlines_go [] s')) in H. cbn [butlast_all] in H. exact (proj2 H).
        -- cbn [butlast_all]. split; [right; cbn [rev]; apply He; reflexivity|apply IH].
    + destruct (is_linebreak c) eqn:El.
      * cbn [butlast_all]. split; [right; cbn [rev]; apply He; apply linebreak_nAN; exact El|apply IH].
      * apply IH.
Qed.

(* ================================================================================================ *)
(* 6. line comments (clean source lines) and include directives                                     *)
(* ================================================================================================ *)
Lemma find_comment_spec : forall (s : list N) pc acc x y, find_comment pc acc s = Some (x, y) ->
  x ++ y = rev acc ++ s /\ exists y', y = c_slash :: y'.
Proof.
  induction s as [|a s IH]; intros pc acc x y H; [discriminate H|].
  destruct s as [|b s']; [discriminate H|]. cbn [find_comment] in H.
  destruct ((a =? c_slash) && (b =? c_slash) && negb pc) eqn:E.
  - injection H as <- <-. split; [reflexivity|]. apply andb_true_iff in E. destruct E as [E _]. apply andb_true_iff in E.
    destruct E as [E _]. apply N.eqb_eq in E. subst a. eexists. reflexivity.
  - destruct (IH _ _ _ _ H) as [E1 E2]. split; [|exact E2]. rewrite E1. cbn [rev]. rewrite <- app_assoc. reflexivity.
Qed.

Definition Rinc (e : include_entry) : include_entry := let '(a, b, c) := e in (R a, R b, R c).
Definition Rex (e : expr_entry) : expr_entry := let '(a, b) := e in (R a, R b).

Lemma R_app_clean_l (a : list N) (z : N) (b : list N) : isAN z = false -> cleanb (a ++ [z]) = true ->
  R ((a ++ [z]) ++ b) = (a ++ [z]) ++ R b.
Proof. intros Hz Hc. rewrite R_app_l by exact Hz. rewrite (rename_clean d _ Hc). reflexivity. Qed.

Lemma include_line_rest_R l : include_line_rest (R l) = option_map R (include_line_rest l).
Proof.
  unfold include_line_rest. rewrite lstrip_R. destruct (lstrip l) as [|c r]; [reflexivity|].
  destruct (c =? c_hash) eqn:Ec.
  - apply N.eqb_eq in Ec. subst c. rewrite R_cons by reflexivity. cbn [N.eqb c_hash Pos.eqb]. rewrite lstrip_R.
    assert (Hsw : starts_with w_include (R (lstrip r)) = starts_with w_include (lstrip r)).
    { symmetry. apply starts_with_dsim; [reflexivity|apply dsim_rename]. }
    rewrite Hsw. destruct (starts_with w_include (lstrip r)) eqn:Es; [|reflexivity]. cbn [option_map]. f_equal.
    apply starts_with_eq in Es.
    assert (E2 : R (lstrip r) = w_include ++ R (drop_n (length w_include) (lstrip r))).
    { rewrite Es at 1. exact (R_app_clean_l [105; 110; 99; 108; 117; 100] 101 _ eq_refl eq_refl). }
    rewrite E2. apply drop_n_app.
  - destruct (R_cons_inv c r) as (c' & t & Er & H1 & _). rewrite Er. rewrite <- (ds_eqb c_hash eq_refl _ _ H1), Ec. reflexivity.
Qed.

Lemma include_name_of_R s : include_name_of (R s) = R (include_name_of s).
Proof. unfold include_name_of. rewrite lstrip_R, rstrip_R, remove_quotes_R. reflexivity. Qed.

Lemma path_join_R dir name : path_join (R dir) (R name) = R (path_join dir name).
Proof.
  unfold path_join. destruct name as [|c n]; [reflexivity|]. destruct (c =? c_slash) eqn:Ec.
  - apply N.eqb_eq in Ec. subst c. rewrite R_cons by reflexivity. cbn [N.eqb c_slash Pos.eqb]. reflexivity.
  - destruct (R_cons_inv c n) as (c' & t & Er & H1 & _). rewrite Er. rewrite <- (ds_eqb c_slash eq_refl _ _ H1), Ec.
    rewrite <- Er. cbn [app]. rewrite R_app_r' by reflexivity. reflexivity.
Qed.

(* ================================================================================================ *)
(* 7. block comments                                                                                *)
(* ================================================================================================ *)
Lemma tuc_spec : forall (s acc cmt rest : list N), take_until_close acc s = Some (cmt, rest) ->
  cmt ++ rest = rev acc ++ s /\ exists c0, cmt = c0 ++ [c_slash].
Proof.
  induction s as [|a s IH]; intros acc cmt rest H; [discriminate H|].
  destruct s as [|b r]; [discriminate H|]. cbn [take_until_close] in H.
  destruct ((a =? c_star) && (b =? c_slash)) eqn:E.
  - injection H as <- <-. apply andb_true_iff in E. destruct E as [_ E]. apply N.eqb_eq in E. subst b. split.
    + cbn [rev]. rewrite <- !app_assoc. reflexivity.
    + cbn [rev]. eexists. reflexivity.
  - destruct (IH _ _ _ H) as [E1 E2]. split; [|exact E2]. rewrite E1. cbn [rev]. rewrite <- app_assoc. reflexivity.
Qed.

Lemma tuc_dsim : forall (s s' acc acc' : list N), dsim s s' -> length acc = length acc' ->
  match take_until_close acc s, take_until_close acc' s' with
  | Some (c, _), Some (c', _) => length c = length c'
  | None, None => True
  | _, _ => False
  end.
Proof.
  induction s as [|a s IH]; intros s' acc acc' H L; inversion H as [|? a' ? t Ha Ht]; subst; [exact I|].
  destruct s as [|b r]; inversion Ht as [|? b' ? r' Hb Hr]; subst; [exact I|]. cbn [take_until_close].
  rewrite <- (ds_eqb c_star eq_refl _ _ Ha), <- (ds_eqb c_slash eq_refl _ _ Hb).
  destruct ((a =? c_star) && (b =? c_slash)).
  - rewrite !rev_length. cbn [length]. lia.
  - refine (IH (b' :: r') (a :: acc) (a' :: acc') Ht _). cbn [length]. lia.
Qed.

Definition blockform (c : list N) : Prop := (exists o1, c = c_slash :: o1) /\ (exists o2, c = o2 ++ [c_slash]).

Lemma fbc_form : forall fuel (s : list N), Forall blockform (find_block_comments fuel s).
Proof.
  induction fuel as [|f IH]; intros s; [constructor|]. cbn [find_block_comments].
  destruct s as [|a s0]; [constructor|]. destruct s0 as [|b r]; [constructor|].
  destruct ((a =? c_slash) && (b =? c_star)) eqn:E; [|apply IH].
  destruct (take_until_close [b; a] r) as [[cmt rest]|] eqn:Et; [|apply IH].
  constructor; [|apply IH]. destruct (tuc_spec _ _ _ _ Et) as [E1 (c0 & E2)]. split; [|exists c0; exact E2].
  apply andb_true_iff in E. destruct E as [E _]. apply N.eqb_eq in E. subst a. cbn [rev app] in E1.
  destruct cmt as [|x cmt]; [destruct c0; discriminate E2|]. cbn [app] in E1. injection E1 as -> _. eexists. reflexivity.
Qed.

Lemma fbc_R : forall fuel (s s' : list N), rsuf s s' -> find_block_comments fuel s' = map R (find_block_comments fuel s).
Proof.
  induction fuel as [|f IH]; intros s s' H; [reflexivity|]. cbn [find_block_comments].
  destruct s as [|a s0]; [rewrite (rsuf_nil _ H); reflexivity|].
  destruct (rsuf_cons_inv _ _ _ H) as (a' & t0 & -> & Ha & H0).
  destruct s0 as [|b r]; [rewrite (rsuf_nil _ H0); reflexivity|].
  destruct (rsuf_cons_inv _ _ _ H0) as (b' & r' & -> & Hb & Hr).
  rewrite <- (ds_eqb c_slash eq_refl _ _ Ha), <- (ds_eqb c_star eq_refl _ _ Hb).
  destruct ((a =? c_slash) && (b =? c_star)) eqn:E; [|apply IH; exact H0].
  apply andb_true_iff in E. destruct E as [E1 E2]. apply N.eqb_eq in E1, E2. subst a b.
  pose proof (rsuf_safe c_slash _ _ eq_refl H) as Es. rewrite !R_cons in Es by reflexivity. injection Es as -> -> ->.
  pose proof (tuc_dsim r (R r) [c_star; c_slash] [c_star; c_slash] (dsim_rename d r) eq_refl) as Hd.
  destruct (take_until_close [c_star; c_slash] r) as [[cmt rest]|] eqn:Et;
    destruct (take_until_close [c_star; c_slash] (R r)) as [[cmt' rest']|] eqn:Et'; try contradiction.
  - destruct (tuc_spec _ _ _ _ Et) as [E1 (c0 & E2)]. destruct (tuc_spec _ _ _ _ Et') as [E1' _].
    cbn [rev app] in E1, E1'.
    assert (ER : R (c_slash :: c_star :: r) = R cmt ++ R rest).
    { rewrite <- E1, E2. apply R_app_l. reflexivity. }
    rewrite !R_cons in ER by reflexivity. rewrite <- E1' in ER.
    apply app_eq_len in ER; [|rewrite rename_length; symmetry; exact Hd]. destruct ER as [-> ->].
    cbn [map]. f_equal. apply IH. apply rsuf_R.
  - apply IH. exact H0.
Qed.

Lemma number_from_R {V} (f : V -> V) : forall (l : list V) i, number_from i (map f l) = rtab f (fun j => j) (number_from i l).
Proof. induction l as [|x l IH]; intros i; [reflexivity|]. cbn [map number_from]. rewrite IH. reflexivity. Qed.

Lemma block_fold_R : forall (tab : list (N * list N)) (acc : list N), Forall (fun e => blockform (snd e)) tab ->
  fold_left (fun a (e : N * str) => replace_all (snd e) (placeholder w_BLOCKCOMMENT (fst e)) a) (rtab R (fun j => j) tab) (R acc) =
  R (fold_left (fun a (e : N * str) => replace_all (snd e) (placeholder w_BLOCKCOMMENT (fst e)) a) tab acc).
Proof.
  induction tab as [|[i o] tab IH]; intros acc H; [reflexivity|]. inversion H as [|? ? Ho Htab]; subst.
  rewrite rtab_cons. cbn [fold_left fst snd]. destruct Ho as [(o1 & E1) (o2 & E2)]. cbn [snd] in E1, E2.
  rewrite E1. rewrite <- (replace_R o2 c_slash c_slash o1 (placeholder w_BLOCKCOMMENT i) (placeholder w_BLOCKCOMMENT i));
    [| reflexivity | reflexivity | rewrite <- E1; exact E2 | intros a y; apply rename_insert_block].
  apply IH. exact Htab.
Qed.

Lemma extract_block_comments_R (text : list N) :
  extract_block_comments true (R text) =
  (R (fst (extract_block_comments true text)), rtab R (fun j => j) (snd (extract_block_comments true text))).
Proof.
  unfold extract_block_comments. cbn [fst snd]. rewrite rename_length.
  rewrite (fbc_R _ text (R text) (rsuf_R text)). rewrite number_from_R. f_equal.
  apply block_fold_R. generalize (fbc_form (S (length text)) text). generalize (find_block_comments (S (length text)) text).
  intros l. generalize 0. induction l as [|x l IH]; intros i H; [constructor|]. inversion H; subst. cbn [number_from].
  constructor; [assumption|apply IH; assumption].
Qed.

(* ---- _remove_line_endings_from_block_content ------------------------------------------------------ *)
Lemma anp_map (g : N -> N) : (forall c, isAN c = true -> g c = c) -> (forall c, isAN c = false -> isAN (g c) = false) ->
  forall s : list N, anp (map g s) = anp s.
Proof.
  intros G1 G2. induction s as [|c s IH]; [reflexivity|]. cbn [map]. destruct (isAN c) eqn:E.
  - rewrite (G1 c E). rewrite !anp_cons_AN by exact E. rewrite IH. reflexivity.
  - rewrite !anp_cons_nAN; [reflexivity|exact E|apply G2; exact E].
Qed.

Lemma map_AN_id (g : N -> N) (u : list N) : (forall c, isAN c = true -> g c = c) -> forallb isAN u = true -> map g u = u.
Proof.
  intros G. induction u as [|c u IH]; intros H; [reflexivity|]. cbn [forallb] in H. apply andb_true_iff in H.
  cbn [map]. rewrite (G c (proj1 H)), (IH (proj2 H)). reflexivity.
Qed.

Lemma map_R (g : N -> N) : (forall c, isAN c = true -> g c = c) -> (forall c, isAN c = false -> isAN (g c) = false) ->
  forall s : str, map g (R s) = R (map g s).
Proof.
  intros G1 G2. induction s as [|c s Hn IH|w ds r Hin L D IH] using str_ph_ind.
  - reflexivity.
  - rewrite rename_char by exact Hn. cbn [map]. rewrite IH. symmetry. apply rename_char.
    destruct (isAN c) eqn:E.
    + rewrite (G1 c E). rewrite <- Hn. apply ph_word_anp. rewrite !anp_cons_AN by exact E. rewrite anp_map by assumption. reflexivity.
    + apply ph_word_not_upper. apply nAN_nupper. apply G2. exact E.
  - rewrite rename_ph by assumption. rewrite !map_app. rewrite IH.
    pose proof (word_digits_AN w ds Hin D) as HA. rewrite forallb_app in HA. apply andb_true_iff in HA. destruct HA as [HA1 HA2].
    rewrite (map_AN_id g w G1 HA1), (map_AN_id g ds G1 HA2).
    assert (Hb : shift d (dec_to_N ds) < 1000000) by (apply shift_lt; exact (dec6_bound ds L D)).
    rewrite (map_AN_id g (pad6 _) G1).
    + symmetry. apply rename_ph; assumption.
    + pose proof (pad6_dig _ Hb) as Hp. rewrite forallb_forall in *. intros c Hc. unfold isAN. rewrite (Hp c Hc). apply orb_true_r.
Qed.

Lemma remove_line_endings_R (s : list N) : remove_line_endings (R s) = R (remove_line_endings s).
Proof.
  unfold remove_line_endings. rewrite map_R; [apply strip_R| |].
  - intros c H. destruct (c =? c_lf) eqn:E; [|reflexivity]. apply N.eqb_eq in E. subst c. discriminate H.
  - intros c H. destruct (c =? c_lf); [reflexivity|exact H].
Qed.

(* ================================================================================================ *)
(* 8. string literals                                                                               *)
(* ================================================================================================ *)
Lemma count_bsl_dsim (s s' : list N) : dsim s s' -> count_bsl s = count_bsl s'.
Proof.
  induction 1 as [|a b s t Hab _ IH]; [reflexivity|]. cbn [count_bsl]. rewrite (ds_eqb c_bsl eq_refl _ _ Hab), IH. reflexivity.
Qed.
Lemma count_bsl_spec (s : list N) : s = repeat c_bsl (count_bsl s) ++ drop_n (count_bsl s) s.
Proof.
  induction s as [|c s IH]; [reflexivity|]. cbn [count_bsl]. destruct (c =? c_bsl) eqn:E; [|reflexivity].
  apply N.eqb_eq in E. subst c. cbn [repeat drop_n app]. rewrite <- IH. reflexivity.
Qed.

Lemma opener_at_dsim q pb (s s' : list N) : is_digit q = false -> dsim s s' -> opener_at q pb s' = opener_at q pb s.
Proof.
  intros Hq H. unfold opener_at. destruct pb; [reflexivity|]. rewrite <- (count_bsl_dsim _ _ H).
  pose proof (dsim_drop (count_bsl s) _ _ H) as Hd. inversion Hd as [|a b t t' Hab _ E1 E2]; [reflexivity|].
  rewrite <- (ds_eqb q Hq _ _ Hab). reflexivity.
Qed.

Lemma opener_at_form q pb (s op : list N) : opener_at q pb s = Some op ->
  op = repeat c_bsl (count_bsl s) ++ [q] /\ s = op ++ drop_n (length op) s.
Proof.
  unfold opener_at. destruct pb; [discriminate|]. intros H.
  destruct (drop_n (count_bsl s) s) as [|c t] eqn:Ed; [discriminate H|].
  destruct ((c =? q) && _) eqn:E; [|discriminate H]. injection H as <-. split; [reflexivity|].
  apply andb_true_iff in E. destruct E as [E _]. apply N.eqb_eq in E. subst c.
  rewrite app_length, repeat_length. cbn [length]. rewrite Nat.add_1_r.
  change (S (count_bsl s)) with (1 + count_bsl s)%nat. rewrite Nat.add_comm, drop_n_plus, Ed. cbn [drop_n].
  rewrite <- app_assoc. cbn [app]. rewrite <- Ed. apply count_bsl_spec.
Qed.

Lemma until_closer_spec (op : list N) : forall (s acc body rest : list N), until_closer op acc s = Some (body, rest) ->
  body ++ rest = rev acc ++ s /\ exists b0, body = b0 ++ op.
Proof.
  induction s as [|c s IH]; intros acc body rest H; [discriminate H|]. cbn [until_closer] in H.
  destruct (starts_with op (c :: s)) eqn:E.
  - injection H as <- <-. split; [|eexists; reflexivity]. rewrite <- app_assoc. f_equal. symmetry. apply starts_with_eq. exact E.
  - destruct (IH _ _ _ H) as [E1 E2]. split; [|exact E2]. rewrite E1. cbn [rev]. rewrite <- app_assoc. reflexivity.
Qed.

Lemma until_closer_dsim (op : list N) : forallb (fun c => negb (is_digit c)) op = true ->
  forall (s s' acc acc' : list N), dsim s s' -> length acc = length acc' ->
  match until_closer op acc s, until_closer op acc' s' with
  | Some (b, _), Some (b', _) => length b = length b'
  | None, None => True
  | _, _ => False
  end.
Proof.
  intros Hop. induction s as [|c s IH]; intros s' acc acc' H L; inversion H as [|? c' ? t Hc Ht]; subst; [exact I|].
  cbn [until_closer]. rewrite <- (starts_with_dsim op _ _ Hop H).
  destruct (starts_with op (c :: s)).
  - rewrite !app_length, !rev_length. lia.
  - refine (IH t (c :: acc) (c' :: acc') Ht _). cbn [length]. lia.
Qed.

Definition safe_ends (l : list N) : Prop :=
  exists (x : N) (l1 l2 : list N) (z : N), l = x :: l1 /\ l = l2 ++ [z] /\ isAN x = false /\ isAN z = false.

Lemma quoted_at_spec q pb (s lit rest : list N) : (q = c_sq \/ q = c_dq) -> quoted_at q pb s = Some (lit, rest) ->
  lit ++ rest = s /\ safe_ends lit.
Proof.
  intros Hq. unfold quoted_at. destruct (opener_at q pb s) as [op|] eqn:Eo; [|discriminate].
  destruct (opener_at_form _ _ _ _ Eo) as [Eop Es].
  destruct (until_closer op [] (drop_n (length op) s)) as [[body rest']|] eqn:Eu; [|discriminate].
  intros H. injection H as <- <-. destruct (until_closer_spec _ _ _ _ _ Eu) as [E1 (b0 & E2)]. cbn [rev app] in E1.
  split; [rewrite <- app_assoc, E1; symmetry; exact Es|].
  assert (Hqn : isAN q = false) by (destruct Hq as [-> | ->]; reflexivity).
  assert (Hx : exists x o1, op = x :: o1 /\ isAN x = false).
  { rewrite Eop. destruct (count_bsl s); cbn [repeat app]; eexists _, _; split; try reflexivity. exact Hqn. }
  destruct Hx as (x & o1 & Ex & Hx).
  exists x, (o1 ++ body), (op ++ b0 ++ repeat c_bsl (count_bsl s)), q. repeat split; try assumption.
  - rewrite Ex. reflexivity.
  - rewrite E2. rewrite Eop at 2. rewrite <- !app_assoc. reflexivity.
Qed.

Lemma quoted_at_dsim q pb (s s' : list N) : is_digit q = false -> dsim s s' ->
  match quoted_at q pb s, quoted_at q pb s' with
  | Some (l, _), Some (l', _) => length l = length l'
  | None, None => True
  | _, _ => False
  end.
Proof.
  intros Hq H. unfold quoted_at. rewrite (opener_at_dsim q pb s s' Hq H).
  destruct (opener_at q pb s) as [op|] eqn:Eo; [|exact I].
  destruct (opener_at_form _ _ _ _ Eo) as [Eop _].
  assert (Hop : forallb (fun c => negb (is_digit c)) op = true).
  { rewrite Eop, forallb_app. apply andb_true_iff. split.
    - apply forallb_forall. intros x Hx. apply repeat_spec in Hx. subst x. reflexivity.
    - cbn [forallb]. rewrite Hq. reflexivity. }
  pose proof (until_closer_dsim op Hop _ _ [] [] (dsim_drop (length op) _ _ H) eq_refl) as Hu.
  destruct (until_closer op [] (drop_n (length op) s)) as [[b r]|]; destruct (until_closer op [] (drop_n (length op) s')) as [[b' r']|];
    try contradiction; [|exact I]. rewrite !app_length. lia.
Qed.

Lemma safe_ends_cut (lit rest : list N) : safe_ends lit -> R (lit ++ rest) = R lit ++ R rest.
Proof. intros (x & l1 & l2 & z & _ & E & _ & Hz). rewrite E. apply R_app_l. exact Hz. Qed.

Lemma quoted_at_R q pb (s s' : list N) : (q = c_sq \/ q = c_dq) -> rsuf s s' ->
  match quoted_at q pb s with
  | Some (lit, rest) => s' = R s /\ quoted_at q pb s' = Some (R lit, R rest) /\ safe_ends lit /\ s = lit ++ rest
  | None => quoted_at q pb s' = None
  end.
Proof.
  intros Hq H. assert (Hqd : is_digit q = false) by (destruct Hq as [-> | ->]; reflexivity).
  pose proof (quoted_at_dsim q pb s s' Hqd (rsuf_dsim _ _ H)) as Hd.
  destruct (quoted_at q pb s) as [[lit rest]|] eqn:E.
  - destruct (quoted_at_spec _ _ _ _ _ Hq E) as [Es Hse].
    assert (Es' : s' = R s).
    { destruct Hse as (x & l1 & l2 & z & E1 & _ & Hx & _). rewrite <- Es, E1 in H |- *. cbn [app] in *. exact (rsuf_safe x _ _ Hx H). }
    split; [exact Es'|]. split; [|split; [exact Hse|symmetry; exact Es]].
    destruct (quoted_at q pb s') as [[lit' rest']|] eqn:E'; [|contradiction].
    destruct (quoted_at_spec _ _ _ _ _ Hq E') as [Es2 _].
    rewrite Es', <- Es, safe_ends_cut in Es2 by exact Hse.
    apply app_eq_len in Es2; [|rewrite rename_length; symmetry; exact Hd]. destruct Es2 as [-> ->]. reflexivity.
  - destruct (quoted_at q pb s'); [contradiction|reflexivity].
Qed.

Lemma has_char_dsim k (s s' : list N) : is_digit k = false -> dsim s s' -> has_char k s = has_char k s'.
Proof.
  intros Hk H. unfold has_char. induction H as [|a b s t Hab _ IH]; [reflexivity|]. cbn [existsb].
  rewrite (dsim1_eqb k a b Hk Hab), IH. reflexivity.
Qed.

Lemma placeholder_length w i : i < 1000000 -> length (placeholder w i) = (length w + 6)%nat.
Proof. intros H. unfold placeholder. rewrite app_length, pad6_len by exact H. reflexivity. Qed.

(* ================================================================================================ *)
(* 9. expressions                                                                                   *)
(* ================================================================================================ *)
Definition nodq (m : list N) : bool := forallb (fun c => negb (c =? c_dq)) m.
Definition exprform (e : list N) : Prop := exists mid : list N, e = c_dq :: mid ++ [c_dq] /\ nodq mid = true.

Lemma efq_spec : forall (s acc : list N) seen e rest, expr_from_quote acc seen s = Some (e, rest) ->
  exists mid : list N, e = rev acc ++ mid ++ [c_dq] /\ s = mid ++ c_dq :: rest /\ nodq mid = true.
Proof.
  induction s as [|c s IH]; intros acc seen e rest H; [discriminate H|]. cbn [expr_from_quote] in H.
  destruct (c =? c_dq) eqn:E.
  - destruct seen; [|discriminate H]. injection H as <- <-. apply N.eqb_eq in E. subst c. exists []. repeat split.
  - destruct (IH _ _ _ _ H) as (mid & E1 & E2 & E3). exists (c :: mid). repeat split.
    + rewrite E1. cbn [rev]. rewrite <- app_assoc. reflexivity.
    + rewrite E2. reflexivity.
    + unfold nodq in *. cbn [forallb]. rewrite E, E3. reflexivity.
Qed.

Lemma efq_dsim : forall (s s' acc acc' : list N) seen, dsim s s' -> length acc = length acc' ->
  match expr_from_quote acc seen s, expr_from_quote acc' seen s' with
  | Some (e, _), Some (e', _) => length e = length e'
  | None, None => True
  | _, _ => False
  end.
Proof.
  induction s as [|c s IH]; intros s' acc acc' seen H L; inversion H as [|? c' ? t Hc Ht]; subst; [exact I|].
  cbn [expr_from_quote]. rewrite <- (ds_eqb c_dq eq_refl _ _ Hc), <- (ds_eqb c_dollar eq_refl _ _ Hc).
  destruct (c =? c_dq).
  - destruct seen; [|exact I]. rewrite !rev_length. cbn [length]. lia.
  - refine (IH t (c :: acc) (c' :: acc') _ Ht _). cbn [length]. lia.
Qed.

Lemma fe_form : forall fuel (s : list N), Forall exprform (find_expressions fuel s).
Proof.
  induction fuel as [|f IH]; intros s; [constructor|]. cbn [find_expressions]. destruct s as [|c s0]; [constructor|].
  destruct (c =? c_dq) eqn:E; [|apply IH]. destruct (expr_from_quote [c] false s0) as [[e rest]|] eqn:Ee; [|apply IH].
  constructor; [|apply IH]. destruct (efq_spec _ _ _ _ _ Ee) as (mid & E1 & _ & E3). apply N.eqb_eq in E. subst c.
  exists mid. split; [exact E1|exact E3].
Qed.

Lemma exprform_safe e : exprform e -> safe_ends e.
Proof.
  intros (mid & E & _). exists c_dq, (mid ++ [c_dq]), (c_dq :: mid), c_dq. repeat split; try assumption.
Qed.

Lemma fe_R : forall fuel (s s' : list N), rsuf s s' -> find_expressions fuel s' = map R (find_expressions fuel s).
Proof.
  induction fuel as [|f IH]; intros s s' H; [reflexivity|]. cbn [find_expressions].
  destruct s as [|c s0]; [rewrite (rsuf_nil _ H); reflexivity|].
  destruct (rsuf_cons_inv _ _ _ H) as (c' & t0 & -> & Hc & H0).
  rewrite <- (ds_eqb c_dq eq_refl _ _ Hc). destruct (c =? c_dq) eqn:E; [|apply IH; exact H0].
  apply N.eqb_eq in E. subst c.
  pose proof (rsuf_safe c_dq _ _ eq_refl H) as Es. rewrite R_cons in Es by reflexivity. injection Es as -> ->.
  pose proof (efq_dsim s0 (R s0) [c_dq] [c_dq] false (dsim_rename d s0) eq_refl) as Hd.
  destruct (expr_from_quote [c_dq] false s0) as [[e rest]|] eqn:Ee;
    destruct (expr_from_quote [c_dq] false (R s0)) as [[e' rest']|] eqn:Ee'; try contradiction.
  - destruct (efq_spec _ _ _ _ _ Ee) as (mid & E1 & E2 & E3). destruct (efq_spec _ _ _ _ _ Ee') as (mid' & E1' & E2' & _).
    cbn [rev app] in E1, E1'.
    assert (ER : R (c_dq :: s0) = R e ++ R rest).
    { rewrite E2, E1. change (c_dq :: mid ++ c_dq :: rest) with ((c_dq :: mid) ++ c_dq :: rest).
      change (c_dq :: mid ++ [c_dq]) with ((c_dq :: mid) ++ [c_dq]).
      rewrite <- R_app_l by reflexivity. rewrite <- app_assoc. reflexivity. }
    rewrite R_cons in ER by reflexivity.
    assert (Ee2 : c_dq :: R s0 = e' ++ rest').
    { rewrite E2', E1'. cbn [app]. rewrite <- app_assoc. reflexivity. }
    rewrite Ee2 in ER. apply app_eq_len in ER; [|rewrite rename_length; symmetry; exact Hd]. destruct ER as [-> ->].
    cbn [map]. f_equal. apply IH. apply rsuf_R.
  - apply IH. exact H0.
Qed.

Lemma filter_all {A} (p : A -> bool) (l : list A) : forallb p l = true -> filter p l = l.
Proof. induction l as [|x l IH]; intros H; [reflexivity|]. cbn [forallb] in H. apply andb_true_iff in H. cbn [filter]. rewrite (proj1 H), (IH (proj2 H)). reflexivity. Qed.

Lemma strip_dq_R e : exprform e -> strip_dq (R e) = R (strip_dq e).
Proof.
  intros (mid & -> & Hm). rewrite R_cons by reflexivity. rewrite R_snoc by reflexivity.
  unfold strip_dq. cbn [filter N.eqb c_dq Pos.eqb negb]. rewrite !filter_app. cbn [filter N.eqb c_dq Pos.eqb negb]. rewrite !app_nil_r.
  rewrite (filter_all _ mid Hm). apply filter_all.
  unfold nodq in Hm. eapply eq_trans; [symmetry; apply (forallb_dsim _ mid (R mid)); [|apply dsim_rename]|exact Hm].
  intros a b Hab. cbv beta. rewrite (ds_eqb c_dq eq_refl _ _ Hab). reflexivity.
Qed.

Lemma span_snd_head (p : N -> bool) (s : list N) c t : snd (span p s) = c :: t -> p c = false.
Proof.
  induction s as [|x s IH]; [discriminate|]. cbn [span]. destruct (p x) eqn:E.
  - destruct (span p s). cbn [snd] in *. exact IH.
  - cbn [snd]. intros H. injection H as <- _. exact E.
Qed.

Lemma span_dsim (p : N -> bool) (s s' : list N) : (forall a b, dsim1 a b -> p a = p b) -> dsim s s' ->
  length (fst (span p s)) = length (fst (span p s')).
Proof.
  intros Hp H. induction H as [|a b s t Hab _ IH]; [reflexivity|]. cbn [span]. rewrite <- (Hp a b Hab).
  destruct (p a); [|reflexivity]. destruct (span p s), (span p t). cbn [fst length] in *. lia.
Qed.

Definition refform (before ref after text : list N) : Prop :=
  before ++ ref ++ after = text /\ (exists r1, ref = c_dollar :: r1) /\ (after = [] \/ exists c t, after = c :: t /\ isAN c = false).

Lemma ref_nAN c : is_ref_char c = false -> isAN c = false.
Proof. unfold is_ref_char, is_word, isAN. intros H. lia. Qed.

Lemma find_reference_spec : forall (s acc before ref after : list N), find_reference acc s = Some (before, ref, after) ->
  refform before ref after (rev acc ++ s).
Proof.
  induction s as [|a s IH]; intros acc before ref after H; [discriminate H|].
  destruct s as [|w r]; [discriminate H|]. cbn [find_reference] in H.
  destruct ((a =? c_dollar) && is_word w) eqn:E.
  - pose proof (span_fst_snd is_ref_char r) as Esp. pose proof (span_snd_head is_ref_char r) as Hh.
    destruct (span is_ref_char r) as [tl rest]. cbn [fst snd] in Esp, Hh. injection H as <- <- <-.
    apply andb_true_iff in E. destruct E as [E _]. apply N.eqb_eq in E. subst a. repeat split.
    + cbn [app]. rewrite <- Esp. reflexivity.
    + eexists. reflexivity.
    + destruct rest as [|c t]; [left; reflexivity|right]. exists c, t. split; [reflexivity|]. apply ref_nAN. exact (Hh c t eq_refl).
  - pose proof (IH _ _ _ _ H) as Hf. unfold refform in *. cbn [rev] in Hf. rewrite <- app_assoc in Hf. exact Hf.
Qed.

Lemma find_reference_dsim : forall (s s' acc acc' : list N), dsim s s' -> length acc = length acc' ->
  match find_reference acc s, find_reference acc' s' with
  | Some (b, r, _), Some (b', r', _) => length b = length b' /\ length r = length r'
  | None, None => True
  | _, _ => False
  end.
Proof.
  induction s as [|a s IH]; intros s' acc acc' H L; inversion H as [|? a' ? t Ha Ht]; subst; [exact I|].
  destruct s as [|w r]; inversion Ht as [|? w' ? r' Hw Hr]; subst; [exact I|]. cbn [find_reference].
  rewrite <- (ds_eqb c_dollar eq_refl _ _ Ha), <- (ds_word _ _ Hw).
  destruct ((a =? c_dollar) && is_word w).
  - pose proof (span_dsim is_ref_char r r' ds_ref Hr) as Hs. destruct (span is_ref_char r), (span is_ref_char r').
    cbn [fst] in Hs. rewrite !rev_length. cbn [length]. lia.
  - refine (IH (w' :: r') (a :: acc) (a' :: acc') Ht _). cbn [length]. lia.
Qed.

Lemma refform_R before ref after text : refform before ref after text -> R text = R before ++ R ref ++ R after.
Proof.
  intros (E & (r1 & Er) & Ha). rewrite <- E, Er. cbn [app]. rewrite R_app_r by reflexivity. f_equal.
  change (c_dollar :: r1 ++ after) with ((c_dollar :: r1) ++ after).
  destruct Ha as [->|(c & t & -> & Hc)]; [rewrite rename_nil, !app_nil_r; reflexivity|]. apply R_app_r. exact Hc.
Qed.

Lemma find_reference_R (text : list N) :
  match find_reference [] text with
  | Some (before, ref, after) => find_reference [] (R text) = Some (R before, R ref, R after)
  | None => find_reference [] (R text) = None
  end.
Proof.
  pose proof (find_reference_dsim text (R text) [] [] (dsim_rename d text) eq_refl) as Hd.
  destruct (find_reference [] text) as [[[b r] a]|] eqn:E; destruct (find_reference [] (R text)) as [[[b' r'] a']|] eqn:E';
    try contradiction; [|reflexivity].
  pose proof (find_reference_spec _ _ _ _ _ E) as Hf. pose proof (find_reference_spec _ _ _ _ _ E') as Hf'. cbn [rev app] in Hf, Hf'.
  pose proof (refform_R _ _ _ _ Hf) as ER. destruct Hf' as (E2 & _ & _). rewrite <- E2 in ER. destruct Hd as [L1 L2].
  apply app_eq_len in ER; [|rewrite rename_length; symmetry; exact L1]. destruct ER as [-> ER].
  apply app_eq_len in ER; [|rewrite rename_length; symmetry; exact L2]. destruct ER as [-> ->]. reflexivity.
Qed.

(* ================================================================================================ *)
(* 10. delimiters and tokens                                                                        *)
(* ================================================================================================ *)
Lemma AN_facts c : isAN c = true -> is_delim c = false /\ is_space c = false.
Proof.
  unfold isAN, is_upper, is_digit, is_delim, is_space, is_uni_space, c_lbrace, c_rbrace, c_lpar, c_rpar, c_lt, c_gt, c_semi, c_comma.
  intros H. split; lia.
Qed.
Lemma delim_nAN c : is_delim c = true -> isAN c = false.
Proof. intros H. destruct (isAN c) eqn:E; [|reflexivity]. rewrite (proj1 (AN_facts c E)) in H. discriminate H. Qed.

Definition padf (c : N) : list N := if is_delim c then [c_sp; c; c_sp] else [c].
Lemma pad_delims_cons c s : pad_delims (c :: s) = padf c ++ pad_delims s.
Proof. reflexivity. Qed.
Lemma pad_delims_AN (u r : list N) : forallb isAN u = true -> pad_delims (u ++ r) = u ++ pad_delims r.
Proof.
  induction u as [|c u IH]; intros H; [reflexivity|]. cbn [forallb] in H. apply andb_true_iff in H. destruct H as [H1 H2].
  cbn [app]. rewrite pad_delims_cons, IH by exact H2. unfold padf. rewrite (proj1 (AN_facts c H1)). reflexivity.
Qed.
Lemma anp_pad (s : list N) : anp (pad_delims s) = anp s.
Proof.
  induction s as [|c s IH]; [reflexivity|]. rewrite pad_delims_cons. unfold padf. destruct (is_delim c) eqn:E.
  - cbn [app]. rewrite anp_cons_nAN by reflexivity. rewrite anp_cons_nAN by (apply delim_nAN; exact E). reflexivity.
  - cbn [app]. destruct (isAN c) eqn:Ea; [rewrite !anp_cons_AN by exact Ea; rewrite IH; reflexivity|rewrite !anp_cons_nAN by exact Ea; reflexivity].
Qed.

Lemma AN_word_digits (w ds : list N) i : In w shifted_words -> i < 1000000 -> forallb isAN (w ++ pad6 i) = true.
Proof. intros Hin Hi. apply word_digits_AN; [exact Hin|apply pad6_dig; exact Hi]. Qed.

Lemma pad_delims_R : forall s : str, pad_delims (R s) = R (pad_delims s).
Proof.
  induction s as [|c s Hn IH|w ds r Hin L D IH] using str_ph_ind.
  - reflexivity.
  - rewrite rename_char by exact Hn. rewrite !pad_delims_cons, IH. unfold padf. destruct (is_delim c) eqn:E.
    + cbn [app]. rewrite R_cons by reflexivity. rewrite R_cons by (apply nAN_nupper; apply delim_nAN; exact E).
      rewrite R_cons by reflexivity. reflexivity.
    + cbn [app]. symmetry. apply rename_char. rewrite <- Hn. apply ph_word_anp.
      destruct (isAN c) eqn:Ea; [rewrite !anp_cons_AN by exact Ea; rewrite anp_pad; reflexivity|rewrite !anp_cons_nAN by exact Ea; reflexivity].
  - rewrite rename_ph by assumption.
    assert (Hb : shift d (dec_to_N ds) < 1000000) by (apply shift_lt; exact (dec6_bound ds L D)).
    rewrite !app_assoc. rewrite !pad_delims_AN by (try apply AN_word_digits; try apply word_digits_AN; assumption).
    rewrite IH. rewrite <- !app_assoc. symmetry. apply rename_ph; assumption.
Qed.

Lemma collapse_AN (u r : list N) pv : forallb isAN u = true -> u <> [] -> collapse_ws pv (u ++ r) = u ++ collapse_ws false r.
Proof.
  revert pv. induction u as [|c u IH]; intros pv H Hne; [congruence|]. cbn [forallb] in H. apply andb_true_iff in H. destruct H as [H1 H2].
  cbn [app collapse_ws]. rewrite (proj2 (AN_facts c H1)). f_equal. destruct u as [|c2 u]; [reflexivity|]. apply IH; [exact H2|discriminate].
Qed.
Lemma anp_collapse (s : list N) : anp (collapse_ws false s) = anp s.
Proof.
  induction s as [|c s IH]; [reflexivity|]. cbn [collapse_ws]. destruct (is_space c) eqn:E.
  - rewrite anp_cons_nAN by reflexivity. rewrite anp_cons_nAN by (apply space_nAN; exact E). reflexivity.
  - destruct (isAN c) eqn:Ea; [rewrite !anp_cons_AN by exact Ea; rewrite IH; reflexivity|rewrite !anp_cons_nAN by exact Ea; reflexivity].
Qed.

Lemma collapse_ws_R : forall (s : str) pv, collapse_ws pv (R s) = R (collapse_ws pv s).
Proof.
  induction s as [|c s Hn IH|w ds r Hin L D IH] using str_ph_ind; intros pv.
  - reflexivity.
  - rewrite rename_char by exact Hn. cbn [collapse_ws]. destruct (is_space c) eqn:E.
    + destruct pv; [apply IH|]. rewrite IH. symmetry. apply R_cons. reflexivity.
    + rewrite IH. symmetry. apply rename_char. rewrite <- Hn. apply ph_word_anp.
      destruct (isAN c) eqn:Ea; [rewrite !anp_cons_AN by exact Ea; rewrite anp_collapse; reflexivity|rewrite !anp_cons_nAN by exact Ea; reflexivity].
  - rewrite rename_ph by assumption.
    assert (Hb : shift d (dec_to_N ds) < 1000000) by (apply shift_lt; exact (dec6_bound ds L D)).
    destruct (all_words_upper w (shifted_all w Hin)) as [_ Hne].
    rewrite !app_assoc. rewrite !collapse_AN; try (apply AN_word_digits; assumption); try (apply word_digits_AN; assumption);
      try (destruct w; [congruence|discriminate]).
    rewrite IH. rewrite <- !app_assoc. symmetry. apply rename_ph; assumption.
Qed.

Lemma separate_delimiters_R (s : str) : separate_delimiters (R s) = R (separate_delimiters s).
Proof. unfold separate_delimiters. rewrite pad_delims_R, collapse_ws_R. reflexivity. Qed.

Lemma split_ws_go_acc : forall (s cur : list N),
  split_ws_go cur s = match split_ws_go [] s with t :: ts => (rev cur ++ t) :: ts | [] => [] end.
Proof.
  induction s as [|c s IH]; intros cur.
  - cbn [split_ws_go rev]. rewrite app_nil_r. reflexivity.
  - cbn [split_ws_go]. destruct (is_space c).
    + cbn [rev]. rewrite app_nil_r. reflexivity.
    + rewrite (IH (c :: cur)), (IH [c]). destruct (split_ws_go [] s) as [|t ts]; [reflexivity|].
      cbn [rev app]. rewrite <- app_assoc. reflexivity.
Qed.
Lemma split_AN (u r cur : list N) : forallb isAN u = true -> split_ws_go cur (u ++ r) = split_ws_go (rev u ++ cur) r.
Proof.
  revert cur. induction u as [|c u IH]; intros cur H; [reflexivity|]. cbn [forallb] in H. apply andb_true_iff in H. destruct H as [H1 H2].
  cbn [app split_ws_go]. rewrite (proj2 (AN_facts c H1)). rewrite IH by exact H2. cbn [rev]. rewrite <- app_assoc. reflexivity.
Qed.
Lemma anp_first_tok : forall (s t : list N) ts, split_ws_go [] s = t :: ts -> anp t = anp s.
Proof.
  induction s as [|c s IH]; intros t ts H.
  - cbn in H. injection H as <- _. reflexivity.
  - cbn [split_ws_go] in H. destruct (is_space c) eqn:E.
    + injection H as <- _. rewrite anp_cons_nAN by (apply space_nAN; exact E). reflexivity.
    + rewrite split_ws_go_acc in H. destruct (split_ws_go [] s) as [|t0 ts0] eqn:E0; [discriminate H|]. injection H as <- _.
      cbn [rev app]. destruct (isAN c) eqn:Ea; [rewrite !anp_cons_AN by exact Ea; rewrite (IH _ _ eq_refl); reflexivity
                                                |rewrite !anp_cons_nAN by exact Ea; reflexivity].
Qed.

Lemma split_ws_R : forall s : str, split_ws (R s) = map R (split_ws s).
Proof.
  unfold split_ws. induction s as [|c s Hn IH|w ds r Hin L D IH] using str_ph_ind.
  - reflexivity.
  - rewrite rename_char by exact Hn. cbn [split_ws_go]. destruct (is_space c) eqn:E.
    + rewrite IH. reflexivity.
    + rewrite (split_ws_go_acc (R s)), (split_ws_go_acc s), IH.
      destruct (split_ws_go [] s) as [|t ts] eqn:E0; [reflexivity|]. cbn [map rev app]. f_equal.
      symmetry. apply rename_char. rewrite <- Hn. apply ph_word_anp.
      destruct (isAN c) eqn:Ea; [rewrite !anp_cons_AN by exact Ea; rewrite (anp_first_tok _ _ _ E0); reflexivity
                                |rewrite !anp_cons_nAN by exact Ea; reflexivity].
  - rewrite rename_ph by assumption.
    assert (Hb : shift d (dec_to_N ds) < 1000000) by (apply shift_lt; exact (dec6_bound ds L D)).
    rewrite !app_assoc. rewrite !split_AN by (try apply AN_word_digits; try apply word_digits_AN; assumption).
    rewrite (split_ws_go_acc (R r)), (split_ws_go_acc r), IH.
    destruct (split_ws_go [] r) as [|t ts]; [reflexivity|]. cbn [map]. rewrite !app_nil_r, !rev_involutive. f_equal.
    rewrite <- !app_assoc. symmetry. apply rename_ph; assumption.
Qed.

Section Stages.
Variables c1 c2 : Z.
Hypothesis Hc1 : counter_ok c1.
Hypothesis Hc2 : counter_ok c2.
Hypothesis Hd : d = (c2 - c1)%Z.
Notation CR := (crel c1 c2).

Lemma CR_next c c' : CR c c' ->
  CR (counter_next c) (counter_next c') /\
  Z.to_N (counter_next c') = shift d (Z.to_N (counter_next c)) /\ Z.to_N (counter_next c) < 1000000.
Proof.
  intros H. destruct (crel_next c1 c2 Hc1 Hc2 c c' H) as [H1 H2]. rewrite Hd. repeat split; try assumption.
  destruct H as (n & -> & _). pose proof (counter_range n c1 Hc1) as Hr. cbn [counter_iter] in Hr. lia.
Qed.

Lemma Hph_shifted w i : In w shifted_words -> i < 1000000 ->
  forall a y, R (a ++ placeholder w i ++ y) = R a ++ placeholder w (shift d i) ++ R y.
Proof. intros Hin Hi a y. apply rename_insert_shifted; assumption. Qed.

Lemma elc_R c c' l : CR c c' -> cleanb l = true ->
  exists k', extract_line_comment true c' l =
             (R (fst (fst (extract_line_comment true c l))), k',
              option_map (fun e => (shift d (fst e), R (snd e))) (snd (extract_line_comment true c l)))
          /\ CR (snd (fst (extract_line_comment true c l))) k'
          /\ (endn l -> rsafe (fst (fst (extract_line_comment true c l)))).
Proof.
  intros Hc Hl. unfold extract_line_comment. pose proof (chomp_app l) as Ech. destruct (chomp_lf l) as [body nl].
  cbn [fst snd] in Ech. destruct (find_comment false [] body) as [[before cmt]|] eqn:Ef.
  - destruct (find_comment_spec _ _ _ _ _ Ef) as [E1 (y' & Ey)]. cbn [rev app] in E1.
    destruct (CR_next c c' Hc) as (Hn1 & Hn2 & Hn3). exists (counter_next c'). cbn [fst snd option_map].
    assert (Hcl : cleanb cmt = true).
    { rewrite <- Ech, <- E1 in Hl. apply cleanb_app_inv in Hl. destruct Hl as [Hl _]. apply cleanb_app_inv in Hl. exact (proj2 Hl). }
    assert (Hclb : cleanb before = true).
    { rewrite <- Ech, <- E1 in Hl. apply cleanb_app_inv in Hl. destruct Hl as [Hl _]. apply cleanb_app_inv in Hl. exact (proj1 Hl). }
    assert (Hcln : cleanb nl = true).
    { rewrite <- Ech in Hl. apply cleanb_app_inv in Hl. exact (proj2 Hl). }
    assert (HP : forall a y, R (a ++ placeholder w_LINECOMMENT (Z.to_N (counter_next c)) ++ y) =
                             R a ++ placeholder w_LINECOMMENT (shift d (Z.to_N (counter_next c))) ++ R y).
    { apply Hph_shifted; [left; reflexivity|exact Hn3]. }
    rewrite Hn2. subst cmt. split; [|split; [exact Hn1|]].
    + f_equal; [f_equal|].
      * rewrite HP, (rename_clean d _ Hclb), (rename_clean d _ Hcln). reflexivity.
      * rewrite (rename_clean d _ Hcl). reflexivity.
    + intros He y. rewrite <- Ech in He. apply endn_suffix in He. pose proof (endn_rsafe nl He y) as Hy.
      rewrite <- !app_assoc. rewrite !HP, Hy, <- !app_assoc. reflexivity.
  - exists c'. cbn [fst snd option_map]. rewrite (rename_clean d l Hl). split; [reflexivity|]. split; [exact Hc|apply endn_rsafe].
Qed.

Lemma elcs_R : forall ls c c', CR c c' -> Forall (fun l => cleanb l = true) ls -> butlast_all endn ls ->
  exists k', extract_line_comments true c' ls =
      (map R (fst (fst (extract_line_comments true c ls))), k', rtab R (shift d) (snd (extract_line_comments true c ls)))
   /\ CR (snd (fst (extract_line_comments true c ls))) k'
   /\ butlast_all rsafe (fst (fst (extract_line_comments true c ls))).
Proof.
  induction ls as [|l ls IH]; intros c c' Hc Hcl He.
  - exists c'. cbn. repeat split. exact Hc.
  - inversion Hcl as [|? ? Hl Hcl']; subst. cbn [butlast_all] in He. destruct He as [He1 He2].
    cbn [extract_line_comments].
    destruct (elc_R c c' l Hc Hl) as (k1' & E1 & C1 & S1).
    destruct (extract_line_comment true c l) as [[l1 k1] e]. cbn [fst snd] in E1, C1, S1. rewrite E1.
    destruct (IH k1 k1' C1 Hcl' He2) as (k2' & E2 & C2 & S2).
    assert (Hnil : ls = [] -> fst (fst (extract_line_comments true k1 ls)) = []) by (intros ->; reflexivity).
    destruct (extract_line_comments true k1 ls) as [[rest k2] tab]. cbn [fst snd] in E2, C2, S2, Hnil. rewrite E2.
    exists k2'. cbn [fst snd map]. split; [|split; [exact C2|]].
    + f_equal. destruct e as [[i v]|]; cbn [option_map fst snd]; [|reflexivity].
      exact (rtab_tupdate R (shift d) (shift_eqb d) [(i, v)] tab).
    + cbn [butlast_all]. split; [|exact S2]. destruct He1 as [->|He1]; [left; exact (Hnil eq_refl)|right; exact (S1 He1)].
Qed.

Lemma lf_R : R [c_lf] = [c_lf].
Proof. rewrite R_cons by reflexivity. reflexivity. Qed.

Lemma eincs_R dir : forall ls c c', CR c c' -> butlast_all rsafe ls ->
  exists k', extract_includes (R dir) c' (map R ls) =
      (map R (fst (fst (extract_includes dir c ls))), k', rtab Rinc (shift d) (snd (extract_includes dir c ls)))
   /\ CR (snd (fst (extract_includes dir c ls))) k'
   /\ butlast_all rsafe (fst (fst (extract_includes dir c ls))).
Proof.
  induction ls as [|l ls IH]; intros c c' Hc He.
  - exists c'. cbn. repeat split. exact Hc.
  - cbn [butlast_all] in He. destruct He as [He1 He2]. cbn [map extract_includes]. rewrite include_line_rest_R.
    destruct (include_line_rest l) as [rest|]; cbn [option_map].
    + destruct (CR_next c c' Hc) as (Hn1 & Hn2 & Hn3).
      destruct (IH _ _ Hn1 He2) as (k2' & E2 & C2 & S2).
      destruct (extract_includes dir (counter_next c) ls) as [[r k2] tab]. cbn [fst snd] in E2, C2, S2. rewrite E2.
      exists k2'. cbn [fst snd map]. split; [|split; [exact C2|]].
      * rewrite Hn2. f_equal; [f_equal|].
        -- f_equal. rewrite rename_placeholder by (try exact Hn3; right; left; reflexivity). rewrite lf_R. reflexivity.
        -- rewrite chomp_lf_R. cbn [fst]. rewrite include_name_of_R, path_join_R.
           exact (rtab_tupdate Rinc (shift d) (shift_eqb d)
                    [(Z.to_N (counter_next c), (fst (chomp_lf l), include_name_of rest, path_join dir (include_name_of rest)))] tab).
      * cbn [butlast_all]. split; [|exact S2]. right. apply endn_rsafe. intros a c0 E. apply app_inj_tail in E. destruct E as [_ <-]. reflexivity.
    + destruct (IH _ _ Hc He2) as (k2' & E2 & C2 & S2).
      assert (Hnil : ls = [] -> fst (fst (extract_includes dir c ls)) = []) by (intros ->; reflexivity).
      destruct (extract_includes dir c ls) as [[r k2] tab]. cbn [fst snd] in E2, C2, S2, Hnil. rewrite E2.
      exists k2'. cbn [fst snd map]. split; [reflexivity|split; [exact C2|]].
      cbn [butlast_all]. split; [|exact S2]. destruct He1 as [->|He1]; [left; exact (Hnil eq_refl)|right; exact He1].
Qed.

Lemma scan_literals_R : forall fuel pb c c' (out out' : list N) tab (s s' : list N),
  CR c c' -> length out = length out' -> R (rev out ++ s) = rev out' ++ s' ->
  exists k', scan_literals fuel pb c' out' (rtab R (shift d) tab) s' =
             (R (fst (fst (scan_literals fuel pb c out tab s))), k', rtab R (shift d) (snd (scan_literals fuel pb c out tab s)))
          /\ CR (snd (fst (scan_literals fuel pb c out tab s))) k'.
Proof.
  induction fuel as [|f IH]; intros pb c c' out out' tab s s' Hc L Inv.
  - exists c'. cbn [scan_literals fst snd]. rewrite Inv. split; [reflexivity|exact Hc].
  - pose proof (rsuf_acc out out' s s' L Inv) as Hs.
    destruct s as [|c0 s0].
    + rewrite (rsuf_nil _ Hs) in *. exists c'. cbn [scan_literals fst snd]. rewrite !app_nil_r in Inv. rewrite Inv.
      split; [reflexivity|exact Hc].
    + destruct (rsuf_cons_inv _ _ _ Hs) as (c0' & s0' & -> & Hc0 & Hs0).
      cbn [scan_literals].
      (* what a new placeholder does to the invariant *)
      assert (Hnew : forall lit rest, c0 :: s0 = lit ++ rest -> safe_ends lit -> c0' :: s0' = R lit ++ R rest ->
                forall i, i < 1000000 ->
                length (rev (placeholder w_STRINGLITERAL i) ++ out) = length (rev (placeholder w_STRINGLITERAL (shift d i)) ++ out') /\
                R (rev (rev (placeholder w_STRINGLITERAL i) ++ out) ++ rest) =
                rev (rev (placeholder w_STRINGLITERAL (shift d i)) ++ out') ++ R rest).
      { intros lit rest Es Hse Es' i Hi. split.
        - rewrite !app_length, !rev_length, !placeholder_length by (try apply shift_lt; exact Hi). lia.
        - rewrite !rev_app_distr, !rev_involutive, <- !app_assoc.
          rewrite rename_insert_shifted by (try exact Hi; right; right; left; reflexivity). f_equal.
          destruct Hse as (x & l1 & l2 & z & E1 & _ & Hx & _).
          rewrite Es, E1 in Inv. cbn [app] in Inv. rewrite R_app_r in Inv by exact Hx.
          apply app_eq_len in Inv; [exact (proj1 Inv)|rewrite rename_length, !rev_length; exact L]. }
      pose proof (quoted_at_R c_sq pb _ _ (or_introl eq_refl) Hs) as Hsq.
      destruct (quoted_at c_sq pb (c0 :: s0)) as [[lit rest]|] eqn:Esq.
      * destruct Hsq as (Es' & Eq' & Hse & Es). rewrite Eq'.
        destruct (CR_next c c' Hc) as (Hn1 & Hn2 & Hn3). rewrite Hn2.
        assert (Es2 : c0' :: s0' = R lit ++ R rest) by (rewrite Es', Es; apply safe_ends_cut; exact Hse).
        destruct (Hnew lit rest Es Hse Es2 _ Hn3) as [L1 Inv1].
        rewrite remove_quotes_R.
        change [(shift d (Z.to_N (counter_next c)), R (remove_quotes lit))]
          with (rtab R (shift d) [(Z.to_N (counter_next c), remove_quotes lit)]).
        rewrite (rtab_tupdate R (shift d) (shift_eqb d)).
        exact (IH false _ _ _ _ _ _ _ Hn1 L1 Inv1).
      * rewrite Hsq.
        pose proof (quoted_at_R c_dq pb _ _ (or_intror eq_refl) Hs) as Hdq.
        destruct (quoted_at c_dq pb (c0 :: s0)) as [[lit rest]|] eqn:Edq.
        -- destruct Hdq as (Es' & Eq' & Hse & Es). rewrite Eq'.
           assert (Es2 : c0' :: s0' = R lit ++ R rest) by (rewrite Es', Es; apply safe_ends_cut; exact Hse).
           rewrite <- (has_char_dsim c_dollar lit (R lit) eq_refl (dsim_rename d lit)).
           destruct (has_char c_dollar lit).
           ++ apply IH; [exact Hc|rewrite !app_length, !rev_length, rename_length; lia|].
              rewrite !rev_app_distr, !rev_involutive, <- !app_assoc. rewrite <- Es, <- Es2. exact Inv.
           ++ destruct (CR_next c c' Hc) as (Hn1 & Hn2 & Hn3). rewrite Hn2.
              destruct (Hnew lit rest Es Hse Es2 _ Hn3) as [L1 Inv1].
              rewrite remove_quotes_R.
              change [(shift d (Z.to_N (counter_next c)), R (remove_quotes lit))]
                with (rtab R (shift d) [(Z.to_N (counter_next c), remove_quotes lit)]).
              rewrite (rtab_tupdate R (shift d) (shift_eqb d)).
              exact (IH false _ _ _ _ _ _ _ Hn1 L1 Inv1).
        -- rewrite Hdq. rewrite <- (ds_eqb c_bsl eq_refl _ _ Hc0).
           apply IH; [exact Hc|cbn [length]; lia|]. cbn [rev]. rewrite <- !app_assoc. exact Inv.
Qed.


(* the ids of the literal table are six digit numbers *)
Definition idok (e : N * str) : Prop := fst e < 1000000.
Lemma CR_chain_next c c' : CR c c' -> Z.to_N (counter_next c) < 1000000.
Proof. intros H. exact (proj2 (proj2 (CR_next c c' H))). Qed.

Lemma tset_idok i v (tab : list (N * str)) : i < 1000000 -> Forall idok tab -> Forall idok (tset i v tab).
Proof.
  intros Hi. induction tab as [|[j w] tab IH]; intros H; [constructor; [exact Hi|constructor]|].
  inversion H; subst. cbn [tset]. destruct (i =? j); constructor; try assumption. apply IH. assumption.
Qed.

Lemma scan_literals_ids : forall fuel pb c c' out tab s, CR c c' -> Forall idok tab ->
  Forall idok (snd (scan_literals fuel pb c out tab s)).
Proof.
  induction fuel as [|f IH]; intros pb c c' out tab s Hc Ht; [exact Ht|]. cbn [scan_literals].
  destruct s as [|c0 s0]; [exact Ht|].
  destruct (CR_next c c' Hc) as (Hn1 & _ & Hn3).
  destruct (quoted_at c_sq pb (c0 :: s0)) as [[lit rest]|].
  - apply (IH _ _ (counter_next c')); [exact Hn1|]. unfold tupdate. cbn [fold_left fst snd]. apply tset_idok; assumption.
  - destruct (quoted_at c_dq pb (c0 :: s0)) as [[lit rest]|].
    + destruct (has_char c_dollar lit).
      * apply (IH _ _ c'); assumption.
      * apply (IH _ _ (counter_next c')); [exact Hn1|]. unfold tupdate. cbn [fold_left fst snd]. apply tset_idok; assumption.
    + apply (IH _ _ c'); assumption.
Qed.

Lemma extract_string_literals_R c c' (text : list N) : CR c c' ->
  exists k', extract_string_literals c' (R text) =
             (R (fst (fst (extract_string_literals c text))), k', rtab R (shift d) (snd (extract_string_literals c text)))
          /\ CR (snd (fst (extract_string_literals c text))) k'.
Proof.
  intros Hc. unfold extract_string_literals. rewrite rename_length.
  exact (scan_literals_R (S (length text)) false c c' [] [] [] text (R text) Hc eq_refl eq_refl).
Qed.

Definition expr_step (acc : str * Z * list (N * expr_entry)) (e : str) : str * Z * list (N * expr_entry) :=
  let '(t, c, tab) := acc in
  let k := counter_next c in
  let ph := placeholder w_EXPRESSION (Z.to_N k) in
  (replace_all e ph t, k, tupdate tab [(Z.to_N k, (strip_dq e, ph))]).

Lemma Rex_eqb : forall i j, (shift d i =? shift d j) = (i =? j).
Proof. exact (shift_eqb d). Qed.

Lemma placeholder_R w i : In w shifted_words -> i < 1000000 -> R (placeholder w i) = placeholder w (shift d i).
Proof. intros Hin Hi. rewrite <- (app_nil_r (placeholder w i)), rename_placeholder by assumption. rewrite rename_nil, app_nil_r. reflexivity. Qed.

Lemma expr_fold_R : forall (exprs : list str) (t : str) c c' tab, Forall exprform exprs -> CR c c' ->
  exists k', fold_left expr_step (map R exprs) (R t, c', rtab Rex (shift d) tab) =
             (R (fst (fst (fold_left expr_step exprs (t, c, tab)))), k', rtab Rex (shift d) (snd (fold_left expr_step exprs (t, c, tab))))
          /\ CR (snd (fst (fold_left expr_step exprs (t, c, tab)))) k'.
Proof.
  induction exprs as [|e exprs IH]; intros t c c' tab Hf Hc.
  - exists c'. split; [reflexivity|exact Hc].
  - inversion Hf as [|? ? He Hf']; subst. cbn [map fold_left]. unfold expr_step at 2 5 7.
    destruct (CR_next c c' Hc) as (Hn1 & Hn2 & Hn3). rewrite Hn2.
    assert (HinE : In w_EXPRESSION shifted_words) by (right; right; right; left; reflexivity).
    destruct He as (mid & Ee & Hm).
    assert (Er : replace_all (R e) (placeholder w_EXPRESSION (shift d (Z.to_N (counter_next c)))) (R t) =
                 R (replace_all e (placeholder w_EXPRESSION (Z.to_N (counter_next c))) t)).
    { rewrite Ee. symmetry. apply (replace_R (c_dq :: mid) c_dq c_dq (mid ++ [c_dq])); [reflexivity|reflexivity|reflexivity|].
      apply Hph_shifted; assumption. }
    rewrite Er. rewrite strip_dq_R by (exists mid; split; assumption).
    rewrite <- (placeholder_R w_EXPRESSION _ HinE Hn3).
    change [(shift d (Z.to_N (counter_next c)), (R (strip_dq e), R (placeholder w_EXPRESSION (Z.to_N (counter_next c)))))]
      with (rtab Rex (shift d) [(Z.to_N (counter_next c), (strip_dq e, placeholder w_EXPRESSION (Z.to_N (counter_next c))))]).
    rewrite (rtab_tupdate Rex (shift d) Rex_eqb).
    exact (IH _ _ _ _ Hf' Hn1).
Qed.

Lemma extract_references_R : forall fuel c c' (text : list N) tab, CR c c' ->
  exists k', extract_references fuel c' (R text) (rtab Rex (shift d) tab) =
             (R (fst (fst (extract_references fuel c text tab))), k', rtab Rex (shift d) (snd (extract_references fuel c text tab)))
          /\ CR (snd (fst (extract_references fuel c text tab))) k'.
Proof.
  induction fuel as [|f IH]; intros c c' text tab Hc.
  - exists c'. split; [reflexivity|exact Hc].
  - cbn [extract_references]. pose proof (find_reference_R text) as Hf.
    destruct (find_reference [] text) as [[[before ref] after]|] eqn:E; rewrite Hf.
    + destruct (CR_next c c' Hc) as (Hn1 & Hn2 & Hn3). rewrite Hn2.
      assert (HinE : In w_EXPRESSION shifted_words) by (right; right; right; left; reflexivity).
      rewrite <- (Hph_shifted w_EXPRESSION _ HinE Hn3).
      rewrite <- (placeholder_R w_EXPRESSION _ HinE Hn3).
      change [(shift d (Z.to_N (counter_next c)), (R ref, R (placeholder w_EXPRESSION (Z.to_N (counter_next c)))))]
        with (rtab Rex (shift d) [(Z.to_N (counter_next c), (ref, placeholder w_EXPRESSION (Z.to_N (counter_next c))))]).
      rewrite (rtab_tupdate Rex (shift d) Rex_eqb).
      exact (IH _ _ _ _ Hn1).
    + exists c'. split; [reflexivity|exact Hc].
Qed.

Lemma extract_expressions_eq c (text : str) : extract_expressions c text =
  let r := fold_left expr_step (find_expressions (S (length text)) text) (text, c, []) in
  extract_references (S (length (fst (fst r)))) (snd (fst r)) (fst (fst r)) (snd r).
Proof.
  unfold extract_expressions.
  match goal with |- context [fold_left ?f _ _] => change f with expr_step end. cbv zeta.
  destruct (fold_left expr_step (find_expressions (S (length text)) text) (text, c, [])) as [[t1 k1] tab1]. reflexivity.
Qed.

Lemma extract_expressions_R c c' (text : str) : CR c c' ->
  exists k', extract_expressions c' (R text) =
             (R (fst (fst (extract_expressions c text))), k', rtab Rex (shift d) (snd (extract_expressions c text)))
          /\ CR (snd (fst (extract_expressions c text))) k'.
Proof.
  intros Hc. rewrite !extract_expressions_eq. cbv zeta. rewrite rename_length. rewrite (fe_R _ text (R text) (rsuf_R text)).
  destruct (expr_fold_R _ text c c' [] (fe_form (S (length text)) text) Hc) as (k1' & E1 & C1).
  change (rtab Rex (shift d) []) with (@nil (N * expr_entry)) in E1. rewrite E1.
  destruct (fold_left expr_step (find_expressions (S (length text)) text) (text, c, [])) as [[t1 k1] tab1]. cbn [fst snd] in *.
  rewrite rename_length. exact (extract_references_R _ _ _ _ _ C1).
Qed.

(* ================================================================================================ *)
(* 11. the lexer                                                                                    *)
(* ================================================================================================ *)
Definition rename_lexed (lx : lexed) (k : Z) : lexed :=
  mkLexed (map R (lxd_tokens lx)) k (rtab R (shift d) (lxd_lc lx)) (rtab R (fun j => j) (lxd_bc lx))
          (rtab Rinc (shift d) (lxd_inc lx)) (rtab Rex (shift d) (lxd_expr lx)) (rtab R (shift d) (lxd_lit lx)).

Theorem lex_R dir (text : str) c c' : CR c c' -> cleanb text = true ->
  exists k', lex true (R dir) c' text = rename_lexed (lex true dir c text) k' /\ CR (lxd_count (lex true dir c text)) k'
             /\ Forall idok (lxd_lit (lex true dir c text)).
Proof.
  intros Hc Hcl. unfold lex.
  assert (Hlines : Forall (fun l => cleanb l = true) (splitlines text)).
  { apply cleanb_concat. unfold splitlines. rewrite AnyLayoutLex.concat_splitlines_all. exact Hcl. }
  destruct (elcs_R (splitlines text) c c' Hc Hlines (splitlines_go_endn text [])) as (k1' & E1 & C1 & S1).
  destruct (extract_line_comments true c (splitlines text)) as [[l1 k1] lc]. cbn [fst snd] in E1, C1, S1. rewrite E1.
  destruct (eincs_R dir l1 k1 k1' C1 S1) as (k2' & E2 & C2 & S2).
  destruct (extract_includes dir k1 l1) as [[l2 k2] inc]. cbn [fst snd] in E2, C2, S2. rewrite E2.
  rewrite <- (concat_R l2 S2). rewrite extract_block_comments_R.
  destruct (extract_block_comments true (concat l2)) as [b1 bc]. cbn [fst snd].
  rewrite remove_line_endings_R.
  destruct (extract_string_literals_R k2 k2' (remove_line_endings b1) C2) as (k3' & E3 & C3).
  pose proof (scan_literals_ids (S (length (remove_line_endings b1))) false k2 k2' [] [] (remove_line_endings b1) C2 (Forall_nil _)) as Hids.
  change (scan_literals (S (length (remove_line_endings b1))) false k2 [] [] (remove_line_endings b1))
    with (extract_string_literals k2 (remove_line_endings b1)) in Hids.
  destruct (extract_string_literals k2 (remove_line_endings b1)) as [[b3 k3] lit]. cbn [fst snd] in E3, C3, Hids. rewrite E3.
  destruct (extract_expressions_R k3 k3' b3 C3) as (k4' & E4 & C4).
  destruct (extract_expressions k3 b3) as [[b4 k4] ex]. cbn [fst snd] in E4, C4. rewrite E4.
  exists k4'. split; [|split; [exact C4|exact Hids]]. unfold rename_lexed, tokenize. cbn [lxd_tokens lxd_count lxd_lc lxd_bc lxd_inc lxd_expr lxd_lit].
  rewrite separate_delimiters_R, split_ws_R. reflexivity.
Qed.
End Stages.

End Lex.
