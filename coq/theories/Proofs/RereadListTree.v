(* C03 / C12 on documents with comments inside dicts that are LIST ITEMS, part 1: vocabulary.
   The development RereadTree .. RereadFix replayed with an event stream that descends into lists: a list is no longer
   one statement; its skeleton lines (the opening parenthesis, runs of scalar items, the blank line and the brace of a
   dict item, the closing parenthesis) are events of their own and the dict items contribute the events of a dict.
   Nothing here depends on RereadTree .. RereadFix (the event type there is closed); RereadStr / RereadPlain are shared. *)
From Coq Require Import String.
From Coq Require Import NArith ZArith List Bool Lia ZifyBool ZifyN ZifyNat.
From DictIO Require Import Chars Str Value Scalar KeyPath SDict Layout Lexer TokParser TreeSpec NativeSpec LayoutSpec E2ESpec.
From DictIO Require ScalarProofs SDictProofs TokProofs LayoutProofs SemProofs QuoteProofs KeyPathProofs.
From DictIO Require Import E2EProofs E2EHoles E2EInsert E2EKeyTok E2EFullProofs RereadStr.
Import ListNotations.
Import LayoutProofs.
Open Scope N_scope.

(* ================================================================================================ *)
(* 1. comment entries and events                                                                    *)
(* ================================================================================================ *)

Definition is_cm (n : str) : bool := contains w_COMMENT n.
Definition cm_entry (kc : key * tree) : option (str * str) :=
  match kc with
  | (KS n, Leaf (SStr x)) => if is_cm n then Some (n, x) else None
  | _ => None
  end.

(* the state of the writer's item loop: does item idx end its line? *)
Definition lastb (idx len : nat) : bool := Nat.eqb (Nat.modulo (S idx) 10) 0 || Nat.eqb (S idx) len.
(* first_item_on_this_line after n scalar items that begin at index idx *)
Fixpoint rstate (len idx : nat) (first : bool) (n : nat) : bool :=
  match n with O => first | S m => rstate len (S idx) (lastb idx len) m end.
(* the text of a run of scalar items of a list printed at level lvl *)
Definition rtext (lvl len idx : nat) (first : bool) (run : list scalar) : str :=
  fitems lvl len (map Leaf run) idx first.

Inductive ev :=
  | ELeaf (lvl : nat) (k : key) (v : scalar)
  | EOpen (lvl : nat) (k : key)
  | EClose (lvl : nat)
  | ECm (lvl : nat) (n x : str)
  (* a list entry of a dict: the key line and the line of the opening parenthesis *)
  | ELOpen (lvl : nat) (k : key)
  (* inside a list printed at lvl (len items): a run of scalar items that begins at item idx, followed by ... *)
  | EIOpen (lvl len idx : nat) (first : bool) (run : list scalar)    (* the opening parenthesis of a list item *)
  | EDOpen (lvl len idx : nat) (first : bool) (run : list scalar)    (* the blank line and the brace of a dict item *)
  | ELEnd (lvl : nat) (anc : bool) (len idx : nat) (first : bool) (run : list scalar).  (* the closing parenthesis *)

(* the statements of a document in text order, lists entered; for a list the line of its opening parenthesis belongs
   to the event in front (ELOpen / EIOpen) *)
Fixpoint eventsA (lvl : nat) (anc : bool) (t : tree) {struct t} : list ev :=
  match t with
  | Leaf _ => []
  | Dict kvs =>
      (fix go (l : list (key * tree)) : list ev :=
         match l with
         | [] => []
         | (k, c) :: l' =>
             (match cm_entry (k, c) with
              | Some (n, x) => [ECm lvl n x]
              | None =>
                  match c with
                  | Leaf v => [ELeaf lvl k v]
                  | Lst _ => ELOpen lvl k :: eventsA lvl false c
                  | Dict _ => EOpen lvl k :: eventsA (S lvl) false c ++ [EClose lvl]
                  end
              end) ++ go l'
         end) kvs
  | Lst ts =>
      (fix go (l : list tree) (run : list scalar) (idx : nat) (first : bool) {struct l} : list ev :=
         match l with
         | [] => [ELEnd lvl anc (length ts) idx first run]
         | c :: l' =>
             match c with
             | Leaf v => go l' (run ++ [v]) idx first
             | Dict _ =>
                 EDOpen lvl (length ts) idx first run :: eventsA (S (S lvl)) false c ++
                 EClose (S lvl) :: go l' [] (S (idx + length run)) true
             | Lst _ =>
                 EIOpen lvl (length ts) idx first run :: eventsA (S lvl) true c ++
                 go l' [] (S (idx + length run)) (rstate (length ts) idx first (length run))
             end
         end) ts [] 0%nat true
  end.
Definition events (lvl : nat) (t : tree) : list ev := eventsA lvl false t.

Definition entry_events (lvl : nat) (kc : key * tree) : list ev :=
  match cm_entry kc with
  | Some (n, x) => [ECm lvl n x]
  | None =>
      match snd kc with
      | Leaf v => [ELeaf lvl (fst kc) v]
      | Lst ts => ELOpen lvl (fst kc) :: eventsA lvl false (Lst ts)
      | Dict d => EOpen lvl (fst kc) :: events (S lvl) (Dict d) ++ [EClose lvl]
      end
  end.
Section ILoop.
  Variable lvl : nat.
  Variable anc : bool.
  Variable len : nat.
  Fixpoint ievents (l : list tree) (run : list scalar) (idx : nat) (first : bool) {struct l} : list ev :=
    match l with
    | [] => [ELEnd lvl anc len idx first run]
    | c :: l' =>
        match c with
        | Leaf v => ievents l' (run ++ [v]) idx first
        | Dict _ =>
            EDOpen lvl len idx first run :: eventsA (S (S lvl)) false c ++
            EClose (S lvl) :: ievents l' [] (S (idx + length run)) true
        | Lst _ =>
            EIOpen lvl len idx first run :: eventsA (S lvl) true c ++
            ievents l' [] (S (idx + length run)) (rstate len idx first (length run))
        end
    end.
End ILoop.

Lemma eventsA_lst lvl anc ts : eventsA lvl anc (Lst ts) = ievents lvl anc (length ts) ts [] 0%nat true.
Proof. reflexivity. Qed.
Lemma eventsA_dict lvl anc kvs : eventsA lvl anc (Dict kvs) = events lvl (Dict kvs).
Proof. reflexivity. Qed.

Lemma events_cons lvl kc l : events lvl (Dict (kc :: l)) = entry_events lvl kc ++ events lvl (Dict l).
Proof. destruct kc as [k c]. unfold entry_events, events. cbn [eventsA fst snd]. destruct (cm_entry (k, c)) as [[n x]|]; [reflexivity|]. destruct c; reflexivity. Qed.

Lemma events_nil lvl : events lvl (Dict []) = [].
Proof. reflexivity. Qed.

Lemma events_app lvl a b : events lvl (Dict (a ++ b)) = events lvl (Dict a) ++ events lvl (Dict b).
Proof. induction a as [|kc a IH]; [reflexivity|]. cbn [app]. rewrite !events_cons, IH, app_assoc. reflexivity. Qed.

(* ---- the text of an event ------------------------------------------------------------------------- *)
Definition leaf_line (lvl : nat) (k : key) (v : scalar) : str :=
  line lvl (FK k ++ spaces (Nat.max 8 (30 - length (FK k) - 4 * lvl)) ++ FS v ++ [c_semi]) true.
Definition close_txt (anc : bool) : str := if anc then [c_rpar] else [c_rpar; c_semi].

Section EvText.
  Variable cm : nat -> str -> str -> str.
  Definition ev_text (e : ev) : str :=
    match e with
    | ELeaf lvl k v => leaf_line lvl k v
    | EOpen lvl k => line lvl (key_text k) true ++ line lvl [c_lbrace] true
    | EClose lvl => line lvl [c_rbrace] true
    | ECm lvl n x => cm lvl n x
    | ELOpen lvl k => line lvl (key_text k) true ++ line lvl [c_lpar] true
    | EIOpen lvl len idx first run => rtext lvl len idx first run ++ line (S lvl) [c_lpar] true
    | EDOpen lvl len idx first run => rtext lvl len idx first run ++ line (S lvl) [] true ++ line (S lvl) [c_lbrace] true
    | ELEnd lvl anc len idx first run => rtext lvl len idx first run ++ line lvl (close_txt anc) true
    end.
  Definition cat (es : list ev) : str := flat_map ev_text es.
  Lemma cat_app a b : cat (a ++ b) = cat a ++ cat b.
  Proof. unfold cat. apply flat_map_app. Qed.
  Lemma cat_cons e es : cat (e :: es) = ev_text e ++ cat es.
  Proof. reflexivity. Qed.
End EvText.

Definition cm_pair (lvl : nat) (n x : str) : str := leaf_line lvl (KS n) (SStr x).
Definition cm_line (lvl : nat) (n x : str) : str := line lvl x true.

(* ---- runs of scalar items ---------------------------------------------------------------------------- *)
Lemma list_item_first lvl first idx len v : snd (list_item FS lvl first idx len v) = lastb idx len.
Proof. unfold list_item, lastb. destruct (Nat.eqb (Nat.modulo (S idx) 10) 0 || Nat.eqb (S idx) len); reflexivity. Qed.

Lemma fitems_leaf lvl len v l idx first :
  fitems lvl len (Leaf v :: l) idx first = fst (list_item FS lvl first idx len v) ++ fitems lvl len l (S idx) (lastb idx len).
Proof. cbn [fitems]. rewrite <- (list_item_first lvl first idx len v). destruct (list_item FS lvl first idx len v); reflexivity. Qed.

Lemma fitems_run lvl len (rest : list tree) : forall run idx first,
  fitems lvl len (map Leaf run ++ rest) idx first =
  fitems lvl len (map Leaf run) idx first ++ fitems lvl len rest (idx + length run) (rstate len idx first (length run)).
Proof.
  induction run as [|v run IH]; intros idx first.
  - cbn [map app fitems length rstate]. rewrite Nat.add_0_r. reflexivity.
  - cbn [map app length rstate]. rewrite !fitems_leaf, IH, <- app_assoc. replace (S idx + length run)%nat with (idx + S (length run))%nat by lia. reflexivity.
Qed.

Lemma rstate_snoc len : forall n idx first, rstate len idx first (n + 1) = lastb (idx + n) len.
Proof.
  induction n as [|n IH]; intros idx first; [cbn [Nat.add rstate]; rewrite Nat.add_0_r; reflexivity|].
  cbn [Nat.add rstate]. rewrite IH. replace (S idx + n)%nat with (idx + S n)%nat by lia. reflexivity.
Qed.

Lemma rtext_snoc lvl len idx first run v :
  rtext lvl len idx first (run ++ [v]) =
  rtext lvl len idx first run ++ fst (list_item FS lvl (rstate len idx first (length run)) (idx + length run) len v).
Proof.
  unfold rtext. rewrite map_app. cbn [map]. rewrite fitems_run, fitems_leaf. cbn [fitems]. rewrite app_nil_r. reflexivity.
Qed.

Lemma fmt_events : forall t lvl anc,
  match t with
  | Dict _ => fmt_tree FS FK lvl anc t = cat cm_pair (eventsA lvl anc t)
  | Lst _ => fmt_tree FS FK lvl anc t = line lvl [c_lpar] true ++ cat cm_pair (eventsA lvl anc t)
  | Leaf _ => True
  end.
Proof.
  induction t as [v|kvs IH|ts IH] using tree_ind'; intros lvl anc; [exact I| |].
  - rewrite fmt_dict, eventsA_dict. revert lvl. induction IH as [|[k c] kvs Hc _ IHk]; intros lvl; [reflexivity|].
    rewrite events_cons, cat_app. cbn [fentries]. rewrite (IHk lvl). f_equal. cbn [snd] in Hc.
    unfold entry_events. destruct (cm_entry (k, c)) as [[n x]|] eqn:Ecm.
    + unfold cm_entry in Ecm. destruct k as [z|n']; [discriminate Ecm|]. destruct c as [[z|f|b| |x']|d|l]; try discriminate Ecm.
      destruct (is_cm n'); [|discriminate Ecm]. inversion Ecm; subst. cbn [cat flat_map ev_text]. rewrite app_nil_r. reflexivity.
    + cbn [fst snd]. destruct c as [v|d|l].
      * cbn [cat flat_map ev_text]. rewrite app_nil_r. reflexivity.
      * rewrite cat_cons, cat_app. cbn [cat flat_map ev_text]. rewrite app_nil_r. unfold events. rewrite <- (Hc (S lvl) false). rewrite <- !app_assoc. reflexivity.
      * rewrite cat_cons. cbn [ev_text]. rewrite (Hc lvl false), <- !app_assoc. reflexivity.
  - rewrite fmt_lst, eventsA_lst. f_equal. set (len := length ts).
    assert (G : forall run idx first,
              rtext lvl len idx first run ++ fitems lvl len ts (idx + length run) (rstate len idx first (length run)) ++ line lvl (close_txt anc) true =
              cat cm_pair (ievents lvl anc len ts run idx first)).
    { clearbody len. induction IH as [|c l Hc _ IHl]; intros run idx first.
      - cbn [fitems ievents cat flat_map ev_text app]. rewrite app_nil_r. reflexivity.
      - cbn [ievents]. destruct c as [v|d|l2].
        + rewrite <- (IHl (run ++ [v]) idx first), rtext_snoc, fitems_leaf, app_length, rstate_snoc. cbn [length].
          replace (idx + (length run + 1))%nat with (S (idx + length run)) by lia. rewrite <- !app_assoc. reflexivity.
        + rewrite cat_cons, cat_app, cat_cons. cbn [ev_text fitems]. rewrite <- (IHl [] (S (idx + length run)) true).
          rewrite <- (Hc (S (S lvl)) false). cbn [rtext map fitems length rstate app]. unfold rtext. rewrite Nat.add_0_r, <- !app_assoc. reflexivity.
        + rewrite cat_cons, cat_app. cbn [ev_text fitems]. rewrite <- (IHl [] (S (idx + length run)) (rstate len idx first (length run))).
          rewrite (Hc (S lvl) true). cbn [rtext map fitems length rstate app]. unfold rtext. rewrite Nat.add_0_r, <- !app_assoc. reflexivity. }
    specialize (G [] 0%nat true). cbn [length rstate Nat.add app] in G. unfold rtext in G. cbn [map fitems app] in G. exact G.
Qed.

Lemma fmt_events_dict kvs lvl anc : fmt_tree FS FK lvl anc (Dict kvs) = cat cm_pair (events lvl (Dict kvs)).
Proof. exact (fmt_events (Dict kvs) lvl anc). Qed.

(* ================================================================================================ *)
(* 2. maps over documents                                                                           *)
(* ================================================================================================ *)

(* comment entries (at every dict level, also inside lists) are replaced by g n x, ordinary leaves are mapped with f *)
Section CMap.
  Variable g : str -> str -> key * tree.
  Variable f : scalar -> scalar.
  Fixpoint cmapg (t : tree) {struct t} : tree :=
    match t with
    | Leaf v => Leaf (f v)
    | Dict kvs =>
        Dict ((fix go (l : list (key * tree)) : list (key * tree) :=
                 match l with
                 | [] => []
                 | (k, c) :: l' =>
                     (match cm_entry (k, c) with
                      | Some (n, x) => g n x
                      | None => (k, cmapg c)
                      end) :: go l'
                 end) kvs)
    | Lst ts => Lst ((fix go (l : list tree) : list tree := match l with [] => [] | c :: l' => cmapg c :: go l' end) ts)
    end.
  Definition cmap_entry (kc : key * tree) : key * tree :=
    match cm_entry kc with
    | Some (n, x) => g n x
    | None => (fst kc, cmapg (snd kc))
    end.
  Lemma cmapg_dict kvs : cmapg (Dict kvs) = Dict (map cmap_entry kvs).
  Proof.
    cbn [cmapg]. apply (f_equal Dict). induction kvs as [|[k c] kvs IH]; [reflexivity|]. cbn [map]. rewrite IH. reflexivity.
  Qed.
  Lemma cmapg_lst ts : cmapg (Lst ts) = Lst (map cmapg ts).
  Proof. cbn [cmapg]. apply (f_equal Lst). induction ts as [|c ts IH]; [reflexivity|]. cbn [map]. rewrite IH. reflexivity. Qed.
End CMap.

(* comment entries removed at every dict level *)
Fixpoint cstrip (t : tree) {struct t} : tree :=
  match t with
  | Leaf _ => t
  | Dict kvs =>
      Dict ((fix go (l : list (key * tree)) : list (key * tree) :=
               match l with
               | [] => []
               | (k, c) :: l' =>
                   match cm_entry (k, c) with
                   | Some _ => go l'
                   | None => (k, cstrip c) :: go l'
                   end
               end) kvs)
  | Lst ts => Lst ((fix go (l : list tree) : list tree := match l with [] => [] | c :: l' => cstrip c :: go l' end) ts)
  end.
Definition cstrip_entry (kc : key * tree) : list (key * tree) :=
  match cm_entry kc with
  | Some _ => []
  | None => [(fst kc, cstrip (snd kc))]
  end.
Lemma cstrip_dict kvs : cstrip (Dict kvs) = Dict (flat_map cstrip_entry kvs).
Proof.
  cbn [cstrip]. apply (f_equal Dict). induction kvs as [|[k c] kvs IH]; [reflexivity|]. cbn [flat_map]. rewrite IH.
  unfold cstrip_entry. destruct (cm_entry (k, c)) as [[n x]|]; reflexivity.
Qed.
Lemma cstrip_lst ts : cstrip (Lst ts) = Lst (map cstrip ts).
Proof. cbn [cstrip]. apply (f_equal Lst). induction ts as [|c ts IH]; [reflexivity|]. cbn [map]. rewrite IH. reflexivity. Qed.

(* ================================================================================================ *)
(* 3. the shape of a document with comments                                                         *)
(* ================================================================================================ *)

(* ordinary entries: simple keys, leaves in the writer domain; comment entries at every dict level, also in dicts that
   are list items *)
Fixpoint cshapeT (t : tree) {struct t} : bool :=
  match t with
  | Leaf v => writable_leaf v
  | Dict kvs =>
      (fix go (l : list (key * tree)) : bool :=
         match l with
         | [] => true
         | (k, c) :: l' =>
             (match cm_entry (k, c) with
              | Some _ => true
              | None => simple_key k && cshapeT c
              end) && go l'
         end) kvs
  | Lst ts => (fix go (l : list tree) : bool := match l with [] => true | c :: l' => cshapeT c && go l' end) ts
  end.
(* a document is a dict *)
Definition cshape (t : tree) : bool := match t with Dict _ => cshapeT t | _ => false end.
Definition cshape_entry (kc : key * tree) : bool :=
  match cm_entry kc with
  | Some _ => true
  | None => simple_key (fst kc) && cshapeT (snd kc)
  end.
Lemma cshapeT_cons kc l : cshapeT (Dict (kc :: l)) = cshape_entry kc && cshapeT (Dict l).
Proof. destruct kc as [k c]. unfold cshape_entry. cbn [cshapeT fst snd]. destruct (cm_entry (k, c)); reflexivity. Qed.
Lemma cshape_cons kc l : cshape (Dict (kc :: l)) = cshape_entry kc && cshape (Dict l).
Proof. exact (cshapeT_cons kc l). Qed.
Lemma cshapeT_lst_cons c l : cshapeT (Lst (c :: l)) = cshapeT c && cshapeT (Lst l).
Proof. reflexivity. Qed.
Lemma cshape_dict kvs : cshape (Dict kvs) = cshapeT (Dict kvs).
Proof. reflexivity. Qed.
Lemma cshape_T t : cshape t = true -> cshapeT t = true.
Proof. destruct t; try discriminate. intros H. exact H. Qed.

Lemma cm_entry_inv kc n x : cm_entry kc = Some (n, x) -> kc = (KS n, Leaf (SStr x)) /\ is_cm n = true.
Proof.
  destruct kc as [[z|n'] [[z'|f|b| |x']|d|l]]; cbn [cm_entry]; try discriminate.
  destruct (is_cm n') eqn:E; [|discriminate]. intros H. inversion H; subst. split; [reflexivity|exact E].
Qed.

Lemma cm_entry_simple k c : simple_key k = true -> cm_entry (k, c) = None.
Proof.
  intros Hk. destruct (cm_entry (k, c)) as [[n x]|] eqn:E; [|reflexivity]. exfalso.
  destruct (cm_entry_inv _ _ _ E) as [E1 Hn]. inversion E1; subst.
  destruct (simple_key_inv _ Hk) as (Hkt & _). destruct (simple_tok_inv _ Hkt) as (_ & _ & Hr).
  cbn [format_key] in Hr. unfold no_reserved_word in Hr.
  apply andb_true_iff in Hr. destruct Hr as [Hr _]. apply andb_true_iff in Hr. destruct Hr as [Hr _].
  apply andb_true_iff in Hr. destruct Hr as [Hr _]. apply negb_true_iff in Hr.
  unfold is_cm in Hn. rewrite (format_string_has _ _ Hn) in Hr. discriminate Hr.
Qed.

(* the comment-free documents of the writer domain are well shaped, and the maps are the leaf maps on them *)
Lemma ktree_cshapeT : forall t, ktree writable_leaf t = true -> cshapeT t = true.
Proof.
  induction t as [v|kvs IH|ts IH] using tree_ind'; intros H.
  - exact H.
  - induction IH as [|[k c] kvs Hc _ IHk]; [reflexivity|]. rewrite ktree_dict_cons in H. apply andb_true_iff in H. destruct H as [H H3].
    apply andb_true_iff in H. destruct H as [H1 H2]. rewrite cshapeT_cons. unfold cshape_entry. rewrite (cm_entry_simple k c H1). cbn [fst snd] in *.
    rewrite H1, (Hc H2), (IHk H3). reflexivity.
  - induction IH as [|c l Hc _ IHl]; [reflexivity|]. rewrite ktree_lst_cons in H. apply andb_true_iff in H. destruct H as [H1 H2].
    rewrite cshapeT_lst_cons, (Hc H1), (IHl H2). reflexivity.
Qed.

(* the comment events of a document, in text order *)
Definition ev_cm (e : ev) : option (nat * str * str) := match e with ECm lvl n x => Some (lvl, n, x) | _ => None end.
Fixpoint cms_of (es : list ev) : list (nat * str * str) :=
  match es with [] => [] | e :: es' => match ev_cm e with Some c => c :: cms_of es' | None => cms_of es' end end.
Definition cms (t : tree) : list (nat * str * str) := cms_of (events 0 t).

Lemma cms_of_app a b : cms_of (a ++ b) = cms_of a ++ cms_of b.
Proof. induction a as [|e a IH]; [reflexivity|]. cbn [app cms_of]. destruct (ev_cm e); rewrite IH; reflexivity. Qed.

Definition is_lcn (n : str) : bool := contains w_LINECOMMENT n.
Definition is_bcn (n : str) : bool := contains w_BLOCKCOMMENT n.

(* ================================================================================================ *)
(* 4. events of mapped documents                                                                    *)
(* ================================================================================================ *)

Section CMapEvents.
  Variable gn gx : str -> str -> str.       (* new name and new value of a comment entry *)
  Variable f : scalar -> scalar.
  Hypothesis Hgn : forall n x, is_cm n = true -> is_cm (gn n x) = true.
  Definition gkv (n x : str) : key * tree := (KS (gn n x), Leaf (SStr (gx n x))).
  Definition ev_map (e : ev) : ev :=
    match e with
    | ELeaf lvl k v => ELeaf lvl k (f v)
    | ECm lvl n x => ECm lvl (gn n x) (gx n x)
    | EIOpen lvl len idx first run => EIOpen lvl len idx first (map f run)
    | EDOpen lvl len idx first run => EDOpen lvl len idx first (map f run)
    | ELEnd lvl anc len idx first run => ELEnd lvl anc len idx first (map f run)
    | _ => e
    end.
  Lemma cmapg_is_dict kvs : exists kvs', cmapg gkv f (Dict kvs) = Dict kvs'.
  Proof. rewrite cmapg_dict. eexists. reflexivity. Qed.

  Lemma cmapg_events : forall t lvl anc, cshapeT t = true -> eventsA lvl anc (cmapg gkv f t) = map ev_map (eventsA lvl anc t).
  Proof.
    induction t as [v|kvs IH|ts IH] using tree_ind'; intros lvl anc Hs; [reflexivity| |].
    - rewrite cmapg_dict, !eventsA_dict. revert lvl Hs. induction IH as [|[k c] kvs Hc _ IHk]; intros lvl Hs; [reflexivity|].
      rewrite cshapeT_cons in Hs. apply andb_true_iff in Hs. destruct Hs as [Hs1 Hs2].
      cbn [map]. rewrite !events_cons, map_app, (IHk lvl Hs2). f_equal. cbn [snd] in Hc.
      unfold cmap_entry, entry_events, cshape_entry in *. destruct (cm_entry (k, c)) as [[n x]|] eqn:Ecm.
      + destruct (cm_entry_inv _ _ _ Ecm) as [_ Hn]. unfold gkv. cbn [cm_entry]. rewrite (Hgn n x Hn). reflexivity.
      + cbn [fst snd] in *. apply andb_true_iff in Hs1. destruct Hs1 as [Hk Hc1]. rewrite (cm_entry_simple k _ Hk). cbn [fst snd].
        destruct c as [v|d|l].
        * reflexivity.
        * destruct (cmapg_is_dict d) as [d' Ed]. rewrite Ed. rewrite <- Ed. unfold events. rewrite (Hc (S lvl) false Hc1). cbn [map ev_map]. rewrite map_app. reflexivity.
        * rewrite cmapg_lst. rewrite <- cmapg_lst. rewrite (Hc lvl false Hc1). reflexivity.
    - rewrite cmapg_lst, !eventsA_lst, map_length. set (len := length ts).
      assert (G : forall run idx first, ievents lvl anc len (map (cmapg gkv f) ts) (map f run) idx first = map ev_map (ievents lvl anc len ts run idx first)).
      { clearbody len. induction IH as [|c l Hc _ IHl]; intros run idx first; [reflexivity|].
        rewrite cshapeT_lst_cons in Hs. apply andb_true_iff in Hs. destruct Hs as [Hs1 Hs2]. cbn [map]. destruct c as [v|d|l2].
        - cbn [cmapg ievents]. rewrite <- (IHl Hs2), map_app. reflexivity.
        - destruct (cmapg_is_dict d) as [d' Ed]. rewrite Ed. cbn [ievents]. rewrite <- Ed, (Hc (S (S lvl)) false Hs1), map_length.
          cbn [map ev_map]. rewrite map_app. cbn [map ev_map]. rewrite <- (IHl Hs2). reflexivity.
        - rewrite cmapg_lst. cbn [ievents]. rewrite <- cmapg_lst, (Hc (S lvl) true Hs1), map_length.
          cbn [map ev_map]. rewrite map_app, <- (IHl Hs2). reflexivity. }
      exact (G [] 0%nat true).
  Qed.
End CMapEvents.

(* ---- properties of the events of a well-shaped document ------------------------------------------ *)
Definition ev_ok (e : ev) : Prop :=
  match e with
  | ELeaf _ k v => simple_key k = true /\ writable_leaf v = true
  | EOpen _ k => simple_key k = true
  | ELOpen _ k => simple_key k = true
  | EIOpen _ _ _ _ run => forallb writable_leaf run = true
  | EDOpen _ _ _ _ run => forallb writable_leaf run = true
  | ELEnd _ _ _ _ _ run => forallb writable_leaf run = true
  | _ => True
  end.

Lemma cshape_eventsA : forall t lvl anc, cshapeT t = true -> Forall ev_ok (eventsA lvl anc t).
Proof.
  induction t as [v|kvs IH|ts IH] using tree_ind'; intros lvl anc Hs; [constructor| |].
  - rewrite eventsA_dict. revert lvl Hs. induction IH as [|[k c] kvs Hc _ IHk]; intros lvl Hs; [constructor|].
    rewrite cshapeT_cons in Hs. apply andb_true_iff in Hs. destruct Hs as [Hs1 Hs2].
    rewrite events_cons. apply Forall_app. split; [|exact (IHk lvl Hs2)]. cbn [snd] in Hc.
    unfold entry_events, cshape_entry in *. destruct (cm_entry (k, c)) as [[n x]|]; [repeat constructor|].
    cbn [fst snd] in *. apply andb_true_iff in Hs1. destruct Hs1 as [Hk Hc1]. destruct c as [v|d|l].
    + constructor; [split; assumption|constructor].
    + constructor; [exact Hk|]. apply Forall_app. split; [exact (Hc (S lvl) false Hc1)|repeat constructor].
    + constructor; [exact Hk|exact (Hc lvl false Hc1)].
  - rewrite eventsA_lst. set (len := length ts). clearbody len.
    assert (G : forall run idx first, forallb writable_leaf run = true -> Forall ev_ok (ievents lvl anc len ts run idx first)).
    { induction IH as [|c l Hc _ IHl]; intros run idx first Hr; [constructor; [exact Hr|constructor]|].
      rewrite cshapeT_lst_cons in Hs. apply andb_true_iff in Hs. destruct Hs as [Hs1 Hs2]. cbn [ievents]. destruct c as [v|d|l2].
      - apply (IHl Hs2). rewrite forallb_app, Hr. cbn [forallb cshapeT] in *. rewrite Hs1. reflexivity.
      - constructor; [exact Hr|]. apply Forall_app. split; [exact (Hc (S (S lvl)) false Hs1)|]. constructor; [exact I|]. apply (IHl Hs2). reflexivity.
      - constructor; [exact Hr|]. apply Forall_app. split; [exact (Hc (S lvl) true Hs1)|]. apply (IHl Hs2). reflexivity. }
    apply G. reflexivity.
Qed.
Lemma cshape_events t lvl : cshape t = true -> Forall ev_ok (events lvl t).
Proof. intros H. apply cshape_eventsA, cshape_T. exact H. Qed.

(* the quoted literals of a document in text order *)
Definition ev_lits (e : ev) : list str :=
  match e with
  | ELeaf _ _ v => qstr v
  | EIOpen _ _ _ _ run | EDOpen _ _ _ _ run | ELEnd _ _ _ _ _ run => flat_map qstr run
  | _ => []
  end.
Definition lits (es : list ev) : list str := flat_map ev_lits es.
Definition cnq (t : tree) : nat := length (lits (events 0 t)).

(* ---- runs of scalar items as lists of leaves ---------------------------------------------------------- *)
Lemma ktree_run run : forallb writable_leaf run = true -> ktree writable_leaf (Lst (map Leaf run)) = true.
Proof.
  induction run as [|v run IH]; intros H; [reflexivity|]. cbn [forallb] in H. apply andb_true_iff in H. destruct H as [H1 H2].
  cbn [map]. rewrite ktree_lst_cons, (IH H2). cbn [ktree]. rewrite H1. reflexivity.
Qed.
Lemma qstrs_run run : qstrs (Lst (map Leaf run)) = flat_map qstr run.
Proof. induction run as [|v run IH]; [reflexivity|]. cbn [map flat_map]. rewrite qstrs_lst_cons, IH. reflexivity. Qed.
Lemma Forall_leaves (P : tree -> Prop) run : (forall v, P (Leaf v)) -> Forall P (map Leaf run).
Proof. intros H. apply Forall_forall. intros t Ht. apply in_map_iff in Ht. destruct Ht as (v & <- & _). apply H. Qed.
Lemma fitems_real lvl len l idx first : fitems lvl len l idx first = gitems FS llw lvl len l idx first.
Proof. reflexivity. Qed.
(* ================================================================================================ *)
(* 5. placeholder names, the canonical form, the header                                             *)
(* ================================================================================================ *)

Definition ph_id (w s : str) : N := dec_to_N (drop_n (length w) s).
(* s is the placeholder WORD + six digits of a number below one million *)
Definition is_ph (w s : str) : bool := str_eqb s (placeholder w (ph_id w s)) && (ph_id w s <? 1000000).

Definition bph (i : N) : str := placeholder w_BLOCKCOMMENT i.
Definition lph (i : N) : str := placeholder w_LINECOMMENT i.

(* the id-free entries of the canonical form *)
Definition k_lc : key := KS w_LINECOMMENT.
Definition k_bc : key := KS w_BLOCKCOMMENT.
Definition tget (i : N) (tab : list (N * str)) (dflt : str) : str := match tlookup i tab with Some t => t | None => dflt end.
(* name and text of a comment entry once its placeholder is looked up *)
Definition res_name (n : str) : str :=
  if is_ph w_LINECOMMENT n then w_LINECOMMENT else if is_ph w_BLOCKCOMMENT n then w_BLOCKCOMMENT else n.
Definition res_text (lc bc : list (N * str)) (n x : str) : str :=
  if is_ph w_LINECOMMENT n then tget (ph_id w_LINECOMMENT n) lc x
  else if is_ph w_BLOCKCOMMENT n then tget (ph_id w_BLOCKCOMMENT n) bc x else x.
Definition idf (v : scalar) : scalar := v.
Definition canon_tree (lc bc : list (N * str)) (t : tree) : tree :=
  cmapg (gkv (fun n _ => res_name n) (res_text lc bc)) idf t.
(* the canonical form of an SDict: comment placeholders replaced by id-free entries that carry the comment text *)
Definition canon (s : sdict) : list (key * tree) := kvs_of (canon_tree (sd_lc s) (sd_bc s) (Dict (sd_data s))).

(* top-level block comments first (what sort_top does to the placeholder entries) *)
Definition is_bc_entry (kc : key * tree) : bool := match cm_entry kc with Some (n, _) => is_bcn n | None => false end.
Definition csort (c : list (key * tree)) : list (key * tree) :=
  filter is_bc_entry c ++ filter (fun kc => negb (is_bc_entry kc)) c.
(* the default header as a block comment text (without its line feed) *)
Definition nh_txt : str := removelast native_header.
Definition hdr_entry : key * tree := (k_bc, Leaf (SStr nh_txt)).
(* does the document begin with a block comment that carries the C++ mark? *)
Definition has_header (c : list (key * tree)) : bool :=
  match c with
  | kc :: _ => match cm_entry kc with Some (n, x) => is_bcn n && has_cpp_mark x | None => false end
  | [] => false
  end.
(* what the writer makes of the top level: block comments first, the default header in front unless the first block
   comment carries the C++ mark *)
Definition hdr (c : list (key * tree)) : list (key * tree) :=
  let c' := csort c in if has_header c' then c' else hdr_entry :: c'.

(* ================================================================================================ *)
(* 6. the class of re-readable SDicts                                                               *)
(* ================================================================================================ *)

(* a line comment text: two slashes first, no line break of any kind, no trailing white space (the writer strips it),
   no comment placeholder inside *)
Definition lc_ok (x : str) : bool :=
  starts_with [c_slash; c_slash] x && forallb (fun c => negb (is_linebreak c)) x &&
  (match rev x with c :: _ => negb (is_space c) | [] => false end) && phfree x.
(* a line of a block comment is not an include directive *)
Definition not_include (l : str) : bool := match include_line_rest l with None => true | Some _ => false end.
(* a block comment text: slash-star ... star-slash as the scanner delimits it, slash-star only at its beginning, no
   double slash (line comments are lifted out first), line feed the only line break, no trailing white space on any
   of its lines, no comment placeholder inside, none of its lines an include directive *)
Definition bc_ok (x : str) : bool :=
  bcgood x && nopair c_slash c_slash x && forallb (fun c => negb (is_linebreak c) || (c =? c_lf)) x &&
  str_eqb (remove_trailing_spaces (x ++ [c_lf])) (x ++ [c_lf]) && phfree x && forallb not_include (splitlines (x ++ [c_lf])).
Definition cm_ok (c : nat * str * str) : bool :=
  let '(_, n, x) := c in (str_eqb n w_LINECOMMENT && lc_ok x) || (str_eqb n w_BLOCKCOMMENT && bc_ok x).

Fixpoint nodupb (l : list str) : bool :=
  match l with [] => true | x :: r => negb (existsb (str_eqb x) r) && nodupb r end.
Fixpoint nodupN (l : list N) : bool :=
  match l with [] => true | x :: r => negb (existsb (N.eqb x) r) && nodupN r end.

Definition cm_name (c : nat * str * str) : str := snd (fst c).
Definition cm_text (c : nat * str * str) : str := snd c.
Definition lc_texts (t : tree) : list str := map cm_text (filter (fun c => str_eqb (cm_name c) w_LINECOMMENT) (cms t)).
Definition bc_texts (t : tree) : list str := map cm_text (filter (fun c => str_eqb (cm_name c) w_BLOCKCOMMENT) (cms t)).

(* a canonical document the reader can take: ordinary entries in the writer domain with unique keys per dict, quoted
   literals at most ten keys deep; comment entries line or block comments with admissible texts; block comment texts
   pairwise distinct (the reader replaces a block comment text wherever it occurs), line comment texts pairwise
   distinct (the library drops the second of two equal comments of one dict when it reads) *)
Definition cdoc_ok (c : list (key * tree)) : bool :=
  cshape (Dict c) && wf (cstrip (Dict c)) && quoted_within 11 (cstrip (Dict c)) &&
  forallb cm_ok (cms (Dict c)) && nodupb (lc_texts (Dict c)) && nodupb (bc_texts (Dict c)).

Definition is_some {A} (o : option A) : bool := match o with Some _ => true | None => false end.
Definition is_nil {A} (l : list A) : bool := match l with [] => true | _ => false end.

(* a placeholder entry of an SDict: key and value spell the same placeholder, whose id is in the table *)
Definition ph_entry_ok (lc bc : list (N * str)) (c : nat * str * str) : bool :=
  let '(_, n, x) := c in
  str_eqb x n &&
  ((is_ph w_LINECOMMENT n && is_some (tlookup (ph_id w_LINECOMMENT n) lc)) ||
   (is_ph w_BLOCKCOMMENT n && is_some (tlookup (ph_id w_BLOCKCOMMENT n) bc))).
Definition tab_ok {V} (tab : list (N * V)) : bool :=
  nodupN (map fst tab) && forallb (fun e => fst e <? 1000000) tab.

(* the block comment the written text begins with (Layout.header_key on the formatted body) *)
Definition hk_of (E : list ev) (B : list (N * str)) : option N :=
  match E with
  | ECm _ n _ :: _ =>
      if starts_with w_BLOCKCOMMENT n then
        match tlookup (ph_id w_BLOCKCOMMENT n) B with Some _ => Some (ph_id w_BLOCKCOMMENT n) | None => None end
      else None
  | _ => None
  end.
Definition hk_s (s : sdict) : option N := hk_of (events 0 (Dict (sort_top (sd_data s)))) (sd_bc s).
Definition hdr_marked (s : sdict) : bool :=
  match hk_s s with Some h => has_cpp_mark (tget h (sd_bc s) []) | None => false end.

(* The class.  Data: unique keys per dict; ordinary entries in the writer domain; every comment entry a placeholder
   entry whose id is in its table; placeholder names pairwise distinct.  Tables: ids pairwise distinct and below one
   million; texts free of comment placeholders; block comment texts well delimited and pairwise distinct; the default
   header text is not among them unless the document already begins with a marked header (otherwise the writer would
   emit it twice).  No includes, no expressions.  The canonical form, header included, is a document the reader takes. *)
Definition rereadable (s : sdict) : bool :=
  wf (Dict (sd_data s)) && cshape (Dict (sd_data s)) &&
  forallb (ph_entry_ok (sd_lc s) (sd_bc s)) (cms (Dict (sd_data s))) &&
  nodupb (map cm_name (cms (Dict (sd_data s)))) &&
  tab_ok (sd_lc s) && tab_ok (sd_bc s) &&
  forallb (fun e => phfree (snd e)) (sd_lc s) &&
  forallb (fun e => bcgood (snd e) && phfree (snd e)) (sd_bc s) && nodupb (map snd (sd_bc s)) &&
  (hdr_marked s || negb (existsb (str_eqb nh_txt) (map snd (sd_bc s)))) &&
  is_nil (sd_inc s) && is_nil (sd_expr s) &&
  cdoc_ok (hdr (canon s)).
