(* Proofs for C14: key paths address one place. *)
From Coq Require Import NArith ZArith List Bool Sorted Permutation.
From Coq Require Import Lia ZifyBool ZifyNat ZifyN.
From DictIO Require Import Chars Str Value Scalar KeyPath SDict TreeSpec OrderProofs.
Import ListNotations.

(* ---- association lists ------------------------------------------------------------------------- *)
Section AssocFacts.
  Context {V : Type}.
  Implicit Types (l : list (key * V)).

  Lemma alookup_in : forall k l c, alookup k l = Some c -> In (k, c) l.
  Proof.
    intros k l c. induction l as [|[k1 c1] l IH]; simpl; intros H; [discriminate|].
    destruct (key_eqb k k1) eqn:E.
    - apply key_eqb_eq in E. inversion H; subst. left. reflexivity.
    - right. apply IH. exact H.
  Qed.

  Lemma in_alookup_nodup : forall k l c, NoDup (map fst l) -> In (k, c) l -> alookup k l = Some c.
  Proof.
    intros k l c. induction l as [|[k1 c1] l IH]; simpl; intros Hnd Hin; [contradiction|].
    inversion Hnd as [|x xs Hnotin Hnd']; subst.
    destruct Hin as [Heq|Hin].
    - inversion Heq; subst. rewrite key_eqb_refl. reflexivity.
    - destruct (key_eqb k k1) eqn:E.
      + apply key_eqb_eq in E. subst k1. exfalso. apply Hnotin.
        apply in_map_iff. exists (k, c). split; [reflexivity | exact Hin].
      + apply IH; assumption.
  Qed.

  Lemma alookup_aset_same : forall k (v : V) l, alookup k (aset k v l) = Some v.
  Proof.
    intros k v l. induction l as [|[k1 c1] l IH]; simpl.
    - rewrite key_eqb_refl. reflexivity.
    - destruct (key_eqb k k1) eqn:E; simpl; rewrite E; [reflexivity | exact IH].
  Qed.

  Lemma alookup_aset_other : forall k1 k2 (v : V) l, k1 <> k2 -> alookup k2 (aset k1 v l) = alookup k2 l.
  Proof.
    intros k1 k2 v l Hne. induction l as [|[k c] l IH]; simpl.
    - rewrite (key_eqb_neq k2 k1); [reflexivity | congruence].
    - destruct (key_eqb k1 k) eqn:E; simpl.
      + apply key_eqb_eq in E. subst k.
        rewrite (key_eqb_neq k2 k1); [reflexivity | congruence].
      + rewrite IH. reflexivity.
  Qed.

  Lemma aset_keys_present : forall k (v c : V) l, alookup k l = Some c -> map fst (aset k v l) = map fst l.
  Proof.
    intros k v c l. induction l as [|[k1 c1] l IH]; simpl; intros H; [discriminate|].
    destruct (key_eqb k k1) eqn:E; simpl; [reflexivity|].
    rewrite IH; [reflexivity | exact H].
  Qed.

  Lemma aset_notin : forall k (v : V) l, ~ In k (map fst l) -> aset k v l = l ++ [(k, v)].
  Proof.
    intros k v l. induction l as [|[k1 c1] l IH]; simpl; intros Hn; [reflexivity|].
    destruct (key_eqb k k1) eqn:E.
    - apply key_eqb_eq in E. subst. exfalso. apply Hn. left. reflexivity.
    - rewrite IH; [reflexivity|]. intros Hin. apply Hn. right. exact Hin.
  Qed.

  Lemma aupdate_app : forall (m l : list (key * V)), NoDup (map fst (l ++ m)) -> aupdate l m = l ++ m.
  Proof.
    unfold aupdate. induction m as [|[k v] m IH]; intros l Hnd; simpl.
    - rewrite app_nil_r. reflexivity.
    - rewrite map_app in Hnd. simpl in Hnd.
      pose proof (NoDup_remove_2 _ _ _ Hnd) as Hnotin.
      rewrite aset_notin.
      + rewrite IH.
        * rewrite <- app_assoc. reflexivity.
        * rewrite <- app_assoc. rewrite map_app. simpl. exact Hnd.
      + intros Hin. apply Hnotin. apply in_or_app. left. exact Hin.
  Qed.
End AssocFacts.

Lemma keys_nodup_NoDup : forall ks, keys_nodup ks = true -> NoDup ks.
Proof.
  induction ks as [|k ks IH]; simpl; intros H; [constructor|].
  apply andb_true_iff in H. destruct H as [H1 H2].
  constructor; [|apply IH; exact H2].
  intros Hin. apply negb_true_iff in H1.
  assert (Hex : existsb (key_eqb k) ks = true).
  { apply existsb_exists. exists k. split; [exact Hin | apply key_eqb_refl]. }
  rewrite Hex in H1. discriminate.
Qed.

(* ---- wf ---------------------------------------------------------------------------------------- *)
Lemma wf_dict : forall kvs,
  wf (Dict kvs) = keys_nodup (map fst kvs) && forallb (fun kv => wf (snd kv)) kvs.
Proof.
  intros kvs. simpl. f_equal.
  induction kvs as [|[k c] l IH]; [reflexivity|].
  rewrite IH. reflexivity.
Qed.

Lemma wf_lst : forall ts, wf (Lst ts) = forallb wf ts.
Proof.
  intros ts. simpl. induction ts as [|c l IH]; [reflexivity|].
  rewrite IH. reflexivity.
Qed.

Lemma wf_dict_nodup : forall kvs, wf (Dict kvs) = true -> NoDup (map fst kvs).
Proof.
  intros kvs H. rewrite wf_dict in H. apply andb_true_iff in H. destruct H as [H _].
  apply keys_nodup_NoDup. exact H.
Qed.

Lemma wf_dict_child : forall kvs k c, wf (Dict kvs) = true -> In (k, c) kvs -> wf c = true.
Proof.
  intros kvs k c H Hin. rewrite wf_dict in H. apply andb_true_iff in H. destruct H as [_ H].
  rewrite forallb_forall in H. apply (H (k, c) Hin).
Qed.

Lemma wf_get_dpath : forall p t t', wf t = true -> get_dpath t p = Some t' -> wf t' = true.
Proof.
  induction p as [|k p IH]; intros t t' Hwf H; simpl in H.
  - inversion H; subst. exact Hwf.
  - destruct t as [v|kvs|ts]; try discriminate.
    destruct (alookup k kvs) as [c|] eqn:E; [|discriminate].
    apply (IH c t'); [|exact H].
    apply (wf_dict_child kvs k c Hwf). apply alookup_in. exact E.
Qed.

(* ---- key_exists / reduce_scope ----------------------------------------------------------------- *)
Lemma key_exists_iff : forall kvs0 p,
  key_exists (Dict kvs0) p = true <-> exists kvs, get_dpath (Dict kvs0) p = Some (Dict kvs).
Proof.
  intros kvs0 p. revert kvs0. induction p as [|k p IH]; intros kvs0.
  - simpl. split; [intros _; exists kvs0; reflexivity | reflexivity].
  - simpl. destruct (alookup k kvs0) as [c|] eqn:E.
    + destruct c as [v|kvs'|ts].
      * split; [discriminate|]. intros [kvs H]. destruct p; simpl in H; discriminate.
      * apply IH.
      * split; [discriminate|]. intros [kvs H]. destruct p; simpl in H; discriminate.
    + split; [discriminate | intros [kvs H]; discriminate].
Qed.

Lemma dict_at_dpath : forall p t,
  dict_at t p = match get_dpath t p with Some (Dict s) => Some s | _ => None end.
Proof.
  induction p as [|k p IH]; intros t; simpl.
  - destruct t; reflexivity.
  - destruct t as [v|kvs|ts]; try reflexivity.
    destruct (alookup k kvs) as [c|]; [apply IH | reflexivity].
Qed.

Lemma reduce_scope_spec : forall kvs scope, wf (Dict kvs) = true -> scope <> [] ->
  reduce_scope kvs scope = match get_dpath (Dict kvs) scope with Some (Dict sub) => sub | _ => kvs end.
Proof.
  intros kvs scope Hwf Hne. unfold reduce_scope.
  destruct scope as [|k scope]; [contradiction|].
  rewrite dict_at_dpath.
  destruct (get_dpath (Dict kvs) (k :: scope)) as [t'|] eqn:E; [|reflexivity].
  destruct t' as [v|sub|ts]; try reflexivity.
  pose proof (wf_get_dpath _ _ _ Hwf E) as Hwf'.
  rewrite aupdate_app; [reflexivity|].
  simpl. apply wf_dict_nodup. exact Hwf'.
Qed.

(* ---- list indexing ----------------------------------------------------------------------------- *)
Lemma norm_index_lt : forall z n i, norm_index z n = Some i -> (i < n)%nat.
Proof.
  intros z n i H. unfold norm_index in H.
  destruct (0 <=? z)%Z eqn:E1.
  - destruct (z <? Z.of_nat n)%Z eqn:E2; [|discriminate]. inversion H; subst. lia.
  - destruct (0 <=? z + Z.of_nat n)%Z eqn:E2; [|discriminate]. inversion H; subst. lia.
Qed.

Lemma norm_index_nonneg : forall z n, (0 <= z)%Z -> norm_index z n = if (z <? Z.of_nat n)%Z then Some (Z.to_nat z) else None.
Proof.
  intros z n Hz. unfold norm_index.
  destruct (0 <=? z)%Z eqn:E1; [reflexivity | lia].
Qed.

Lemma set_nth_length : forall {A} i (x : A) l, length (set_nth i x l) = length l.
Proof.
  intros A i x l. revert i. induction l as [|y l IH]; intros [|i]; simpl; try reflexivity.
  rewrite IH. reflexivity.
Qed.

Lemma nth_error_set_nth_same : forall {A} i (x : A) l, (i < length l)%nat -> nth_error (set_nth i x l) i = Some x.
Proof.
  intros A i x l. revert i. induction l as [|y l IH]; intros [|i] H; simpl in *; try lia; [reflexivity|].
  apply IH. lia.
Qed.

Lemma nth_error_set_nth_other : forall {A} i j (x : A) l, i <> j -> nth_error (set_nth i x l) j = nth_error l j.
Proof.
  intros A i j x l. revert i j. induction l as [|y l IH]; intros [|i] [|j] H; simpl; try reflexivity.
  - contradiction.
  - apply IH. lia.
Qed.

(* ---- child / set_child ------------------------------------------------------------------------- *)
Lemma child_set_child_same : forall t k x t', set_child t k x = Ok t' -> child t' k = Ok x.
Proof.
  intros t k x t' H. destruct t as [v|kvs|ts]; simpl in H; [discriminate| |].
  - inversion H; subst. simpl. rewrite alookup_aset_same. reflexivity.
  - destruct k as [z|s]; [|discriminate].
    destruct (norm_index z (length ts)) as [i|] eqn:E; [|discriminate].
    inversion H; subst. simpl. rewrite set_nth_length. rewrite E.
    rewrite nth_error_set_nth_same; [reflexivity|].
    apply (norm_index_lt _ _ _ E).
Qed.

Lemma child_set_child_other : forall t k1 k2 x t',
  set_child t k1 x = Ok t' -> k1 <> k2 -> nonneg_key k1 = true -> nonneg_key k2 = true ->
  child t' k2 = child t k2.
Proof.
  intros t k1 k2 x t' H Hne Hn1 Hn2. destruct t as [v|kvs|ts]; simpl in H; [discriminate| |].
  - inversion H; subst. simpl. rewrite alookup_aset_other; [reflexivity | exact Hne].
  - destruct k1 as [z1|s1]; [|discriminate].
    destruct (norm_index z1 (length ts)) as [i|] eqn:E; [|discriminate].
    inversion H; subst. simpl. destruct k2 as [z2|s2]; [|reflexivity].
    rewrite set_nth_length. simpl in Hn1, Hn2.
    rewrite norm_index_nonneg in E by lia. rewrite norm_index_nonneg by lia.
    destruct (z1 <? Z.of_nat (length ts))%Z eqn:E1; [|discriminate]. inversion E; subst.
    destruct (z2 <? Z.of_nat (length ts))%Z eqn:E2; [|reflexivity].
    rewrite nth_error_set_nth_other; [reflexivity|].
    intros Heq. apply Hne. f_equal. lia.
Qed.

Lemma sig_set_child : forall t k x t' c,
  set_child t k x = Ok t' -> child t k = Ok c -> container_sig (Some t') = container_sig (Some t).
Proof.
  intros t k x t' c H Hc. destruct t as [v|kvs|ts]; simpl in H; [discriminate| |].
  - inversion H; subst. simpl. simpl in Hc.
    destruct (alookup k kvs) as [c0|] eqn:E; [|discriminate].
    rewrite (aset_keys_present k x c0 kvs E). reflexivity.
  - destruct k as [z|s]; [|discriminate].
    destruct (norm_index z (length ts)) as [i|] eqn:E; [|discriminate].
    inversion H; subst. simpl. rewrite set_nth_length. reflexivity.
Qed.

(* ---- set_at ------------------------------------------------------------------------------------ *)
Lemma set_at_inv : forall t k p' v ii t',
  set_at t (k :: p') v ii = Ok t' ->
  exists x, set_child t k x = Ok t' /\
            ((p' = [] /\ x = v) \/
             (p' <> [] /\ exists c, child t k = Ok c /\ set_at c p' v (S ii) = Ok x)).
Proof.
  intros t k p' v ii t' H. destruct p' as [|k2 p'].
  - exists v. split; [exact H | left; split; reflexivity].
  - change (bind (child t k) (fun c =>
        if negb (is_container c) then Raise E_Key
        else if Nat.eqb (S ii) 10 then Raise E_Recursion
        else bind (set_at c (k2 :: p') v (S ii)) (fun c' => set_child t k c')) = Ok t') in H.
    destruct (child t k) as [c|e] eqn:Ec; cbn [bind] in H; [|discriminate].
    destruct (negb (is_container c)); [discriminate|].
    destruct (Nat.eqb (S ii) 10); [discriminate|].
    destruct (set_at c (k2 :: p') v (S ii)) as [x|e] eqn:Ex; cbn [bind] in H; [|discriminate].
    exists x. split; [exact H|]. right. split; [discriminate|].
    exists c. split; [reflexivity | exact Ex].
Qed.

Lemma set_at_get_same : forall p t v t' ii, p <> [] -> set_at t p v ii = Ok t' -> get_path t' p = Some v.
Proof.
  induction p as [|k p IH]; intros t v t' ii Hne H; [contradiction|].
  apply set_at_inv in H. destruct H as [x [Hset Hx]].
  simpl. rewrite (child_set_child_same _ _ _ _ Hset).
  destruct Hx as [[Hp Hxv]|[Hp [c [Hc Hrec]]]].
  - subst. reflexivity.
  - apply (IH c v x (S ii) Hp Hrec).
Qed.

Lemma set_get_same : forall t p v t', p <> [] -> set_global_key t p v = Ok t' -> get_path t' p = Some v.
Proof.
  intros t p v t' Hne H. unfold set_global_key in H. apply (set_at_get_same p t v t' 0%nat Hne H).
Qed.

Lemma app_cons_not_nil : forall {A} (r : list A) k p, r ++ k :: p <> [].
Proof. intros A r k p H. destruct r; discriminate. Qed.

Lemma set_at_get_other : forall r t v t' ii k1 k2 p' q',
  set_at t (r ++ k1 :: p') v ii = Ok t' ->
  nonneg (r ++ k1 :: p') = true -> nonneg (r ++ k2 :: q') = true -> k1 <> k2 ->
  get_path t' (r ++ k2 :: q') = get_path t (r ++ k2 :: q').
Proof.
  induction r as [|k r IH]; intros t v t' ii k1 k2 p' q' H Hn1 Hn2 Hne.
  - simpl in *. apply set_at_inv in H. destruct H as [x [Hset _]].
    apply andb_true_iff in Hn1. destruct Hn1 as [Hn1 _].
    apply andb_true_iff in Hn2. destruct Hn2 as [Hn2 _].
    rewrite (child_set_child_other _ _ _ _ _ Hset Hne Hn1 Hn2). reflexivity.
  - simpl app in *. apply set_at_inv in H. destruct H as [x [Hset Hx]].
    destruct Hx as [[Hp _]|[_ [c [Hc Hrec]]]].
    + exfalso. apply (app_cons_not_nil _ _ _ Hp).
    + simpl. rewrite (child_set_child_same _ _ _ _ Hset). rewrite Hc.
      simpl in Hn1, Hn2.
      apply andb_true_iff in Hn1. destruct Hn1 as [_ Hn1].
      apply andb_true_iff in Hn2. destruct Hn2 as [_ Hn2].
      apply (IH c v x (S ii) k1 k2 p' q' Hrec Hn1 Hn2 Hne).
Qed.

Lemma set_get_other : forall t p v t' q,
  set_global_key t p v = Ok t' -> nonneg p = true -> nonneg q = true -> diverge p q ->
  get_path t' q = get_path t q.
Proof.
  intros t p v t' q H Hn1 Hn2 [r [k1 [k2 [p' [q' [Hp [Hq Hne]]]]]]]. subst.
  unfold set_global_key in H.
  apply (set_at_get_other r t v t' 0%nat k1 k2 p' q' H Hn1 Hn2 Hne).
Qed.

Lemma set_at_keeps_shape : forall r t v t' ii k p' old,
  set_at t (r ++ k :: p') v ii = Ok t' -> get_path t (r ++ k :: p') = Some old ->
  container_sig (get_path t' r) = container_sig (get_path t r).
Proof.
  induction r as [|k0 r IH]; intros t v t' ii k p' old H Hg.
  - simpl in *. apply set_at_inv in H. destruct H as [x [Hset _]].
    destruct (child t k) as [c|e] eqn:Ec; [|discriminate].
    apply (sig_set_child _ _ _ _ _ Hset Ec).
  - simpl app in *. apply set_at_inv in H. destruct H as [x [Hset Hx]].
    destruct Hx as [[Hp _]|[_ [c [Hc Hrec]]]].
    + exfalso. apply (app_cons_not_nil _ _ _ Hp).
    + simpl. rewrite (child_set_child_same _ _ _ _ Hset). rewrite Hc.
      simpl in Hg. rewrite Hc in Hg.
      apply (IH c v x (S ii) k p' old Hrec Hg).
Qed.

Lemma set_keeps_shape : forall t p v t' old r,
  set_global_key t p v = Ok t' -> get_path t p = Some old -> strict_prefix r p ->
  container_sig (get_path t' r) = container_sig (get_path t r).
Proof.
  intros t p v t' old r H Hg [k [p' Hp]]. subst. unfold set_global_key in H.
  apply (set_at_keeps_shape r t v t' 0%nat k p' old H Hg).
Qed.

(* ---- recursion guard --------------------------------------------------------------------------- *)
Lemma child_not_recursion : forall t k, child t k <> Raise E_Recursion.
Proof.
  intros t k. destruct t as [v|kvs|ts]; simpl; try discriminate.
  - destruct (alookup k kvs); discriminate.
  - destruct k as [z|s]; [|discriminate].
    destruct (norm_index z (length ts)) as [i|]; [|discriminate].
    destruct (nth_error ts i); discriminate.
Qed.

Lemma set_child_not_recursion : forall t k x, set_child t k x <> Raise E_Recursion.
Proof.
  intros t k x. destruct t as [v|kvs|ts]; simpl; try discriminate.
  destruct k as [z|s]; [|discriminate].
  destruct (norm_index z (length ts)); discriminate.
Qed.

Lemma set_at_guard : forall p t v ii, (length p + ii <= 10)%nat -> set_at t p v ii <> Raise E_Recursion.
Proof.
  induction p as [|k p IH]; intros t v ii Hlen; [discriminate|].
  destruct p as [|k2 p].
  - apply set_child_not_recursion.
  - change (bind (child t k) (fun c =>
        if negb (is_container c) then Raise E_Key
        else if Nat.eqb (S ii) 10 then Raise E_Recursion
        else bind (set_at c (k2 :: p) v (S ii)) (fun c' => set_child t k c')) <> Raise E_Recursion).
    destruct (child t k) as [c|e] eqn:Ec; cbn [bind].
    + destruct (negb (is_container c)); [discriminate|].
      simpl in Hlen.
      destruct (Nat.eqb (S ii) 10) eqn:E10; [apply Nat.eqb_eq in E10; lia|].
      destruct (set_at c (k2 :: p) v (S ii)) as [x|e] eqn:Ex; cbn [bind].
      * apply set_child_not_recursion.
      * rewrite <- Ex. apply IH. simpl. lia.
    + rewrite <- Ec. apply child_not_recursion.
Qed.

Lemma set_guard : forall t p v, (length p <= 10)%nat -> set_global_key t p v <> Raise E_Recursion.
Proof.
  intros t p v H. unfold set_global_key. apply set_at_guard. lia.
Qed.

(* ---- find_key ---------------------------------------------------------------------------------- *)
Fixpoint find_lst (q : str) (l : list tree) (i : Z) : option (list key) :=
  match l with
  | [] => None
  | c :: l' => match find_key q c with
               | Some p => Some (KI i :: p)
               | None => find_lst q l' (i + 1)%Z
               end
  end.

Lemma find_key_lst : forall q ts, find_key q (Lst ts) = find_lst q ts 0%Z.
Proof.
  intros q ts. simpl. generalize 0%Z.
  induction ts as [|c l IH]; intros z; [reflexivity|].
  simpl. destruct (find_key q c); [reflexivity | apply IH].
Qed.

Lemma find_key_dict : forall q kvs,
  find_key q (Dict kvs) =
  match first_some (sort_kvs (map_snd (find_key q) kvs)) with
  | Some (k, p) => Some (k :: p)
  | None => None
  end.
Proof.
  intros q kvs. simpl.
  assert (Hgo : (fix go (l : list (key * tree)) : list (key * option (list key)) :=
             match l with
             | [] => []
             | (k, c) :: l' => (k, find_key q c) :: go l'
             end) kvs = map_snd (find_key q) kvs).
  { induction kvs as [|[k c] l IH]; [reflexivity|]. rewrite IH. reflexivity. }
  rewrite Hgo. reflexivity.
Qed.

Lemma first_some_in : forall {A} (l : list (key * option (list A))) k p,
  first_some l = Some (k, p) -> In (k, Some p) l.
Proof.
  intros A l k p. induction l as [|[k1 [p1|]] l IH]; simpl; intros H; [discriminate| |].
  - inversion H; subst. left. reflexivity.
  - right. apply IH. exact H.
Qed.

Lemma first_some_none : forall {A} (l : list (key * option (list A))) k o,
  first_some l = None -> In (k, o) l -> o = None.
Proof.
  intros A l k o. induction l as [|[k1 [p1|]] l IH]; simpl; intros H Hin; [contradiction|discriminate|].
  destruct Hin as [Heq|Hin]; [inversion Heq; reflexivity | apply IH; assumption].
Qed.

Lemma find_lst_some : forall q l i path, find_lst q l i = Some path ->
  exists j c p, path = KI (i + Z.of_nat j) :: p /\ nth_error l j = Some c /\ find_key q c = Some p.
Proof.
  intros q l. induction l as [|c l IH]; intros i path H; simpl in H; [discriminate|].
  destruct (find_key q c) as [p|] eqn:E.
  - inversion H; subst. exists 0%nat, c, p. split; [|split; [reflexivity | exact E]].
    f_equal. f_equal. lia.
  - apply IH in H. destruct H as [j [c' [p [Hpath [Hnth Hf]]]]].
    exists (S j), c', p. split; [|split; [exact Hnth | exact Hf]].
    subst. f_equal. f_equal. lia.
Qed.

Lemma find_lst_none : forall q l i c, find_lst q l i = None -> In c l -> find_key q c = None.
Proof.
  intros q l. induction l as [|c0 l IH]; intros i c H Hin; simpl in *; [contradiction|].
  destruct (find_key q c0) as [p|] eqn:E; [discriminate|].
  destruct Hin as [Heq|Hin]; [subst; exact E | apply (IH _ _ H Hin)].
Qed.

Lemma find_key_sound : forall q t p, wf t = true -> find_key q t = Some p ->
  exists v, get_path t p = Some (Leaf v) /\ contains q (py_str v) = true.
Proof.
  intros q. induction t as [v|kvs IH|ts IH] using tree_ind'; intros p Hwf H.
  - simpl in H. destruct (contains q (py_str v)) eqn:E; [|discriminate].
    inversion H; subst. exists v. split; [reflexivity | exact E].
  - rewrite find_key_dict in H.
    destruct (first_some (sort_kvs (map_snd (find_key q) kvs))) as [[k p0]|] eqn:E; [|discriminate].
    inversion H; subst. clear H.
    apply first_some_in in E.
    apply (Permutation_in _ (sort_kvs_perm _)) in E.
    unfold map_snd in E. apply in_map_iff in E. destruct E as [[k1 c] [Heq Hin]].
    simpl in Heq. inversion Heq; subst. clear Heq.
    rewrite Forall_forall in IH.
    destruct (IH (k, c) Hin p0 (wf_dict_child _ _ _ Hwf Hin) H1) as [v [Hg Hc]].
    exists v. split; [|exact Hc].
    simpl. rewrite (in_alookup_nodup k kvs c (wf_dict_nodup _ Hwf) Hin). exact Hg.
  - rewrite find_key_lst in H. apply find_lst_some in H.
    destruct H as [j [c [p0 [Hpath [Hnth Hf]]]]]. subst.
    rewrite wf_lst in Hwf. rewrite forallb_forall in Hwf.
    pose proof (nth_error_In _ _ Hnth) as Hin.
    rewrite Forall_forall in IH.
    destruct (IH c Hin p0 (Hwf c Hin) Hf) as [v [Hg Hc]].
    exists v. split; [|exact Hc].
    assert (Hlt : (j < length ts)%nat) by (apply nth_error_Some; rewrite Hnth; discriminate).
    simpl. rewrite norm_index_nonneg by lia.
    destruct (Z.of_nat j <? Z.of_nat (length ts))%Z eqn:E; [|lia].
    rewrite Nat2Z.id. rewrite Hnth. exact Hg.
Qed.

Lemma find_sound : forall q t p, wf t = true -> find_global_key q t = Some p ->
  exists v, get_path t p = Some (Leaf v) /\ contains q (py_str v) = true.
Proof.
  intros q t p Hwf H. apply find_key_sound; [exact Hwf|].
  unfold find_global_key in H. destruct t as [v|kvs|ts]; [discriminate| |].
  - destruct (find_key q (Dict kvs)) as [[|k0 p0]|]; [discriminate | exact H | discriminate].
  - destruct (find_key q (Lst ts)) as [[|k0 p0]|]; [discriminate | exact H | discriminate].
Qed.

Lemma child_lst_in : forall ts k c, child (Lst ts) k = Ok c -> In c ts.
Proof.
  intros ts k c H. simpl in H. destruct k as [z|s]; [|discriminate].
  destruct (norm_index z (length ts)) as [i|]; [|discriminate].
  destruct (nth_error ts i) as [c0|] eqn:E; [|discriminate].
  inversion H; subst. apply (nth_error_In _ _ E).
Qed.

Lemma find_key_complete : forall q t, find_key q t = None ->
  forall p v, get_path t p = Some (Leaf v) -> contains q (py_str v) = false.
Proof.
  intros q. induction t as [v0|kvs IH|ts IH] using tree_ind'; intros H p v Hg.
  - destruct p as [|k p]; simpl in Hg; [|discriminate].
    inversion Hg; subst. simpl in H.
    destruct (contains q (py_str v)); [discriminate | reflexivity].
  - destruct p as [|k p]; simpl in Hg; [discriminate|].
    destruct (alookup k kvs) as [c|] eqn:E; [|discriminate].
    apply alookup_in in E.
    rewrite find_key_dict in H.
    destruct (first_some (sort_kvs (map_snd (find_key q) kvs))) as [[k0 p0]|] eqn:Ef; [discriminate|].
    assert (Hin : In (k, find_key q c) (sort_kvs (map_snd (find_key q) kvs))).
    { apply (Permutation_in _ (Permutation_sym (sort_kvs_perm _))).
      unfold map_snd. apply in_map_iff. exists (k, c). split; [reflexivity | exact E]. }
    pose proof (first_some_none _ _ _ Ef Hin) as Hnone.
    rewrite Forall_forall in IH. apply (IH (k, c) E Hnone p v Hg).
  - destruct p as [|k p]; [simpl in Hg; discriminate|].
    change (match child (Lst ts) k with Ok c => get_path c p | Raise _ => None end = Some (Leaf v)) in Hg.
    destruct (child (Lst ts) k) as [c|e] eqn:Ec; [|discriminate].
    apply child_lst_in in Ec.
    rewrite find_key_lst in H.
    pose proof (find_lst_none _ _ _ _ H Ec) as Hnone.
    rewrite Forall_forall in IH. apply (IH c Ec Hnone p v Hg).
Qed.

Lemma find_lst_not_nil : forall q l i, find_lst q l i <> Some [].
Proof.
  intros q l. induction l as [|c l IH]; intros i; simpl; [discriminate|].
  destruct (find_key q c); [discriminate | apply IH].
Qed.

Lemma find_complete : forall q t, is_container t = true -> find_global_key q t = None ->
  forall p v, get_path t p = Some (Leaf v) -> contains q (py_str v) = false.
Proof.
  intros q t Hc H. apply find_key_complete.
  unfold find_global_key in H. destruct t as [v|kvs|ts]; [discriminate| |].
  - destruct (find_key q (Dict kvs)) as [[|k0 p0]|] eqn:E; [|discriminate|reflexivity].
    exfalso. rewrite find_key_dict in E.
    destruct (first_some (sort_kvs (map_snd (find_key q) kvs))) as [[k p]|]; discriminate.
  - destruct (find_key q (Lst ts)) as [[|k0 p0]|] eqn:E; [|discriminate|reflexivity].
    exfalso. rewrite find_key_lst in E. apply (find_lst_not_nil _ _ _ E).
Qed.
