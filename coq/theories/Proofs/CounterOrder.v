(* C08, counter independence with order = TRUE (SDict.order_keys), as long as the ids do not straddle the wrap-around.
   order_keys sorts the keys of every dict level (ints first, then strings in code point order), placeholder keys included,
   and the id tables by id.  The renaming  id |-> (id + d) mod 10^6  commutes with the sort when
     - it is monotone on the ids that occur (no wrap between them), and
     - every key is either EXACTLY one renamed placeholder (word + six digits) or a key the renaming leaves alone that does
       not begin with a renamed word followed by a digit (key_pure): then every comparison between two keys is decided
       either before the digits, or between two six digit ids of the same word. *)
From Coq Require Import String.
From Coq Require Import NArith ZArith Bool Lia ZifyBool ZifyN ZifyNat.
From DictIO Require Import Chars Str Value Scalar KeyPath SDict Layout Lexer TokParser Reader MiscSpec CliProofs.
From DictIO Require Import Expr Eval Cli.
From DictIO Require Parse.
From DictIO Require ScalarProofs LayoutProofs.
From DictIO Require Import CounterBase CounterLex CounterParse CounterProofs CounterRead CounterWrite CounterWriteWeak.
From Coq Require Import List.
Import ListNotations.
Open Scope N_scope.

(* ================================================================================================ *)
(* 1. the vocabulary                                                                                *)
(* ================================================================================================ *)
(* s is exactly  w ++ six digits  for one of the four renamed words: Some (w, id) *)
Definition ph_id (s : str) : option (str * N) :=
  match ph_word s with
  | Some w => if Nat.eqb (length s) (length w + 6) then Some (w, dec_to_N (drop_n (length w) s)) else None
  | None => None
  end.
(* s begins with the word w followed by a digit *)
Definition word_dig (w s : str) : bool :=
  starts_with w s && match drop_n (length w) s with c :: _ => is_digit c | [] => false end.
(* s does not begin with a renamed word followed by a digit *)
Definition nowd (s : str) : bool := forallb (fun w => negb (word_dig w s)) shifted_words.
(* the renaming leaves s alone, and s does not begin with a renamed word followed by a digit *)
Definition free (s : str) : bool := cleanb s && nowd s.

(* the scan of the renaming (rn in CounterBase): at a renamed placeholder (word + six digits) take its id and skip it,
   elsewhere look at the suffix and go on with the next character *)
Section Scan.
  Context {A : Type} (fnil : A) (fch : str -> A -> A) (fph : N -> A -> A).
  Fixpoint scan (fuel : nat) (s : str) : A :=
    match fuel with
    | O => fnil
    | S f =>
        match s with
        | [] => fnil
        | _ :: s' =>
            match ph_word s with
            | Some w => fph (dec_to_N (take_n 6 (drop_n (length w) s))) (scan f (drop_n (length w + 6) s))
            | None => fch s (scan f s')
            end
        end
    end.
  Definition scan_str (s : str) : A := scan (length s) s.

  Lemma scan_fuel : forall f1 f2 s, (length s <= f1)%nat -> (length s <= f2)%nat -> scan f1 s = scan f2 s.
  Proof.
    induction f1 as [|f1 IH]; intros f2 s H1 H2.
    - destruct s; [|cbn in H1; lia]. destruct f2; reflexivity.
    - destruct f2 as [|f2]; [destruct s; [reflexivity|cbn in H2; lia]|].
      destruct s as [|c s]; [reflexivity|]. cbn [scan]. cbn [length] in H1, H2.
      destruct (ph_word (c :: s)) as [w|] eqn:E.
      + f_equal. apply IH; rewrite drop_n_length; cbn [length]; lia.
      + f_equal. apply IH; lia.
  Qed.
  Lemma scan_nil : scan_str [] = fnil.
  Proof. reflexivity. Qed.
  Lemma scan_char (c : N) (s : list N) : ph_word (c :: s) = None -> scan_str (c :: s) = fch (c :: s) (scan_str s).
  Proof. intros H. unfold scan_str. cbn [length scan]. rewrite H. reflexivity. Qed.
  Lemma scan_ph (w ds r : list N) : In w shifted_words -> length ds = 6%nat -> forallb is_digit ds = true ->
    scan_str (w ++ ds ++ r) = fph (dec_to_N ds) (scan_str r).
  Proof.
    intros Hin L D. unfold scan_str.
    destruct (all_words_upper w (shifted_all w Hin)) as [_ Hne].
    assert (T : take_n 6 (ds ++ r) = ds) by (rewrite <- L; apply take_n_app).
    assert (Dr : drop_n 6 (ds ++ r) = r) by (rewrite <- L; apply drop_n_app).
    pose proof (ph_word_intro w ds r Hin L D) as Hw.
    assert (Hlen : length (w ++ ds ++ r) = (length w + 6 + length r)%nat) by (rewrite !app_length; lia).
    destruct (w ++ ds ++ r) as [|c s0] eqn:Es.
    { destruct w; [congruence|discriminate Es]. }
    cbn [length scan]. rewrite Hw. rewrite <- Es. rewrite drop_n_plus, !drop_n_app. unfold cp in *. rewrite T, Dr.
    f_equal. apply scan_fuel; [cbn [length] in Hlen; lia|lia].
  Qed.
End Scan.

(* every renamed word of s that is followed by a digit is a whole placeholder, with an id in inI *)
Definition str_scan (inI : N -> bool) (s : str) : bool := scan_str true (fun t r => nowd t && r) (fun i r => inI i && r) s.
(* the ids of the renamed placeholders in s *)
Definition str_ids (s : str) : list N := scan_str [] (fun _ r => r) (fun i r => i :: r) s.

(* [inI] : the set of ids on which the shift has to be monotone.  Two ways for a key to be good:
   key_exact: it IS one renamed placeholder, or it is free;
   key_scan:  it is any text in which the renamed words that are followed by a digit are whole placeholders
              (a placeholder glued to other characters, as the lexer produces them). *)
Definition key_exact (inI : N -> bool) (k : key) : bool :=
  match k with
  | KI _ => true
  | KS s => match ph_id s with Some (_, i) => inI i | None => free s end
  end.
Definition key_scan (inI : N -> bool) (k : key) : bool :=
  match k with KI _ => true | KS s => str_scan inI s end.

(* the dict levels order_keys sorts: those reachable through dicts (lists are left alone) *)
Fixpoint pure_t (KP : key -> bool) (t : tree) : bool :=
  match t with
  | Dict kvs => (fix go (l : list (key * tree)) : bool :=
                   match l with
                   | [] => true
                   | (k, c) :: l' => KP k && match c with Dict _ => pure_t KP c | _ => true end && go l'
                   end) kvs
  | _ => true
  end.
(* all keys good in the first way, or all keys good in the second way *)
Definition keys_ok (inI : N -> bool) (t : tree) : bool := pure_t (key_exact inI) t || pure_t (key_scan inI) t.
Definition tab_in {V} (inI : N -> bool) (t : list (N * V)) : bool := forallb (fun e => inI (fst e)) t.
Definition order_ok (inI : N -> bool) (s : sdict) : bool :=
  keys_ok inI (Dict (sd_data s)) && tab_in inI (sd_lc s) && tab_in inI (sd_inc s) && tab_in inI (sd_expr s).

(* the id does not wrap: ids of seven digits and more are not touched by the renaming *)
Definition nowrapb (d : Z) (i : N) : bool :=
  (1000000 <=? i) || ((0 <=? Z.of_N i + d)%Z && (Z.of_N i + d <? 1000000)%Z).
(* the keys alone *)
Definition keys_pure (s : sdict) : bool := keys_ok (fun _ => true) (Dict (sd_data s)).

Definition sub1 (KP : key -> bool) (c : tree) : bool := match c with Dict _ => pure_t KP c | _ => true end.
Lemma pure_t_dict KP kvs : pure_t KP (Dict kvs) = forallb (fun kc => KP (fst kc) && sub1 KP (snd kc)) kvs.
Proof. cbn [pure_t]. induction kvs as [|[k c] kvs IH]; [reflexivity|]. cbn [forallb fst snd]. rewrite IH. reflexivity. Qed.

Lemma str_scan_nil inI : str_scan inI [] = true.
Proof. reflexivity. Qed.
Lemma str_scan_char inI (c : N) (s : list N) : ph_word (c :: s) = None -> str_scan inI (c :: s) = nowd (c :: s) && str_scan inI s.
Proof. intros H. unfold str_scan. rewrite scan_char by exact H. reflexivity. Qed.
Lemma str_scan_ph inI (w ds r : list N) : In w shifted_words -> length ds = 6%nat -> forallb is_digit ds = true ->
  str_scan inI (w ++ ds ++ r) = inI (dec_to_N ds) && str_scan inI r.
Proof. intros Hw L D. unfold str_scan. rewrite scan_ph by assumption. reflexivity. Qed.
Lemma str_ids_char (c : N) (s : list N) : ph_word (c :: s) = None -> str_ids (c :: s) = str_ids s.
Proof. intros H. unfold str_ids. rewrite scan_char by exact H. reflexivity. Qed.
Lemma str_ids_ph (w ds r : list N) : In w shifted_words -> length ds = 6%nat -> forallb is_digit ds = true ->
  str_ids (w ++ ds ++ r) = dec_to_N ds :: str_ids r.
Proof. intros Hw L D. unfold str_ids. rewrite scan_ph by assumption. reflexivity. Qed.

(* ================================================================================================ *)
(* 2. comparing strings                                                                             *)
(* ================================================================================================ *)
Lemma str_ltb_app (w x y : str) : str_ltb (w ++ x) (w ++ y) = str_ltb x y.
Proof. induction w as [|c w IH]; [reflexivity|]. cbn [app str_ltb]. rewrite N.ltb_irrefl. exact IH. Qed.

Lemma dec_to_N_acc (s : str) : forall acc, fold_left (fun a c => 10 * a + digit_val c) s acc = acc * 10 ^ N.of_nat (length s) + dec_to_N s.
Proof.
  unfold dec_to_N. induction s as [|c s IH]; intros acc; [cbn; lia|].
  cbn [fold_left length]. rewrite IH, (IH (10 * 0 + digit_val c)). rewrite Nat2N.inj_succ, N.pow_succ_r'. lia.
Qed.
Lemma dec_to_N_cons c (s : str) : dec_to_N (c :: s) = digit_val c * 10 ^ N.of_nat (length s) + dec_to_N s.
Proof. unfold dec_to_N at 1. cbn [fold_left]. rewrite dec_to_N_acc. lia. Qed.

(* digit strings of the same length: string order = numeric order *)
Lemma str_ltb_digits : forall a b : str, length a = length b -> forallb is_digit a = true -> forallb is_digit b = true ->
  str_ltb a b = (dec_to_N a <? dec_to_N b).
Proof.
  induction a as [|x a IH]; intros [|y b] L Ha Hb; try discriminate L; [reflexivity|].
  cbn [forallb] in Ha, Hb. apply andb_true_iff in Ha, Hb. destruct Ha as [Hx Ha], Hb as [Hy Hb]. cbn [length] in L.
  cbn [str_ltb]. rewrite !dec_to_N_cons. rewrite (IH b) by (try assumption; lia).
  pose proof (dec_to_N_bound a Ha) as Ba. pose proof (dec_to_N_bound b Hb) as Bb.
  replace (length b) with (length a) in * by lia. set (P := 10 ^ N.of_nat (length a)) in *.
  unfold is_digit, digit_val in *.
  destruct (x <? y) eqn:E1.
  - symmetry. apply N.ltb_lt. nia.
  - destruct (y <? x) eqn:E2.
    + symmetry. apply N.ltb_ge. nia.
    + assert (x = y) by lia. subst y. destruct (dec_to_N a <? dec_to_N b) eqn:E3; symmetry; [apply N.ltb_lt|apply N.ltb_ge]; nia.
Qed.

Lemma str_ltb_pad6 i j : i < 1000000 -> j < 1000000 -> str_ltb (pad6 i) (pad6 j) = (i <? j).
Proof.
  intros Hi Hj. rewrite str_ltb_digits; [rewrite !LayoutProofs.dec_to_N_pad6; reflexivity| | |].
  - rewrite !pad6_len by assumption. reflexivity.
  - apply pad6_dig. exact Hi.
  - apply pad6_dig. exact Hj.
Qed.

(* two different renamed words differ in their first letter *)
Lemma str_ltb_words w w' (x y x' y' : str) : In w shifted_words -> In w' shifted_words -> w <> w' ->
  str_ltb (w ++ x) (w' ++ y) = str_ltb (w ++ x') (w' ++ y').
Proof.
  intros Hw Hw' Hne. unfold shifted_words in Hw, Hw'. cbn [In] in Hw, Hw'.
  destruct Hw as [<-|[<-|[<-|[<-|[]]]]]; destruct Hw' as [<-|[<-|[<-|[<-|[]]]]]; try congruence; reflexivity.
Qed.

(* a placeholder against a string that does not begin with its word followed by a digit: decided before the digits,
   also when the digits of that string are replaced by other digits *)
Lemma str_ltb_ph_free : forall (w : str) a ds a' ds' (y y' : str), forallb is_upper w = true ->
  is_digit a = true -> is_digit a' = true -> word_dig w y = false -> dsim y y' ->
  str_ltb (w ++ a :: ds) y = str_ltb (w ++ a' :: ds') y' /\ str_ltb y (w ++ a :: ds) = str_ltb y' (w ++ a' :: ds').
Proof.
  induction w as [|x w IH]; intros a ds a' ds' y y' U Ha Ha' Hy Hd.
  - cbn [app]. destruct Hd as [|c c' y y' Hc _]; [split; reflexivity|]. unfold word_dig in Hy. cbn [starts_with length drop_n andb] in Hy.
    destruct Hc as [<-|[Hc1 _]]; [|congruence].
    cbn [str_ltb]. unfold is_digit in *.
    assert (E1 : (a <? c) = (a' <? c)) by lia. assert (E2 : (c <? a) = (c <? a')) by lia. rewrite E1, E2.
    destruct (a' <? c) eqn:F1; destruct (c <? a') eqn:F2; try (split; reflexivity). lia.
  - cbn [forallb] in U. apply andb_true_iff in U. destruct U as [Ux U].
    destruct Hd as [|c c' y y' Hc Hd]; [split; reflexivity|]. cbn [app str_ltb].
    destruct Hc as [<-|[Hc1 Hc2]].
    + destruct (x <? c) eqn:E1; [split; [reflexivity|]|].
      * destruct (c <? x); reflexivity.
      * destruct (c <? x) eqn:E2; [split; reflexivity|].
        assert (x = c) by lia. subst c. unfold word_dig in Hy. cbn [starts_with length drop_n] in Hy. rewrite N.eqb_refl in Hy. cbn [andb] in Hy.
        exact (IH a ds a' ds' y y' U Ha Ha' Hy Hd).
    + unfold is_upper, is_digit in Ux, Hc1, Hc2.
      assert (F1 : (x <? c) = false) by lia. assert (F2 : (c <? x) = true) by lia.
      assert (F3 : (x <? c') = false) by lia. assert (F4 : (c' <? x) = true) by lia. rewrite F1, F2, F3, F4. split; reflexivity.
Qed.

Lemma str_ltb_nil_r (x : str) : str_ltb x [] = false.
Proof. destruct x; reflexivity. Qed.
Lemma str_ltb_nil_dsim (y y' : str) : dsim y y' -> str_ltb [] y = str_ltb [] y'.
Proof. destruct 1; reflexivity. Qed.

(* different prefixes of the same length decide *)
Lemma str_ltb_app_len : forall (a b u v : str), length a = length b -> a <> b -> str_ltb (a ++ u) (b ++ v) = str_ltb a b.
Proof.
  induction a as [|x a IH]; intros [|y b] u v L Hne; try discriminate L; [congruence|].
  cbn [app str_ltb]. destruct (x <? y) eqn:E1; [reflexivity|]. destruct (y <? x) eqn:E2; [reflexivity|].
  assert (x = y) by lia. subst y. apply IH; [cbn [length] in L; lia|congruence].
Qed.

Lemma str_cases (y : list N) :
  y = [] \/ (exists (c : N) (y' : list N), y = c :: y' /\ ph_word y = None) \/
  (exists w ds r : list N, In w shifted_words /\ length ds = 6%nat /\ forallb is_digit ds = true /\ y = w ++ ds ++ r).
Proof.
  destruct y as [|c y]; [left; reflexivity|]. right. destruct (ph_word (c :: y)) as [w|] eqn:E.
  - right. destruct (ph_word_some _ _ E) as (Hin & ds & r & Es & L & D). exists w, ds, r. repeat split; assumption.
  - left. exists c, y. split; reflexivity.
Qed.

(* ================================================================================================ *)
(* 3. the shape of a pure placeholder key                                                           *)
(* ================================================================================================ *)
Lemma ph_id_some s w i : ph_id s = Some (w, i) -> In w shifted_words /\ i < 1000000 /\ s = w ++ pad6 i.
Proof.
  unfold ph_id. destruct (ph_word s) as [w0|] eqn:E; [|discriminate].
  destruct (Nat.eqb (length s) (length w0 + 6)) eqn:El; [|discriminate]. intros H. injection H as <- <-.
  destruct (ph_word_some _ _ E) as (Hin & ds & r & Es & L & D). apply Nat.eqb_eq in El.
  rewrite Es, !app_length in El. assert (r = []) by (destruct r; [reflexivity|cbn [length] in El; lia]). subst r.
  rewrite app_nil_r in Es. subst s. rewrite drop_n_app. split; [exact Hin|]. split; [exact (dec6_bound ds L D)|].
  rewrite pad6_dec by assumption. reflexivity.
Qed.

Lemma pad6_cons i : i < 1000000 -> exists a ds, pad6 i = a :: ds /\ is_digit a = true.
Proof.
  intros Hi. pose proof (pad6_len i Hi) as L. pose proof (pad6_dig i Hi) as D.
  destruct (pad6 i) as [|a ds]; [discriminate L|]. exists a, ds. split; [reflexivity|].
  cbn [forallb] in D. apply andb_true_iff in D. exact (proj1 D).
Qed.

Lemma nowd_spec s : nowd s = true -> forall w, In w shifted_words -> word_dig w s = false.
Proof. unfold nowd. rewrite forallb_forall. intros H w Hw. specialize (H w Hw). apply negb_true_iff in H. exact H. Qed.

Lemma free_parts s : free s = true -> cleanb s = true /\ forall w, In w shifted_words -> word_dig w s = false.
Proof.
  unfold free, nowd. intros H. apply andb_true_iff in H. destruct H as [H1 H2]. split; [exact H1|].
  rewrite forallb_forall in H2. intros w Hw. specialize (H2 w Hw). apply negb_true_iff in H2. exact H2.
Qed.

(* ================================================================================================ *)
(* 4. the renaming keeps the order of pure keys                                                     *)
(* ================================================================================================ *)
Section Order.
Variable d : Z.
Variable inI : N -> bool.
Hypothesis Hmono : forall i j, inI i = true -> inI j = true -> (shift d i <? shift d j) = (i <? j).
Local Notation R := (rename_str d).

Lemma R_ph w i : In w shifted_words -> i < 1000000 -> R (w ++ pad6 i) = w ++ pad6 (shift d i).
Proof.
  intros Hw Hi. pose proof (rename_placeholder d w i [] Hw Hi) as H. unfold placeholder in H.
  rewrite rename_nil, !app_nil_r in H. exact H.
Qed.

Lemma pad6_neq i j : i < 1000000 -> j < 1000000 -> i <> j -> pad6 (shift d i) <> pad6 (shift d j).
Proof.
  intros Hi Hj Hne E. apply Hne. apply (shift_inj d). rewrite <- (LayoutProofs.dec_to_N_pad6 (shift d i)), <- (LayoutProofs.dec_to_N_pad6 (shift d j)), E.
  reflexivity.
Qed.

(* (A) keys that are exactly a placeholder, or free *)
Lemma str_ltb_exact (x y : str) : key_exact inI (KS x) = true -> key_exact inI (KS y) = true -> str_ltb (R x) (R y) = str_ltb x y.
Proof.
  intros Hx Hy. cbn [key_exact] in Hx, Hy.
  destruct (ph_id x) as [[w i]|] eqn:Ex; destruct (ph_id y) as [[w' j]|] eqn:Ey.
  - destruct (ph_id_some _ _ _ Ex) as (Hw & Hi & ->). destruct (ph_id_some _ _ _ Ey) as (Hw' & Hj & ->).
    rewrite !R_ph by assumption.
    destruct (list_eq_dec N.eq_dec w w') as [<-|Hne].
    + rewrite !str_ltb_app. rewrite !str_ltb_pad6 by (try assumption; apply shift_lt; assumption). apply Hmono; assumption.
    + apply str_ltb_words; assumption.
  - destruct (ph_id_some _ _ _ Ex) as (Hw & Hi & ->). destruct (free_parts y Hy) as [Hc Hd].
    rewrite R_ph by assumption. rewrite (rename_clean d y Hc).
    destruct (pad6_cons i Hi) as (a & ds & -> & Ha). destruct (pad6_cons (shift d i) (shift_lt d i Hi)) as (a' & ds' & -> & Ha').
    exact (proj1 (str_ltb_ph_free w a' ds' a ds y y (proj1 (all_words_upper w (shifted_all w Hw))) Ha' Ha (Hd w Hw) (dsim_refl y))).
  - destruct (ph_id_some _ _ _ Ey) as (Hw & Hi & ->). destruct (free_parts x Hx) as [Hc Hd].
    rewrite R_ph by assumption. rewrite (rename_clean d x Hc).
    destruct (pad6_cons j Hi) as (a & ds & -> & Ha). destruct (pad6_cons (shift d j) (shift_lt d j Hi)) as (a' & ds' & -> & Ha').
    exact (proj2 (str_ltb_ph_free w' a' ds' a ds x x (proj1 (all_words_upper w' (shifted_all w' Hw))) Ha' Ha (Hd w' Hw) (dsim_refl x))).
  - destruct (free_parts x Hx) as [Hc _]. destruct (free_parts y Hy) as [Hc' _].
    rewrite (rename_clean d x Hc), (rename_clean d y Hc'). reflexivity.
Qed.

(* (B) any keys in which the renamed words followed by a digit are whole placeholders: the two strings are scanned together *)
Lemma digits_cons (ds : str) : length ds = 6%nat -> forallb is_digit ds = true -> exists a t, ds = a :: t /\ is_digit a = true.
Proof.
  intros L D. destruct ds as [|a t]; [discriminate L|]. exists a, t. split; [reflexivity|].
  cbn [forallb] in D. apply andb_true_iff in D. exact (proj1 D).
Qed.

Lemma R_ph_form (w ds r : list N) : In w shifted_words -> length ds = 6%nat -> forallb is_digit ds = true ->
  exists a' t', R (w ++ ds ++ r) = w ++ (a' :: t') ++ R r /\ a' :: t' = pad6 (shift d (dec_to_N ds)) /\ is_digit a' = true.
Proof.
  intros Hw L D. rewrite rename_ph by assumption.
  destruct (pad6_cons _ (shift_lt d _ (dec6_bound ds L D))) as (a' & t' & E & Ha'). exists a', t'. rewrite E. repeat split. exact Ha'.
Qed.

Lemma str_ltb_scan : forall x y : list N, str_scan inI x = true -> str_scan inI y = true -> str_ltb (R x) (R y) = str_ltb x y.
Proof.
  induction x as [|c x Hn IH|w ds x Hw L D IH] using str_ph_ind; intros y Hx Hy.
  - rewrite rename_nil. symmetry. apply str_ltb_nil_dsim. apply dsim_rename.
  - rewrite str_scan_char in Hx by exact Hn. apply andb_true_iff in Hx. destruct Hx as [Hx0 Hx].
    destruct (str_cases y) as [->|[(c' & y' & -> & Hn')|(w' & ds' & r & Hw' & L' & D' & ->)]].
    + rewrite rename_nil, !str_ltb_nil_r. reflexivity.
    + rewrite str_scan_char in Hy by exact Hn'. apply andb_true_iff in Hy. destruct Hy as [_ Hy].
      rewrite !rename_char by assumption. cbn [str_ltb]. rewrite (IH y' Hx Hy). reflexivity.
    + destruct (R_ph_form w' ds' r Hw' L' D') as (a' & t' & E & _ & Ha'). rewrite E.
      destruct (digits_cons ds' L' D') as (a & t & -> & Ha). cbn [app].
      symmetry.
      exact (proj2 (str_ltb_ph_free w' a (t ++ r) a' (t' ++ R r) (c :: x) (R (c :: x)) (proj1 (all_words_upper w' (shifted_all w' Hw')))
                     Ha Ha' (nowd_spec _ Hx0 w' Hw') (dsim_rename d _))).
  - rewrite str_scan_ph in Hx by assumption. apply andb_true_iff in Hx. destruct Hx as [Hxi Hx].
    destruct (str_cases y) as [->|[(c' & y' & -> & Hn')|(w' & ds' & r & Hw' & L' & D' & ->)]].
    + rewrite rename_nil, !str_ltb_nil_r. reflexivity.
    + rewrite str_scan_char in Hy by exact Hn'. apply andb_true_iff in Hy. destruct Hy as [Hy0 _].
      destruct (R_ph_form w ds x Hw L D) as (a' & t' & E & _ & Ha'). rewrite E.
      destruct (digits_cons ds L D) as (a & t & -> & Ha). cbn [app].
      symmetry.
      exact (proj1 (str_ltb_ph_free w a (t ++ x) a' (t' ++ R x) (c' :: y') (R (c' :: y')) (proj1 (all_words_upper w (shifted_all w Hw)))
                     Ha Ha' (nowd_spec _ Hy0 w Hw) (dsim_rename d _))).
    + rewrite str_scan_ph in Hy by assumption. apply andb_true_iff in Hy. destruct Hy as [Hyi Hy].
      rewrite !rename_ph by assumption.
      destruct (list_eq_dec N.eq_dec w w') as [<-|Hne]; [|apply str_ltb_words; assumption].
      rewrite !str_ltb_app.
      pose proof (dec6_bound ds L D) as Bi. pose proof (dec6_bound ds' L' D') as Bj.
      destruct (list_eq_dec N.eq_dec ds ds') as [<-|Hds].
      * rewrite !str_ltb_app. exact (IH r Hx Hy).
      * assert (Hij : dec_to_N ds <> dec_to_N ds').
        { intros E. apply Hds. apply dec_to_N_inj; [congruence|assumption|assumption|exact E]. }
        rewrite !str_ltb_app_len; [| congruence | exact Hds | rewrite !pad6_len by (apply shift_lt; assumption); reflexivity | apply pad6_neq; assumption].
        rewrite str_ltb_pad6 by (apply shift_lt; assumption). rewrite str_ltb_digits by (try assumption; congruence).
        apply Hmono; assumption.
Qed.

(* ---- the stable insertion sort of one level, for a key predicate under which the renaming keeps the key order ---------- *)
Section Sort.
Variable KP : key -> bool.
Hypothesis HKP : forall a b, KP a = true -> KP b = true -> key_ltb (Rk d a) (Rk d b) = key_ltb a b.

Lemma key_leb_R a b : KP a = true -> KP b = true -> key_leb (Rk d a) (Rk d b) = key_leb a b.
Proof. intros Ha Hb. unfold key_leb. rewrite HKP by assumption. reflexivity. Qed.

Definition kp {V} (kv : key * V) : bool := KP (fst kv).

Lemma insert_kv_R {V} (f : V -> V) k v (l : list (key * V)) : KP k = true -> forallb kp l = true ->
  insert_kv (Rk d k, f v) (Rkv d f l) = Rkv d f (insert_kv (k, v) l).
Proof.
  intros Hk. induction l as [|[k' v'] l IH]; intros Hl; [reflexivity|].
  cbn [forallb] in Hl. apply andb_true_iff in Hl. destruct Hl as [H1 H2]. unfold kp in H1. cbn [fst] in H1.
  rewrite Rkv_cons. cbn [insert_kv fst]. rewrite key_leb_R by assumption.
  destruct (key_leb k k'); [rewrite !Rkv_cons; reflexivity|]. rewrite Rkv_cons, (IH H2). reflexivity.
Qed.

Lemma forallb_insert_kv {V} (p : key * V -> bool) kv (l : list (key * V)) : forallb p (insert_kv kv l) = p kv && forallb p l.
Proof.
  induction l as [|kv' l IH]; [reflexivity|]. cbn [insert_kv]. destruct (key_leb (fst kv) (fst kv')); [reflexivity|].
  cbn [forallb]. rewrite IH. destruct (p kv), (p kv'); reflexivity.
Qed.
Lemma forallb_sort_kvs {V} (p : key * V -> bool) (l : list (key * V)) : forallb p (sort_kvs l) = forallb p l.
Proof. induction l as [|kv l IH]; [reflexivity|]. cbn [sort_kvs forallb]. rewrite forallb_insert_kv, IH. reflexivity. Qed.

Lemma sort_kvs_R {V} (f : V -> V) (l : list (key * V)) : forallb kp l = true -> sort_kvs (Rkv d f l) = Rkv d f (sort_kvs l).
Proof.
  induction l as [|[k v] l IH]; intros Hl; [reflexivity|].
  cbn [forallb] in Hl. apply andb_true_iff in Hl. destruct Hl as [H1 H2]. rewrite Rkv_cons. cbn [sort_kvs]. rewrite (IH H2).
  apply insert_kv_R; [exact H1|]. rewrite forallb_sort_kvs. exact H2.
Qed.

(* ---- order_tree ---------------------------------------------------------------------------------- *)
Definition ord1 (c : tree) : tree := match c with Dict _ => order_tree c | _ => c end.
Lemma order_tree_dict kvs : order_tree (Dict kvs) = Dict (sort_kvs (map (fun kc => (fst kc, ord1 (snd kc))) kvs)).
Proof.
  cbn [order_tree]. f_equal. f_equal. induction kvs as [|[k c] kvs IH]; [reflexivity|]. cbn [map fst snd]. rewrite IH. reflexivity.
Qed.

Lemma order_tree_R : forall t, pure_t KP t = true -> order_tree (Rt d t) = Rt d (order_tree t).
Proof.
  induction t as [v|kvs IH|ts IH] using tree_ind'; intros Hp; [reflexivity| |rewrite Rt_lst; reflexivity].
  rewrite Rt_dict, !order_tree_dict, Rt_dict. f_equal. rewrite pure_t_dict in Hp.
  assert (E : map (fun kc => (fst kc, ord1 (snd kc))) (Rkv d (Rt d) kvs) = Rkv d (Rt d) (map (fun kc => (fst kc, ord1 (snd kc))) kvs)).
  { induction IH as [|[k c] l Hc _ IHl]; [reflexivity|]. cbn [forallb fst snd] in Hp. apply andb_true_iff in Hp. destruct Hp as [Hp1 Hp2].
    apply andb_true_iff in Hp1. destruct Hp1 as [_ Hs]. rewrite Rkv_cons. cbn [map fst snd]. rewrite Rkv_cons, (IHl Hp2). f_equal. f_equal.
    cbn [snd] in Hc. destruct c as [v|sub|ts]; [reflexivity| |rewrite Rt_lst; reflexivity].
    cbn [sub1] in Hs. specialize (Hc Hs). rewrite Rt_dict in *. cbn [ord1]. exact Hc. }
  rewrite E. apply sort_kvs_R.
  clear E IH. induction kvs as [|[k c] kvs IHk]; [reflexivity|]. cbn [forallb fst snd map] in *. apply andb_true_iff in Hp. destruct Hp as [Hp1 Hp2].
  apply andb_true_iff in Hp1. unfold kp at 1. cbn [fst]. rewrite (proj1 Hp1). exact (IHk Hp2).
Qed.

(* the side condition survives the sort *)
Lemma pure_t_order : forall t, pure_t KP t = true -> pure_t KP (order_tree t) = true.
Proof.
  induction t as [v|kvs IH|ts IH] using tree_ind'; intros Hp; [exact Hp| |exact Hp].
  rewrite order_tree_dict, pure_t_dict, forallb_sort_kvs. rewrite pure_t_dict in Hp.
  induction IH as [|[k c] l Hc _ IHl]; [reflexivity|]. cbn [forallb map fst snd] in *. apply andb_true_iff in Hp. destruct Hp as [Hp1 Hp2].
  apply andb_true_iff in Hp1. destruct Hp1 as [Hk Hs]. rewrite Hk, (IHl Hp2). cbn [andb]. rewrite andb_true_r.
  destruct c as [v|sub|ts]; [reflexivity| |reflexivity]. cbn [sub1] in Hs. specialize (Hc Hs). cbn [ord1]. rewrite order_tree_dict in *. cbn [sub1]. exact Hc.
Qed.
End Sort.

Lemma key_ltb_exact a b : key_exact inI a = true -> key_exact inI b = true -> key_ltb (Rk d a) (Rk d b) = key_ltb a b.
Proof. destruct a as [x|x], b as [y|y]; try reflexivity. intros Ha Hb. cbn [Rk key_ltb]. apply str_ltb_exact; assumption. Qed.
Lemma key_ltb_scan a b : key_scan inI a = true -> key_scan inI b = true -> key_ltb (Rk d a) (Rk d b) = key_ltb a b.
Proof. destruct a as [x|x], b as [y|y]; try reflexivity. intros Ha Hb. cbn [Rk key_ltb]. apply str_ltb_scan; assumption. Qed.

Lemma keys_ok_order_R t : keys_ok inI t = true -> order_tree (Rt d t) = Rt d (order_tree t).
Proof.
  unfold keys_ok. intros H. apply orb_true_iff in H. destruct H as [H|H].
  - exact (order_tree_R (key_exact inI) key_ltb_exact t H).
  - exact (order_tree_R (key_scan inI) key_ltb_scan t H).
Qed.
Lemma keys_ok_order t : keys_ok inI t = true -> keys_ok inI (order_tree t) = true.
Proof.
  unfold keys_ok. intros H. apply orb_true_iff in H. destruct H as [H|H].
  - rewrite (pure_t_order _ t H). reflexivity.
  - rewrite (pure_t_order _ t H). apply orb_true_r.
Qed.

(* ---- the id tables ------------------------------------------------------------------------------- *)
Lemma tinsert_R {V} (f : V -> V) (sh : N -> N) (p : N -> bool) : (forall i j, p i = true -> p j = true -> (sh i <=? sh j) = (i <=? j)) ->
  forall i v (l : list (N * V)), p i = true -> forallb (fun e => p (fst e)) l = true ->
  tinsert (sh i, f v) (rtab f sh l) = rtab f sh (tinsert (i, v) l).
Proof.
  intros Hsh i v l Hi. induction l as [|[j u] l IH]; intros Hl; [reflexivity|].
  cbn [forallb fst] in Hl. apply andb_true_iff in Hl. destruct Hl as [H1 H2].
  rewrite rtab_cons. cbn [tinsert fst]. rewrite Hsh by assumption. destruct (i <=? j); [rewrite !rtab_cons; reflexivity|].
  rewrite rtab_cons, (IH H2). reflexivity.
Qed.
Lemma forallb_tinsert {V} (p : N * V -> bool) kv (l : list (N * V)) : forallb p (tinsert kv l) = p kv && forallb p l.
Proof.
  induction l as [|kv' l IH]; [reflexivity|]. cbn [tinsert]. destruct (fst kv <=? fst kv'); [reflexivity|].
  cbn [forallb]. rewrite IH. destruct (p kv), (p kv'); reflexivity.
Qed.
Lemma forallb_tsort {V} (p : N * V -> bool) (l : list (N * V)) : forallb p (tsort l) = forallb p l.
Proof. induction l as [|kv l IH]; [reflexivity|]. cbn [tsort forallb]. rewrite forallb_tinsert, IH. reflexivity. Qed.
Lemma tsort_R {V} (f : V -> V) (sh : N -> N) (p : N -> bool) : (forall i j, p i = true -> p j = true -> (sh i <=? sh j) = (i <=? j)) ->
  forall l : list (N * V), forallb (fun e => p (fst e)) l = true -> tsort (rtab f sh l) = rtab f sh (tsort l).
Proof.
  intros Hsh. induction l as [|[i v] l IH]; intros Hl; [reflexivity|].
  cbn [forallb fst] in Hl. apply andb_true_iff in Hl. destruct Hl as [H1 H2]. rewrite rtab_cons. cbn [tsort]. rewrite (IH H2).
  apply (tinsert_R f sh p Hsh); [exact H1|]. rewrite forallb_tsort. exact H2.
Qed.

Lemma Hmono_le i j : inI i = true -> inI j = true -> (shift d i <=? shift d j) = (i <=? j).
Proof. intros Hi Hj. pose proof (Hmono j i Hj Hi). lia. Qed.

(* ---- SDict.order_keys commutes with the renaming ---------------------------------------------------- *)
Theorem sd_order_R s : order_ok inI s = true -> sd_order (rename_sd d s) = rename_sd d (sd_order s).
Proof.
  unfold order_ok. intros H. apply andb_true_iff in H. destruct H as [H He]. apply andb_true_iff in H. destruct H as [H Hi].
  apply andb_true_iff in H. destruct H as [Hp Hl].
  unfold sd_order, rename_sd, Rsd. cbn [sd_data sd_lc sd_bc sd_inc sd_expr].
  pose proof (keys_ok_order_R (Dict (sd_data s)) Hp) as E. rewrite Rt_dict in E. rewrite E.
  rewrite order_tree_dict, Rt_dict. cbn [sd_data sd_lc sd_bc sd_inc sd_expr].
  unfold tab_in in *. rewrite (tsort_R _ _ inI Hmono_le _ Hl), (tsort_R _ _ inI Hmono_le _ Hi), (tsort_R _ _ inI Hmono_le _ He).
  rewrite (tsort_R (rename_str d) (fun j => j) (fun _ => true) (fun i j _ _ => eq_refl) (sd_bc s)); [reflexivity|].
  apply forallb_forall. reflexivity.
Qed.

Lemma order_ok_order s : order_ok inI s = true -> order_ok inI (sd_order s) = true.
Proof.
  unfold order_ok. intros H. apply andb_true_iff in H. destruct H as [H He]. apply andb_true_iff in H. destruct H as [H Hi].
  apply andb_true_iff in H. destruct H as [Hp Hl]. pose proof (keys_ok_order _ Hp) as Hp'.
  unfold sd_order. rewrite order_tree_dict in *. cbn [sd_data sd_lc sd_inc sd_expr]. unfold tab_in in *.
  rewrite Hp', !forallb_tsort, Hl, Hi, He. reflexivity.
Qed.
End Order.

(* ================================================================================================ *)
(* 5. the two instances: no id wraps / the shift is monotone on the ids that occur                  *)
(* ================================================================================================ *)
Lemma nowrap_mono d i j : nowrapb d i = true -> nowrapb d j = true -> (shift d i <? shift d j) = (i <? j).
Proof.
  unfold nowrapb, shift. intros Hi Hj.
  destruct (i <? 1000000) eqn:Ei; destruct (j <? 1000000) eqn:Ej.
  - rewrite !Z.mod_small by lia. lia.
  - rewrite Z.mod_small by lia. lia.
  - rewrite Z.mod_small by lia. lia.
  - reflexivity.
Qed.

(* the ids of an SDict: those of the three renamed tables and those of the renamed placeholders in the keys of the sorted levels *)
Definition key_idl (k : key) : list N := match k with KS s => str_ids s | KI _ => [] end.
Fixpoint tree_ids (t : tree) : list N :=
  match t with
  | Dict kvs => (fix go (l : list (key * tree)) : list N :=
                   match l with
                   | [] => []
                   | (k, c) :: l' => key_idl k ++ match c with Dict _ => tree_ids c | _ => [] end ++ go l'
                   end) kvs
  | _ => []
  end.
Definition sd_ids (s : sdict) : list N :=
  map fst (sd_lc s) ++ map fst (sd_inc s) ++ map fst (sd_expr s) ++ tree_ids (Dict (sd_data s)).

Definition ids1 (c : tree) : list N := match c with Dict _ => tree_ids c | _ => [] end.
Lemma tree_ids_dict kvs : tree_ids (Dict kvs) = flat_map (fun kc => key_idl (fst kc) ++ ids1 (snd kc)) kvs.
Proof. cbn [tree_ids]. induction kvs as [|[k c] kvs IH]; [reflexivity|]. cbn [flat_map fst snd]. rewrite IH, <- app_assoc. reflexivity. Qed.

Lemma str_scan_split inI : forall s : list N, str_scan (fun _ => true) s = true -> forallb inI (str_ids s) = true -> str_scan inI s = true.
Proof.
  induction s as [|c s Hn IH|w ds r Hw L D IH] using str_ph_ind; intros Hp Hi; [reflexivity| |].
  - rewrite str_scan_char in * by exact Hn. rewrite str_ids_char in Hi by exact Hn. apply andb_true_iff in Hp.
    rewrite (proj1 Hp), (IH (proj2 Hp) Hi). reflexivity.
  - rewrite str_scan_ph in * by assumption. rewrite str_ids_ph in Hi by assumption. cbn [forallb andb] in *. apply andb_true_iff in Hi.
    rewrite (proj1 Hi), (IH Hp (proj2 Hi)). reflexivity.
Qed.

Lemma str_ids_exact (w : list N) i : In w shifted_words -> i < 1000000 -> str_ids (w ++ pad6 i) = [i].
Proof.
  intros Hw Hi. rewrite <- (app_nil_r (pad6 i)). rewrite str_ids_ph; [|exact Hw|apply pad6_len; exact Hi|apply pad6_dig; exact Hi].
  rewrite LayoutProofs.dec_to_N_pad6. reflexivity.
Qed.

Lemma key_exact_split inI k : key_exact (fun _ => true) k = true -> forallb inI (key_idl k) = true -> key_exact inI k = true.
Proof.
  destruct k as [z|s]; [reflexivity|]. cbn [key_exact key_idl]. destruct (ph_id s) as [[w i]|] eqn:E; [|intros H _; exact H].
  destruct (ph_id_some _ _ _ E) as (Hw & Hi & ->). rewrite (str_ids_exact w i Hw Hi). cbn [forallb]. intros _ H. apply andb_true_iff in H. exact (proj1 H).
Qed.
Lemma key_scan_split inI k : key_scan (fun _ => true) k = true -> forallb inI (key_idl k) = true -> key_scan inI k = true.
Proof. destruct k as [z|s]; [reflexivity|]. cbn [key_scan key_idl]. apply str_scan_split. Qed.

Lemma pure_t_split (KP KP' : key -> bool) inI : (forall k, KP' k = true -> forallb inI (key_idl k) = true -> KP k = true) ->
  forall t, pure_t KP' t = true -> forallb inI (tree_ids t) = true -> pure_t KP t = true.
Proof.
  intros HK. induction t as [v|kvs IH|ts IH] using tree_ind'; intros Hp Hi; [reflexivity| |reflexivity].
  rewrite pure_t_dict in *. rewrite tree_ids_dict in Hi.
  induction IH as [|[k c] l Hc _ IHl]; [reflexivity|]. cbn [forallb flat_map fst snd] in *.
  apply andb_true_iff in Hp. destruct Hp as [Hp1 Hp2]. apply andb_true_iff in Hp1. destruct Hp1 as [Hk Hs].
  rewrite !forallb_app in Hi. apply andb_true_iff in Hi. destruct Hi as [Hi1 Hi3]. apply andb_true_iff in Hi1. destruct Hi1 as [Hi1 Hi2].
  rewrite (IHl Hp2 Hi3), andb_true_r. apply andb_true_iff. split; [exact (HK k Hk Hi1)|].
  destruct c as [v|sub|ts]; [reflexivity| |reflexivity]. cbn [sub1 ids1] in *. exact (Hc Hs Hi2).
Qed.

Lemma keys_ok_split inI t : keys_ok (fun _ => true) t = true -> forallb inI (tree_ids t) = true -> keys_ok inI t = true.
Proof.
  unfold keys_ok. intros H Hi. apply orb_true_iff in H. destruct H as [H|H].
  - rewrite (pure_t_split _ _ inI (key_exact_split inI) t H Hi). reflexivity.
  - rewrite (pure_t_split _ _ inI (key_scan_split inI) t H Hi). apply orb_true_r.
Qed.

Lemma order_ok_split inI s : keys_pure s = true -> forallb inI (sd_ids s) = true -> order_ok inI s = true.
Proof.
  unfold keys_pure, sd_ids, order_ok, tab_in. intros Hp Hi. rewrite !forallb_app in Hi.
  apply andb_true_iff in Hi. destruct Hi as [H1 Hi]. apply andb_true_iff in Hi. destruct Hi as [H2 Hi].
  apply andb_true_iff in Hi. destruct Hi as [H3 H4]. rewrite (keys_ok_split inI _ Hp H4). cbn [andb].
  assert (Hm : forall V (t : list (N * V)), forallb inI (map fst t) = true -> forallb (fun e => inI (fst e)) t = true).
  { intros V t. induction t as [|e t IH]; [reflexivity|]. cbn [map forallb]. intros H. apply andb_true_iff in H. rewrite (proj1 H), (IH (proj2 H)). reflexivity. }
  rewrite (Hm _ _ H1), (Hm _ _ H2), (Hm _ _ H3). reflexivity.
Qed.

(* (1) no id wraps *)
Theorem order_no_wrap d s : keys_pure s = true -> forallb (nowrapb d) (sd_ids s) = true ->
  sd_order (rename_sd d s) = rename_sd d (sd_order s).
Proof. intros Hp Hi. apply (sd_order_R d (nowrapb d) (nowrap_mono d)). apply order_ok_split; assumption. Qed.

(* (1') the exact condition on the ids: the shift keeps the order of every two ids that occur (all ids below the wrap, or
   all ids beyond it, or, say, seven digit ids among them) *)
Theorem order_monotone d s : keys_pure s = true ->
  (forall i j, In i (sd_ids s) -> In j (sd_ids s) -> (shift d i <? shift d j) = (i <? j)) ->
  sd_order (rename_sd d s) = rename_sd d (sd_order s).
Proof.
  intros Hp Hm. set (inI := fun i => existsb (N.eqb i) (sd_ids s)).
  assert (Hin : forall i, inI i = true -> In i (sd_ids s)).
  { intros i H. apply existsb_exists in H. destruct H as (x & Hx & E). apply N.eqb_eq in E. subst x. exact Hx. }
  apply (sd_order_R d inI); [intros i j Hi Hj; apply Hm; apply Hin; assumption|].
  apply order_ok_split; [exact Hp|]. apply forallb_forall. intros i Hi. apply existsb_exists. exists i. split; [exact Hi|apply N.eqb_refl].
Qed.

(* ================================================================================================ *)
(* 6. DictReader.read with order = True                                                             *)
(* ================================================================================================ *)
Definition order_read (r : res (sdict * Z)) : res (sdict * Z) := map_res (fun sc => (sd_order (fst sc), snd sc)) r.

Lemma read_opts_order fs root c : counter_ok c -> fs_ok fs = true ->
  Parse.read_opts fs root true true true [] c = Some (order_read (read_plain fs root true true c)).
Proof.
  intros Hc Hfs. unfold Parse.read_opts, read_plain, order_read. cbn [Parse.scope_keys].
  destruct (fs_lookup (norm_path root) fs) as [u|] eqn:El; [|reflexivity].
  assert (Hfiles : forallb file_okb fs = true) by (unfold fs_ok in Hfs; apply andb_true_iff in Hfs; exact (proj2 Hfs)).
  destruct (fs_lookup_ok fs _ _ Hfiles El) as (text & -> & Hf).
  pose proof (parse_unit_R 0 c c Hc Hc ltac:(lia) root c c text (crel_start c c) Hf) as Hp.
  destruct (parse_unit true root c (FNative text)) as [pr|e]; [|reflexivity].
  destruct (parse_unit true (rename_str 0 root) c (FNative text)) as [pr'|e']; [|contradiction]. destruct Hp as (_ & Hcp & Hgp).
  cbn [bind]. pose proof (merge_includes_R 0 c c Hc Hc ltac:(lia) fs Hfs (pr_sd pr) (pr_count pr) (pr_count pr) ) as Hm.
  assert (Hcc : crel c c (pr_count pr) (pr_count pr)) by (destruct Hcp as (n & E1 & _); exists n; split; exact E1).
  specialize (Hm Hcc Hgp).
  destruct (merge_includes fs true (pr_sd pr) (pr_count pr)) as [[s k]|e]; [|reflexivity].
  destruct (merge_includes fs true (Rsd 0 (pr_sd pr)) (pr_count pr)) as [[s' k']|e']; [|contradiction].
  destruct Hm as (_ & _ & Hg). rewrite (eval_noexpr s (proj1 Hg)). cbn [bind map_res fst snd]. reflexivity.
Qed.

(* side condition on the FIRST read (before the sort): its keys are pure and none of its ids wraps under the shift d *)
Definition order_side (d : Z) (r : res (sdict * Z)) : bool :=
  match r with Ok (s, _) => keys_pure s && forallb (nowrapb d) (sd_ids s) | Raise _ => true end.

Lemma order_read_R d k r : order_side d r = true ->
  order_read (map_res (rename_read d k) r) = map_res (rename_read d k) (order_read r).
Proof.
  destruct r as [[s c]|e]; [|reflexivity]. cbn [order_side order_read map_res rename_read fst snd]. intros H.
  apply andb_true_iff in H. rewrite (order_no_wrap d s (proj1 H) (proj2 H)). reflexivity.
Qed.

Theorem read_order_counter_independent : forall fs root c1 c2,
  counter_ok c1 -> counter_ok c2 -> fs_ok fs = true -> cleanb root = true ->
  order_side (c2 - c1) (read_plain fs root true true c1) = true ->
  exists n,
    Parse.read_opts fs root true true true [] c2 =
    option_map (map_res (rename_read (c2 - c1) (counter_iter n c2))) (Parse.read_opts fs root true true true [] c1).
Proof.
  intros fs root c1 c2 H1 H2 Hfs Hr Hs. destruct (read_counter_independent_inc fs root c1 c2 H1 H2 Hfs Hr) as (n & E & _).
  exists n. rewrite !read_opts_order by assumption. rewrite E. cbn [option_map]. f_equal. apply order_read_R. exact Hs.
Qed.

(* ================================================================================================ *)
(* 7. DictWriter.write and DictParser.parse with order = True (mode w)                              *)
(* ================================================================================================ *)
Lemma pvt_leaf v t : parse_values_tree (Leaf v) = Ok t -> exists v', t = Leaf v'.
Proof. cbn [parse_values_tree]. destruct (parse_scalar v) as [v'|e]; [|discriminate]. cbn [bind]. intros H. injection H as <-. exists v'. reflexivity. Qed.

Lemma pvt_dict kvs t : parse_values_tree (Dict kvs) = Ok t -> exists kvs', t = Dict kvs'.
Proof.
  cbn [parse_values_tree].
  destruct ((fix go (l : list (key * tree)) : res (list (key * tree)) :=
               match l with
               | [] => Ok []
               | (k, c) :: l' => bind (parse_values_tree c) (fun c' => bind (go l') (fun r => Ok ((k, c') :: r)))
               end) kvs) as [kvs'|e]; [|discriminate].
  cbn [bind]. intros H. injection H as <-. exists kvs'. reflexivity.
Qed.
Lemma pvt_lst ts t : parse_values_tree (Lst ts) = Ok t -> exists ts', t = Lst ts'.
Proof.
  cbn [parse_values_tree].
  destruct ((fix go (l : list tree) : res (list tree) :=
               match l with
               | [] => Ok []
               | c :: l' => bind (parse_values_tree c) (fun c' => bind (go l') (fun r => Ok (c' :: r)))
               end) ts) as [ts'|e]; [|discriminate].
  cbn [bind]. intros H. injection H as <-. exists ts'. reflexivity.
Qed.

Lemma pvt_pure (KP : key -> bool) : forall t t', parse_values_tree t = Ok t' -> pure_t KP t' = pure_t KP t.
Proof.
  induction t as [v|kvs IH|ts IH] using tree_ind'; intros t' H.
  - destruct (pvt_leaf _ _ H) as (v' & ->). reflexivity.
  - cbn [parse_values_tree] in H.
    set (go := fix go (l : list (key * tree)) : res (list (key * tree)) :=
                 match l with
                 | [] => Ok []
                 | (k, c) :: l' => bind (parse_values_tree c) (fun c' => bind (go l') (fun r => Ok ((k, c') :: r)))
                 end) in H.
    destruct (go kvs) as [kvs'|e] eqn:E; [|discriminate H]. cbn [bind] in H. injection H as <-. rewrite !pure_t_dict.
    revert kvs' E. induction IH as [|[k c] l Hc _ IHl]; intros kvs' E; [injection E as <-; reflexivity|].
    cbn [go] in E. cbn [snd] in Hc. destruct (parse_values_tree c) as [c'|e] eqn:Ec; [|discriminate E]. cbn [bind] in E.
    destruct (go l) as [r|e] eqn:El; [|discriminate E]. cbn [bind] in E. injection E as <-.
    cbn [forallb fst snd]. rewrite (IHl r eq_refl). f_equal. f_equal.
    destruct c as [v|sub|ts].
    + destruct (pvt_leaf _ _ Ec) as (v' & ->). reflexivity.
    + destruct (pvt_dict _ _ Ec) as (sub' & ->). cbn [sub1]. exact (Hc _ eq_refl).
    + destruct (pvt_lst _ _ Ec) as (ts' & ->). reflexivity.
  - destruct (pvt_lst _ _ H) as (ts' & ->). reflexivity.
Qed.

Lemma write_src_order_ok inI s x : write_src s = Ok x -> order_ok inI s = true -> order_ok inI x = true.
Proof.
  unfold write_src. destruct (parse_values_tree (Dict (sd_data s))) as [t|e] eqn:E; [|discriminate]. cbn [map_res]. intros H. injection H as <-.
  unfold order_ok. cbn [sd_data sd_lc sd_inc sd_expr]. destruct (pvt_dict _ _ E) as (kvs' & ->). cbn [kvs_of_tree].
  unfold keys_ok. rewrite !(pvt_pure _ _ _ E). intros H. exact H.
Qed.

Lemma write_sd_eq_order fs foam target s c :
  Parse.write_sd fs foam target false true s c = Some (map_res (fun src => (fmt_sd foam (sd_order src), c)) (write_src s)).
Proof.
  unfold Parse.write_sd, write_src, fmt_sd. destruct (parse_values_tree (Dict (sd_data s))); cbn [map_res]; [|reflexivity].
  destruct foam; reflexivity.
Qed.

(* DictWriter.write(order=True): the sorted source as serialised is write_safe' and its text contains no placeholder name *)
Definition write_sd_order_side (foam : bool) (s : sdict) : bool :=
  match write_src s with Ok src => fmt_safe' foam (sd_order src) && cleanb (fmt_sd foam (sd_order src)) | Raise _ => true end.

Theorem write_sd_order_counter_independent : forall fs foam target d s c c',
  keys_pure s = true -> forallb (nowrapb d) (sd_ids s) = true -> write_sd_order_side foam s = true ->
  text_of (Parse.write_sd fs foam target false true (rename_sd d s) c') = text_of (Parse.write_sd fs foam target false true s c).
Proof.
  intros fs foam target d s c c' Hp Hi H. rewrite !write_sd_eq_order, write_src_R. unfold write_sd_order_side in H.
  pose proof (order_ok_split (nowrapb d) s Hp Hi) as Hok.
  destruct (write_src s) as [src|e] eqn:Es; cbn [map_res text_of option_map fst]; [|reflexivity].
  apply andb_true_iff in H. destruct H as [H1 H2].
  rewrite (sd_order_R d (nowrapb d) (nowrap_mono d) src (write_src_order_ok _ _ _ Es Hok)).
  rewrite (fmt_sd_invariant' d foam _ H1 H2). reflexivity.
Qed.

(* DictParser.parse(order=True), mode w, includes on, comments on, no scope.  Side condition on the FIRST run:
   the SDict read (before the sort) has pure keys and none of its ids wraps under d = c2 - c1; what is written (sorted twice:
   by the reader and by the writer) is write_safe' and free of placeholder names. *)
Definition pm_order_side (fs : fsys) (src : str) (output : option str) (c1 c2 : Z) : bool :=
  match read_plain fs src true true c1 with
  | Ok (s, _) => keys_pure s && forallb (nowrapb (c2 - c1)) (sd_ids s) && write_sd_order_side (pm_foam src output) (sd_order s)
  | Raise _ => true
  end.

Theorem parse_model_order_counter_independent : forall fs src output c1 c2,
  counter_ok c1 -> counter_ok c2 -> fs_ok fs = true -> cleanb src = true ->
  pm_order_side fs src output c1 c2 = true ->
  pm_out (Parse.parse_model fs src true false true true [] output c2) = pm_out (Parse.parse_model fs src true false true true [] output c1).
Proof.
  intros fs src output c1 c2 H1 H2 Hfs Hsrc Hside. unfold Parse.parse_model, pm_order_side, pm_foam in *.
  destruct (Parse.output_kind output) as [foam0|]; [|reflexivity].
  rewrite !read_opts_order by assumption.
  destruct (read_counter_independent_inc fs src c1 c2 H1 H2 Hfs Hsrc) as (n & E & _). rewrite E.
  destruct (read_plain fs src true true c1) as [[s k]|e]; cbn [order_read map_res rename_read fst snd]; [|reflexivity].
  apply andb_true_iff in Hside. destruct Hside as [Hside Hw]. apply andb_true_iff in Hside. destruct Hside as [Hp Hi].
  pose proof (order_ok_split (nowrapb (c2 - c1)) s Hp Hi) as Hok.
  rewrite (sd_order_R _ _ (nowrap_mono (c2 - c1)) s Hok).
  pose proof (order_ok_order (nowrapb (c2 - c1)) s Hok) as Hok'.
  set (name := target_file_name (base_name src) (Some (of_string "parsed")) [] output) in *.
  destruct (ends_with (of_string ".json") name || ends_with (of_string ".xml") name); [reflexivity|].
  rewrite !write_sd_eq_order, write_src_R. unfold write_sd_order_side in Hw.
  destruct (write_src (sd_order s)) as [x|e] eqn:Ex; cbn [map_res pm_out option_map fst]; [|reflexivity].
  apply andb_true_iff in Hw. destruct Hw as [Hw1 Hw2].
  rewrite (sd_order_R _ _ (nowrap_mono (c2 - c1)) x (write_src_order_ok _ _ _ Ex Hok')).
  rewrite (fmt_sd_invariant' (c2 - c1) _ _ Hw1 Hw2). reflexivity.
Qed.

(* ================================================================================================ *)
(* 8. the side conditions evaluated once, at the fresh counter: conditions on the files only        *)
(* ================================================================================================ *)
Section SideOrder.
Variable d : Z.
Local Notation R := (rename_str d).

Lemma ph_id_R (s : list N) : ph_id (R s) = option_map (fun wi => (fst wi, shift d (snd wi))) (ph_id s).
Proof.
  destruct (ph_id s) as [[w i]|] eqn:E.
  - destruct (ph_id_some _ _ _ E) as (Hw & Hi & ->). cbn [option_map fst snd].
    pose proof (rename_placeholder d w i [] Hw Hi) as H. unfold placeholder in H. rewrite rename_nil, !app_nil_r in H. rewrite H.
    pose proof (shift_lt d i Hi) as Hs. unfold ph_id.
    rewrite <- (app_nil_r (pad6 (shift d i))) at 1. rewrite (ph_word_intro w (pad6 (shift d i)) [] Hw (pad6_len _ Hs) (pad6_dig _ Hs)).
    rewrite app_length, (pad6_len _ Hs), Nat.eqb_refl, drop_n_app, LayoutProofs.dec_to_N_pad6. reflexivity.
  - cbn [option_map]. unfold ph_id in *. rewrite <- (ph_word_dsim _ _ (dsim_rename d s)), rename_length.
    destruct (ph_word s) as [w|]; [|reflexivity]. destruct (Nat.eqb (length s) (length w + 6)); [discriminate E|reflexivity].
Qed.

Lemma word_dig_dsim w (s t : str) : In w shifted_words -> dsim s t -> word_dig w s = word_dig w t.
Proof.
  intros Hw H. unfold word_dig. destruct (all_words_upper w (shifted_all w Hw)) as [U _].
  rewrite (starts_with_dsim w s t (upper_nodigit w U) H). f_equal.
  pose proof (dsim_drop (length w) s t H) as Hd. destruct Hd as [|a b x y Hab _]; [reflexivity|]. exact (dsim1_digit a b Hab).
Qed.

Lemma nowd_dsim (s t : str) : dsim s t -> nowd s = nowd t.
Proof. intros H. unfold nowd. apply forallb_ext_in'. intros w Hw. rewrite (word_dig_dsim w s t Hw H). reflexivity. Qed.

Lemma free_R (s : list N) : free (R s) = free s.
Proof. unfold free. rewrite cleanb_R. f_equal. symmetry. apply nowd_dsim. apply dsim_rename. Qed.

Lemma key_exact_R k : key_exact (fun _ => true) (Rk d k) = key_exact (fun _ => true) k.
Proof.
  destruct k as [z|s]; [reflexivity|]. cbn [Rk key_exact]. rewrite ph_id_R. destruct (ph_id s) as [[w i]|]; [reflexivity|]. cbn [option_map]. apply free_R.
Qed.

Lemma str_scan_R inI : forall s : list N, str_scan inI (R s) = str_scan (fun i => inI (shift d i)) s.
Proof.
  induction s as [|c s Hn IH|w ds r Hw L D IH] using str_ph_ind; [reflexivity| |].
  - rewrite rename_char by exact Hn.
    assert (Hn' : ph_word (c :: R s) = None).
    { rewrite <- Hn. symmetry. apply ph_word_dsim. constructor; [left; reflexivity|apply dsim_rename]. }
    rewrite !str_scan_char by assumption. rewrite IH. f_equal. symmetry. apply nowd_dsim. constructor; [left; reflexivity|apply dsim_rename].
  - rewrite rename_ph by assumption. pose proof (shift_lt d _ (dec6_bound ds L D)) as Hb.
    rewrite !str_scan_ph; [|exact Hw|exact L|exact D|exact Hw|apply pad6_len; exact Hb|apply pad6_dig; exact Hb].
    rewrite LayoutProofs.dec_to_N_pad6, IH. reflexivity.
Qed.
Lemma key_scan_R k : key_scan (fun _ => true) (Rk d k) = key_scan (fun _ => true) k.
Proof. destruct k as [z|s]; [reflexivity|]. cbn [Rk key_scan]. apply str_scan_R. Qed.

Lemma pure_t_R (KP : key -> bool) : (forall k, KP (Rk d k) = KP k) -> forall t, pure_t KP (Rt d t) = pure_t KP t.
Proof.
  intros HK. induction t as [v|kvs IH|ts IH] using tree_ind'; [reflexivity| |rewrite Rt_lst; reflexivity].
  rewrite Rt_dict, !pure_t_dict. induction IH as [|[k c] l Hc _ IHl]; [reflexivity|]. rewrite Rkv_cons. cbn [forallb fst snd] in *.
  rewrite HK, IHl. f_equal. f_equal. destruct c as [v|sub|ts]; [reflexivity| |rewrite Rt_lst; reflexivity].
  rewrite Rt_dict in *. cbn [sub1]. exact Hc.
Qed.

Lemma keys_pure_R s : keys_pure (rename_sd d s) = keys_pure s.
Proof.
  unfold keys_pure, keys_ok, rename_sd, Rsd. cbn [sd_data]. rewrite <- Rt_dict.
  rewrite (pure_t_R _ key_exact_R), (pure_t_R _ key_scan_R). reflexivity.
Qed.

Lemma str_ids_R : forall s : list N, str_ids (R s) = map (shift d) (str_ids s).
Proof.
  induction s as [|c s Hn IH|w ds r Hw L D IH] using str_ph_ind; [reflexivity| |].
  - rewrite rename_char by exact Hn.
    assert (Hn' : ph_word (c :: R s) = None).
    { rewrite <- Hn. symmetry. apply ph_word_dsim. constructor; [left; reflexivity|apply dsim_rename]. }
    rewrite !str_ids_char by assumption. exact IH.
  - rewrite rename_ph by assumption. pose proof (shift_lt d _ (dec6_bound ds L D)) as Hb.
    rewrite !str_ids_ph; [|exact Hw|exact L|exact D|exact Hw|apply pad6_len; exact Hb|apply pad6_dig; exact Hb].
    rewrite LayoutProofs.dec_to_N_pad6, IH. reflexivity.
Qed.
Lemma key_idl_R k : key_idl (Rk d k) = map (shift d) (key_idl k).
Proof. destruct k as [z|s]; [reflexivity|]. cbn [Rk key_idl]. apply str_ids_R. Qed.

Lemma tree_ids_R : forall t, tree_ids (Rt d t) = map (shift d) (tree_ids t).
Proof.
  induction t as [v|kvs IH|ts IH] using tree_ind'; [reflexivity| |rewrite Rt_lst; reflexivity].
  rewrite Rt_dict, !tree_ids_dict. induction IH as [|[k c] l Hc _ IHl]; [reflexivity|]. rewrite Rkv_cons. cbn [flat_map fst snd] in *.
  rewrite !map_app, key_idl_R, IHl. f_equal. f_equal. destruct c as [v|sub|ts]; [reflexivity| |rewrite Rt_lst; reflexivity].
  rewrite Rt_dict in *. cbn [ids1]. exact Hc.
Qed.

Lemma map_fst_rtab {V} (f : V -> V) (sh : N -> N) (t : list (N * V)) : map fst (rtab f sh t) = map sh (map fst t).
Proof. unfold rtab. rewrite !map_map. reflexivity. Qed.

Lemma sd_ids_R s : sd_ids (rename_sd d s) = map (shift d) (sd_ids s).
Proof.
  unfold sd_ids, rename_sd, Rsd. cbn [sd_data sd_lc sd_inc sd_expr]. rewrite !map_app, !map_fst_rtab, <- Rt_dict, tree_ids_R. reflexivity.
Qed.
End SideOrder.

(* the writer's half of the side condition under the renaming *)
Lemma write_sd_order_side_R d foam s : order_ok (nowrapb d) s = true ->
  write_sd_order_side foam (rename_sd d s) = write_sd_order_side foam s.
Proof.
  intros Hok. unfold write_sd_order_side. rewrite write_src_R. destruct (write_src s) as [x|e] eqn:Ex; cbn [map_res]; [|reflexivity].
  rewrite (sd_order_R d (nowrapb d) (nowrap_mono d) x (write_src_order_ok _ _ _ Ex Hok)). rewrite fmt_safe'_R.
  destruct (fmt_safe' foam (sd_order x)) eqn:E; [|reflexivity]. cbn [andb]. destruct foam; cbn [fmt_sd fmt_safe'] in *.
  - rewrite (foam_writer_equivariant' d _ E). apply cleanb_R.
  - rewrite (writer_equivariant' d _ E). apply cleanb_R.
Qed.

(* [fresh_ids_ok ids c1 c2]: the ids of the read at the fresh counter (0, 1, 2 ... in the order drawn) stay below the
   wrap-around when the counter starts at c1 and when it starts at c2 *)
Definition fresh_ids_ok (ids : list N) (c1 c2 : Z) : bool :=
  forallb (fun i => (i <? 1000000) && (Z.of_N i + 1 + Z.max c1 c2 <? 1000000)%Z) ids.
Definition source_order_ok (fs : fsys) (root : str) (c1 c2 : Z) : bool :=
  match read_plain fs root true true (-1)%Z with
  | Ok (s, _) => keys_pure s && fresh_ids_ok (sd_ids s) c1 c2
  | Raise _ => true
  end.

Lemma fresh_ids_nowrap ids c1 c2 : counter_ok c1 -> counter_ok c2 -> fresh_ids_ok ids c1 c2 = true ->
  forallb (nowrapb (c1 - -1)) ids = true /\ forallb (nowrapb (c2 - c1)) (map (shift (c1 - -1)) ids) = true.
Proof.
  unfold counter_ok, fresh_ids_ok. intros H1 H2 H. rewrite forallb_forall in H. split.
  - apply forallb_forall. intros i Hi. specialize (H i Hi). unfold nowrapb. lia.
  - apply forallb_forall. intros j Hj. apply in_map_iff in Hj. destruct Hj as (i & <- & Hi). specialize (H i Hi).
    unfold nowrapb, shift. destruct (i <? 1000000) eqn:E; [|lia]. rewrite Z.mod_small by lia. lia.
Qed.

Theorem source_order_side : forall fs root c1 c2,
  counter_ok c1 -> counter_ok c2 -> fs_ok fs = true -> cleanb root = true ->
  source_order_ok fs root c1 c2 = true -> order_side (c2 - c1) (read_plain fs root true true c1) = true.
Proof.
  intros fs root c1 c2 H1 H2 Hfs Hr H. unfold source_order_ok in H.
  destruct (read_counter_independent_inc fs root (-1)%Z c1 counter_ok_fresh H1 Hfs Hr) as (n & E & _). rewrite E.
  destruct (read_plain fs root true true (-1)%Z) as [[s k]|e]; [|reflexivity].
  cbn [map_res rename_read order_side fst]. apply andb_true_iff in H. destruct H as [Hp Hi].
  rewrite keys_pure_R, Hp, sd_ids_R. exact (proj2 (fresh_ids_nowrap _ _ _ H1 H2 Hi)).
Qed.

Theorem read_order_source : forall fs root c1 c2,
  counter_ok c1 -> counter_ok c2 -> fs_ok fs = true -> cleanb root = true ->
  source_order_ok fs root c1 c2 = true ->
  exists n,
    Parse.read_opts fs root true true true [] c2 =
    option_map (map_res (rename_read (c2 - c1) (counter_iter n c2))) (Parse.read_opts fs root true true true [] c1).
Proof.
  intros fs root c1 c2 H1 H2 Hfs Hr H. apply read_order_counter_independent; try assumption. apply source_order_side; assumption.
Qed.

(* DictParser.parse(order=True): everything evaluated at the fresh counter *)
Definition pm_order_source_ok (fs : fsys) (src : str) (output : option str) (c1 c2 : Z) : bool :=
  source_order_ok fs src c1 c2 &&
  match read_plain fs src true true (-1)%Z with
  | Ok (s, _) => write_sd_order_side (pm_foam src output) (sd_order s)
  | Raise _ => true
  end.

Theorem parse_model_order_source : forall fs src output c1 c2,
  counter_ok c1 -> counter_ok c2 -> fs_ok fs = true -> cleanb src = true ->
  pm_order_source_ok fs src output c1 c2 = true ->
  pm_out (Parse.parse_model fs src true false true true [] output c2) = pm_out (Parse.parse_model fs src true false true true [] output c1).
Proof.
  intros fs src output c1 c2 H1 H2 Hfs Hsrc H. apply parse_model_order_counter_independent; try assumption.
  unfold pm_order_source_ok in H. apply andb_true_iff in H. destruct H as [Hs Hw].
  pose proof (source_order_side fs src c1 c2 H1 H2 Hfs Hsrc Hs) as Ho. unfold pm_order_side, order_side in *.
  unfold source_order_ok in Hs.
  destruct (read_counter_independent_inc fs src (-1)%Z c1 counter_ok_fresh H1 Hfs Hsrc) as (n & E & _). rewrite E in *.
  destruct (read_plain fs src true true (-1)%Z) as [[s k]|e]; [|reflexivity].
  cbn [map_res rename_read fst] in *. rewrite Ho. cbn [andb].
  apply andb_true_iff in Hs. destruct Hs as [Hp Hi].
  pose proof (order_ok_split _ s Hp (proj1 (fresh_ids_nowrap _ _ _ H1 H2 Hi))) as Hok.
  rewrite (sd_order_R _ _ (nowrap_mono (c1 - -1)) s Hok).
  rewrite write_sd_order_side_R; [exact Hw|]. apply order_ok_order. exact Hok.
Qed.

(* ---- the text written after DictReader.read(order=True) ------------------------------------------------ *)
Theorem write_after_read_order : forall fs root foam c1 c2,
  counter_ok c1 -> counter_ok c2 -> fs_ok fs = true -> cleanb root = true ->
  order_side (c2 - c1) (read_plain fs root true true c1) = true ->
  write_side' foam (order_read (read_plain fs root true true c1)) = true ->
  option_map (written_after (fmt_sd foam)) (Parse.read_opts fs root true true true [] c2) =
  option_map (written_after (fmt_sd foam)) (Parse.read_opts fs root true true true [] c1).
Proof.
  intros fs root foam c1 c2 H1 H2 Hfs Hr Ho Hw.
  destruct (read_order_counter_independent fs root c1 c2 H1 H2 Hfs Hr Ho) as (n & E). rewrite E.
  rewrite !read_opts_order by assumption. cbn [option_map]. f_equal. apply written_after_renamed'. exact Hw.
Qed.
