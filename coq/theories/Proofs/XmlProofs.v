(* Proofs for C11: the XML write / read cycle on element trees.
   xml_parse (reader) followed by populate (writer) is the identity up to text normalisation
   (normalise_elem); reading the written tree again yields the same entries up to the running numbers. *)
From Coq Require Import String.
From Coq Require Import NArith ZArith List Bool Lia.
From DictIO Require Import Chars Str Value Scalar KeyPath SDict Lexer Reader Expr Xml
     TypeTable TreeSpec MiscSpec LayoutSpec ScalarProofs SDictProofs SemProofs CliProofs.
Import ListNotations.
Open Scope N_scope.

(* ================================================================================================ *)
(* 1. vocabulary                                                                                    *)
(* ================================================================================================ *)
Definition e_attrs (e : elem) : list (str * str) := match e with Elem _ a _ _ => a end.
Definition e_text (e : elem) : option str := match e with Elem _ _ t _ => t end.
Definition e_kids (e : elem) : list elem := match e with Elem _ _ _ k => k end.

(* the classifier's verdict on a text (parse_value never raises, see parse_value_total) *)
Definition tval (s : str) : scalar := match parse_value s with Ok v => v | Raise _ => SStr s end.

(* the text does not begin or end with a quote character that the classifier would strip *)
Definition unquoted (s : str) : bool := str_eqb (remove_quotes s) s.

Definition text_of (t : option str) : str := match t with Some s => s | None => [] end.
Definition has_value (kv : str * str) : bool := nonempty (snd kv).

(* ---- well-formedness class ---------------------------------------------------------------------- *)
Definition attr_ok (kv : str * str) : bool :=
  negb (starts_with_digits1 (fst kv))   (* XML names do not start with a digit (unnumber would strip "1_x") *)
  && unquoted (snd kv).                 (* a quoted value loses its quotes in the classifier: "'1'" -> str "1" -> written 1 -> int *)
Definition attrs_ok (attrs : list (str * str)) : bool :=
  keys_nodup (map (fun kv => KS (fst kv)) attrs)   (* XML: attribute names of one element are distinct (else dict overwrite) *)
  && forallb attr_ok attrs
  && match attrs with                               (* attributes with empty value are dropped on reading; if all are *)
     | [] => true                                   (* dropped, an empty _attributes dict is read and not written back *)
     | _ => existsb has_value attrs
     end.
Definition text_ok (t : option str) : bool := unquoted (norm_text (text_of t)).  (* as for attribute values *)
Definition few (kids : list elem) : bool := N.of_nat (Datatypes.length kids) <=? 1000000. (* the counter does not wrap among siblings *)
Fixpoint elem_ok (e : elem) : bool :=
  match e with
  | Elem tag attrs text kids =>
      quote_free tag                      (* XML names have no quote characters (a final one is stripped from the key) *)
      && attrs_ok attrs
      && match kids with [] => text_ok text | _ => true end   (* text next to child elements is ignored by the reader *)
      && few kids
      && forallb elem_ok kids
  end.
(* tag, attributes and text of the root element are not looked at by _parse_nodes *)
Definition xml_ok (e : elem) : bool := few (e_kids e) && forallb elem_ok (e_kids e).

(* ---- the entries without running numbers --------------------------------------------------------- *)
Definition content_part (text : option str) : list (key * tree) :=
  if blank_text text then [] else [(k_content, Leaf (tval (norm_text (text_of text))))].
Definition attrs_part (attrs : list (str * str)) : list (key * tree) :=
  match attrs with
  | [] => []
  | _ => [(k_attributes, Dict (map (fun kv => (KS (fst kv), Leaf (tval (snd kv)))) (filter has_value attrs)))]
  end.
Fixpoint xml_entries (e : elem) : list (key * tree) :=
  match e with
  | Elem _ _ _ kids =>
      map (fun ch => (KS (tag_of ch),
                      Dict ((match ch with
                             | Elem _ _ text [] => content_part text
                             | Elem _ _ _ (_ :: _) => xml_entries ch
                             end) ++ attrs_part (e_attrs ch)))) kids
  end.

Definition unnumber_key (k : key) : key := match k with KS s => KS (strip_numbering s) | KI z => KI z end.
Fixpoint unnumber_tree (t : tree) : tree :=
  match t with
  | Leaf v => Leaf v
  | Dict kvs => Dict (map (fun kt => (unnumber_key (fst kt), unnumber_tree (snd kt))) kvs)
  | Lst ts => Lst (map unnumber_tree ts)
  end.
Definition unnumber (r : list (key * tree)) : list (key * tree) :=
  map (fun kt => (unnumber_key (fst kt), unnumber_tree (snd kt))) r.

(* ---- what the writer makes of the reader's dict -------------------------------------------------- *)
Definition norm_attrs (attrs : list (str * str)) : list (str * str) :=
  map (fun kv => (fst kv, attr_text (Leaf (tval (snd kv))))) (filter has_value attrs).
Definition norm_content (text : option str) : option str :=
  if blank_text text then None else Some (content_text (Leaf (tval (norm_text (text_of text))))).
Fixpoint normalise_elem (e : elem) : elem :=
  match e with
  | Elem tag attrs text kids =>
      Elem tag (norm_attrs attrs) (match kids with [] => norm_content text | _ => None end) (map normalise_elem kids)
  end.
Definition normalise_root (e : elem) : elem := Elem (tag_of e) [] None (map normalise_elem (e_kids e)).

(* ================================================================================================ *)
(* 2. strings: strip, splitlines, norm_text                                                          *)
(* ================================================================================================ *)
Definition spaces (w : str) : Prop := Forall (fun c => is_space c = true) w.
Definition tight (l : str) : Prop := hd_not is_space l /\ hd_not is_space (rev l).
Definition nolb (l : str) : Prop := Forall (fun c => is_linebreak c = false) l.
Definition sline (l : str) : Prop := tight l /\ nolb l.

Lemma lb_space : forall c, is_linebreak c = true -> is_space c = true.
Proof. intros c. unfold is_linebreak. chars. Qed.

Lemma lstrip_split : forall s, exists w, s = w ++ lstrip s /\ spaces w.
Proof.
  induction s as [|c s IH]; [exists []; split; [reflexivity|constructor]|].
  cbn [lstrip]. destruct (is_space c) eqn:Hc.
  - destruct IH as (w & E & Hw). exists (c :: w). split; [cbn [app]; f_equal; exact E|constructor; assumption].
  - exists []. split; [reflexivity|constructor].
Qed.

Lemma lstrip_hd_not : forall s, hd_not is_space (lstrip s).
Proof.
  induction s as [|c s IH]; [exact I|]. cbn [lstrip]. destruct (is_space c) eqn:Hc; [exact IH|exact Hc].
Qed.

Lemma lstrip_spaces : forall w, spaces w -> lstrip w = [].
Proof. intros w Hw. induction Hw as [|c w Hc Hw IH]; [reflexivity|]. cbn [lstrip]. rewrite Hc. exact IH. Qed.

Lemma lstrip_spaces_app : forall w s, spaces w -> lstrip (w ++ s) = lstrip s.
Proof. intros w s Hw. induction Hw as [|c w Hc Hw IH]; [reflexivity|]. cbn [app lstrip]. rewrite Hc. exact IH. Qed.

Lemma lstrip_app : forall a b, lstrip (a ++ b) = if forallb is_space a then lstrip b else lstrip a ++ b.
Proof.
  induction a as [|c a IH]; intros b; [reflexivity|]. cbn [app lstrip forallb].
  destruct (is_space c); cbn [andb]; [apply IH|reflexivity].
Qed.

Lemma rstrip_rev : forall s, rev (rstrip s) = lstrip (rev s).
Proof. intros s. unfold rstrip. apply rev_involutive. Qed.

Lemma rstrip_split : forall s, exists w, s = rstrip s ++ w /\ spaces w.
Proof.
  intros s. destruct (lstrip_split (rev s)) as (w & E & Hw). exists (rev w). split.
  - unfold rstrip. rewrite <- rev_app_distr, <- E, rev_involutive. reflexivity.
  - apply Forall_rev. exact Hw.
Qed.

Lemma rstrip_app_spaces : forall s w, spaces w -> rstrip (s ++ w) = rstrip s.
Proof.
  intros s w Hw. unfold rstrip. rewrite rev_app_distr, lstrip_spaces_app; [reflexivity|apply Forall_rev; exact Hw].
Qed.

Lemma tight_strip : forall s, tight (strip s).
Proof.
  intros s. unfold strip, tight. split.
  - pose proof (lstrip_hd_not s) as H. destruct (rstrip_split (lstrip s)) as (w & E & _).
    destruct (rstrip (lstrip s)) as [|c t]; [exact I|]. rewrite E in H. exact H.
  - rewrite rstrip_rev. apply lstrip_hd_not.
Qed.

Lemma strip_tight : forall s, tight s -> strip s = s.
Proof.
  intros s [H1 H2]. unfold strip, rstrip. rewrite (lstrip_hd s H1), (lstrip_hd (rev s) H2). apply rev_involutive.
Qed.

Lemma tight_rev : forall s, tight s -> tight (rev s).
Proof. intros s [H1 H2]. split; [exact H2|rewrite rev_involutive; exact H1]. Qed.

Lemma tight_nil : tight [].
Proof. split; exact I. Qed.

Lemma Forall_lstrip : forall (P : N -> Prop) s, Forall P s -> Forall P (lstrip s).
Proof.
  intros P s H. destruct (lstrip_split s) as (w & E & _). rewrite E in H. apply Forall_app in H. exact (proj2 H).
Qed.
Lemma Forall_rstrip : forall (P : N -> Prop) s, Forall P s -> Forall P (rstrip s).
Proof.
  intros P s H. destruct (rstrip_split s) as (w & E & _). rewrite E in H. apply Forall_app in H. exact (proj1 H).
Qed.
Lemma Forall_strip : forall (P : N -> Prop) s, Forall P s -> Forall P (strip s).
Proof. intros P s H. apply Forall_rstrip, Forall_lstrip. exact H. Qed.

Lemma strip_keeps : forall c s, In c s -> is_space c = false -> In c (strip s).
Proof.
  intros c s Hin Hc. unfold strip.
  assert (Hsp : forall w, spaces w -> ~ In c w).
  { intros w Hw Hi. unfold spaces in Hw. rewrite Forall_forall in Hw. rewrite (Hw c Hi) in Hc. discriminate. }
  destruct (lstrip_split s) as (w1 & E1 & Hw1). rewrite E1 in Hin. apply in_app_or in Hin.
  destruct Hin as [Hin|Hin]; [exfalso; exact (Hsp w1 Hw1 Hin)|].
  destruct (rstrip_split (lstrip s)) as (w2 & E2 & Hw2). rewrite E2 in Hin. apply in_app_or in Hin.
  destruct Hin as [Hin|Hin]; [exact Hin|exfalso; exact (Hsp w2 Hw2 Hin)].
Qed.

(* a line as splitlines produces it: no line break inside, white space (the line end) behind *)
Lemma strip_line : forall body e, nolb body -> spaces e -> sline (strip (body ++ e)).
Proof.
  intros body e Hb He. split; [apply tight_strip|].
  unfold strip. rewrite lstrip_app. destruct (forallb is_space body).
  - rewrite (lstrip_spaces e He). constructor.
  - rewrite (rstrip_app_spaces _ e He). apply Forall_rstrip, Forall_lstrip. exact Hb.
Qed.

Definition lineP (l : str) : Prop := exists body e, l = body ++ e /\ nolb body /\ spaces e.

Lemma splitlines_go_spec : forall n s, (Datatypes.length s <= n)%nat -> forall cur, nolb cur ->
  Forall lineP (splitlines_go cur s) /\ List.concat (splitlines_go cur s) = rev cur ++ s.
Proof.
  induction n as [|n IH]; intros s Hn cur Hcur.
  - destruct s; [|cbn [Datatypes.length] in Hn; lia]. cbn [splitlines_go].
    destruct cur as [|x cur]; [split; [constructor|reflexivity]|].
    split; [|cbn [List.concat]; rewrite !app_nil_r; reflexivity].
    constructor; [|constructor]. exists (rev (x :: cur)), []. rewrite app_nil_r.
    split; [reflexivity|split; [apply Forall_rev; exact Hcur|constructor]].
  - destruct s as [|c s'].
    + apply (IH []); [cbn; lia|exact Hcur].
    + cbn [Datatypes.length] in Hn. cbn [splitlines_go].
      assert (Hline : forall e, spaces e -> lineP (rev cur ++ e)).
      { intros e He. exists (rev cur), e. split; [reflexivity|split; [apply Forall_rev; exact Hcur|exact He]]. }
      destruct (c =? c_cr) eqn:Hcr.
      * apply N.eqb_eq in Hcr. subst c. destruct s' as [|d s''].
        -- split; [|cbn [List.concat]; rewrite app_nil_r; reflexivity].
           constructor; [|constructor]. cbn [rev]. apply Hline. repeat constructor.
        -- destruct (d =? c_lf) eqn:Hd.
           ++ apply N.eqb_eq in Hd. subst d. cbn [Datatypes.length] in Hn.
              destruct (IH s'' ltac:(lia) [] ltac:(constructor)) as [F C]. split.
              ** constructor; [|exact F]. cbn [rev]. rewrite <- app_assoc. apply Hline. repeat constructor.
              ** cbn [List.concat]. rewrite C. cbn [rev app]. rewrite <- !app_assoc. reflexivity.
           ++ destruct (IH (d :: s'') ltac:(lia) [] ltac:(constructor)) as [F C]. split.
              ** constructor; [|exact F]. cbn [rev]. apply Hline. repeat constructor.
              ** cbn [List.concat]. rewrite C. cbn [rev app]. rewrite <- !app_assoc. reflexivity.
      * destruct (is_linebreak c) eqn:Hlb.
        -- destruct (IH s' ltac:(lia) [] ltac:(constructor)) as [F C]. split.
           ++ constructor; [|exact F]. cbn [rev]. apply Hline. constructor; [apply lb_space; exact Hlb|constructor].
           ++ cbn [List.concat]. rewrite C. cbn [rev app]. rewrite <- !app_assoc. reflexivity.
        -- destruct (IH s' ltac:(lia) (c :: cur) ltac:(constructor; assumption)) as [F C]. split; [exact F|].
           rewrite C. cbn [rev]. rewrite <- app_assoc. reflexivity.
Qed.

Lemma splitlines_lines : forall s, Forall sline (map strip (splitlines s)) .
Proof.
  intros s. destruct (splitlines_go_spec (Datatypes.length s) s (le_n _) [] ltac:(constructor)) as [F _].
  unfold splitlines. apply Forall_map. revert F. apply Forall_impl.
  intros l (body & e & -> & Hb & He). apply strip_line; assumption.
Qed.

Lemma splitlines_concat : forall s, List.concat (splitlines s) = s.
Proof.
  intros s. destruct (splitlines_go_spec (Datatypes.length s) s (le_n _) [] ltac:(constructor)) as [_ C]. exact C.
Qed.

(* ---- join ---------------------------------------------------------------------------------------- *)
Notation LF := [c_lf].

Lemma join_cons : forall (sep l : str) ls, ls <> [] -> join sep (l :: ls) = l ++ sep ++ join sep ls.
Proof. intros sep l [|x ls] H; [congruence|reflexivity]. Qed.

Lemma join_snoc : forall (sep : str) a x, a <> [] -> join sep (a ++ [x]) = join sep a ++ sep ++ x.
Proof.
  intros sep a x. induction a as [|l a IH]; intros Hne; [congruence|].
  destruct a as [|l' a]; [reflexivity|].
  change ((l :: l' :: a) ++ [x]) with (l :: ((l' :: a) ++ [x])).
  rewrite join_cons by (destruct a; discriminate).
  rewrite IH by discriminate. rewrite (join_cons sep l (l' :: a)) by discriminate.
  rewrite <- !app_assoc. reflexivity.
Qed.

Lemma rev_join : forall ls : list str, rev (join LF ls) = join LF (rev (map (@rev N) ls)).
Proof.
  induction ls as [|l ls IH]; [reflexivity|].
  destruct ls as [|l' ls]; [reflexivity|].
  rewrite join_cons by discriminate. rewrite !rev_app_distr, IH.
  cbn [map rev] in *. rewrite (join_snoc LF _ (rev l)).
  - cbn [rev app]. rewrite <- app_assoc. reflexivity.
  - intro E. apply app_eq_nil in E. destruct E as [_ E]. discriminate.
Qed.

Fixpoint dropE (ls : list str) : list str :=
  match ls with [] :: ls' => dropE ls' | _ => ls end.

Lemma dropE_Forall : forall (P : str -> Prop) ls, Forall P ls -> Forall P (dropE ls).
Proof.
  intros P ls H. induction H as [|l ls Hl H IH]; [constructor|].
  destruct l; [exact IH|constructor; assumption].
Qed.

Lemma dropE_hd : forall ls, match dropE ls with [] => True | l :: _ => l <> [] end.
Proof. induction ls as [|l ls IH]; [exact I|]. destruct l; [exact IH|discriminate]. Qed.

Lemma lstrip_join : forall ls, Forall (fun l => hd_not is_space l) ls -> lstrip (join LF ls) = join LF (dropE ls).
Proof.
  intros ls H. induction H as [|l ls Hl H IH]; [reflexivity|].
  destruct l as [|c l].
  - cbn [dropE]. destruct ls as [|l' ls]; [reflexivity|].
    rewrite join_cons by discriminate. cbn [app lstrip]. exact IH.
  - cbn [dropE]. apply lstrip_hd. destruct ls; exact Hl.
Qed.

Definition last_nonempty (a : list str) : Prop := a = [] \/ exists a' l, a = a' ++ [l] /\ l <> [].

Lemma strip_join_shape : forall ls, Forall sline ls ->
  exists a, strip (join LF ls) = join LF a /\ Forall sline a /\ last_nonempty a.
Proof.
  intros ls H.
  assert (Hrev : forall x, Forall sline x -> Forall sline (rev (map (@rev N) x))).
  { intros x Hx. apply Forall_rev. apply Forall_map. revert Hx. apply Forall_impl.
    intros l [Ht Hn]. split; [apply tight_rev; exact Ht|apply Forall_rev; exact Hn]. }
  assert (Hhd : forall x, Forall sline x -> Forall (fun l => hd_not is_space l) x).
  { intros x. apply Forall_impl. intros l [[Ht _] _]. exact Ht. }
  set (x := dropE (rev (map (@rev N) (dropE ls)))).
  exists (rev (map (@rev N) x)).
  assert (Hx : Forall sline x). { apply dropE_Forall, Hrev, dropE_Forall, H. }
  split; [|split].
  - unfold strip. rewrite (lstrip_join ls (Hhd ls H)). unfold rstrip.
    rewrite rev_join, lstrip_join by (apply Hhd, Hrev, dropE_Forall, H).
    fold x. apply rev_join.
  - apply Hrev, Hx.
  - pose proof (dropE_hd (rev (map (@rev N) (dropE ls)))) as Hd. fold x in Hd.
    destruct x as [|l x']; [left; reflexivity|right].
    exists (rev (map (@rev N) x')), (rev l). split; [reflexivity|].
    intro E. apply Hd. apply rev_nil_inv. exact E.
Qed.

(* ---- splitlines on joined lines ------------------------------------------------------------------ *)
Lemma sl_run : forall l cur rest, nolb l -> splitlines_go cur (l ++ rest) = splitlines_go (rev l ++ cur) rest.
Proof.
  intros l cur rest H. revert cur. induction H as [|c l Hc H IH]; intros cur; [reflexivity|].
  cbn [app splitlines_go]. rewrite Hc.
  assert (Hcr : (c =? c_cr) = false). { revert Hc. unfold is_linebreak. chars. }
  rewrite Hcr, IH. cbn [rev]. rewrite <- app_assoc. reflexivity.
Qed.

Lemma sl_lf : forall cur rest, splitlines_go cur (c_lf :: rest) = rev (c_lf :: cur) :: splitlines_go [] rest.
Proof. reflexivity. Qed.

Lemma sl_one : forall l, nolb l -> l <> [] -> splitlines l = [l].
Proof.
  intros l H Hne. unfold splitlines. rewrite <- (app_nil_r l) at 1. rewrite sl_run by exact H.
  cbn [splitlines_go]. rewrite app_nil_r.
  destruct (rev l) eqn:E; [apply rev_nil_inv in E; contradiction|]. rewrite <- E, rev_involutive. reflexivity.
Qed.

Lemma sl_line : forall l rest, nolb l -> splitlines (l ++ c_lf :: rest) = (l ++ LF) :: splitlines rest.
Proof.
  intros l rest H. unfold splitlines. rewrite sl_run by exact H. rewrite sl_lf.
  cbn [rev]. rewrite app_nil_r, rev_involutive. reflexivity.
Qed.

Lemma strip_with_lf : forall l, tight l -> strip (l ++ LF) = l.
Proof.
  intros l Ht. unfold strip.
  assert (E : lstrip (l ++ LF) = (if forallb is_space l then [] else l ++ LF)).
  { rewrite lstrip_app. destruct (forallb is_space l); [reflexivity|]. rewrite (lstrip_hd l (proj1 Ht)). reflexivity. }
  rewrite E. destruct (forallb is_space l) eqn:Hs.
  - destruct l as [|c l]; [reflexivity|]. cbn [forallb] in Hs. apply andb_true_iff in Hs.
    destruct Ht as [Ht _]. cbn [hd_not] in Ht. rewrite Ht in Hs. destruct Hs; discriminate.
  - rewrite rstrip_app_spaces by (repeat constructor). unfold rstrip. rewrite (lstrip_hd _ (proj2 Ht)). apply rev_involutive.
Qed.

Lemma lines_join : forall a l, Forall sline (a ++ [l]) -> l <> [] ->
  map strip (splitlines (join LF (a ++ [l]))) = a ++ [l].
Proof.
  induction a as [|x a IH]; intros l H Hne.
  - cbn [app join]. inversion H as [|? ? [Ht Hn] _]; subst. rewrite sl_one by assumption.
    cbn [map]. rewrite strip_tight by exact Ht. reflexivity.
  - change ((x :: a) ++ [l]) with (x :: (a ++ [l])) in *. inversion H as [|? ? [Ht Hn] H']; subst.
    rewrite join_cons by (destruct a; discriminate). cbn [app]. rewrite sl_line by exact Hn.
    cbn [map]. rewrite strip_with_lf by exact Ht. rewrite IH by assumption. reflexivity.
Qed.

Lemma lines_join_lf : forall a, Forall sline a -> a <> [] ->
  map strip (splitlines (join LF a ++ LF)) = a.
Proof.
  induction a as [|x a IH]; intros H Hne; [congruence|]. inversion H as [|? ? [Ht Hn] H']; subst.
  destruct a as [|y a].
  - cbn [join]. rewrite sl_line by exact Hn. cbn [map]. rewrite strip_with_lf by exact Ht. reflexivity.
  - rewrite join_cons by discriminate. rewrite <- !app_assoc. cbn [app]. rewrite sl_line by exact Hn.
    cbn [map]. rewrite strip_with_lf by exact Ht. rewrite IH by (assumption || discriminate). reflexivity.
Qed.

(* ---- normal texts: what norm_text produces, and what it leaves alone ------------------------------- *)
Definition normal (r : str) : Prop :=
  tight r /\ exists a, r = join LF a /\ Forall sline a /\ last_nonempty a.

Lemma norm_text_normal : forall s, normal (norm_text s).
Proof.
  intros s. unfold norm_text. split; [apply tight_strip|].
  apply strip_join_shape. apply splitlines_lines.
Qed.

Lemma normal_fix : forall r, normal r -> norm_text r = r.
Proof.
  intros r [Ht (a & -> & Ha & [->|(a' & l & -> & Hl)])]; [reflexivity|].
  unfold norm_text. rewrite lines_join by assumption. apply strip_tight. exact Ht.
Qed.

Lemma normal_fix_lf : forall r, normal r -> r <> [] -> norm_text (LF ++ r ++ LF) = r.
Proof.
  intros r [Ht (a & -> & Ha & Hl)] Hne.
  assert (Hane : a <> []). { intros ->. apply Hne. reflexivity. }
  unfold norm_text. cbn [app]. change (splitlines (c_lf :: join LF a ++ LF)) with (splitlines ([] ++ c_lf :: (join LF a ++ LF))).
  rewrite sl_line by constructor. cbn [map app]. rewrite lines_join_lf by assumption.
  change (strip LF) with (@nil N).
  rewrite join_cons by exact Hane. cbn [app]. unfold strip. cbn [lstrip].
  change (is_space c_lf) with true. cbv iota. apply strip_tight. exact Ht.
Qed.

Lemma normal_simple : forall d, Forall (fun c => is_space c = false) d -> normal d.
Proof.
  intros d H.
  assert (Ht : tight d).
  { split; apply (Forall_hd_not (fun c => is_space c = false)); try (intros c Hc; exact Hc); [exact H|].
    apply Forall_rev. exact H. }
  split; [exact Ht|]. destruct d as [|c d]; [exists []; split; [reflexivity|split; [constructor|left; reflexivity]]|].
  exists [c :: d]. split; [reflexivity|]. split.
  - constructor; [|constructor]. split; [exact Ht|]. revert H. apply Forall_impl.
    intros x Hx. destruct (is_linebreak x) eqn:E; [|reflexivity]. apply lb_space in E. congruence.
  - right. exists [], (c :: d). split; [reflexivity|discriminate].
Qed.

(* the text the writer puts into the element *)
Definition wrap_text (s : str) : str :=
  if nonempty s && Nat.ltb 1 (Datatypes.length (splitlines s)) then LF ++ s ++ LF else s.

Lemma normal_wrap : forall r, normal r -> norm_text (wrap_text r) = r.
Proof.
  intros r H. unfold wrap_text. destruct (nonempty r) eqn:Hne; cbn [andb]; [|apply normal_fix; exact H].
  destruct (Nat.ltb 1 (Datatypes.length (splitlines r))); [|apply normal_fix; exact H].
  apply normal_fix_lf; [exact H|]. apply nonempty_true. exact Hne.
Qed.

Lemma normal_wrap_nonblank : forall r, normal r -> r <> [] -> forallb is_space (wrap_text r) = false.
Proof.
  intros r [[Ht _] _] Hne. destruct r as [|c r]; [congruence|]. cbn [hd_not] in Ht.
  destruct (forallb is_space (wrap_text (c :: r))) eqn:E; [|reflexivity]. exfalso.
  rewrite forallb_forall in E. assert (Hin : In c (wrap_text (c :: r))).
  { unfold wrap_text. destruct (nonempty (c :: r) && Nat.ltb 1 (Datatypes.length (splitlines (c :: r)))).
    - right. left. reflexivity.
    - left. reflexivity. }
  rewrite (E c Hin) in Ht. discriminate.
Qed.

(* text that is not blank does not vanish in the normalisation *)
Lemma in_join : forall (sep : str) c l ls, In c l -> In l ls -> In c (join sep ls).
Proof.
  intros sep c l ls Hc. induction ls as [|x ls IH]; intros Hl; [contradiction|].
  destruct ls as [|y ls].
  - destruct Hl as [->|[]]. exact Hc.
  - rewrite join_cons by discriminate. apply in_or_app. destruct Hl as [->|Hl]; [left; exact Hc|].
    right. apply in_or_app. right. apply IH. exact Hl.
Qed.

Lemma norm_text_nonblank : forall s, forallb is_space s = false -> norm_text s <> [].
Proof.
  intros s H.
  assert (Hex : exists c, In c s /\ is_space c = false).
  { induction s as [|c s IH]; [discriminate|]. cbn [forallb] in H. destruct (is_space c) eqn:Hc.
    - destruct (IH H) as (x & Hx & Hs). exists x. split; [right; exact Hx|exact Hs].
    - exists c. split; [left; reflexivity|exact Hc]. }
  destruct Hex as (c & Hin & Hc). rewrite <- (splitlines_concat s) in Hin.
  apply in_concat in Hin. destruct Hin as (l & Hl & Hcl).
  assert (Hgoal : In c (norm_text s)).
  { unfold norm_text. apply strip_keeps; [|exact Hc]. apply (in_join LF c (strip l)).
    - apply strip_keeps; assumption.
    - apply in_map. exact Hl. }
  intro E. rewrite E in Hgoal. exact Hgoal.
Qed.

(* ================================================================================================ *)
(* 3. the classifier on text that has no quotes to lose                                             *)
(* ================================================================================================ *)
Lemma unquoted_eq : forall s, unquoted s = true <-> remove_quotes s = s.
Proof. intros s. unfold unquoted. apply ScalarProofs.str_eqb_eq. Qed.

Lemma tval_ok : forall s, parse_value s = Ok (tval s).
Proof.
  intros s. unfold tval. destruct (parse_value s) as [v|e] eqn:E; [reflexivity|].
  exfalso. exact (parse_value_total s e E).
Qed.

Inductive tcase (s : str) : scalar -> Prop :=
  | tc_int z : tcase s (SInt z)
  | tc_float : re_float3 s = true -> tcase s (SFloat s)
  | tc_bool b : tcase s (SBool b)
  | tc_none : tcase s SNone
  | tc_res : reserved s -> tcase s (SStr s)
  | tc_str : ~ is_word_lit s -> tcase s (SStr s).

Lemma tval_cases : forall s, remove_quotes s = s -> s <> [] -> tcase s (tval s).
Proof.
  intros s Hrq Hne. destruct (parse_value_table s) as (v & E & C). unfold tval. rewrite E.
  destruct C as [A|A B|z A B C|A B C D|A B C D W|A B C D W|A B C D W|A B C D W]; try rewrite Hrq in *.
  - contradiction.
  - apply tc_res. exact B.
  - apply tc_int.
  - apply tc_float. apply re_float3_complete. exact D.
  - apply tc_bool.
  - apply tc_bool.
  - apply tc_none.
  - apply tc_str. exact W.
Qed.

Definition numchar (c : N) : Prop := is_digit c = true \/ c = c_minus.

Lemma Z_to_dec_chars : forall z, Z_to_dec z <> [] /\ Forall numchar (Z_to_dec z).
Proof.
  assert (HN : forall n, N_to_dec n <> [] /\ Forall numchar (N_to_dec n)).
  { intros n. destruct (N_to_dec_spec n) as [[Hd Hne] _]. split; [exact Hne|].
    revert Hd. apply Forall_impl. intros c Hc. left. exact Hc. }
  intros [|p|p]; unfold Z_to_dec.
  - split; [discriminate|]. constructor; [left; reflexivity|constructor].
  - apply HN.
  - split; [discriminate|]. constructor; [right; reflexivity|apply HN].
Qed.

Lemma numchar_props : forall c, numchar c -> is_space c = false /\ is_quote c = false /\ (is_digit c = true \/ is_sign c = true).
Proof. intros c [H| ->]; [|repeat split; try reflexivity; right; reflexivity]. repeat split; [revert H; chars|revert H; chars|left; exact H]. Qed.

Lemma wtf_start : forall s, w_true_false s = true ->
  (lower s = w_true \/ lower s = w_false) /\
  exists c t, s = c :: t /\ is_sign c = false /\ is_digit c = false /\ (c =? c_dot) = false.
Proof.
  intros s H. unfold w_true_false in H. apply orb_true_iff in H.
  rewrite !ScalarProofs.str_eqb_eq in H. split; [exact H|].
  assert (Ht : w_true = [116; 114; 117; 101]) by reflexivity.
  assert (Hf : w_false = [102; 97; 108; 115; 101]) by reflexivity.
  rewrite Ht, Hf in H. destruct s as [|c t]; [destruct H; discriminate|].
  exists c, t. split; [reflexivity|]. cbn [lower map] in H.
  assert (Hc : to_lower c = 116 \/ to_lower c = 102).
  { destruct H as [H|H]; injection H as H _; [left|right]; exact H. }
  clear H. unfold to_lower in Hc. destruct (is_upper c) eqn:Hu; revert Hu Hc; chars.
Qed.

Lemma lower_nospace : forall s w, lower s = w -> Forall (fun c => is_space c = false) w ->
  Forall (fun c => is_space c = false) s.
Proof.
  induction s as [|c s IH]; intros w E Hw; [constructor|].
  cbn [lower map] in E. subst w. inversion Hw as [|? ? Hc Hs]; subst. constructor; [|apply (IH _ eq_refl Hs)].
  revert Hc. unfold to_lower. destruct (is_upper c) eqn:Hu; revert Hu; chars.
Qed.

Lemma wtf_word : forall s, w_true_false s = true -> is_word_lit s.
Proof.
  intros s H. destruct (wtf_start s H) as [Hl _].
  assert (Hns : Forall (fun c => is_space c = false) s).
  { destruct Hl as [Hl|Hl]; apply (lower_nospace s _ Hl); repeat constructor. }
  assert (Hs : strip s = s). { apply strip_tight. exact (proj1 (normal_simple s Hns)). }
  unfold is_word_lit, word. rewrite Hs. destruct Hl as [Hl|Hl]; [left|right; left]; exact Hl.
Qed.

Lemma wtf_float : forall s, re_float3 s = true -> w_true_false s = false.
Proof.
  intros s Hf. destruct (w_true_false s) eqn:H; [|reflexivity]. exfalso.
  destruct (wtf_start s H) as [_ (c & t & -> & Hs & Hd & Hdot)].
  unfold re_float3, opt_sign in Hf. rewrite Hs in Hf. unfold re_mantissa in Hf. cbn [span] in Hf.
  rewrite Hd, Hdot in Hf. discriminate.
Qed.

Lemma wtf_num : forall d, d <> [] -> Forall numchar d -> w_true_false d = false.
Proof.
  intros d Hne Hd. destruct (w_true_false d) eqn:H; [|reflexivity]. exfalso.
  destruct (wtf_start d H) as [_ (c & t & -> & Hs & Hdg & _)].
  inversion Hd as [|? ? Hc _]; subst. destruct (numchar_props c Hc) as (_ & _ & [E|E]); congruence.
Qed.

(* all that the cycle needs to know about one typed text *)
Record leaf_facts (s : str) (v : scalar) : Prop := {
  lf_stable : parse_scalar v = Ok v;                               (* typing again changes nothing *)
  lf_str_ne : py_str v <> [];
  lf_str_uq : remove_quotes (py_str v) = py_str v;
  lf_str_rd : parse_value (py_str v) = Ok v;                       (* the written spelling is read back as v *)
  lf_attr_ne : attr_text (Leaf v) <> [];
  lf_attr_uq : remove_quotes (attr_text (Leaf v)) = attr_text (Leaf v);
  lf_attr_rd : parse_value (attr_text (Leaf v)) = Ok v;
  lf_normal : normal s -> normal (py_str v)
}.

Lemma attr_text_plain : forall v, w_true_false (py_str v) = false -> attr_text (Leaf v) = py_str v.
Proof. intros v H. unfold attr_text. cbn [py_str_tree]. rewrite H. reflexivity. Qed.

Lemma leaf_facts_plain : forall s v, parse_scalar v = Ok v -> py_str v <> [] -> remove_quotes (py_str v) = py_str v ->
  parse_value (py_str v) = Ok v -> w_true_false (py_str v) = false -> (normal s -> normal (py_str v)) -> leaf_facts s v.
Proof.
  intros s v H1 H2 H3 H4 H5 H6. pose proof (attr_text_plain v H5) as E.
  constructor; try rewrite E; assumption.
Qed.

Lemma tval_facts : forall s, remove_quotes s = s -> s <> [] -> leaf_facts s (tval s).
Proof.
  intros s Hrq Hne. pose proof (tval_ok s) as Hpv. pose proof (tval_cases s Hrq Hne) as Hc.
  inversion Hc as [z E|Hf E|b E|E|Hr E|Hw E].
  - destruct (Z_to_dec_chars z) as [Hdne Hd].
    assert (Hns : Forall (fun c => is_space c = false) (Z_to_dec z)).
    { revert Hd. apply Forall_impl. intros c Hcn. exact (proj1 (numchar_props c Hcn)). }
    apply leaf_facts_plain; cbn [py_str parse_scalar].
    + reflexivity.
    + exact Hdne.
    + apply remove_quotes_noquote. revert Hd. apply Forall_impl. intros c Hcn. exact (proj1 (proj2 (numchar_props c Hcn))).
    + exact (fmt_int_roundtrip z).
    + apply wtf_num; assumption.
    + intros _. apply normal_simple. exact Hns.
  - rewrite <- E in Hpv. apply leaf_facts_plain; cbn [py_str parse_scalar]; try assumption; try reflexivity.
    + apply wtf_float. exact Hf.
    + intros H; exact H.
  - destruct b; constructor; try (vm_compute; congruence); try reflexivity;
      intros _; apply normal_simple; repeat constructor.
  - constructor; try (vm_compute; congruence); try reflexivity; intros _; apply normal_simple; repeat constructor.
  - rewrite <- E in Hpv. apply leaf_facts_plain; cbn [py_str parse_scalar]; try assumption.
    + destruct Hr as [->|[->| ->]]; reflexivity.
    + intros H; exact H.
  - rewrite <- E in Hpv. apply leaf_facts_plain; cbn [py_str parse_scalar]; try assumption.
    + destruct (w_true_false s) eqn:H; [|reflexivity]. exfalso. exact (Hw (wtf_word s H)).
    + intros H; exact H.
Qed.

(* ================================================================================================ *)
(* 4. the typing pass (Parser.parse_values) as a total map                                           *)
(* ================================================================================================ *)
Definition tleaf (v : scalar) : scalar := match v with SStr s => tval s | _ => v end.
Fixpoint tmap (t : tree) : tree :=
  match t with
  | Leaf v => Leaf (tleaf v)
  | Dict kvs => Dict (map (fun kt => (fst kt, tmap (snd kt))) kvs)
  | Lst ts => Lst (map tmap ts)
  end.
Definition tm (kt : key * tree) : key * tree := (fst kt, tmap (snd kt)).

Lemma parse_values_tree_tmap : forall t, parse_values_tree t = Ok (tmap t).
Proof.
  induction t as [v|kvs H|ts H] using tree_ind'.
  - cbn [parse_values_tree tmap]. destruct v; cbn [parse_scalar bind tleaf]; try reflexivity.
    rewrite tval_ok. reflexivity.
  - cbn [parse_values_tree tmap].
    match goal with |- bind (?g kvs) _ = _ =>
      assert (E : g kvs = Ok (map (fun kt => (fst kt, tmap (snd kt))) kvs)) end.
    { induction H as [|[k c] l Hc Hl IH]; [reflexivity|]. cbn [snd] in Hc. rewrite Hc. cbn [bind].
      rewrite IH. reflexivity. }
    rewrite E. reflexivity.
  - cbn [parse_values_tree tmap].
    match goal with |- bind (?g ts) _ = _ => assert (E : g ts = Ok (map tmap ts)) end.
    { induction H as [|c l Hc Hl IH]; [reflexivity|]. rewrite Hc. cbn [bind]. rewrite IH. reflexivity. }
    rewrite E. reflexivity.
Qed.

Lemma typed_tmap : forall t, typed t = tmap t.
Proof. intros t. unfold typed. rewrite parse_values_tree_tmap. reflexivity. Qed.

(* ================================================================================================ *)
(* 5. keys: numbered keys stay strings, are ordinary for the writer, and are pairwise distinct        *)
(* ================================================================================================ *)
Definition nkey (i : Z) (tag : str) : key := KS (pad6 (Z.to_N i) ++ [c_us] ++ tag).

Lemma strip_head : forall c s, is_space c = false -> exists t, strip (c :: s) = c :: t.
Proof.
  intros c s Hc. unfold strip. cbn [lstrip]. rewrite Hc.
  destruct (rstrip_split (c :: s)) as (w & E & Hw). destruct (rstrip (c :: s)) as [|x t].
  - cbn [app] in E. subst w. inversion Hw; congruence.
  - injection E as <- _. exists t. reflexivity.
Qed.

Lemma str_eqb_head : forall a s b w, (a =? b) = false -> str_eqb (a :: s) (b :: w) = false.
Proof. intros a s b w H. cbn [str_eqb]. rewrite H. reflexivity. Qed.

Lemma parse_value_numbered : forall ds tag, digits1 ds -> noquote tag ->
  parse_value (ds ++ c_us :: tag) = Ok (SStr (ds ++ c_us :: tag)).
Proof.
  intros ds tag [Hd Hne] Hq. destruct ds as [|d ds']; [congruence|]. inversion Hd as [|? ? Hd1 Hd']; subst.
  set (txt := (d :: ds') ++ c_us :: tag).
  assert (Hrq : remove_quotes txt = txt).
  { apply remove_quotes_noquote. apply Forall_app. split.
    - revert Hd. apply Forall_impl. intros c Hc. revert Hc. chars.
    - constructor; [reflexivity|exact Hq]. }
  assert (Hos : opt_sign txt = txt).
  { unfold txt. cbn [app opt_sign]. rewrite (digit_not_sign d Hd1). reflexivity. }
  assert (Hsp : span is_digit txt = (d :: ds', c_us :: tag)). { apply span_app; [exact Hd|reflexivity]. }
  assert (Hend : at_end (c_us :: tag) = false). { destruct tag; reflexivity. }
  assert (Hres : str_eqb txt [c_minus] || str_eqb txt [c_us] || str_eqb txt [c_dot] = false).
  { unfold txt. destruct ds'; cbn [app str_eqb]; rewrite !andb_false_r; reflexivity. }
  assert (Hint : re_int txt = false). { unfold re_int. rewrite Hos, Hsp, Hend. apply andb_false_r. }
  assert (Hf2 : re_float2 txt = false).
  { unfold re_float2, re_mantissa. rewrite Hos, Hsp. change (c_us =? c_dot) with false. cbv iota. exact Hend. }
  assert (Hf3 : re_float3 txt = false).
  { unfold re_float3, re_mantissa. rewrite Hos, Hsp. change (c_us =? c_dot) with false. cbv iota.
    unfold re_exp_end. rewrite Hend. reflexivity. }
  assert (Hsd : is_space d = false). { revert Hd1. chars. }
  assert (Hst : exists t, strip txt = d :: t) by (apply strip_head; exact Hsd).
  destruct Hst as (t & Ht).
  assert (Hlow : lower (strip txt) = d :: lower t).
  { rewrite Ht. cbn [lower map]. f_equal. unfold to_lower.
    assert (Hu : is_upper d = false) by (revert Hd1; chars). rewrite Hu. reflexivity. }
  unfold parse_value. rewrite Hrq, Hres, Hint, Hf2, Hf3.
  change (nonempty txt) with true. cbn [negb]. cbv zeta. rewrite Hlow.
  change w_true with (116 :: of_string "rue"). change w_false with (102 :: of_string "alse").
  change w_on with (111 :: of_string "n"). change w_off with (111 :: of_string "ff").
  change w_none with (110 :: of_string "one"). change w_null with (110 :: of_string "ull").
  rewrite !str_eqb_head by (revert Hd1; chars). reflexivity.
Qed.

Lemma node_key_numbered : forall i tag, (0 <= i < 1000000)%Z -> quote_free tag = true ->
  node_key true i tag = nkey i tag.
Proof.
  intros i tag Hi Hq. unfold node_key, nkey. cbn [app].
  destruct (pad6_props (Z.to_N i) ltac:(lia)) as [Hd Hl].
  rewrite parse_value_numbered.
  - reflexivity.
  - split; [exact Hd|]. intro E. rewrite E in Hl. discriminate.
  - apply quote_free_noquote. exact Hq.
Qed.

Lemma digit_key_ordinary : forall d t, is_digit d = true -> special_xml_key (d :: t) = false.
Proof.
  intros d t Hd. unfold special_xml_key, is_skip_key.
  change (of_string "_content") with (95 :: of_string "content").
  change (of_string "_attrib") with (95 :: of_string "attrib").
  change w_INCLUDE with (73 :: of_string "NCLUDE").
  change w_BLOCKCOMMENT with (66 :: of_string "LOCKCOMMENT").
  change w_LINECOMMENT with (76 :: of_string "INECOMMENT").
  cbn [starts_with]. unfold c_us.
  assert (H1 : (95 =? d) = false) by (revert Hd; chars).
  assert (H2 : (73 =? d) = false) by (revert Hd; chars).
  assert (H3 : (66 =? d) = false) by (revert Hd; chars).
  assert (H4 : (76 =? d) = false) by (revert Hd; chars).
  rewrite H1, H2, H3, H4. reflexivity.
Qed.

Lemma pad6_head : forall n, n < 1000000 -> exists d t, pad6 n = d :: t /\ is_digit d = true.
Proof.
  intros n Hn. destruct (pad6_props n Hn) as [Hd Hl]. destruct (pad6 n) as [|d t]; [discriminate|].
  exists d, t. split; [reflexivity|]. inversion Hd; assumption.
Qed.

Lemma nkey_ordinary : forall i tag v, (0 <= i < 1000000)%Z -> pop_ns (nkey i tag, v) = true.
Proof.
  intros i tag v Hi. unfold pop_ns, nkey. cbn [fst key_text_xml].
  destruct (pad6_head (Z.to_N i) ltac:(lia)) as (d & t & E & Hd). rewrite E. cbn [app].
  rewrite (digit_key_ordinary d _ Hd). reflexivity.
Qed.

Lemma nkey_unnumber : forall i tag, (0 <= i < 1000000)%Z -> unnumber_key (nkey i tag) = KS tag.
Proof. intros i tag Hi. unfold nkey, unnumber_key. rewrite numbering_removed by lia. reflexivity. Qed.

Lemma dec_to_N_zeros : forall k d, dec_to_N (repeat 48 k ++ d) = dec_to_N d.
Proof.
  intros k d. unfold dec_to_N. induction k as [|k IH]; [reflexivity|].
  cbn [repeat app fold_left]. change (10 * 0 + digit_val 48) with 0. exact IH.
Qed.

Lemma pad6_inj : forall n m, pad6 n = pad6 m -> n = m.
Proof.
  intros n m E. apply (f_equal dec_to_N) in E. unfold pad6 in E. rewrite !dec_to_N_zeros in E.
  destruct (N_to_dec_spec n) as [_ En]. destruct (N_to_dec_spec m) as [_ Em]. congruence.
Qed.

Lemma app_eq_len : forall (a b x y : str), Datatypes.length a = Datatypes.length b -> a ++ x = b ++ y -> a = b /\ x = y.
Proof.
  induction a as [|c a IH]; intros [|d b] x y Hl E; try discriminate Hl; [split; [reflexivity|exact E]|].
  cbn [app] in E. injection E as -> E. cbn [Datatypes.length] in Hl. injection Hl as Hl.
  destruct (IH b x y Hl E) as [-> ->]. split; reflexivity.
Qed.

Lemma nkey_inj : forall i j t u, (0 <= i < 1000000)%Z -> (0 <= j < 1000000)%Z -> nkey i t = nkey j u -> i = j.
Proof.
  intros i j t u Hi Hj E. unfold nkey in E. injection E as E.
  destruct (pad6_props (Z.to_N i) ltac:(lia)) as [_ Li]. destruct (pad6_props (Z.to_N j) ltac:(lia)) as [_ Lj].
  apply app_eq_len in E; [|congruence]. destruct E as [E _]. apply pad6_inj in E. lia.
Qed.

(* ================================================================================================ *)
(* 6. one element: attributes, text, and what the writer makes of them                               *)
(* ================================================================================================ *)
Lemma aset_notin : forall (k : key) (v : tree) l, ~ In k (map fst l) -> aset k v l = l ++ [(k, v)].
Proof.
  induction l as [|[k' v'] l IH]; intros H; [reflexivity|]. cbn [aset]. cbn [map fst In] in H.
  destruct (key_eqb k k') eqn:E.
  - apply key_eqb_eq in E. subst. exfalso. apply H. left. reflexivity.
  - rewrite IH; [reflexivity|]. intro Hin. apply H. right. exact Hin.
Qed.

Definition attr_step (a : list (key * tree)) (kv : str * str) : list (key * tree) :=
  if nonempty (snd kv) then aset (KS (fst kv)) (Leaf (SStr (snd kv))) a else a.
Definition raw_attr (kv : str * str) : key * tree := (KS (fst kv), Leaf (SStr (snd kv))).
Definition typed_attr (kv : str * str) : key * tree := (KS (fst kv), Leaf (tval (snd kv))).
Definition attr_name (kv : str * str) : key := KS (fst kv).

Lemma attr_fold : forall attrs acc, NoDup (map fst acc ++ map attr_name attrs) ->
  fold_left attr_step attrs acc = acc ++ map raw_attr (filter has_value attrs).
Proof.
  induction attrs as [|kv attrs IH]; intros acc H; [cbn [fold_left filter map]; rewrite app_nil_r; reflexivity|].
  cbn [fold_left filter]. cbn [map] in H. unfold attr_step at 2, has_value at 1. destruct (nonempty (snd kv)) eqn:E.
  - rewrite aset_notin.
    + rewrite IH; [cbn [map]; rewrite <- app_assoc; reflexivity|].
      rewrite map_app, <- app_assoc. exact H.
    + apply NoDup_remove_2 in H. intro Hin. apply H. apply in_or_app. left. exact Hin.
  - apply IH. apply NoDup_remove_1 in H. exact H.
Qed.

Definition araw (attrs : list (str * str)) : list (key * tree) :=
  match attrs with [] => [] | _ => [(k_attributes, Dict (fold_left attr_step attrs []))] end.
Definition content_raw (text : option str) : list (key * tree) :=
  if blank_text text then [] else [(k_content, Leaf (SStr (norm_text (text_of text))))].

Definition attr_good (kv : str * str) : Prop :=
  starts_with_digits1 (fst kv) = false /\ remove_quotes (snd kv) = snd kv.

Lemma attrs_ok_inv : forall attrs, attrs_ok attrs = true ->
  NoDup (map attr_name attrs) /\ Forall attr_good attrs /\ (attrs = [] \/ filter has_value attrs <> []).
Proof.
  intros attrs H. unfold attrs_ok in H. apply andb_true_iff in H. destruct H as [H H3].
  apply andb_true_iff in H. destruct H as [H1 H2]. split; [|split].
  - apply keys_nodup_iff. exact H1.
  - rewrite forallb_forall in H2. apply Forall_forall. intros kv Hin. specialize (H2 kv Hin).
    unfold attr_ok in H2. apply andb_true_iff in H2. destruct H2 as [Ha Hb]. split.
    + apply negb_true_iff. exact Ha.
    + apply unquoted_eq. exact Hb.
  - destruct attrs as [|kv attrs]; [left; reflexivity|right]. apply existsb_exists in H3.
    destruct H3 as (x & Hin & Hx). intro E. assert (Hf : In x (filter has_value (kv :: attrs))).
    { apply filter_In. split; assumption. } rewrite E in Hf. exact Hf.
Qed.

Lemma araw_typed : forall attrs, attrs_ok attrs = true -> map tm (araw attrs) = attrs_part attrs.
Proof.
  intros attrs H. destruct (attrs_ok_inv attrs H) as (Hnd & _ & _).
  destruct attrs as [|kv attrs]; [reflexivity|]. unfold araw, attrs_part.
  rewrite attr_fold by exact Hnd. cbn [app map]. unfold tm at 1. cbn [fst snd tmap]. rewrite map_map. reflexivity.
Qed.

Lemma tleaf_stable : forall v, parse_scalar v = Ok v -> tleaf v = v.
Proof. intros v H. destruct v; try reflexivity. cbn [parse_scalar] in H. unfold tleaf, tval. rewrite H. reflexivity. Qed.

Lemma attr_facts : forall kv, attr_good kv -> has_value kv = true -> leaf_facts (snd kv) (tval (snd kv)).
Proof. intros kv [_ Hq] Hv. apply tval_facts; [exact Hq|]. apply nonempty_true. exact Hv. Qed.

Lemma Forall_filter : forall {A} (P : A -> Prop) f (l : list A), Forall P l -> Forall (fun x => P x /\ f x = true) (filter f l).
Proof.
  intros A P f l H. induction H as [|x l Hx H IH]; [constructor|]. cbn [filter].
  destruct (f x) eqn:E; [constructor; [split; assumption|exact IH]|exact IH].
Qed.

Lemma attrs_part_stable : forall attrs, attrs_ok attrs = true -> map tm (attrs_part attrs) = attrs_part attrs.
Proof.
  intros attrs H. destruct (attrs_ok_inv attrs H) as (_ & Hg & _).
  destruct attrs as [|kv0 attrs]; [reflexivity|]. unfold attrs_part. cbn [map]. unfold tm at 1. cbn [fst snd tmap].
  do 3 f_equal. rewrite map_map. pose proof (Forall_filter _ has_value _ Hg) as Hf.
  induction Hf as [|kv l [Hk Hv] Hf IH]; [reflexivity|]. cbn [map]. rewrite IH. f_equal.
  cbn [fst snd tmap]. rewrite (tleaf_stable _ (lf_stable _ _ (attr_facts kv Hk Hv))). reflexivity.
Qed.

Lemma strip_numbering_nodigit : forall s, starts_with_digits1 s = false -> strip_numbering s = s.
Proof.
  intros [|c s] H; [reflexivity|]. cbn [starts_with_digits1] in H. unfold strip_numbering. cbn [span].
  rewrite H. reflexivity.
Qed.

Lemma attrs_part_unnumber : forall attrs, attrs_ok attrs = true -> unnumber (attrs_part attrs) = attrs_part attrs.
Proof.
  intros attrs H. destruct (attrs_ok_inv attrs H) as (_ & Hg & _).
  destruct attrs as [|kv0 attrs]; [reflexivity|]. unfold attrs_part, unnumber. cbn [map fst snd unnumber_tree].
  change (unnumber_key k_attributes) with k_attributes. do 3 f_equal. rewrite map_map.
  pose proof (Forall_filter _ has_value _ Hg) as Hf.
  induction Hf as [|kv l [[Hk _] _] Hf IH]; [reflexivity|]. cbn [map]. rewrite IH. f_equal.
  cbn [fst snd unnumber_tree unnumber_key]. rewrite (strip_numbering_nodigit _ Hk). reflexivity.
Qed.

Lemma attrs_written : forall attrs, attrs_ok attrs = true ->
  fold_right (fun (kv : key * tree) acc =>
                let v := py_str_tree (snd kv) in
                if nonempty v then (key_text_xml (fst kv), attr_text (snd kv)) :: acc else acc) []
             (map typed_attr (filter has_value attrs)) = norm_attrs attrs.
Proof.
  intros attrs H. destruct (attrs_ok_inv attrs H) as (_ & Hg & _). unfold norm_attrs.
  pose proof (Forall_filter _ has_value _ Hg) as Hf.
  induction Hf as [|kv l [Hk Hv] Hf IH]; [reflexivity|]. cbn [map fold_right]. rewrite IH.
  cbn [typed_attr fst snd py_str_tree key_text_xml]. cbv zeta.
  pose proof (lf_str_ne _ _ (attr_facts kv Hk Hv)) as Hne. apply nonempty_true in Hne. rewrite Hne. reflexivity.
Qed.

Lemma pop_go_attr_entry : forall avs l a t k,
  pop_go ((k_attributes, Dict avs) :: l) a t k =
  pop_go l (fold_right (fun (kv : key * tree) acc =>
                          let v := py_str_tree (snd kv) in
                          if nonempty v then (key_text_xml (fst kv), attr_text (snd kv)) :: acc else acc) [] avs) t k.
Proof. reflexivity. Qed.

Lemma pop_go_content_entry : forall item l a t k,
  pop_go ((k_content, item) :: l) a t k = pop_go l a (Some (content_text item)) k.
Proof. reflexivity. Qed.

Lemma pop_go_attrs_part : forall attrs t k, attrs_ok attrs = true ->
  pop_go (attrs_part attrs) [] t k = (norm_attrs attrs, t, rev k).
Proof.
  intros attrs t k H. destruct attrs as [|kv attrs]; [reflexivity|]. unfold attrs_part.
  rewrite pop_go_attr_entry. change (fun kv0 : str * str => (KS (fst kv0), Leaf (tval (snd kv0)))) with typed_attr.
  rewrite (attrs_written _ H). reflexivity.
Qed.

Lemma pop_go_ord : forall l l2 a t k, Forall (fun kt => pop_ns kt = true) l ->
  pop_go (l ++ l2) a t k = pop_go l2 a t (rev (map pop_child l) ++ k).
Proof.
  induction l as [|[k0 item] l IH]; intros l2 a t k H; [reflexivity|].
  inversion H as [|? ? H0 H']; subst. unfold pop_ns, special_xml_key in H0. cbn [fst] in H0.
  apply negb_true_iff in H0. apply orb_false_iff in H0. destruct H0 as [H0 H3].
  apply orb_false_iff in H0. destruct H0 as [H1 H2].
  cbn [app pop_go]. rewrite H1, H2, H3. rewrite IH by exact H'. cbn [map rev]. rewrite <- app_assoc. reflexivity.
Qed.

(* text *)
Lemma text_facts : forall text, text_ok text = true -> blank_text text = false ->
  let r := norm_text (text_of text) in leaf_facts r (tval r) /\ normal r.
Proof.
  intros text Hok Hb r. destruct text as [s|]; [|discriminate]. cbn [blank_text] in Hb. cbn [text_of] in r.
  split; [|apply norm_text_normal]. apply tval_facts.
  - apply unquoted_eq. exact Hok.
  - apply norm_text_nonblank. exact Hb.
Qed.

Lemma content_raw_typed : forall text, map tm (content_raw text) = content_part text.
Proof. intros text. unfold content_raw, content_part. destruct (blank_text text); reflexivity. Qed.

Lemma content_part_stable : forall text, text_ok text = true -> map tm (content_part text) = content_part text.
Proof.
  intros text Hok. unfold content_part. destruct (blank_text text) eqn:Hb; [reflexivity|].
  destruct (text_facts text Hok Hb) as [Hf _]. cbn [map]. unfold tm. cbn [fst snd tmap].
  rewrite (tleaf_stable _ (lf_stable _ _ Hf)). reflexivity.
Qed.

Lemma content_part_unnumber : forall text, unnumber (content_part text) = content_part text.
Proof. intros text. unfold content_part. destruct (blank_text text); reflexivity. Qed.

(* ================================================================================================ *)
(* 7. the invariant of the reader's result, entry by entry                                           *)
(* ================================================================================================ *)
Definition in_range (i : Z) : Prop := (0 <= i < 1000000)%Z.

Definition Inv (e : elem) (r : list (key * tree)) : Prop :=
  map tm r = r                                            (* typing the result again changes nothing *)
  /\ unnumber r = xml_entries e
  /\ Forall (fun kt => pop_ns kt = true) r
  /\ map pop_child r = map normalise_elem (e_kids e)
  /\ Forall2 (fun ch kt => exists i, in_range i /\ fst kt = nkey i (tag_of ch)) (e_kids e) r
  /\ NoDup (map fst r).

Definition body_ok (ch : elem) (body : list (key * tree)) : Prop :=
  match e_kids ch with [] => body = content_part (e_text ch) | _ => Inv ch body end.
Definition typed_entry (i : Z) (ch : elem) (body : list (key * tree)) : key * tree :=
  (nkey i (tag_of ch), Dict (body ++ attrs_part (e_attrs ch))).

Lemma elem_ok_inv : forall tag attrs text kids, elem_ok (Elem tag attrs text kids) = true ->
  quote_free tag = true /\ attrs_ok attrs = true /\ (kids = [] -> text_ok text = true) /\
  few kids = true /\ forallb elem_ok kids = true.
Proof.
  intros tag attrs text kids H. cbn [elem_ok] in H.
  apply andb_true_iff in H. destruct H as [H H5]. apply andb_true_iff in H. destruct H as [H H4].
  apply andb_true_iff in H. destruct H as [H H3]. apply andb_true_iff in H. destruct H as [H1 H2].
  repeat split; try assumption. intros ->. exact H3.
Qed.

Lemma body_ok_no_attr_key : forall ch body, body_ok ch body -> ~ In k_attributes (map fst body).
Proof.
  intros ch body H. unfold body_ok in H. destruct (e_kids ch) as [|g gk].
  - subst body. unfold content_part. destruct (blank_text (e_text ch)); cbn [map fst In]; [tauto|].
    intros [E|[]]. discriminate E.
  - destruct H as (_ & _ & _ & _ & H5 & _). revert H5. generalize (g :: gk). intros l0 H5.
    induction H5 as [|x kt l1 l2 (i & Hi & Ek') _ IH]; [cbn; tauto|]. cbn [map In]. intros [E|Hin]; [|exact (IH Hin)].
    cbn [fst] in E. rewrite Ek' in E. unfold nkey, k_attributes in E. injection E as E.
    destruct (pad6_head (Z.to_N i) ltac:(unfold in_range in Hi; lia)) as (d & t & Ep & Hd). rewrite Ep in E.
    cbn [app] in E. change (of_string "_attributes") with (95 :: of_string "attributes") in E.
    injection E as E _. subst d. discriminate Hd.
Qed.

Lemma entry_tm : forall i ch body, elem_ok ch = true -> body_ok ch body ->
  tm (typed_entry i ch body) = typed_entry i ch body.
Proof.
  intros i [tag attrs text kids] body Hok Hb. destruct (elem_ok_inv _ _ _ _ Hok) as (_ & Ha & Ht & _ & _).
  unfold typed_entry, tm. cbn [fst snd tmap e_attrs tag_of]. do 2 f_equal.
  change (fun kt : key * tree => (fst kt, tmap (snd kt))) with tm. rewrite map_app, (attrs_part_stable _ Ha). f_equal.
  unfold body_ok in Hb. cbn [e_kids e_text] in Hb. destruct kids as [|g gk].
  - subst body. apply content_part_stable. apply Ht. reflexivity.
  - exact (proj1 Hb).
Qed.

Lemma entry_unnumber : forall i ch body, in_range i -> elem_ok ch = true -> body_ok ch body ->
  unnumber [typed_entry i ch body] = xml_entries (Elem [] [] None [ch]).
Proof.
  intros i [tag attrs text kids] body Hi Hok Hb. destruct (elem_ok_inv _ _ _ _ Hok) as (_ & Ha & _ & _ & _).
  unfold typed_entry, unnumber. cbn [map fst snd xml_entries tag_of e_attrs unnumber_tree].
  rewrite (nkey_unnumber i tag Hi). do 3 f_equal.
  change (map (fun kt => (unnumber_key (fst kt), unnumber_tree (snd kt))) (body ++ attrs_part attrs))
    with (unnumber (body ++ attrs_part attrs)).
  unfold unnumber at 1. rewrite map_app. fold (unnumber body). fold (unnumber (attrs_part attrs)).
  rewrite (attrs_part_unnumber _ Ha). f_equal.
  unfold body_ok in Hb. cbn [e_kids e_text] in Hb. destruct kids as [|g gk].
  - subst body. apply content_part_unnumber.
  - exact (proj1 (proj2 Hb)).
Qed.

Lemma entry_pop : forall i ch body, in_range i -> elem_ok ch = true -> body_ok ch body ->
  pop_child (typed_entry i ch body) = normalise_elem ch.
Proof.
  intros i [tag attrs text kids] body Hi Hok Hb. destruct (elem_ok_inv _ _ _ _ Hok) as (_ & Ha & _ & _ & _).
  unfold typed_entry, pop_child. cbn [fst snd tag_of e_attrs]. unfold nkey. cbn [key_text_xml].
  rewrite numbering_removed by (unfold in_range in Hi; lia). rewrite populate_dict.
  unfold body_ok in Hb. cbn [e_kids e_text] in Hb. destruct kids as [|g gk].
  - subst body. unfold content_part. cbn [normalise_elem map]. unfold norm_content.
    destruct (blank_text text).
    + cbn [app]. rewrite (pop_go_attrs_part _ None [] Ha). reflexivity.
    + cbn [app]. rewrite pop_go_content_entry. rewrite (pop_go_attrs_part _ _ [] Ha). reflexivity.
  - destruct Hb as (_ & _ & H3 & H4 & _). rewrite (pop_go_ord _ _ _ _ _ H3).
    rewrite (pop_go_attrs_part _ _ _ Ha). rewrite app_nil_r, rev_involutive, H4. reflexivity.
Qed.

(* ================================================================================================ *)
(* 8. numbering the children of one element                                                          *)
(* ================================================================================================ *)
Lemma counter_iter_next : forall n c, counter_iter n (counter_next c) = counter_iter (S n) c.
Proof. induction n as [|n IH]; intros c; [reflexivity|]. cbn [counter_iter] in *. rewrite IH. reflexivity. Qed.

Lemma number_tags_closed : forall l count,
  number_tags count l =
  (combine (map (fun j => counter_iter (S j) count) (seq 0 (Datatypes.length l))) l, counter_iter (Datatypes.length l) count).
Proof.
  induction l as [|a l IH]; intros count; [reflexivity|].
  cbn [number_tags Datatypes.length]. rewrite IH. cbn [seq map combine]. rewrite counter_iter_next.
  f_equal. f_equal. rewrite <- seq_shift, map_map. f_equal. apply map_ext. intros j. apply counter_iter_next.
Qed.

Lemma combine_maps : forall {A B} (a : list A) (l : list B), Datatypes.length a = Datatypes.length l ->
  map fst (combine a l) = a /\ map snd (combine a l) = l.
Proof.
  intros A B. induction a as [|x a IH]; intros [|y l] H; try discriminate H; [split; reflexivity|].
  cbn [Datatypes.length] in H. injection H as H. destruct (IH l H) as [E1 E2]. cbn [combine map fst snd].
  rewrite E1, E2. split; reflexivity.
Qed.

Lemma NoDup_map_seq : forall {B} (F : nat -> B) n a,
  (forall j j', (a <= j)%nat -> (j < j')%nat -> (j' < a + n)%nat -> F j <> F j') -> NoDup (map F (seq a n)).
Proof.
  intros B F. induction n as [|n IH]; intros a H; [constructor|]. cbn [seq map]. constructor.
  - intro Hin. apply in_map_iff in Hin. destruct Hin as (j & E & Hj). apply in_seq in Hj.
    apply (H a j); [lia|lia|lia|]. symmetry. exact E.
  - apply IH. intros j j' H1 H2 H3. apply H; lia.
Qed.

Lemma number_tags_spec : forall l count, counter_ok count -> (Z.of_nat (Datatypes.length l) <= 1000000)%Z ->
  map snd (fst (number_tags count l)) = l /\ counter_ok (snd (number_tags count l)) /\
  Forall in_range (map fst (fst (number_tags count l))) /\ NoDup (map fst (fst (number_tags count l))).
Proof.
  intros l count Hc Hl. rewrite number_tags_closed. cbn [fst snd].
  destruct (combine_maps (map (fun j => counter_iter (S j) count) (seq 0 (Datatypes.length l))) l) as [E1 E2].
  { rewrite map_length, seq_length. reflexivity. }
  rewrite E1, E2. split; [reflexivity|]. split; [|split].
  - destruct (Datatypes.length l) as [|n]; [exact Hc|]. pose proof (counter_range n count Hc). unfold counter_ok. lia.
  - apply Forall_map. apply Forall_forall. intros j _. pose proof (counter_range j count Hc). unfold in_range. lia.
  - apply NoDup_map_seq. intros j j' _ H2 H3. apply counter_distinct; [exact Hc|exact H2|].
    apply Nat2Z.inj_lt. rewrite million_nat. lia.
Qed.

Lemma few_bound : forall kids, few kids = true -> (Z.of_nat (Datatypes.length kids) <= 1000000)%Z.
Proof. intros kids H. unfold few in H. apply N.leb_le in H. lia. Qed.

Lemma NoDup_map_via : forall {A B C} (g : A -> B) (h : A -> C) l,
  (forall x y, In x l -> In y l -> h x = h y -> g x = g y) -> NoDup (map g l) -> NoDup (map h l).
Proof.
  intros A B C g h. induction l as [|x l IH]; intros H Hn; [constructor|]. cbn [map] in *.
  inversion Hn as [|? ? Hx Hn']; subst. constructor.
  - intro Hin. apply in_map_iff in Hin. destruct Hin as (y & E & Hy). apply Hx.
    apply in_map_iff. exists y. split; [|exact Hy]. apply H; [right; exact Hy|left; reflexivity|exact E].
  - apply IH; [|exact Hn']. intros a b Ha Hb. apply H; right; assumption.
Qed.

(* ================================================================================================ *)
(* 9. one level of _parse_nodes                                                                      *)
(* ================================================================================================ *)
Definition pn_step (f : nat) (numbering : bool) :=
  fun (acc : list (key * tree) * Z) (ie : Z * elem) =>
    let '(d, c) := acc in
    let '(i, child) := ie in
    match child with
    | Elem tag attrs text kids =>
        let k := node_key numbering i tag in
        let '(body, c') :=
          match kids with
          | _ :: _ => let (sub, c1) := parse_nodes f numbering child c in (sub, c1)
          | [] => if blank_text text then ([], c)
                  else ([(k_content, Leaf (SStr (norm_text (match text with Some s => s | None => [] end))))], c)
          end in
        let body' :=
          match attrs with
          | [] => body
          | _ => aupdate body [(k_attributes,
                               Dict (fold_left (fun a (kv : str * str) =>
                                                  if nonempty (snd kv) then aset (KS (fst kv)) (Leaf (SStr (snd kv))) a else a)
                                               attrs []))]
          end in
        (aset k (Dict body') d, c')
    end.

Lemma parse_nodes_S : forall f nb t a x children count,
  parse_nodes (S f) nb (Elem t a x children) count =
  let (numbered, c0) := number_tags count children in
  let '(d, c) := fold_left (pn_step f nb) numbered ([], c0) in (kvs_of_tree (typed (Dict d)), c).
Proof. reflexivity. Qed.

Lemma pn_step_eq : forall f d c i tag attrs text kids,
  pn_step f true (d, c) (i, Elem tag attrs text kids) =
  let bc := match kids with
            | [] => (content_raw text, c)
            | _ => parse_nodes f true (Elem tag attrs text kids) c
            end in
  (aset (node_key true i tag)
        (Dict (match attrs with
               | [] => fst bc
               | _ => aset k_attributes (Dict (fold_left attr_step attrs [])) (fst bc)
               end)) d, snd bc).
Proof.
  intros f d c i tag attrs text kids. unfold pn_step. destruct kids as [|g gk].
  - unfold content_raw, text_of. destruct (blank_text text); destruct attrs; reflexivity.
  - destruct (parse_nodes f true (Elem tag attrs text (g :: gk)) c) as [sub c1]. destruct attrs; reflexivity.
Qed.

Definition key_of (ie : Z * elem) : key := nkey (fst ie) (tag_of (snd ie)).
Definition rec_ok (f : nat) (ch : elem) : Prop :=
  forall c, counter_ok c -> counter_ok (snd (parse_nodes f true ch c)) /\ Inv ch (fst (parse_nodes f true ch c)).
Definition raw_entry_ok (ie : Z * elem) (kt : key * tree) : Prop :=
  exists body, tm kt = typed_entry (fst ie) (snd ie) body /\ body_ok (snd ie) body.
Definition child_ready (f : nat) (ie : Z * elem) : Prop :=
  in_range (fst ie) /\ elem_ok (snd ie) = true /\ (e_kids (snd ie) <> [] -> rec_ok f (snd ie)).

Lemma map_fst_tm : forall l, map fst (map tm l) = map fst l.
Proof. intros l. rewrite map_map. apply map_ext. intros [k t]. reflexivity. Qed.

Lemma level_fold : forall f numbered d c, counter_ok c -> Forall (child_ready f) numbered ->
  NoDup (map fst d ++ map key_of numbered) ->
  exists ents c', fold_left (pn_step f true) numbered (d, c) = (d ++ ents, c') /\ counter_ok c' /\
                  Forall2 raw_entry_ok numbered ents.
Proof.
  intros f. induction numbered as [|[i ch] numbered IH]; intros d c Hc HF Hnd.
  - exists [], c. rewrite app_nil_r. split; [reflexivity|]. split; [exact Hc|constructor].
  - inversion HF as [|? ? (Hi & Hok & Hrec) HF']; subst. cbn [fst snd] in Hi, Hok, Hrec.
    destruct ch as [tag attrs text kids]. destruct (elem_ok_inv _ _ _ _ Hok) as (Hq & Ha & Ht & _ & _).
    cbn [fold_left]. rewrite pn_step_eq. rewrite (node_key_numbered i tag Hi Hq).
    set (ch := Elem tag attrs text kids) in *.
    set (bc := match kids with [] => (content_raw text, c) | _ :: _ => parse_nodes f true ch c end).
    assert (Hbc : counter_ok (snd bc) /\ body_ok ch (map tm (fst bc))).
    { unfold bc, body_ok. subst ch. cbn [e_kids e_text] in *. destruct kids as [|g gk].
      - cbn [fst snd]. split; [exact Hc|apply content_raw_typed].
      - destruct (Hrec ltac:(discriminate) c Hc) as [H1 H2]. split; [exact H1|].
        rewrite (proj1 H2). exact H2. }
    destruct Hbc as [Hc' Hbody]. cbv zeta.
    assert (Hna : ~ In k_attributes (map fst (fst bc))).
    { rewrite <- map_fst_tm. exact (body_ok_no_attr_key ch _ Hbody). }
    assert (Eb : match attrs with
                 | [] => fst bc
                 | _ :: _ => aset k_attributes (Dict (fold_left attr_step attrs [])) (fst bc)
                 end = fst bc ++ araw attrs).
    { unfold araw. destruct attrs; [rewrite app_nil_r; reflexivity|]. apply aset_notin. exact Hna. }
    rewrite Eb. cbn [map] in Hnd. change (key_of (i, ch)) with (nkey i tag) in Hnd.
    rewrite aset_notin.
    2:{ apply NoDup_remove_2 in Hnd. intro Hin. apply Hnd. apply in_or_app. left. exact Hin. }
    destruct (IH (d ++ [(nkey i tag, Dict (fst bc ++ araw attrs))]) (snd bc) Hc' HF') as (ents & c'' & Ef & Hc'' & H2).
    { rewrite map_app, <- app_assoc. exact Hnd. }
    exists ((nkey i tag, Dict (fst bc ++ araw attrs)) :: ents), c''. split; [|split].
    + rewrite Ef, <- app_assoc. reflexivity.
    + exact Hc''.
    + constructor; [|exact H2]. exists (map tm (fst bc)). split; [|exact Hbody].
      unfold tm at 1, typed_entry. cbn [fst snd tmap tag_of e_attrs ch].
      change (fun kt : key * tree => (fst kt, tmap (snd kt))) with tm. rewrite map_app, (araw_typed _ Ha). reflexivity.
Qed.

Definition xml_entry (ch : elem) : key * tree :=
  (KS (tag_of ch),
   Dict ((match ch with
          | Elem _ _ text [] => content_part text
          | Elem _ _ _ (_ :: _) => xml_entries ch
          end) ++ attrs_part (e_attrs ch))).
Lemma xml_entries_eq : forall t a x kids, xml_entries (Elem t a x kids) = map xml_entry kids.
Proof. reflexivity. Qed.

Lemma singleton_inj : forall {A} (x y : A), [x] = [y] -> x = y.
Proof. intros A x y H. injection H as H. exact H. Qed.

Lemma level_inv : forall numbered ents, Forall2 raw_entry_ok numbered ents ->
  Forall (fun ie => in_range (fst ie) /\ elem_ok (snd ie) = true) numbered ->
  map tm (map tm ents) = map tm ents /\
  unnumber (map tm ents) = map xml_entry (map snd numbered) /\
  Forall (fun kt => pop_ns kt = true) (map tm ents) /\
  map pop_child (map tm ents) = map normalise_elem (map snd numbered) /\
  Forall2 (fun ch kt => exists i, in_range i /\ fst kt = nkey i (tag_of ch)) (map snd numbered) (map tm ents) /\
  map fst (map tm ents) = map key_of numbered.
Proof.
  intros numbered ents H2. induction H2 as [|[i ch] kt numbered ents (body & Et & Hb) H2 IH]; intros HF.
  - repeat split; constructor.
  - inversion HF as [|? ? [Hi Hok] HF']; subst. cbn [fst snd] in *.
    destruct (IH HF') as (I1 & I2 & I3 & I4 & I5 & I6). cbn [map]. rewrite Et.
    split; [|split; [|split; [|split; [|split]]]].
    + rewrite (entry_tm i ch body Hok Hb), I1. reflexivity.
    + unfold unnumber in *. cbn [map]. rewrite I2. f_equal.
      pose proof (entry_unnumber i ch body Hi Hok Hb) as E. unfold unnumber in E.
      rewrite xml_entries_eq in E. cbn [map] in E. apply singleton_inj in E. exact E.
    + constructor; [|exact I3]. apply nkey_ordinary. exact Hi.
    + rewrite (entry_pop i ch body Hi Hok Hb), I4. reflexivity.
    + constructor; [|exact I5]. exists i. split; [exact Hi|reflexivity].
    + rewrite I6. reflexivity.
Qed.

(* ================================================================================================ *)
(* 10. the reader's result satisfies the invariant (induction on the fuel)                            *)
(* ================================================================================================ *)
Lemma depth_kid : forall ch kids, In ch kids ->
  (elem_depth ch <= fold_right (fun k m => Nat.max (elem_depth k) m) 0%nat kids)%nat.
Proof.
  intros ch kids. induction kids as [|k kids IH]; intros Hin; [contradiction|].
  cbn [fold_right]. destruct Hin as [->|Hin]; [lia|]. specialize (IH Hin). lia.
Qed.

Lemma elem_ok_xml_ok : forall ch, elem_ok ch = true -> xml_ok ch = true.
Proof.
  intros [tag attrs text kids] H. destruct (elem_ok_inv _ _ _ _ H) as (_ & _ & _ & H4 & H5).
  unfold xml_ok. cbn [e_kids]. rewrite H4, H5. reflexivity.
Qed.

Theorem parse_nodes_inv : forall f e c, (elem_depth e <= f)%nat -> xml_ok e = true -> counter_ok c ->
  counter_ok (snd (parse_nodes f true e c)) /\ Inv e (fst (parse_nodes f true e c)).
Proof.
  induction f as [|f IHf]; intros e c Hd Hok Hc.
  - destruct e; cbn [elem_depth] in Hd; lia.
  - destruct e as [t a x kids]. unfold xml_ok in Hok. cbn [e_kids] in Hok.
    apply andb_true_iff in Hok. destruct Hok as [Hfew Hkids]. rewrite forallb_forall in Hkids.
    rewrite parse_nodes_S.
    destruct (number_tags_spec kids c Hc (few_bound kids Hfew)) as (N1 & N2 & N3 & N4).
    destruct (number_tags c kids) as [numbered c0]. cbn [fst snd] in N1, N2, N3, N4.
    assert (HF : Forall (fun ie => in_range (fst ie) /\ elem_ok (snd ie) = true) numbered).
    { apply Forall_forall. intros ie Hin. split.
      - rewrite Forall_forall in N3. apply N3. apply in_map. exact Hin.
      - apply Hkids. rewrite <- N1. apply in_map. exact Hin. }
    assert (HR : Forall (child_ready f) numbered).
    { apply Forall_forall. intros ie Hin. rewrite Forall_forall in HF. destruct (HF ie Hin) as [H1 H2].
      split; [exact H1|]. split; [exact H2|]. intros _ c' Hc'. apply IHf; [|apply elem_ok_xml_ok; exact H2|exact Hc'].
      assert (Hk : In (snd ie) kids). { rewrite <- N1. apply in_map. exact Hin. }
      pose proof (depth_kid _ _ Hk) as Hdk. cbn [elem_depth] in Hd. lia. }
    assert (Hnd : NoDup (map key_of numbered)).
    { apply (NoDup_map_via fst key_of); [|exact N4]. intros y z Hy Hz E. rewrite Forall_forall in HF.
      unfold key_of in E. apply nkey_inj in E; [exact E|exact (proj1 (HF y Hy))|exact (proj1 (HF z Hz))]. }
    destruct (level_fold f numbered [] c0 N2 HR Hnd) as (ents & c' & Ef & Hc' & H2).
    rewrite Ef. cbn [app]. rewrite typed_tmap. cbn [tmap kvs_of_tree fst snd].
    change (fun kt : key * tree => (fst kt, tmap (snd kt))) with tm.
    split; [exact Hc'|].
    destruct (level_inv numbered ents H2 HF) as (I1 & I2 & I3 & I4 & I5 & I6). rewrite N1 in *.
    unfold Inv. cbn [e_kids]. rewrite xml_entries_eq.
    split; [exact I1|]. split; [exact I2|]. split; [exact I3|]. split; [exact I4|]. split; [exact I5|].
    rewrite I6. exact Hnd.
Qed.

(* ================================================================================================ *)
(* 11. reading: the entries, their order, no element lost                                            *)
(* ================================================================================================ *)
Lemma xml_parse_inv : forall e c, xml_ok e = true -> counter_ok c ->
  counter_ok (snd (xml_parse true e c)) /\ Inv e (fst (xml_parse true e c)).
Proof. intros e c Hok Hc. unfold xml_parse. apply parse_nodes_inv; [lia|exact Hok|exact Hc]. Qed.

Theorem xml_read_entries : forall e c, xml_ok e = true -> counter_ok c ->
  unnumber (fst (xml_parse true e c)) = xml_entries e.
Proof. intros e c Hok Hc. exact (proj1 (proj2 (proj2 (xml_parse_inv e c Hok Hc)))). Qed.

Theorem xml_read_order : forall e c, xml_ok e = true -> counter_ok c ->
  map unnumber_key (map fst (fst (xml_parse true e c))) = map (fun ch => KS (tag_of ch)) (elem_children e)
  /\ NoDup (map fst (fst (xml_parse true e c))).
Proof.
  intros e c Hok Hc. destruct (xml_parse_inv e c Hok Hc) as (_ & _ & I2 & _ & _ & _ & I6). split; [|exact I6].
  apply (f_equal (map fst)) in I2. unfold unnumber in I2. rewrite map_map in I2. cbn [fst] in I2.
  rewrite map_map. rewrite I2. destruct e as [t a x kids]. rewrite xml_entries_eq, map_map. reflexivity.
Qed.

(* ================================================================================================ *)
(* 12. writing inverts reading up to normalisation                                                   *)
(* ================================================================================================ *)
Theorem xml_write_inverts_read : forall e c, xml_ok e = true -> counter_ok c ->
  populate (tag_of e) (Dict (fst (xml_parse true e c))) = normalise_root e.
Proof.
  intros e c Hok Hc. destruct (xml_parse_inv e c Hok Hc) as (_ & _ & _ & I3 & I4 & _).
  rewrite populate_dict. rewrite <- (app_nil_r (fst (xml_parse true e c))).
  rewrite (pop_go_ord _ [] [] None [] I3). cbn [pop_go]. rewrite app_nil_r, rev_involutive, I4. reflexivity.
Qed.

(* ================================================================================================ *)
(* 13. the normalised tree is in the class again and reads the same                                   *)
(* ================================================================================================ *)
Section elem_ind'.
  Variable P : elem -> Prop.
  Hypothesis Hstep : forall tag attrs text kids, Forall P kids -> P (Elem tag attrs text kids).
  Fixpoint elem_ind' (e : elem) : P e :=
    match e with
    | Elem tag attrs text kids =>
        Hstep tag attrs text kids
          ((fix go (l : list elem) : Forall P l :=
              match l with
              | [] => Forall_nil _
              | k :: l' => Forall_cons k (elem_ind' k) (go l')
              end) kids)
    end.
End elem_ind'.

Lemma content_text_wrap : forall v, content_text (Leaf v) = wrap_text (py_str v).
Proof. reflexivity. Qed.

Lemma tval_of_ok : forall s v, parse_value s = Ok v -> tval s = v.
Proof. intros s v H. unfold tval. rewrite H. reflexivity. Qed.

Lemma norm_content_ok : forall text, text_ok text = true ->
  text_ok (norm_content text) = true /\ content_part (norm_content text) = content_part text.
Proof.
  intros text Hok. unfold norm_content, content_part at 2. destruct (blank_text text) eqn:Hb; [split; reflexivity|].
  destruct (text_facts text Hok Hb) as [Hf Hn]. set (r := norm_text (text_of text)) in *.
  pose proof (lf_normal _ _ Hf Hn) as Hnv. rewrite content_text_wrap. split.
  - unfold text_ok. cbn [text_of]. rewrite (normal_wrap _ Hnv). apply unquoted_eq. exact (lf_str_uq _ _ Hf).
  - unfold content_part. cbn [blank_text text_of]. rewrite (normal_wrap_nonblank _ Hnv (lf_str_ne _ _ Hf)).
    rewrite (normal_wrap _ Hnv). rewrite (tval_of_ok _ _ (lf_str_rd _ _ Hf)). reflexivity.
Qed.

Lemma NoDup_map_filter : forall {A B} (g : A -> B) f (l : list A), NoDup (map g l) -> NoDup (map g (filter f l)).
Proof.
  intros A B g f. induction l as [|x l IH]; intros H; [constructor|]. cbn [map] in H. inversion H as [|? ? Hx H']; subst.
  cbn [filter]. destruct (f x); [|apply IH; exact H']. cbn [map]. constructor; [|apply IH; exact H'].
  intro Hin. apply Hx. apply in_map_iff in Hin. destruct Hin as (y & E & Hy). apply filter_In in Hy.
  apply in_map_iff. exists y. split; [exact E|exact (proj1 Hy)].
Qed.

Lemma norm_attrs_ok : forall attrs, attrs_ok attrs = true ->
  attrs_ok (norm_attrs attrs) = true /\ attrs_part (norm_attrs attrs) = attrs_part attrs.
Proof.
  intros attrs H. destruct (attrs_ok_inv attrs H) as (Hnd & Hg & Hne).
  pose proof (Forall_filter _ has_value _ Hg) as Hf.
  set (na := fun kv : str * str => (fst kv, attr_text (Leaf (tval (snd kv))))).
  assert (Hall : Forall (fun kv => attr_ok (na kv) = true /\ has_value (na kv) = true /\ typed_attr (na kv) = typed_attr kv)
                        (filter has_value attrs)).
  { revert Hf. apply Forall_impl. intros kv [Hk Hv]. pose proof (attr_facts kv Hk Hv) as F. unfold na.
    split; [|split].
    - unfold attr_ok. cbn [fst snd]. rewrite (proj1 Hk). cbn [negb andb]. apply unquoted_eq. exact (lf_attr_uq _ _ F).
    - unfold has_value. cbn [snd]. apply nonempty_true. exact (lf_attr_ne _ _ F).
    - unfold typed_attr. cbn [fst snd]. rewrite (tval_of_ok _ _ (lf_attr_rd _ _ F)). reflexivity. }
  assert (Hfil : filter has_value (norm_attrs attrs) = norm_attrs attrs).
  { unfold norm_attrs. fold na. clear - Hall. induction Hall as [|kv l (_ & Hv & _) _ IH]; [reflexivity|].
    cbn [map filter]. rewrite Hv, IH. reflexivity. }
  assert (Htyp : map typed_attr (norm_attrs attrs) = map typed_attr (filter has_value attrs)).
  { unfold norm_attrs. fold na. clear - Hall. induction Hall as [|kv l (_ & _ & Ht) _ IH]; [reflexivity|].
    cbn [map]. rewrite Ht, IH. reflexivity. }
  split.
  - unfold attrs_ok. apply andb_true_iff. split; [apply andb_true_iff; split|].
    + apply keys_nodup_iff. unfold norm_attrs. rewrite map_map. cbn [fst].
      apply (NoDup_map_filter attr_name has_value attrs Hnd).
    + unfold norm_attrs. fold na. rewrite forallb_forall. intros x Hx. apply in_map_iff in Hx.
      destruct Hx as (kv & <- & Hin). rewrite Forall_forall in Hall. exact (proj1 (Hall kv Hin)).
    + destruct (norm_attrs attrs) as [|x l]; [reflexivity|].
      assert (Hin : In x (filter has_value (x :: l))) by (rewrite Hfil; left; reflexivity).
      apply filter_In in Hin. cbn [existsb]. rewrite (proj2 Hin). reflexivity.
  - destruct Hne as [->|Hne]; [reflexivity|].
    assert (Hnn : norm_attrs attrs <> []).
    { unfold norm_attrs. intro E. apply map_eq_nil in E. exact (Hne E). }
    unfold attrs_part. change (fun kv : str * str => (KS (fst kv), Leaf (tval (snd kv)))) with typed_attr.
    rewrite Hfil, Htyp. destruct (norm_attrs attrs); [congruence|].
    destruct attrs as [|kv0 attrs']; [exfalso; apply Hne; reflexivity|]. reflexivity.
Qed.

Lemma normalise_ok : forall ch, elem_ok ch = true ->
  elem_ok (normalise_elem ch) = true /\ xml_entry (normalise_elem ch) = xml_entry ch.
Proof.
  induction ch as [tag attrs text kids IH] using elem_ind'. intros Hok.
  destruct (elem_ok_inv _ _ _ _ Hok) as (Hq & Ha & Ht & Hfew & Hk).
  destruct (norm_attrs_ok attrs Ha) as [Ha1 Ha2].
  assert (Hkids : forallb elem_ok (map normalise_elem kids) = true /\ map xml_entry (map normalise_elem kids) = map xml_entry kids).
  { clear Hok Hfew Ht. induction IH as [|k l Hk0 _ IHl]; [split; reflexivity|].
    cbn [forallb] in Hk. apply andb_true_iff in Hk. destruct Hk as [Hk1 Hk2].
    destruct (Hk0 Hk1) as [A1 A2]. destruct (IHl Hk2) as [B1 B2]. cbn [map forallb]. rewrite A1, A2, B1, B2.
    split; reflexivity. }
  destruct Hkids as [K1 K2]. cbn [normalise_elem]. split.
  - cbn [elem_ok]. rewrite Hq, Ha1, K1. unfold few in *. rewrite map_length, Hfew. cbn [andb]. rewrite !andb_true_r.
    destruct kids as [|g gk]; [|reflexivity]. cbn [map]. exact (proj1 (norm_content_ok text (Ht eq_refl))).
  - unfold xml_entry. cbn [tag_of e_attrs]. rewrite Ha2. do 3 f_equal. destruct kids as [|g gk].
    + cbn [map]. exact (proj2 (norm_content_ok text (Ht eq_refl))).
    + cbn [map]. change (normalise_elem g :: map normalise_elem gk) with (map normalise_elem (g :: gk)).
      rewrite !xml_entries_eq. exact K2.
Qed.

Lemma normalise_root_ok : forall e, xml_ok e = true ->
  xml_ok (normalise_root e) = true /\ xml_entries (normalise_root e) = xml_entries e.
Proof.
  intros [t a x kids] Hok. unfold xml_ok, normalise_root in *. cbn [e_kids tag_of] in *.
  apply andb_true_iff in Hok. destruct Hok as [Hfew Hk]. rewrite !xml_entries_eq.
  unfold few in *. rewrite map_length, Hfew. cbn [andb].
  induction kids as [|k l IH]; [split; reflexivity|]. cbn [forallb] in Hk. apply andb_true_iff in Hk.
  destruct Hk as [Hk1 Hk2]. destruct (normalise_ok k Hk1) as [A1 A2].
  assert (Hfl : N.of_nat (Datatypes.length l) <=? 1000000 = true).
  { apply N.leb_le. apply N.leb_le in Hfew. cbn [Datatypes.length] in Hfew. lia. }
  destruct (IH Hfl Hk2) as [B1 B2]. cbn [map forallb]. rewrite A1, A2, B1, B2. split; reflexivity.
Qed.

(* ================================================================================================ *)
(* 14. the write / read cycle                                                                        *)
(* ================================================================================================ *)
Theorem xml_cycle : forall e c c2, xml_ok e = true -> counter_ok c -> counter_ok c2 ->
  unnumber (fst (xml_parse true (populate (tag_of e) (Dict (fst (xml_parse true e c)))) c2)) =
  unnumber (fst (xml_parse true e c)).
Proof.
  intros e c c2 Hok Hc Hc2. rewrite (xml_write_inverts_read e c Hok Hc).
  destruct (normalise_root_ok e Hok) as [Hok' He].
  rewrite (xml_read_entries _ c2 Hok' Hc2), (xml_read_entries e c Hok Hc). exact He.
Qed.
