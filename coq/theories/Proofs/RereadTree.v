(* C03 / C12 on documents with comments, part 2: vocabulary.
   Comment entries, the event stream of a document (one event per statement line group), maps over documents, the
   canonical (id-free) form of an SDict, the class of re-readable SDicts and the result of one write/read cycle. *)
From Coq Require Import String.
From Coq Require Import NArith ZArith List Bool Lia ZifyBool ZifyN ZifyNat.
From DictIO Require Import Chars Str Value Scalar KeyPath SDict Layout Lexer TokParser TreeSpec NativeSpec LayoutSpec E2ESpec.
From DictIO Require ScalarProofs SDictProofs TokProofs LayoutProofs SemProofs QuoteProofs KeyPathProofs.
From DictIO Require Import E2EProofs E2EHoles E2EInsert E2EKeyTok E2EFullProofs RereadStr.
Import ListNotations.
Import LayoutProofs.
Open Scope N_scope.

(* ================================================================================================ *)
(* 1. comment entries and events                                                                    *)
(* ================================================================================================ *)

(* a comment entry: a string-valued entry whose key carries the word COMMENT (placeholder entries of an SDict, and the
   id-free entries of the canonical form); n is the key name, x the value *)
Definition is_cm (n : str) : bool := contains w_COMMENT n.
Definition cm_entry (kc : key * tree) : option (str * str) :=
  match kc with
  | (KS n, Leaf (SStr x)) => if is_cm n then Some (n, x) else None
  | _ => None
  end.

Inductive ev :=
  | ELeaf (lvl : nat) (k : key) (v : scalar)
  | EList (lvl : nat) (k : key) (l : list tree)
  | EOpen (lvl : nat) (k : key)
  | EClose (lvl : nat)
  | ECm (lvl : nat) (n x : str).

(* the statements of a document in text order; nesting through dicts only (a list is one statement) *)
Fixpoint events (lvl : nat) (t : tree) {struct t} : list ev :=
  match t with
  | Dict kvs =>
      (fix go (l : list (key * tree)) : list ev :=
         match l with
         | [] => []
         | (k, c) :: l' =>
             (match cm_entry (k, c) with
              | Some (n, x) => [ECm lvl n x]
              | None =>
                  match c with
                  | Leaf v => [ELeaf lvl k v]
                  | Lst ts => [EList lvl k ts]
                  | Dict _ => EOpen lvl k :: events (S lvl) c ++ [EClose lvl]
                  end
              end) ++ go l'
         end) kvs
  | _ => []
  end.

Definition entry_events (lvl : nat) (kc : key * tree) : list ev :=
  match cm_entry kc with
  | Some (n, x) => [ECm lvl n x]
  | None =>
      match snd kc with
      | Leaf v => [ELeaf lvl (fst kc) v]
      | Lst ts => [EList lvl (fst kc) ts]
      | Dict d => EOpen lvl (fst kc) :: events (S lvl) (Dict d) ++ [EClose lvl]
      end
  end.

Lemma events_cons lvl kc l : events lvl (Dict (kc :: l)) = entry_events lvl kc ++ events lvl (Dict l).
Proof. destruct kc as [k c]. unfold entry_events. cbn [events fst snd]. destruct (cm_entry (k, c)) as [[n x]|]; [reflexivity|]. destruct c; reflexivity. Qed.

Lemma events_nil lvl : events lvl (Dict []) = [].
Proof. reflexivity. Qed.

Lemma events_app lvl a b : events lvl (Dict (a ++ b)) = events lvl (Dict a) ++ events lvl (Dict b).
Proof. induction a as [|kc a IH]; [reflexivity|]. cbn [app]. rewrite !events_cons, IH, app_assoc. reflexivity. Qed.

(* ---- the text of an event ------------------------------------------------------------------------- *)
Definition leaf_line (lvl : nat) (k : key) (v : scalar) : str :=
  line lvl (FK k ++ spaces (Nat.max 8 (30 - length (FK k) - 4 * lvl)) ++ FS v ++ [c_semi]) true.

Section EvText.
  Variable cm : nat -> str -> str -> str.
  Definition ev_text (e : ev) : str :=
    match e with
    | ELeaf lvl k v => leaf_line lvl k v
    | EList lvl k l => line lvl (key_text k) true ++ fmt_tree FS FK lvl false (Lst l)
    | EOpen lvl k => line lvl (key_text k) true ++ line lvl [c_lbrace] true
    | EClose lvl => line lvl [c_rbrace] true
    | ECm lvl n x => cm lvl n x
    end.
  Definition cat (es : list ev) : str := flat_map ev_text es.
  Lemma cat_app a b : cat (a ++ b) = cat a ++ cat b.
  Proof. unfold cat. apply flat_map_app. Qed.
  Lemma cat_cons e es : cat (e :: es) = ev_text e ++ cat es.
  Proof. reflexivity. Qed.
End EvText.

(* a comment entry as the formatter lays it out (an ordinary string entry), and as the finished text shows it *)
Definition cm_pair (lvl : nat) (n x : str) : str := leaf_line lvl (KS n) (SStr x).
Definition cm_line (lvl : nat) (n x : str) : str := line lvl x true.

Lemma fmt_events : forall t lvl anc, match t with Dict _ => fmt_tree FS FK lvl anc t = cat cm_pair (events lvl t) | _ => True end.
Proof.
  induction t as [v|kvs IH|ts IH] using tree_ind'; intros lvl anc; [exact I| |exact I].
  rewrite fmt_dict. revert lvl. induction IH as [|[k c] kvs Hc _ IHk]; intros lvl; [reflexivity|].
  rewrite events_cons, cat_app. cbn [fentries]. rewrite (IHk lvl). f_equal. cbn [snd] in Hc.
  unfold entry_events. destruct (cm_entry (k, c)) as [[n x]|] eqn:Ecm.
  - unfold cm_entry in Ecm. destruct k as [z|n']; [discriminate Ecm|]. destruct c as [[z|f|b| |x']|d|l]; try discriminate Ecm.
    destruct (is_cm n'); [|discriminate Ecm]. inversion Ecm; subst. cbn [cat flat_map ev_text]. rewrite app_nil_r. reflexivity.
  - cbn [fst snd]. destruct c as [v|d|l].
    + cbn [cat flat_map ev_text]. rewrite app_nil_r. reflexivity.
    + cbn [cat flat_map ev_text]. fold (cat cm_pair (events (S lvl) (Dict d) ++ [EClose lvl])). rewrite cat_app.
      cbn [cat flat_map ev_text]. rewrite app_nil_r. rewrite <- (Hc (S lvl) false). rewrite <- !app_assoc. reflexivity.
    + cbn [cat flat_map ev_text]. rewrite app_nil_r. reflexivity.
Qed.

Lemma fmt_events_dict kvs lvl anc : fmt_tree FS FK lvl anc (Dict kvs) = cat cm_pair (events lvl (Dict kvs)).
Proof. exact (fmt_events (Dict kvs) lvl anc). Qed.

(* ================================================================================================ *)
(* 2. maps over documents                                                                           *)
(* ================================================================================================ *)

(* comment entries are replaced by g n x, ordinary leaves (also inside lists) are mapped with f *)
Section CMap.
  Variable g : str -> str -> key * tree.
  Variable f : scalar -> scalar.
  Fixpoint cmapg (t : tree) {struct t} : tree :=
    match t with
    | Dict kvs =>
        Dict ((fix go (l : list (key * tree)) : list (key * tree) :=
                 match l with
                 | [] => []
                 | (k, c) :: l' =>
                     (match cm_entry (k, c) with
                      | Some (n, x) => g n x
                      | None => (k, match c with Dict _ => cmapg c | _ => map_leaves f c end)
                      end) :: go l'
                 end) kvs)
    | _ => map_leaves f t
    end.
  Definition cmap_entry (kc : key * tree) : key * tree :=
    match cm_entry kc with
    | Some (n, x) => g n x
    | None => (fst kc, match snd kc with Dict d => cmapg (Dict d) | c => map_leaves f c end)
    end.
  Lemma cmapg_dict kvs : cmapg (Dict kvs) = Dict (map cmap_entry kvs).
  Proof.
    cbn [cmapg]. f_equal. induction kvs as [|[k c] kvs IH]; [reflexivity|]. cbn [map]. rewrite IH. f_equal.
    unfold cmap_entry. destruct (cm_entry (k, c)) as [[n x]|]; [reflexivity|]. cbn [fst snd]. destruct c; reflexivity.
  Qed.
End CMap.

(* comment entries removed at every dict level *)
Fixpoint cstrip (t : tree) {struct t} : tree :=
  match t with
  | Dict kvs =>
      Dict ((fix go (l : list (key * tree)) : list (key * tree) :=
               match l with
               | [] => []
               | (k, c) :: l' =>
                   match cm_entry (k, c) with
                   | Some _ => go l'
                   | None => (k, match c with Dict _ => cstrip c | _ => c end) :: go l'
                   end
               end) kvs)
  | _ => t
  end.
Definition cstrip_entry (kc : key * tree) : list (key * tree) :=
  match cm_entry kc with
  | Some _ => []
  | None => [(fst kc, match snd kc with Dict d => cstrip (Dict d) | c => c end)]
  end.
Lemma cstrip_dict kvs : cstrip (Dict kvs) = Dict (flat_map cstrip_entry kvs).
Proof.
  cbn [cstrip]. f_equal. induction kvs as [|[k c] kvs IH]; [reflexivity|]. cbn [flat_map]. rewrite IH.
  unfold cstrip_entry. destruct (cm_entry (k, c)) as [[n x]|]; [reflexivity|]. cbn [fst snd app]. destruct c; reflexivity.
Qed.

(* ================================================================================================ *)
(* 3. the shape of a document with comments                                                         *)
(* ================================================================================================ *)

(* ordinary entries: simple keys; leaves and lists in the writer domain (no comment entries inside lists);
   dicts recursively *)
Fixpoint cshape (t : tree) {struct t} : bool :=
  match t with
  | Dict kvs =>
      (fix go (l : list (key * tree)) : bool :=
         match l with
         | [] => true
         | (k, c) :: l' =>
             (match cm_entry (k, c) with
              | Some _ => true
              | None => simple_key k && match c with Dict _ => cshape c | _ => ktree writable_leaf c end
              end) && go l'
         end) kvs
  | _ => false
  end.
Definition cshape_entry (kc : key * tree) : bool :=
  match cm_entry kc with
  | Some _ => true
  | None => simple_key (fst kc) && match snd kc with Dict d => cshape (Dict d) | c => ktree writable_leaf c end
  end.
Lemma cshape_cons kc l : cshape (Dict (kc :: l)) = cshape_entry kc && cshape (Dict l).
Proof. destruct kc as [k c]. unfold cshape_entry. cbn [cshape fst snd]. destruct (cm_entry (k, c)); [reflexivity|]. destruct c; reflexivity. Qed.

Lemma cm_entry_inv kc n x : cm_entry kc = Some (n, x) -> kc = (KS n, Leaf (SStr x)) /\ is_cm n = true.
Proof.
  destruct kc as [[z|n'] [[z'|f|b| |x']|d|l]]; cbn [cm_entry]; try discriminate.
  destruct (is_cm n') eqn:E; [|discriminate]. intros H. inversion H; subst. split; [reflexivity|exact E].
Qed.

Lemma cm_entry_simple k c : simple_key k = true -> cm_entry (k, c) = None.
Proof.
  intros Hk. destruct (cm_entry (k, c)) as [[n x]|] eqn:E; [|reflexivity]. exfalso.
  destruct (cm_entry_inv _ _ _ E) as [E1 Hn]. inversion E1; subst.
  destruct (simple_key_inv _ Hk) as (Hkt & _). destruct (simple_tok_inv _ Hkt) as (_ & _ & Hr).
  cbn [format_key] in Hr. unfold no_reserved_word in Hr.
  apply andb_true_iff in Hr. destruct Hr as [Hr _]. apply andb_true_iff in Hr. destruct Hr as [Hr _].
  apply andb_true_iff in Hr. destruct Hr as [Hr _]. apply negb_true_iff in Hr.
  unfold is_cm in Hn. rewrite (format_string_has _ _ Hn) in Hr. discriminate Hr.
Qed.

(* the comment events of a document, in text order *)
Definition ev_cm (e : ev) : option (nat * str * str) := match e with ECm lvl n x => Some (lvl, n, x) | _ => None end.
Fixpoint cms_of (es : list ev) : list (nat * str * str) :=
  match es with [] => [] | e :: es' => match ev_cm e with Some c => c :: cms_of es' | None => cms_of es' end end.
Definition cms (t : tree) : list (nat * str * str) := cms_of (events 0 t).

Lemma cms_of_app a b : cms_of (a ++ b) = cms_of a ++ cms_of b.
Proof. induction a as [|e a IH]; [reflexivity|]. cbn [app cms_of]. destruct (ev_cm e); rewrite IH; reflexivity. Qed.

(* kinds of comment names: line comment / block comment *)
Definition is_lcn (n : str) : bool := contains w_LINECOMMENT n.
Definition is_bcn (n : str) : bool := contains w_BLOCKCOMMENT n.

(* ================================================================================================ *)
(* 4. events of mapped documents                                                                    *)
(* ================================================================================================ *)

(* what an event carries over under cmapg when g keeps comment entries comment entries *)
Section CMapEvents.
  Variable gn gx : str -> str -> str.       (* new name and new value of a comment entry *)
  Variable f : scalar -> scalar.
  Hypothesis Hgn : forall n x, is_cm n = true -> is_cm (gn n x) = true.
  Definition gkv (n x : str) : key * tree := (KS (gn n x), Leaf (SStr (gx n x))).
  Definition ev_map (e : ev) : ev :=
    match e with
    | ELeaf lvl k v => ELeaf lvl k (f v)
    | EList lvl k l => EList lvl k (map (map_leaves f) l)
    | ECm lvl n x => ECm lvl (gn n x) (gx n x)
    | _ => e
    end.
  Lemma cmapg_events : forall t lvl, cshape t = true -> events lvl (cmapg gkv f t) = map ev_map (events lvl t).
  Proof.
    induction t as [v|kvs IH|ts IH] using tree_ind'; intros lvl Hs; try discriminate Hs.
    rewrite cmapg_dict. revert lvl Hs. induction IH as [|[k c] kvs Hc _ IHk]; intros lvl Hs; [reflexivity|].
    rewrite cshape_cons in Hs. apply andb_true_iff in Hs. destruct Hs as [Hs1 Hs2].
    cbn [map]. rewrite !events_cons, map_app, (IHk lvl Hs2). f_equal. cbn [snd] in Hc.
    unfold cmap_entry, entry_events, cshape_entry in *. destruct (cm_entry (k, c)) as [[n x]|] eqn:Ecm.
    - destruct (cm_entry_inv _ _ _ Ecm) as [_ Hn]. unfold gkv. cbn [cm_entry]. rewrite (Hgn n x Hn). reflexivity.
    - cbn [fst snd] in *. apply andb_true_iff in Hs1. destruct Hs1 as [Hk Hc1].
      destruct c as [v|d|l].
      + cbn [map_leaves]. rewrite (cm_entry_simple k _ Hk). reflexivity.
      + rewrite cmapg_dict, (cm_entry_simple k _ Hk). cbn [snd fst map]. rewrite <- cmapg_dict, (Hc (S lvl) Hc1), map_app. reflexivity.
      + rewrite TokProofs.map_leaves_lst, (cm_entry_simple k _ Hk). reflexivity.
  Qed.
End CMapEvents.

(* ---- properties of the events of a well-shaped document ------------------------------------------ *)
Definition ev_ok (e : ev) : Prop :=
  match e with
  | ELeaf _ k v => simple_key k = true /\ writable_leaf v = true
  | EList _ k l => simple_key k = true /\ ktree writable_leaf (Lst l) = true
  | EOpen _ k => simple_key k = true
  | _ => True
  end.

Lemma cshape_events : forall t lvl, cshape t = true -> Forall ev_ok (events lvl t).
Proof.
  induction t as [v|kvs IH|ts IH] using tree_ind'; intros lvl Hs; try discriminate Hs.
  revert lvl Hs. induction IH as [|[k c] kvs Hc _ IHk]; intros lvl Hs; [constructor|].
  rewrite cshape_cons in Hs. apply andb_true_iff in Hs. destruct Hs as [Hs1 Hs2].
  rewrite events_cons. apply Forall_app. split; [|exact (IHk lvl Hs2)]. cbn [snd] in Hc.
  unfold entry_events, cshape_entry in *. destruct (cm_entry (k, c)) as [[n x]|]; [repeat constructor|].
  cbn [fst snd] in *. apply andb_true_iff in Hs1. destruct Hs1 as [Hk Hc1]. destruct c as [v|d|l].
  - constructor; [split; assumption|constructor].
  - constructor; [exact Hk|]. apply Forall_app. split; [exact (Hc (S lvl) Hc1)|repeat constructor].
  - constructor; [split; assumption|constructor].
Qed.

(* the quoted literals of a document in text order *)
Definition ev_lits (e : ev) : list str :=
  match e with ELeaf _ _ v => qstr v | EList _ _ l => qstrs (Lst l) | _ => [] end.
Definition lits (es : list ev) : list str := flat_map ev_lits es.
Definition cnq (t : tree) : nat := length (lits (events 0 t)).

(* ================================================================================================ *)
(* 5. placeholder names, the canonical form, the header                                             *)
(* ================================================================================================ *)

Definition ph_id (w s : str) : N := dec_to_N (drop_n (length w) s).
(* s is the placeholder WORD + six digits of a number below one million *)
Definition is_ph (w s : str) : bool := str_eqb s (placeholder w (ph_id w s)) && (ph_id w s <? 1000000).

Definition bph (i : N) : str := placeholder w_BLOCKCOMMENT i.
Definition lph (i : N) : str := placeholder w_LINECOMMENT i.

(* the id-free entries of the canonical form *)
Definition k_lc : key := KS w_LINECOMMENT.
Definition k_bc : key := KS w_BLOCKCOMMENT.
Definition tget (i : N) (tab : list (N * str)) (dflt : str) : str := match tlookup i tab with Some t => t | None => dflt end.
(* name and text of a comment entry once its placeholder is looked up *)
Definition res_name (n : str) : str :=
  if is_ph w_LINECOMMENT n then w_LINECOMMENT else if is_ph w_BLOCKCOMMENT n then w_BLOCKCOMMENT else n.
Definition res_text (lc bc : list (N * str)) (n x : str) : str :=
  if is_ph w_LINECOMMENT n then tget (ph_id w_LINECOMMENT n) lc x
  else if is_ph w_BLOCKCOMMENT n then tget (ph_id w_BLOCKCOMMENT n) bc x else x.
Definition idf (v : scalar) : scalar := v.
Definition canon_tree (lc bc : list (N * str)) (t : tree) : tree :=
  cmapg (gkv (fun n _ => res_name n) (res_text lc bc)) idf t.
(* the canonical form of an SDict: comment placeholders replaced by id-free entries that carry the comment text *)
Definition canon (s : sdict) : list (key * tree) := kvs_of (canon_tree (sd_lc s) (sd_bc s) (Dict (sd_data s))).

(* top-level block comments first (what sort_top does to the placeholder entries) *)
Definition is_bc_entry (kc : key * tree) : bool := match cm_entry kc with Some (n, _) => is_bcn n | None => false end.
Definition csort (c : list (key * tree)) : list (key * tree) :=
  filter is_bc_entry c ++ filter (fun kc => negb (is_bc_entry kc)) c.
(* the default header as a block comment text (without its line feed) *)
Definition nh_txt : str := removelast native_header.
Definition hdr_entry : key * tree := (k_bc, Leaf (SStr nh_txt)).
(* does the document begin with a block comment that carries the C++ mark? *)
Definition has_header (c : list (key * tree)) : bool :=
  match c with
  | kc :: _ => match cm_entry kc with Some (n, x) => is_bcn n && has_cpp_mark x | None => false end
  | [] => false
  end.
(* what the writer makes of the top level: block comments first, the default header in front unless the first block
   comment carries the C++ mark *)
Definition hdr (c : list (key * tree)) : list (key * tree) :=
  let c' := csort c in if has_header c' then c' else hdr_entry :: c'.

(* ================================================================================================ *)
(* 6. the class of re-readable SDicts                                                               *)
(* ================================================================================================ *)

(* a line comment text: two slashes first, no line break of any kind, no trailing white space (the writer strips it),
   no comment placeholder inside *)
Definition lc_ok (x : str) : bool :=
  starts_with [c_slash; c_slash] x && forallb (fun c => negb (is_linebreak c)) x &&
  (match rev x with c :: _ => negb (is_space c) | [] => false end) && phfree x.
(* a line of a block comment is not an include directive *)
Definition not_include (l : str) : bool := match include_line_rest l with None => true | Some _ => false end.
(* a block comment text: slash-star ... star-slash as the scanner delimits it, slash-star only at its beginning, no
   double slash (line comments are lifted out first), line feed the only line break, no trailing white space on any
   of its lines, no comment placeholder inside, none of its lines an include directive *)
Definition bc_ok (x : str) : bool :=
  bcgood x && nopair c_slash c_slash x && forallb (fun c => negb (is_linebreak c) || (c =? c_lf)) x &&
  str_eqb (remove_trailing_spaces (x ++ [c_lf])) (x ++ [c_lf]) && phfree x && forallb not_include (splitlines (x ++ [c_lf])).
Definition cm_ok (c : nat * str * str) : bool :=
  let '(_, n, x) := c in (str_eqb n w_LINECOMMENT && lc_ok x) || (str_eqb n w_BLOCKCOMMENT && bc_ok x).

Fixpoint nodupb (l : list str) : bool :=
  match l with [] => true | x :: r => negb (existsb (str_eqb x) r) && nodupb r end.
Fixpoint nodupN (l : list N) : bool :=
  match l with [] => true | x :: r => negb (existsb (N.eqb x) r) && nodupN r end.

Definition cm_name (c : nat * str * str) : str := snd (fst c).
Definition cm_text (c : nat * str * str) : str := snd c.
Definition lc_texts (t : tree) : list str := map cm_text (filter (fun c => str_eqb (cm_name c) w_LINECOMMENT) (cms t)).
Definition bc_texts (t : tree) : list str := map cm_text (filter (fun c => str_eqb (cm_name c) w_BLOCKCOMMENT) (cms t)).

(* a canonical document the reader can take: ordinary entries in the writer domain with unique keys per dict, quoted
   literals at most ten keys deep; comment entries line or block comments with admissible texts; block comment texts
   pairwise distinct (the reader replaces a block comment text wherever it occurs), line comment texts pairwise
   distinct (the library drops the second of two equal comments of one dict when it reads) *)
Definition cdoc_ok (c : list (key * tree)) : bool :=
  cshape (Dict c) && wf (cstrip (Dict c)) && quoted_within 11 (cstrip (Dict c)) &&
  forallb cm_ok (cms (Dict c)) && nodupb (lc_texts (Dict c)) && nodupb (bc_texts (Dict c)).

Definition is_some {A} (o : option A) : bool := match o with Some _ => true | None => false end.
Definition is_nil {A} (l : list A) : bool := match l with [] => true | _ => false end.

(* a placeholder entry of an SDict: key and value spell the same placeholder, whose id is in the table *)
Definition ph_entry_ok (lc bc : list (N * str)) (c : nat * str * str) : bool :=
  let '(_, n, x) := c in
  str_eqb x n &&
  ((is_ph w_LINECOMMENT n && is_some (tlookup (ph_id w_LINECOMMENT n) lc)) ||
   (is_ph w_BLOCKCOMMENT n && is_some (tlookup (ph_id w_BLOCKCOMMENT n) bc))).
Definition tab_ok {V} (tab : list (N * V)) : bool :=
  nodupN (map fst tab) && forallb (fun e => fst e <? 1000000) tab.

(* the block comment the written text begins with (Layout.header_key on the formatted body) *)
Definition hk_of (E : list ev) (B : list (N * str)) : option N :=
  match E with
  | ECm _ n _ :: _ =>
      if starts_with w_BLOCKCOMMENT n then
        match tlookup (ph_id w_BLOCKCOMMENT n) B with Some _ => Some (ph_id w_BLOCKCOMMENT n) | None => None end
      else None
  | _ => None
  end.
Definition hk_s (s : sdict) : option N := hk_of (events 0 (Dict (sort_top (sd_data s)))) (sd_bc s).
Definition hdr_marked (s : sdict) : bool :=
  match hk_s s with Some h => has_cpp_mark (tget h (sd_bc s) []) | None => false end.

(* The class.  Data: unique keys per dict; ordinary entries in the writer domain; every comment entry a placeholder
   entry whose id is in its table; placeholder names pairwise distinct.  Tables: ids pairwise distinct and below one
   million; texts free of comment placeholders; block comment texts well delimited and pairwise distinct; the default
   header text is not among them unless the document already begins with a marked header (otherwise the writer would
   emit it twice).  No includes, no expressions.  The canonical form, header included, is a document the reader takes. *)
Definition rereadable (s : sdict) : bool :=
  wf (Dict (sd_data s)) && cshape (Dict (sd_data s)) &&
  forallb (ph_entry_ok (sd_lc s) (sd_bc s)) (cms (Dict (sd_data s))) &&
  nodupb (map cm_name (cms (Dict (sd_data s)))) &&
  tab_ok (sd_lc s) && tab_ok (sd_bc s) &&
  forallb (fun e => phfree (snd e)) (sd_lc s) &&
  forallb (fun e => bcgood (snd e) && phfree (snd e)) (sd_bc s) && nodupb (map snd (sd_bc s)) &&
  (hdr_marked s || negb (existsb (str_eqb nh_txt) (map snd (sd_bc s)))) &&
  is_nil (sd_inc s) && is_nil (sd_expr s) &&
  cdoc_ok (hdr (canon s)).
