(* C12 on include directives, part 3: the token parser on a token stream with comment AND include tokens.
   RereadParse.TRC replayed with one more kind of one-token entry: an include placeholder is taken as an entry of its
   own like a comment placeholder, and it ends the backward scan of a key-value pair like a comment token does. *)
From Coq Require Import String.
From Coq Require Import NArith ZArith List Bool Lia ZifyBool ZifyN ZifyNat.
From DictIO Require Import Chars Str Value Scalar KeyPath SDict Layout Lexer TokParser TreeSpec NativeSpec LayoutSpec E2ESpec.
From DictIO Require ScalarProofs SDictProofs TokProofs LayoutProofs SemProofs QuoteProofs KeyPathProofs.
From DictIO Require Import E2EProofs E2EHoles E2EInsert E2EKeyTok E2EFullProofs RereadStr RereadTree RereadParse.
Import ListNotations.
Import LayoutProofs.
Open Scope N_scope.

Module TRI.
Import TokProofs.
Import TRC.
Local Open Scope Z_scope.

(* ---- one-token entries: comment or include placeholders --------------------------------------------- *)
Definition is_cmi_tok (x : str) : bool := is_comment_tok x || is_include_tok x.
Definition ctok (x : str) : Prop :=
  is_open x = false /\ is_close x = false /\ str_eqb x t_semi = false /\ is_cmi_tok x = true.

Lemma lev_ctok L x r : ctok x -> levels_go L (x :: r) = (L, x) :: levels_go L r.
Proof. intros (A & B & _). cbn [levels_go]. rewrite A, B. reflexivity. Qed.

Lemma pd_comment f (ts : list ztok) ti acc lv txt :
  py_nth ts ti = Some (lv, txt) -> 0 <= ti -> ctok txt ->
  parse_dict_go (S f) ts ti acc = parse_dict_go f ts (ti + 1) (aset (KS txt) (Leaf (SStr txt)) acc).
Proof.
  intros H H0 (A & _ & C & D). rewrite parse_dict_go_S, H.
  destruct (ti <? 0) eqn:E; [lia|]. rewrite A, C. cbn [andb]. unfold is_cmi_tok in D. rewrite D. reflexivity.
Qed.

(* the token before a statement ends a statement or is a comment / include token *)
Definition sep_tok (t : str) : Prop := t = t_semi \/ t = t_rbrace \/ is_cmi_tok t = true.
Definition pre_ok' (pre : list ztok) : Prop :=
  pre = [] \/ exists pre' lv t, pre = pre' ++ [(lv, t)] /\ sep_tok t.
Definition stop3' (ts : list ztok) (ti : Z) : Prop :=
  ti - 3 < 0 \/ exists lv t, py_nth ts (ti - 3) = Some (lv, t) /\ sep_tok t.

Lemma stop3_of_pre' (pre rest ts : list ztok) ti :
  pre_ok' pre -> ts = pre ++ rest -> ti = Z.of_nat (length pre) + 2 -> stop3' ts ti.
Proof.
  intros [->|(pre' & lv & t & -> & Ht)] Hts Hti.
  - left. cbn [length] in Hti. lia.
  - right. exists lv, t. split; [|exact Ht].
    apply py_nth_split with (a := pre') (b := rest); [list_eq|len_eq].
Qed.

Lemma kv_back_ok' f (ts : list ztok) ti L k v acc :
  py_nth ts (ti - 1) = Some (L, v) -> py_nth ts (ti - 2) = Some (L, k) ->
  plain k -> plain v -> 0 <= ti - 2 -> stop3' ts ti ->
  kv_back (S (S (S f))) ts ti 1 L acc = (L, k) :: (L, v) :: acc.
Proof.
  intros Hv Hk Pk Pv Hge Hstop.
  destruct (plain_inv k Pk) as (_ & Kc & Ks & Kcm & Kin).
  destruct (plain_inv v Pv) as (_ & Vc & Vs & Vcm & Vin).
  apply not_close_inv in Kc. destruct Kc as (Kb & _ & _).
  apply not_close_inv in Vc. destruct Vc as (Vb & _ & _).
  cbn [kv_back].
  destruct (ti - 1 <? 0) eqn:E1; [lia|]. rewrite Hv.
  rewrite Z.eqb_refl, Vs, Vb, Vcm, Vin. cbn [negb andb].
  change (1 + 1) with 2.
  destruct (ti - 2 <? 0) eqn:E2; [lia|]. rewrite Hk.
  rewrite Z.eqb_refl, Ks, Kb, Kcm, Kin. cbn [negb andb].
  change (2 + 1) with 3.
  destruct Hstop as [Hs|(lv & t & Hn & Ht)].
  - destruct (ti - 3 <? 0) eqn:E3; [reflexivity|lia].
  - destruct (ti - 3 <? 0) eqn:E3; [reflexivity|]. rewrite Hn.
    destruct Ht as [-> |[-> |Hc]].
    + change (str_eqb t_semi t_semi) with true. rewrite andb_false_r. reflexivity.
    + change (str_eqb t_rbrace t_rbrace) with true. change (str_eqb t_rbrace t_semi) with false.
      cbn [negb]. rewrite andb_true_r, andb_false_r. reflexivity.
    + unfold is_cmi_tok in Hc. destruct (is_comment_tok t); [cbn [negb]; rewrite andb_false_r; reflexivity|].
      cbn [orb] in Hc. rewrite Hc. cbn [negb]. rewrite andb_false_r. reflexivity.
Qed.

Lemma pd_kv' f (ts : list ztok) ti acc L k v kk vv :
  py_nth ts ti = Some (L, t_semi) ->
  py_nth ts (ti - 1) = Some (L, v) -> py_nth ts (ti - 2) = Some (L, k) ->
  plain k -> plain v -> 0 <= ti - 2 -> stop3' ts ti ->
  parse_key k = Ok kk -> parse_value v = Ok vv ->
  parse_dict_go (S (S (S (S f)))) ts ti acc = parse_dict_go (S (S (S f))) ts (ti + 1) (aset kk (Leaf vv) acc).
Proof.
  intros H Hv Hk Pk Pv Hge Hstop Hpk Hpv. rewrite parse_dict_go_S, H.
  destruct (ti <? 0) eqn:E; [lia|]. rewrite Hv.
  destruct semi_facts as (A1 & A2 & A3 & A4). rewrite A1, A2.
  destruct (plain_inv v Pv) as (_ & Vc & _).
  apply not_close_inv in Vc. destruct Vc as (_ & _ & Vc). rewrite Vc.
  cbn [negb andb].
  rewrite (kv_back_ok' f ts ti L k v _ Hv Hk Pk Pv Hge Hstop).
  cbv beta iota zeta. rewrite Hpk, Hpv. reflexivity.
Qed.

Definition ctokb (x : str) : bool :=
  negb (is_open x) && negb (is_close x) && negb (str_eqb x t_semi) && is_cmi_tok x.
Lemma ctokb_ctok x : ctokb x = true -> ctok x.
Proof.
  unfold ctokb, ctok. intros H. apply andb_true_iff in H. destruct H as [H H4]. apply andb_true_iff in H. destruct H as [H H3].
  apply andb_true_iff in H. destruct H as [H1 H2]. apply negb_true_iff in H1, H2, H3. repeat split; assumption.
Qed.
(* a comment token of RereadParse is one of ours *)
Lemma ctokb_of_comment x : TRC.ctokb x = true -> ctokb x = true.
Proof.
  unfold TRC.ctokb, ctokb, is_cmi_tok. intros H. apply andb_true_iff in H. destruct H as [H H4]. rewrite H, H4. reflexivity.
Qed.

Section Main.
  Variable lt : scalar -> str.
  Variable kt : key -> str.
  Variable nv : scalar -> scalar.
  Hypothesis Hlt : forall v, plain_token (lt v) = true /\ parse_value (lt v) = Ok (nv v).
  Hypothesis Hktp : forall k, plain_token (kt k) = true.
  Hypothesis Hkpk : forall k, simple_key k = true -> parse_key (kt k) = Ok k.

  Notation ev_tokP := (TRC.ev_tokP lt kt).
  Notation ctoks := (TRC.ctoks lt kt).
  Notation gtok := TRC.gtok.
  Notation ce := (cmap_entry TRC.gtok nv).
  Notation cres := (TRC.cres nv).
  Notation cskeys := TRC.cskeys.
  Notation call := TRC.call.

  Lemma plain_lt v : plain (lt v). Proof. exact (proj1 (Hlt v)). Qed.
  Lemma plain_kt k : plain (kt k). Proof. exact (Hktp k). Qed.
  Lemma nc_kt k : nc (kt k).
  Proof. destruct (plain_inv _ (plain_kt k)) as (_ & _ & _ & A & _). exact A. Qed.

  Lemma bal_plain t : plain t -> bal [t].
  Proof. intros Hp. destruct (plain_inv t Hp) as (A1 & A2 & _). apply bal_single; assumption. Qed.
  Lemma bal_cons t a : bal [t] -> bal a -> bal (t :: a).
  Proof. intros H1 H2. change (t :: a) with ([t] ++ a). apply bal_app; assumption. Qed.

  Lemma ctoks_app a b : ctoks (a ++ b) = ctoks a ++ ctoks b.
  Proof. unfold ctoks. apply flat_map_app. Qed.

  Lemma bal_ctoks : forall t lvl, call ctokb t = true -> bal (ctoks (events lvl t)).
  Proof.
    induction t as [v|kvs IH|ts IH] using tree_ind'; intros lvl Hc; try apply bal_nil.
    revert lvl Hc. induction IH as [|[k c] kvs Hcc _ IHk]; intros lvl Hc; [apply bal_nil|].
    rewrite call_cons in Hc. apply andb_true_iff in Hc. destruct Hc as [Hc1 Hc2].
    rewrite events_cons, ctoks_app. apply bal_app; [|exact (IHk lvl Hc2)]. cbn [snd] in Hcc.
    unfold entry_events, call_entry in *. destruct (cm_entry (k, c)) as [[n x]|].
    - cbn [ctoks flat_map ev_tokP app]. destruct (ctokb_ctok x Hc1) as (A & B & _). apply bal_single; assumption.
    - cbn [fst snd] in *. destruct c as [v|d|l].
      + cbn [ctoks flat_map ev_tokP app]. apply bal_cons; [apply bal_plain, plain_kt|]. apply bal_cons; [apply bal_plain, plain_lt|].
        apply bal_single; reflexivity.
      + cbn [ctoks flat_map]. fold (ctoks (events (S lvl) (Dict d) ++ [EClose lvl])). rewrite ctoks_app.
        cbn [ev_tokP ctoks flat_map app]. apply bal_cons; [apply bal_plain, plain_kt|].
        apply bal_wrap; try reflexivity. exact (Hcc (S lvl) Hc1).
      + cbn [ctoks flat_map ev_tokP]. rewrite app_nil_r. apply bal_cons; [apply bal_plain, plain_kt|].
        apply bal_app; [apply bal_good; apply (TRK.good_tree lt kt nv Hlt Hktp)|apply bal_single; reflexivity].
  Qed.

  Definition dict_spec (kvs : list (key * tree)) : Prop :=
    forall lvl L (pre tail : list ztok) acc f (ts : list ztok) ti,
    ts = pre ++ levels_go L (ctoks (events lvl (Dict kvs))) ++ tail -> ti = Z.of_nat (length pre) ->
    pre_ok' pre -> tail_ok tail ->
    (length (ctoks (events lvl (Dict kvs))) + length tail + 4 <= f)%nat ->
    keys_nodup (map fst acc ++ map fst (map ce kvs)) = true ->
    forallb (fun kc => wf (snd kc)) (map ce kvs) = true ->
    cskeys (Dict kvs) = true -> call ctokb (Dict kvs) = true ->
    parse_dict_go f ts ti acc = Ok (acc ++ map ce kvs).

  Definition P (t : tree) : Prop := match t with Dict kvs => dict_spec kvs | _ => True end.

  Ltac norm_in H := repeat (first [rewrite <- app_assoc in H | progress cbn [app] in H]).
  Ltac fuel f Hf := destruct f as [|f]; [exfalso; clear -Hf; cbn [length] in Hf; lia|].

  Lemma dict_loop kvs : Forall (fun kc => P (snd kc)) kvs -> dict_spec kvs.
  Proof.
    induction 1 as [|[k c] kvs Hc Hall IH]; intros lvl L pre tail acc f ts ti Hts Hti Hpre Htail Hf Hnd Hwf Hsim Hcall.
    - cbn [events ctoks flat_map levels_go app] in Hts. cbn [map]. rewrite app_nil_r.
      destruct Htail as [->|[l ->]].
      + fuel f Hf. apply pd_end. apply py_nth_end. len_eq.
      + fuel f Hf. fuel f Hf.
        rewrite (pd_skip (S f) ts ti acc l []); [| |lia|reflexivity..].
        * apply pd_end. apply py_nth_end. len_eq.
        * apply py_nth_split with (a := pre) (b := []); [exact Hts|exact Hti].
    - rewrite events_cons, ctoks_app in Hts, Hf. rewrite app_length in Hf.
      rewrite cskeys_cons in Hsim. apply andb_true_iff in Hsim. destruct Hsim as [Hsim Hs3].
      rewrite call_cons in Hcall. apply andb_true_iff in Hcall. destruct Hcall as [Hcall Hc3].
      cbn [map] in Hnd, Hwf |- *. cbn [forallb] in Hwf. apply andb_true_iff in Hwf. destruct Hwf as [Hwc Hwf].
      cbn [snd] in Hc. unfold entry_events in Hts, Hf. unfold cskeys_entry in Hsim. unfold call_entry in Hcall.
      unfold cmap_entry in Hnd, Hwc |- *.
      destruct (cm_entry (k, c)) as [[n x]|] eqn:Ecm.
      + (* a comment token *)
        pose proof (ctokb_ctok x Hcall) as Hx. cbn [ctoks flat_map ev_tokP app length] in Hts, Hf.
        rewrite (lev_ctok L x _ Hx) in Hts. norm_in Hts. unfold gtok in *. cbn [fst snd] in *.
        fuel f Hf.
        rewrite (pd_comment f ts ti acc L x); [| |lia|exact Hx].
        2:{ rewrite Hts. apply (py_nth_off pre []). len_eq. }
        destruct (aset_step (KS x) (Leaf (SStr x)) acc (map fst (map ce kvs)) Hnd) as [Has Hnd'].
        rewrite Has.
        rewrite (IH lvl L (pre ++ [(L, x)]) tail (acc ++ [(KS x, Leaf (SStr x))]) f ts (ti + 1)).
        * rewrite <- app_assoc. reflexivity.
        * list_eq.
        * len_eq.
        * right. exists pre, L, x. split; [reflexivity|]. right. right. exact (proj2 (proj2 (proj2 Hx))).
        * exact Htail.
        * lia.
        * exact Hnd'.
        * exact Hwf.
        * exact Hs3.
        * exact Hc3.
      + cbn [fst snd] in *. apply andb_true_iff in Hsim. destruct Hsim as [Hs1 Hs2].
        pose proof (Hkpk k Hs1) as Hpk.
        destruct c as [v|d|l].
        * (* k v ; *)
          cbn [ctoks flat_map ev_tokP app length] in Hts, Hf.
          rewrite (lev_plain _ _ _ (plain_kt k)), (lev_plain _ _ _ (plain_lt v)), lev_semi in Hts. norm_in Hts.
          do 6 (fuel f Hf).
          rewrite (pd_plain _ ts ti acc L (kt k)); [| |lia|apply plain_kt].
          2:{ rewrite Hts. apply (py_nth_off pre []). len_eq. }
          rewrite (pd_plain _ ts (ti + 1) acc L (lt v)); [| |lia|apply plain_lt].
          2:{ rewrite Hts. apply (py_nth_off pre [(L, kt k)]). len_eq. }
          rewrite (pd_kv' f ts (ti + 1 + 1) acc L (kt k) (lt v) k (nv v)).
          -- destruct (aset_step k (Leaf (nv v)) acc (map fst (map ce kvs)) Hnd) as [Has Hnd'].
             rewrite Has.
             rewrite (IH lvl L (pre ++ [(L, kt k); (L, lt v); (L, t_semi)]) tail (acc ++ [(k, Leaf (nv v))]) _ ts (ti + 1 + 1 + 1)).
             ++ cbn [map_leaves]. rewrite <- app_assoc. reflexivity.
             ++ list_eq.
             ++ len_eq.
             ++ right. exists (pre ++ [(L, kt k); (L, lt v)]), L, t_semi. split; [list_eq|left; reflexivity].
             ++ exact Htail.
             ++ lia.
             ++ exact Hnd'.
             ++ exact Hwf.
             ++ exact Hs3.
             ++ exact Hc3.
          -- rewrite Hts. apply (py_nth_off pre [(L, kt k); (L, lt v)]). len_eq.
          -- rewrite Hts. apply (py_nth_off pre [(L, kt k)]). len_eq.
          -- rewrite Hts. apply (py_nth_off pre []). len_eq.
          -- apply plain_kt.
          -- apply plain_lt.
          -- lia.
          -- eapply stop3_of_pre'; [exact Hpre|exact Hts|lia].
          -- exact Hpk.
          -- exact (proj2 (Hlt v)).
        * (* k { ... } *)
          cbn [ctoks flat_map] in Hts, Hf. fold (ctoks (events (S lvl) (Dict d) ++ [EClose lvl])) in Hts, Hf.
          rewrite ctoks_app in Hts, Hf. cbn [ev_tokP ctoks flat_map app] in Hts, Hf.
          set (inner := ctoks (events (S lvl) (Dict d))) in *. rewrite <- app_assoc in Hts. cbn [app] in Hts.
          pose proof (bal_ctoks (Dict d) (S lvl) Hcall) as Hbal. fold inner in Hbal.
          rewrite (lev_plain _ _ _ (plain_kt k)), lev_lbrace, levels_go_app, (b_net _ Hbal), Z.add_0_r, lev_rbrace in Hts. norm_in Hts.
          assert (Hge : Forall (fun z : ztok => L + 1 <= fst z) (levels_go (L + 1) inner)) by apply (b_ge _ Hbal).
          cbn [length] in Hf. rewrite app_length in Hf. cbn [length] in Hf.
          rewrite cmapg_dict in Hwc. cbn [snd] in Hwc. rewrite wf_dict in Hwc. apply andb_true_iff in Hwc. destruct Hwc as [Hnd_d Hwf_d].
          do 3 (fuel f Hf).
          rewrite (pd_plain _ ts ti acc L (kt k)); [| |lia|apply plain_kt].
          2:{ rewrite Hts. apply (py_nth_off pre []). len_eq. }
          assert (Hd : parse_dict_go (S f) (levels_go (L + 1) inner) 0 [] = Ok (map ce d)).
          { apply (Hc (S lvl) (L + 1) [] [] [] (S f)).
            - rewrite app_nil_r. reflexivity.
            - reflexivity.
            - left. reflexivity.
            - left. reflexivity.
            - fold inner. cbn [length]. lia.
            - exact Hnd_d.
            - exact Hwf_d.
            - exact Hs2.
            - exact Hcall. }
          rewrite (pd_open_dict' f ts pre (levels_go (L + 1) inner) (levels_go L (ctoks (events lvl (Dict kvs))) ++ tail)
                     (ti + 1) acc L (kt k) k (map ce d));
            [|exact Hts|lia|apply nc_kt|exact Hpk|exact Hge|len_eq|exact Hd].
          rewrite cmapg_dict.
          destruct (aset_step k (Dict (map ce d)) acc (map fst (map ce kvs)) Hnd) as [Has Hnd'].
          rewrite Has.
          rewrite (IH lvl L (pre ++ (L, kt k) :: (L, t_lbrace) :: levels_go (L + 1) inner ++ [(L, t_rbrace)])
                     tail (acc ++ [(k, Dict (map ce d))]) _ ts
                     (ti + 1 + Z.of_nat (length (levels_go (L + 1) inner)) + 2)).
          -- rewrite <- app_assoc. reflexivity.
          -- list_eq.
          -- len_eq.
          -- right. exists (pre ++ (L, kt k) :: (L, t_lbrace) :: levels_go (L + 1) inner), L, t_rbrace.
             split; [list_eq|right; left; reflexivity].
          -- exact Htail.
          -- try rewrite levels_go_length; lia.
          -- exact Hnd'.
          -- exact Hwf.
          -- exact Hs3.
          -- exact Hc3.
        * (* k ( ... ) ; *)
          cbn [ctoks flat_map ev_tokP] in Hts, Hf. rewrite app_nil_r in Hts, Hf.
          rewrite (TokProofs.toks_lst lt kt l) in Hts, Hf.
          set (its := TokProofs.items lt kt l) in *.
          pose proof (TRK.good_items lt kt nv Hlt Hktp l) as Hgood. fold its in Hgood.
          cbn [app] in Hts. rewrite <- !app_assoc in Hts. cbn [app] in Hts.
          rewrite (lev_plain _ _ _ (plain_kt k)), lev_lpar, levels_go_app, (g_net _ Hgood), Z.add_0_r, lev_rpar in Hts.
          cbn [app] in Hts. rewrite lev_semi in Hts. norm_in Hts.
          destruct (good_ge_nc its (L + 1) Hgood) as [Hge _].
          cbn [app length] in Hf. rewrite !app_length in Hf. cbn [length] in Hf.
          cbn [snd] in Hwc. rewrite wf_map_leaves, wf_lst in Hwc.
          do 4 (fuel f Hf).
          rewrite (pd_plain _ ts ti acc L (kt k)); [| |lia|apply plain_kt].
          2:{ rewrite Hts. apply (py_nth_off pre []). len_eq. }
          rewrite (pd_open_list (S f) ts pre (levels_go (L + 1) its) (levels_go L (ctoks (events lvl (Dict kvs))) ++ tail)
                     (ti + 1) acc L (kt k) k (map (map_leaves nv) l));
            [|exact Hts|lia|apply nc_kt|exact Hpk|exact Hge|len_eq| |].
          2:{ intros He. apply (f_equal (@length _)) in He. rewrite levels_go_length in He. cbn [length] in He.
              apply length_zero_iff_nil in He. apply (TRK.items_nil lt kt) in He. subst l. reflexivity. }
          2:{ intros _. apply (TRK.P_all lt kt nv Hlt Hktp Hkpk (Lst l) L (S (S f))); [reflexivity|fold its; lia|exact Hwc|exact Hs2]. }
          rewrite (pd_semi_rpar (S f) ts (ti + 1 + Z.of_nat (length (levels_go (L + 1) its)) + 2) _ L L).
          -- rewrite TokProofs.map_leaves_lst.
             destruct (aset_step k (Lst (map (map_leaves nv) l)) acc (map fst (map ce kvs)) Hnd) as [Has Hnd'].
             rewrite Has.
             rewrite (IH lvl L (pre ++ (L, kt k) :: (L, t_lpar) :: levels_go (L + 1) its ++ [(L, t_rpar); (L, t_semi)])
                        tail (acc ++ [(k, Lst (map (map_leaves nv) l))]) _ ts
                        (ti + 1 + Z.of_nat (length (levels_go (L + 1) its)) + 2 + 1)).
             ++ rewrite <- app_assoc. reflexivity.
             ++ list_eq.
             ++ len_eq.
             ++ right. exists (pre ++ (L, kt k) :: (L, t_lpar) :: levels_go (L + 1) its ++ [(L, t_rpar)]), L, t_semi.
                split; [list_eq|left; reflexivity].
             ++ exact Htail.
             ++ try rewrite levels_go_length; lia.
             ++ exact Hnd'.
             ++ exact Hwf.
             ++ exact Hs3.
             ++ exact Hc3.
          -- apply py_nth_split with (a := pre ++ (L, kt k) :: (L, t_lpar) :: levels_go (L + 1) its ++ [(L, t_rpar)])
                                    (b := levels_go L (ctoks (events lvl (Dict kvs))) ++ tail); [list_eq|len_eq].
          -- lia.
          -- apply py_nth_split with (a := pre ++ (L, kt k) :: (L, t_lpar) :: levels_go (L + 1) its)
                                    (b := (L, t_semi) :: levels_go L (ctoks (events lvl (Dict kvs))) ++ tail); [list_eq|len_eq].
  Qed.

  Lemma P_all : forall t, P t.
  Proof.
    induction t as [v|kvs IH|l IH] using tree_ind'; try exact I. cbn [P]. apply dict_loop. exact IH.
  Qed.

  (* the token parser on the token stream of a document with comment tokens; tl is the empty token that re.split may
     leave at the end *)
  Theorem tok_roundtrip kvs tl : (tl = [] \/ tl = [[]]) ->
    wf (cres (Dict kvs)) = true -> cskeys (Dict kvs) = true -> call ctokb (Dict kvs) = true ->
    parse_tokens (ctoks (events 0 (Dict kvs)) ++ tl) = Ok (kvs_of (cres (Dict kvs))).
  Proof.
    intros Htl Hwf Hsim Hcall. unfold cres in *. rewrite cmapg_dict in *. cbn [kvs_of].
    rewrite wf_dict in Hwf. apply andb_true_iff in Hwf. destruct Hwf as [Hnd Hwf].
    unfold parse_tokens, levels. pose proof (bal_ctoks (Dict kvs) 0%nat Hcall) as Hbal.
    rewrite levels_go_app, (b_net _ Hbal).
    apply (P_all (Dict kvs) 0%nat 0 [] (levels_go (0 + 0) tl) []).
    - reflexivity.
    - reflexivity.
    - left. reflexivity.
    - destruct Htl as [-> | ->]; [left; reflexivity|right; exists 0; reflexivity].
    - rewrite app_length, !levels_go_length. destruct Htl as [-> | ->]; cbn [length]; lia.
    - exact Hnd.
    - exact Hwf.
    - exact Hsim.
    - exact Hcall.
  Qed.
End Main.
End TRI.
Print Assumptions TRI.tok_roundtrip.
