(* C03 / C12 on documents with comments, part 1: string lemmas.
   Fuel-free forms of the placeholder-pair substitution of the writer, occurrences of placeholders in a text,
   str.replace, the block comment scanner, splitlines and remove_trailing_spaces on concatenations. *)
From Coq Require Import String.
From Coq Require Import NArith ZArith List Bool Lia ZifyBool ZifyN ZifyNat.
From DictIO Require Import Chars Str Value Scalar KeyPath SDict Layout Lexer TokParser TreeSpec NativeSpec LayoutSpec E2ESpec.
From DictIO Require ScalarProofs SDictProofs TokProofs LayoutProofs SemProofs QuoteProofs KeyPathProofs.
From DictIO Require Import E2EProofs E2EHoles E2EInsert E2EKeyTok E2EFullProofs.
Import ListNotations.
Import LayoutProofs.
Open Scope N_scope.

(* ================================================================================================ *)
(* 1. generic list facts                                                                            *)
(* ================================================================================================ *)

Lemma drop_n_length {A} n (l : list A) : (length (drop_n n l) <= length l)%nat.
Proof. revert l. induction n as [|n IH]; intros l; [cbn [drop_n]; lia|]. destruct l as [|x l]; cbn [drop_n length]; [lia|]. specialize (IH l). lia. Qed.

Lemma NoDup_app_r {A} (a b : list A) : NoDup (a ++ b) -> NoDup b.
Proof. induction a as [|x a IH]; intros H; [exact H|]. inversion H; subst. apply IH. assumption. Qed.
Lemma NoDup_app_l {A} (a b : list A) : NoDup (a ++ b) -> NoDup a.
Proof.
  induction a as [|x a IH]; intros H; [constructor|]. inversion H as [|y l Hx Hnd]; subst. constructor; [|exact (IH Hnd)].
  intros Hin. apply Hx. apply in_or_app. left. exact Hin.
Qed.

Lemma drop_n_nil {A} n : drop_n n (@nil A) = [].
Proof. destruct n; reflexivity. Qed.

Lemma drop_n_app_lt {A} n (a b : list A) : (n <= length a)%nat -> drop_n n (a ++ b) = drop_n n a ++ b.
Proof.
  revert a. induction n as [|n IH]; intros a H; [reflexivity|]. destruct a as [|x a]; [cbn [length] in H; lia|].
  cbn [app drop_n]. apply IH. cbn [length] in H. lia.
Qed.

Lemma drop_n_app_ge {A} n (a b : list A) : drop_n (length a + n) (a ++ b) = drop_n n b.
Proof. induction a as [|x a IH]; [reflexivity|]. cbn [length Nat.add app drop_n]. exact IH. Qed.

Lemma drop_n_S {A} n (x : A) l : drop_n (S n) (x :: l) = drop_n n l.
Proof. reflexivity. Qed.

Lemma lstrip_length (s : list N) : (length (lstrip s) <= length s)%nat.
Proof. induction s as [|c s IH]; [cbn; lia|]. cbn [lstrip]. destruct (is_space c); cbn [length] in *; lia. Qed.

Lemma starts_with_length (p s : list N) : starts_with p s = true -> (length p <= length s)%nat.
Proof. intros H. destruct (starts_with_split p s H) as [t ->]. rewrite app_length. lia. Qed.

Lemma starts_with_nil_r (p : list N) : p <> [] -> starts_with p [] = false.
Proof. destruct p; [congruence|reflexivity]. Qed.

Lemma starts_with_app_both (a b s : list N) : starts_with (a ++ b) s = starts_with a s && starts_with b (drop_n (length a) s).
Proof.
  revert s. induction a as [|x a IH]; intros s; [reflexivity|]. destruct s as [|y s]; [reflexivity|].
  cbn [app starts_with length drop_n]. rewrite IH, andb_assoc. reflexivity.
Qed.

(* ================================================================================================ *)
(* 2. occurrences                                                                                   *)
(* ================================================================================================ *)

Lemma contains_drop (p s : list N) : p <> [] -> contains p s = false -> forall j, starts_with p (drop_n j s) = false.
Proof.
  intros Hp. induction s as [|x s IH]; intros H j.
  - rewrite drop_n_nil. apply starts_with_nil_r. exact Hp.
  - cbn [contains] in H. apply orb_false_iff in H. destruct H as [H1 H2].
    destruct j as [|j]; [exact H1|]. cbn [drop_n]. apply IH. exact H2.
Qed.

Lemma contains_of_drop (p s : list N) j : starts_with p (drop_n j s) = true -> p <> [] -> contains p s = true.
Proof.
  intros H Hp. revert j H. induction s as [|x s IH]; intros j H.
  - rewrite drop_n_nil, (starts_with_nil_r p Hp) in H. discriminate H.
  - destruct j as [|j]; cbn [drop_n] in H; cbn [contains]; [rewrite H; reflexivity|].
    rewrite (IH j H). apply orb_true_r.
Qed.

Lemma contains_start (p s : list N) : p <> [] -> contains p s = true -> exists j, (j + length p <= length s)%nat /\ starts_with p (drop_n j s) = true.
Proof.
  intros Hp. induction s as [|x s IH]; intros H.
  - cbn [contains] in H. destruct p; [congruence|discriminate H].
  - cbn [contains] in H. apply orb_true_iff in H. destruct H as [H|H].
    + exists 0%nat. split; [apply starts_with_length in H; lia|exact H].
    + destruct (IH H) as (j & Hj & Hs). exists (S j). split; [cbn [length]; lia|exact Hs].
Qed.

Lemma contains_suffix (a b s : list N) : b <> [] -> contains (a ++ b) s = true -> contains b s = true.
Proof.
  intros Hb. induction s as [|x s IH]; intros H.
  - cbn [contains] in H. destruct (a ++ b) eqn:E; [|discriminate H]. apply app_eq_nil in E. destruct E as [_ E]. congruence.
  - cbn [contains] in H. apply orb_true_iff in H. destruct H as [H|H].
    + rewrite starts_with_app_both in H. apply andb_true_iff in H. destruct H as [_ H].
      exact (contains_of_drop b (x :: s) (length a) H Hb).
    + cbn [contains]. rewrite (IH H). apply orb_true_r.
Qed.

(* a separator character that does not occur in the pattern splits the search *)
Lemma starts_with_sep (p : list N) (c : N) : has_char c p = false -> forall a b : list N,
  starts_with p (a ++ c :: b) = starts_with p a.
Proof.
  induction p as [|x p IH]; intros H a b; [reflexivity|].
  rewrite has_char_cons in H. apply orb_false_iff in H. destruct H as [Hx Hp].
  destruct a as [|y a].
  - cbn [app starts_with]. rewrite N.eqb_sym, Hx. reflexivity.
  - cbn [app starts_with]. rewrite (IH Hp a b). reflexivity.
Qed.

Lemma contains_sep (p : list N) (c : N) (a b : list N) : p <> [] -> has_char c p = false ->
  contains p (a ++ c :: b) = contains p a || contains p b.
Proof.
  intros Hp Hc. induction a as [|y a IH].
  - cbn [app contains]. destruct p as [|x p]; [congruence|]. cbn [starts_with].
    rewrite has_char_cons in Hc. apply orb_false_iff in Hc. rewrite N.eqb_sym, (proj1 Hc). reflexivity.
  - cbn [app contains]. change (y :: a ++ c :: b) with ((y :: a) ++ c :: b). rewrite (starts_with_sep p c Hc (y :: a) b), IH.
    rewrite orb_assoc. reflexivity.
Qed.

Lemma contains_nil_r (p : list N) : p <> [] -> contains p [] = false.
Proof. destruct p; [congruence|reflexivity]. Qed.

Lemma contains_snoc_sep (p : list N) (c : N) (a : list N) : p <> [] -> has_char c p = false -> contains p (a ++ [c]) = contains p a.
Proof. intros Hp Hc. pose proof (contains_sep p c a [] Hp Hc) as H. rewrite (contains_nil_r p Hp), orb_false_r in H. exact H. Qed.

Lemma contains_cons_sep (p : list N) (c : N) (b : list N) : p <> [] -> has_char c p = false -> contains p (c :: b) = contains p b.
Proof. intros Hp Hc. pose proof (contains_sep p c [] b Hp Hc) as H. rewrite (contains_nil_r p Hp) in H. exact H. Qed.

Lemma contains_spaces (p : list N) n (b : list N) : p <> [] -> has_char c_sp p = false -> contains p (spaces n ++ b) = contains p b.
Proof.
  intros Hp Hc. induction n as [|n IH]; [reflexivity|]. cbn [spaces repeat app]. fold (spaces n).
  rewrite (contains_cons_sep p c_sp _ Hp Hc). exact IH.
Qed.

(* ---- the characters of a comment placeholder ----------------------------------------------------- *)
Definition phc (c : N) : bool := is_upper c || is_digit c.

Definition cw (w : list N) : Prop := w = w_LINECOMMENT \/ w = w_BLOCKCOMMENT.

Lemma cw_facts w : cw w -> w <> [] /\ forallb is_upper w = true /\ contains w_COMMENT w = true.
Proof. intros [-> | ->]; (split; [discriminate|split; vm_compute; reflexivity]). Qed.

Lemma cph_chars w i : cw w -> forallb phc (placeholder w i) = true.
Proof.
  intros Hw. destruct (cw_facts w Hw) as (_ & Hu & _). unfold placeholder. rewrite forallb_app. apply andb_true_iff. split.
  - apply forallb_forall. intros c Hc. unfold phc. rewrite (forallb_In _ _ _ Hu Hc). reflexivity.
  - apply forallb_forall. intros c Hc. unfold phc. rewrite (forallb_In _ _ _ (pad6_digits i) Hc). apply orb_true_r.
Qed.

Lemma cph_ne w i : cw w -> placeholder w i <> [].
Proof. intros [-> | ->]; unfold placeholder; discriminate. Qed.

Lemma phc_not_in (c : N) (p : list N) : phc c = false -> forallb phc p = true -> has_char c p = false.
Proof.
  intros Hc Hp. destruct (has_char c p) eqn:E; [|reflexivity]. unfold has_char in E. apply existsb_exists in E.
  destruct E as (y & Hy & Ey). apply N.eqb_eq in Ey. subst y. rewrite (forallb_In _ _ _ Hp Hy) in Hc. discriminate Hc.
Qed.

Lemma pad6_length i : i < 1000000 -> length (pad6 i) = 6%nat.
Proof. intros H. exact (proj2 (SemProofs.pad6_props i H)). Qed.

Lemma all_digits_prefix (d : list N) : forall (s : list N), forallb is_digit d = true -> starts_with d s = true ->
  all_digits_n (length d) s = true.
Proof.
  induction d as [|x d IH]; intros s Hd H; [reflexivity|]. destruct s as [|y s]; [discriminate H|].
  cbn [forallb] in Hd. apply andb_true_iff in Hd. destruct Hd as [Hx Hd].
  cbn [starts_with] in H. apply andb_true_iff in H. destruct H as [E H]. apply N.eqb_eq in E. subst y.
  cbn [length all_digits_n]. rewrite Hx, (IH s Hd H). reflexivity.
Qed.

(* a text without the pattern  WORD + six digits  contains no placeholder of that word *)
Lemma hp_no_start w (s : list N) : has_placeholder w s = false -> forall i j, i < 1000000 ->
  starts_with (placeholder w i) (drop_n j s) = false.
Proof.
  induction s as [|x s IH]; intros H i j Hi.
  - rewrite drop_n_nil. destruct (starts_with (placeholder w i) []) eqn:E; [|reflexivity].
    apply starts_with_length in E. unfold placeholder in E. rewrite app_length, (pad6_length i Hi) in E. cbn [length] in E. lia.
  - cbn [has_placeholder] in H. apply orb_false_iff in H. destruct H as [H1 H2].
    destruct j as [|j]; [|cbn [drop_n]; apply IH; assumption].
    cbn [drop_n]. destruct (starts_with (placeholder w i) (x :: s)) eqn:E; [|reflexivity].
    unfold placeholder in E. rewrite starts_with_app_both in E. apply andb_true_iff in E. destruct E as [E1 E2].
    rewrite E1 in H1. cbn [andb] in H1.
    pose proof (all_digits_prefix (pad6 i) _ (pad6_digits i) E2) as Hd. rewrite (pad6_length i Hi) in Hd.
    rewrite Hd in H1. discriminate H1.
Qed.

Lemma hp_of_contains w (s : list N) : cw w -> contains w_COMMENT s = false -> has_placeholder w s = false.
Proof.
  intros Hw H. destruct (has_placeholder w s) eqn:E; [|reflexivity]. apply has_placeholder_contains in E.
  assert (Hc : contains w_COMMENT s = true).
  { destruct Hw as [-> | ->].
    - apply (contains_suffix (of_string "LINE") w_COMMENT s); [discriminate|exact E].
    - apply (contains_suffix (of_string "BLOCK") w_COMMENT s); [discriminate|exact E]. }
  rewrite Hc in H. discriminate H.
Qed.

(* free of comment placeholders *)
Definition phfree (s : list N) : bool := negb (has_placeholder w_LINECOMMENT s) && negb (has_placeholder w_BLOCKCOMMENT s).

Lemma phfree_no_start (s : list N) w i j : phfree s = true -> cw w -> i < 1000000 ->
  starts_with (placeholder w i) (drop_n j s) = false.
Proof.
  unfold phfree. intros H Hw Hi. apply andb_true_iff in H. destruct H as [H1 H2].
  apply negb_true_iff in H1, H2. destruct Hw as [-> | ->]; apply hp_no_start; assumption.
Qed.

Lemma phfree_of_nocomment (s : list N) : contains w_COMMENT s = false -> phfree s = true.
Proof.
  intros H. unfold phfree. rewrite (hp_of_contains w_LINECOMMENT s (or_introl eq_refl) H),
    (hp_of_contains w_BLOCKCOMMENT s (or_intror eq_refl) H). reflexivity.
Qed.

(* ---- no start of the pattern p inside X (followed by Z) ------------------------------------------ *)
Definition ns (p X Z : list N) : Prop := forall i, (i < length X)%nat -> starts_with p (drop_n i (X ++ Z)) = false.
Definition guard (Z : list N) : Prop := match Z with [] => True | c :: _ => phc c = false end.
Definition Gc (p X : list N) : Prop := forall Z, ns p X Z.
Definition Gg (p X : list N) : Prop := forall Z, guard Z -> ns p X Z.

Lemma ns_nil p Z : ns p [] Z.
Proof. intros i Hi. cbn [length] in Hi. lia. Qed.

Lemma ns_app p (X1 X2 Z : list N) : ns p X1 (X2 ++ Z) -> ns p X2 Z -> ns p (X1 ++ X2) Z.
Proof.
  intros H1 H2 i Hi. rewrite <- app_assoc. destruct (Nat.lt_ge_cases i (length X1)) as [Hlt|Hge].
  - apply H1. exact Hlt.
  - replace i with (length X1 + (i - length X1))%nat by lia. rewrite drop_n_app_ge. apply H2.
    rewrite app_length in Hi. lia.
Qed.

Lemma Gc_Gg p X : Gc p X -> Gg p X.
Proof. intros H Z _. apply H. Qed.

Lemma Gc_app p X1 X2 : Gc p X1 -> Gc p X2 -> Gc p (X1 ++ X2).
Proof. intros H1 H2 Z. apply ns_app; [apply H1|apply H2]. Qed.

Lemma Gc_nil p : Gc p [].
Proof. intros Z. apply ns_nil. Qed.

Lemma guard_app (X Z : list N) : guard Z -> (match X with [] => True | c :: _ => phc c = false end) -> guard (X ++ Z).
Proof. intros HZ HX. destruct X as [|c X]; [exact HZ|exact HX]. Qed.

(* an open piece followed by a piece that begins with a separator *)
Lemma Gg_app p X1 X2 : Gg p X1 -> Gg p X2 -> (match X2 with [] => True | c :: _ => phc c = false end) -> Gg p (X1 ++ X2).
Proof. intros H1 H2 Hh Z HZ. apply ns_app; [apply H1; apply guard_app; assumption|apply H2; exact HZ]. Qed.

Lemma Gc_app_g p X1 X2 : Gg p X1 -> Gc p X2 -> (match X2 with [] => False | c :: _ => phc c = false end) -> Gc p (X1 ++ X2).
Proof.
  intros H1 H2 Hh Z. apply ns_app; [|apply H2]. apply H1. destruct X2 as [|c X2]; [contradiction|exact Hh].
Qed.

Lemma Gg_app_c p X1 X2 : Gc p X1 -> Gg p X2 -> Gg p (X1 ++ X2).
Proof. intros H1 H2 Z HZ. apply ns_app; [apply H1|apply H2; exact HZ]. Qed.

Lemma starts_with_guard (p : list N) : forallb phc p = true -> forall A Z : list N, guard Z ->
  starts_with p (A ++ Z) = true -> starts_with p A = true.
Proof.
  induction p as [|x p IH]; intros Hp A Z HZ H; [reflexivity|].
  cbn [forallb] in Hp. apply andb_true_iff in Hp. destruct Hp as [Hx Hp].
  destruct A as [|y A].
  - cbn [app] in H. destruct Z as [|z Z]; [discriminate H|]. cbn [starts_with] in H. apply andb_true_iff in H.
    destruct H as [E _]. apply N.eqb_eq in E. subst z. cbn [guard] in HZ. rewrite HZ in Hx. discriminate Hx.
  - cbn [app starts_with] in *. apply andb_true_iff in H. destruct H as [E H]. rewrite E. exact (IH Hp A Z HZ H).
Qed.

(* a piece without the pattern *)
Lemma Gg_free (p Y : list N) : forallb phc p = true -> p <> [] -> contains p Y = false -> Gg p Y.
Proof.
  intros Hp Hne Hc Z HZ i Hi. destruct (starts_with p (drop_n i (Y ++ Z))) eqn:E; [|reflexivity].
  rewrite drop_n_app_lt in E by lia. apply (starts_with_guard p Hp _ Z HZ) in E.
  rewrite (contains_drop p Y Hne Hc i) in E. discriminate E.
Qed.

(* ... closed by a separator *)
Lemma Gc_term (p Y : list N) (c : N) : forallb phc p = true -> p <> [] -> contains p Y = false -> phc c = false -> Gc p (Y ++ [c]).
Proof.
  intros Hp Hne Hc Hcc Z. apply ns_app.
  - cbn [app]. apply (Gg_free p Y Hp Hne Hc). exact Hcc.
  - intros i Hi. cbn [length] in Hi. assert (i = 0%nat) by lia. subst i. cbn [drop_n app].
    destruct p as [|x p]; [congruence|]. cbn [starts_with forallb] in *. apply andb_true_iff in Hp. destruct Hp as [Hx _].
    destruct (x =? c) eqn:E; [|reflexivity]. apply N.eqb_eq in E. subst c. rewrite Hx in Hcc. discriminate Hcc.
Qed.

(* pieces free of comment placeholders *)
Lemma phfree_contains (Y : list N) w i : phfree Y = true -> cw w -> i < 1000000 -> contains (placeholder w i) Y = false.
Proof.
  intros H Hw Hi. destruct (contains (placeholder w i) Y) eqn:E; [|reflexivity]. exfalso.
  assert (G : forall s : list N, contains (placeholder w i) s = true -> exists j, starts_with (placeholder w i) (drop_n j s) = true).
  { induction s as [|x s IHs]; intros Hs.
    - cbn [contains] in Hs. destruct (placeholder w i) eqn:Ep; [exfalso; exact (cph_ne w i Hw Ep)|discriminate Hs].
    - cbn [contains] in Hs. apply orb_true_iff in Hs. destruct Hs as [Hs|Hs]; [exists 0%nat; exact Hs|].
      destruct (IHs Hs) as [j Hj]. exists (S j). exact Hj. }
  destruct (G Y E) as [j Hj]. rewrite (phfree_no_start Y w i j H Hw Hi) in Hj. discriminate Hj.
Qed.

(* ================================================================================================ *)
(* 3. the placeholder-pair substitution without fuel                                                *)
(* ================================================================================================ *)

Lemma match_rest_length ph (s rest : list N) : match_ph_pair ph s = Some rest -> (length rest < length s)%nat.
Proof.
  unfold match_ph_pair. destruct (starts_with ph s); [|discriminate].
  pose proof (drop_n_length (length ph) s) as H1.
  destruct (drop_n (length ph) s) as [|c s'] eqn:E; [discriminate|]. cbn [skip_ws1].
  destruct (is_space c); [|discriminate].
  destruct (starts_with (ph ++ [c_semi]) (lstrip s')) eqn:E2; [|discriminate].
  intros H. injection H as <-. pose proof (lstrip_length s') as H3. cbn [length] in H1.
  remember (lstrip s') as r eqn:Er. destruct r as [|y l']; cbn [length] in *; [lia|].
  pose proof (drop_n_length (length ph) l') as H2. lia.
Qed.

Lemma sub_fuel ph repl : forall f1 f2 (s : list N), (length s < f1)%nat -> (length s < f2)%nat ->
  sub_ph_pair f1 ph repl s = sub_ph_pair f2 ph repl s.
Proof.
  induction f1 as [|f1 IH]; intros f2 s H1 H2; [lia|]. destruct f2 as [|f2]; [lia|].
  destruct s as [|c s]; [reflexivity|]. cbn [sub_ph_pair].
  destruct (match_ph_pair ph (c :: s)) as [rest|] eqn:E.
  - pose proof (match_rest_length ph _ _ E) as Hl. cbn [length] in H1, H2, Hl. rewrite (IH f2 rest); [reflexivity|lia|lia].
  - cbn [length] in H1, H2. rewrite (IH f2 s); [reflexivity|lia|lia].
Qed.

Definition subst (ph repl s : list N) : list N * bool := sub_ph_pair (S (length s)) ph repl s.

Lemma subst_nil ph repl : subst ph repl [] = ([], false).
Proof. reflexivity. Qed.

Lemma subst_hit ph repl (s rest : list N) : match_ph_pair ph s = Some rest ->
  subst ph repl s = (repl ++ fst (subst ph repl rest), true).
Proof.
  intros E. destruct s as [|c s]; [pose proof (match_rest_length ph _ _ E) as Hl0; cbn [length] in Hl0; lia|].
  unfold subst at 1. cbn [sub_ph_pair]. rewrite E. pose proof (match_rest_length ph _ _ E) as Hl.
  rewrite (sub_fuel ph repl (length (c :: s)) (S (length rest)) rest Hl ltac:(lia)).
  fold (subst ph repl rest). destruct (subst ph repl rest). reflexivity.
Qed.

Lemma subst_miss ph repl c (s : list N) : match_ph_pair ph (c :: s) = None ->
  subst ph repl (c :: s) = (c :: fst (subst ph repl s), snd (subst ph repl s)).
Proof.
  intros E. unfold subst at 1. cbn [sub_ph_pair]. rewrite E. cbn [length].
  fold (subst ph repl s). destruct (subst ph repl s). reflexivity.
Qed.

Lemma match_needs_start ph (s : list N) : starts_with ph s = false -> match_ph_pair ph s = None.
Proof. intros H. unfold match_ph_pair. rewrite H. reflexivity. Qed.

Lemma subst_skip ph repl (X : list N) : forall Z, ns ph X Z ->
  subst ph repl (X ++ Z) = (X ++ fst (subst ph repl Z), snd (subst ph repl Z)).
Proof.
  induction X as [|x X IH]; intros Z H.
  - cbn [app]. destruct (subst ph repl Z). reflexivity.
  - cbn [app]. rewrite subst_miss.
    + rewrite (IH Z); [reflexivity|]. intros i Hi. apply (H (S i)). cbn [length]. lia.
    + apply match_needs_start. apply (H 0%nat). cbn [length]. lia.
Qed.

(* the first occurrence only *)
Lemma sub_once_fuel ph repl : forall f1 f2 (s : list N), (length s < f1)%nat -> (length s < f2)%nat ->
  sub_ph_pair_once f1 ph repl s = sub_ph_pair_once f2 ph repl s.
Proof.
  induction f1 as [|f1 IH]; intros f2 s H1 H2; [lia|]. destruct f2 as [|f2]; [lia|].
  destruct s as [|c s]; [reflexivity|]. cbn [sub_ph_pair_once].
  destruct (match_ph_pair ph (c :: s)) as [rest|] eqn:E; [reflexivity|].
  cbn [length] in H1, H2. rewrite (IH f2 s); [reflexivity|lia|lia].
Qed.

Definition subst1 (ph repl s : list N) : list N * bool := sub_ph_pair_once (S (length s)) ph repl s.

Lemma subst1_hit ph repl (s rest : list N) : match_ph_pair ph s = Some rest -> subst1 ph repl s = (repl ++ rest, true).
Proof.
  intros E. unfold subst1. destruct s as [|c s]; [pose proof (match_rest_length ph _ _ E) as Hl0; cbn [length] in Hl0; lia|].
  cbn [sub_ph_pair_once]. rewrite E. reflexivity.
Qed.

Lemma subst1_miss ph repl c (s : list N) : match_ph_pair ph (c :: s) = None ->
  subst1 ph repl (c :: s) = (c :: fst (subst1 ph repl s), snd (subst1 ph repl s)).
Proof.
  intros E. unfold subst1 at 1. cbn [sub_ph_pair_once]. rewrite E. cbn [length].
  fold (subst1 ph repl s). destruct (subst1 ph repl s). reflexivity.
Qed.

Lemma subst1_nil ph repl : subst1 ph repl [] = ([], false).
Proof. reflexivity. Qed.

Lemma subst1_skip ph repl (X : list N) : forall Z, ns ph X Z ->
  subst1 ph repl (X ++ Z) = (X ++ fst (subst1 ph repl Z), snd (subst1 ph repl Z)).
Proof.
  induction X as [|x X IH]; intros Z H.
  - cbn [app]. destruct (subst1 ph repl Z). reflexivity.
  - cbn [app]. rewrite subst1_miss.
    + rewrite (IH Z); [reflexivity|]. intros i Hi. apply (H (S i)). cbn [length]. lia.
    + apply match_needs_start. apply (H 0%nat). cbn [length]. lia.
Qed.

(* the line the writer lays out for a placeholder entry *)
Lemma match_pair_line (ph : list N) n (rest : list N) : ph <> [] -> (forall c, In c ph -> is_space c = false) -> (0 < n)%nat ->
  match_ph_pair ph (ph ++ spaces n ++ ph ++ c_semi :: rest) = Some rest.
Proof.
  intros Hne Hns Hn. apply (match_ph_pair_hit ph (spaces n) rest Hne Hns).
  - intros c Hc. unfold spaces in Hc. apply repeat_spec in Hc. subst c. reflexivity.
  - destruct n; [lia|]. discriminate.
Qed.

(* ================================================================================================ *)
(* 4. str.replace                                                                                   *)
(* ================================================================================================ *)

Lemma replace_all_skip (old new X : list N) : old <> [] -> forall Z, ns old X Z ->
  replace_all old new (X ++ Z) = X ++ replace_all old new Z.
Proof.
  intros Hne. destruct old as [|o old]; [congruence|]. unfold replace_all.
  induction X as [|x X IH]; intros Z H; [reflexivity|].
  cbn [app]. rewrite replace_go_O.
  assert (E : starts_with (o :: old) (x :: X ++ Z) = false) by (apply (H 0%nat); cbn [length]; lia).
  rewrite E. f_equal. apply IH. intros i Hi. apply (H (S i)). cbn [length]. lia.
Qed.

Lemma replace_all_hit (old new Z : list N) : old <> [] ->
  replace_all old new (old ++ Z) = new ++ replace_all old new Z.
Proof.
  intros Hne. destruct old as [|o old]; [congruence|]. unfold replace_all.
  cbn [app]. rewrite replace_go_O. change (o :: old ++ Z) with ((o :: old) ++ Z). rewrite starts_with_app.
  cbn [length Nat.pred]. rewrite replace_go_skip. reflexivity.
Qed.

Lemma replace_all_nil (old new : list N) : replace_all old new [] = [].
Proof. destruct old; reflexivity. Qed.

(* ================================================================================================ *)
(* 5. block comments                                                                                *)
(* ================================================================================================ *)

Lemma take_until_close_app (r : list N) : forall acc c Z, take_until_close acc r = Some (c, []) ->
  take_until_close acc (r ++ Z) = Some (c, Z).
Proof.
  induction r as [|a r IH]; intros acc c Z H; [discriminate H|].
  destruct r as [|b r']; [discriminate H|].
  cbn [take_until_close] in H. cbn [app take_until_close].
  destruct ((a =? c_star) && (b =? c_slash)).
  - inversion H; subst. reflexivity.
  - exact (IH (a :: acc) c Z H).
Qed.

(* a block comment as the scanner delimits it: slash star ... star slash, closed by its own last two characters *)
Definition bc_scan (c : list N) : bool :=
  match c with
  | a :: b :: r => (a =? c_slash) && (b =? c_star) &&
                   match take_until_close [b; a] r with Some (c', []) => str_eqb c' c | _ => false end
  | _ => false
  end.

Lemma bc_scan_inv c : bc_scan c = true -> exists r, c = c_slash :: c_star :: r /\ take_until_close [c_star; c_slash] r = Some (c, []).
Proof.
  destruct c as [|a [|b r]]; try discriminate. cbn [bc_scan]. intros H.
  apply andb_true_iff in H. destruct H as [H H3]. apply andb_true_iff in H. destruct H as [H1 H2].
  apply N.eqb_eq in H1, H2. subst a b. exists r. split; [reflexivity|].
  destruct (take_until_close [c_star; c_slash] r) as [[c' [|z zs]]|]; try discriminate H3.
  apply SDictProofs.str_eqb_eq in H3. subst c'. reflexivity.
Qed.

Lemma bc_scan_prefix_eq (c c' Z : list N) : bc_scan c = true -> bc_scan c' = true -> starts_with c (c' ++ Z) = true -> c = c'.
Proof.
  intros H H' Hs. destruct (bc_scan_inv c H) as (r & E & Hr). destruct (bc_scan_inv c' H') as (r' & E' & Hr').
  destruct (starts_with_split _ _ Hs) as [t Et].
  pose proof (take_until_close_app r _ c t Hr) as A. pose proof (take_until_close_app r' _ c' Z Hr') as A'.
  assert (Er : r ++ t = r' ++ Z).
  { rewrite E in Et. rewrite E' in Et. cbn [app] in Et. inversion Et. reflexivity. }
  rewrite Er in A. rewrite A in A'. inversion A'. reflexivity.
Qed.

Lemma find_block_S f a b (r : list N) :
  find_block_comments (S f) (a :: b :: r) =
  if (a =? c_slash) && (b =? c_star) then
    match take_until_close [b; a] r with
    | Some (cmt, rest) => cmt :: find_block_comments f rest
    | None => find_block_comments f (b :: r)
    end
  else find_block_comments f (b :: r).
Proof. reflexivity. Qed.

Lemma take_until_close_length (r : list N) : forall acc c rest, take_until_close acc r = Some (c, rest) -> (length rest <= length r)%nat.
Proof.
  induction r as [|x r IHr]; intros acc c rest E; [discriminate E|].
  destruct r as [|y r']; [discriminate E|]. cbn [take_until_close] in E.
  destruct ((x =? c_star) && (y =? c_slash)).
  - inversion E; subst. cbn [length]. lia.
  - specialize (IHr _ _ _ E). cbn [length] in *. lia.
Qed.

Lemma fbc_fuel : forall f1 f2 (s : list N), (length s < f1)%nat -> (length s < f2)%nat ->
  find_block_comments f1 s = find_block_comments f2 s.
Proof.
  induction f1 as [|f1 IH]; intros f2 s H1 H2; [lia|]. destruct f2 as [|f2]; [lia|].
  destruct s as [|a [|b r]]; try reflexivity. rewrite !find_block_S. cbn [length] in H1, H2.
  assert (Hs : find_block_comments f1 (b :: r) = find_block_comments f2 (b :: r)) by (apply IH; cbn [length]; lia).
  destruct ((a =? c_slash) && (b =? c_star)); [|exact Hs].
  destruct (take_until_close [b; a] r) as [[cmt rest]|] eqn:E; [|exact Hs].
  pose proof (take_until_close_length r _ _ _ E) as Hl.
  f_equal. apply IH; lia.
Qed.

Definition fbc (s : list N) : list (list N) := find_block_comments (S (length s)) s.

Lemma fbc_cons_miss a (s : list N) : (match s with b :: _ => (a =? c_slash) && (b =? c_star) | [] => false end) = false ->
  fbc (a :: s) = fbc s.
Proof.
  intros H. unfold fbc. destruct s as [|b r]; [reflexivity|]. rewrite find_block_S, H.
  apply fbc_fuel; cbn [length]; lia.
Qed.

(* a piece without slash-star that does not end with a slash *)
Lemma fbc_skip (X : list N) : forall Z, nopair c_slash c_star X = true -> (forall r, X <> r ++ [c_slash]) -> fbc (X ++ Z) = fbc Z.
Proof.
  induction X as [|a X IH]; intros Z Hn Hl; [reflexivity|].
  cbn [app]. rewrite fbc_cons_miss.
  - apply IH; [exact (nopair_tail _ _ _ _ Hn)|]. intros r Hr. apply (Hl (a :: r)). rewrite Hr. reflexivity.
  - destruct X as [|b X'].
    + cbn [app]. destruct Z as [|z Z]; [reflexivity|]. destruct (a =? c_slash) eqn:E; [|reflexivity].
      apply N.eqb_eq in E. subst a. exfalso. exact (Hl [] eq_refl).
    + cbn [app]. cbn [nopair] in Hn. apply andb_true_iff in Hn. destruct Hn as [Hn _]. apply negb_true_iff in Hn. exact Hn.
Qed.

Lemma fbc_hit (c Z : list N) : bc_scan c = true -> fbc (c ++ Z) = c :: fbc Z.
Proof.
  intros H. destruct (bc_scan_inv c H) as (r & E & Hr). unfold fbc. rewrite E. cbn [app]. rewrite find_block_S.
  rewrite !N.eqb_refl. cbn [andb]. rewrite (take_until_close_app r _ c Z Hr). rewrite <- E. f_equal.
  apply fbc_fuel; [|lia]. cbn [length]. rewrite app_length. lia.
Qed.

(* ================================================================================================ *)
(* 6. lines                                                                                         *)
(* ================================================================================================ *)

Lemma rts_app_lf (X Y : list N) : remove_trailing_spaces (X ++ c_lf :: Y) = remove_trailing_spaces (X ++ [c_lf]) ++ remove_trailing_spaces Y.
Proof.
  revert Y. pattern X. apply lines_ind; clear X.
  - intros b Hb Y. rewrite (rts_line b Y Hb), (rts_line b [] Hb). rewrite <- app_assoc. reflexivity.
  - intros b t Hb IH Y. rewrite <- !app_assoc. cbn [app]. rewrite (rts_line b _ Hb), (rts_line b _ Hb), IH.
    rewrite <- app_assoc. reflexivity.
Qed.

Definition ends_lf (X : list N) : Prop := X = [] \/ exists X', X = X' ++ [c_lf].

Lemma rts_app (X Y : list N) : ends_lf X -> remove_trailing_spaces (X ++ Y) = remove_trailing_spaces X ++ remove_trailing_spaces Y.
Proof.
  intros [-> |(X' & ->)]; [reflexivity|]. rewrite <- app_assoc. cbn [app]. apply rts_app_lf.
Qed.

Lemma ends_lf_app (X Y : list N) : ends_lf Y -> Y <> [] -> ends_lf (X ++ Y).
Proof. intros [-> |(Y' & ->)] Hne; [congruence|]. right. exists (X ++ Y'). rewrite app_assoc. reflexivity. Qed.

Lemma ends_lf_app' (X Y : list N) : ends_lf X -> ends_lf Y -> ends_lf (X ++ Y).
Proof.
  intros HX HY. destruct Y as [|y Y]; [rewrite app_nil_r; exact HX|]. apply ends_lf_app; [exact HY|discriminate].
Qed.

Lemma splitlines_go_app (X : list N) : forall cur Y, has_char c_cr X = false ->
  splitlines_go cur (X ++ c_lf :: Y) = splitlines_go cur (X ++ [c_lf]) ++ splitlines_go [] Y.
Proof.
  induction X as [|c X IH]; intros cur Y H.
  - cbn [app splitlines_go]. replace (c_lf =? c_cr) with false by reflexivity. replace (is_linebreak c_lf) with true by reflexivity.
    reflexivity.
  - rewrite has_char_cons in H. apply orb_false_iff in H. destruct H as [Hc HX]. rewrite N.eqb_sym in Hc.
    cbn [app splitlines_go]. rewrite Hc. destruct (is_linebreak c).
    + rewrite (IH [] Y HX). reflexivity.
    + apply IH. exact HX.
Qed.

Lemma splitlines_app (X Y : list N) : ends_lf X -> has_char c_cr X = false ->
  splitlines (X ++ Y) = splitlines X ++ splitlines Y.
Proof.
  intros [-> |(X' & ->)] H; [reflexivity|]. unfold splitlines. rewrite <- app_assoc. cbn [app].
  apply splitlines_go_app. rewrite has_char_app' in H. apply orb_false_iff in H. exact (proj1 H).
Qed.

(* ================================================================================================ *)
(* 7. block comment texts among other block comment texts                                           *)
(* ================================================================================================ *)

(* a block comment text: delimited by the scanner as a whole, slash-star only at its beginning *)
Definition bcgood (c : list N) : bool := bc_scan c && nopair c_slash c_star (tl c).

Lemma bcgood_inv c : bcgood c = true -> exists r, c = c_slash :: c_star :: r /\ bc_scan c = true /\ nopair c_slash c_star (c_star :: r) = true.
Proof.
  unfold bcgood. intros H. apply andb_true_iff in H. destruct H as [H1 H2].
  destruct (bc_scan_inv c H1) as (r & -> & _). exists r. split; [reflexivity|]. split; [exact H1|exact H2].
Qed.

Definition hd_not (b : N) (R : list N) : Prop := match R with [] => True | r :: _ => (r =? b) = false end.

Lemma nopair_no_start (a b : N) (X : list N) : forall R, nopair a b X = true -> hd_not b R ->
  forall j, (j < length X)%nat -> starts_with [a; b] (drop_n j (X ++ R)) = false.
Proof.
  induction X as [|x X IH]; intros R Hn HR j Hj; [cbn [length] in Hj; lia|].
  destruct j as [|j].
  - cbn [drop_n app]. destruct X as [|y X'].
    + cbn [app]. destruct R as [|r R']; [cbn [starts_with]; rewrite andb_false_r; reflexivity|].
      cbn [starts_with hd_not] in *. rewrite (N.eqb_sym b r), HR, andb_false_r. reflexivity.
    + cbn [app starts_with]. cbn [nopair] in Hn. apply andb_true_iff in Hn. destruct Hn as [Hn _]. apply negb_true_iff in Hn.
      rewrite andb_true_r, (N.eqb_sym a x), (N.eqb_sym b y). exact Hn.
  - cbn [drop_n app]. apply IH; [exact (nopair_tail _ _ _ _ Hn)|exact HR|cbn [length] in Hj; lia].
Qed.

Lemma ns_bc (c q R : list N) : bcgood c = true -> bcgood q = true -> c <> q -> hd_not c_star R -> ns c q R.
Proof.
  intros Hc Hq Hne HR i Hi. destruct (bcgood_inv c Hc) as (r & Ec & Sc & _). destruct (bcgood_inv q Hq) as (r' & Eq & Sq & Nq).
  destruct (starts_with c (drop_n i (q ++ R))) eqn:E; [|reflexivity]. exfalso.
  destruct i as [|i].
  - cbn [drop_n] in E. exact (Hne (bc_scan_prefix_eq c q R Sc Sq E)).
  - rewrite Eq in E, Hi. cbn [app drop_n length] in E, Hi.
    rewrite Ec in E. change (c_slash :: c_star :: r) with ([c_slash; c_star] ++ r) in E. apply starts_with_app_l in E.
    change (c_star :: r' ++ R) with ((c_star :: r') ++ R) in E.
    rewrite (nopair_no_start c_slash c_star (c_star :: r') R Nq HR i) in E; [discriminate E|cbn [length]; lia].
Qed.

Lemma contains_skip (c X : list N) : forall R, ns c X R -> contains c (X ++ R) = contains c R.
Proof.
  induction X as [|x X IH]; intros R H; [reflexivity|]. cbn [app contains].
  assert (E : starts_with c (x :: X ++ R) = false) by (apply (H 0%nat); cbn [length]; lia).
  rewrite E. cbn [orb]. apply IH. intros i Hi. apply (H (S i)). cbn [length]. lia.
Qed.

Definition piece (q : list N) : Prop := q = [c_lf] \/ bcgood q = true.

Lemma piece_concat_hd (L : list (list N)) : Forall piece L -> hd_not c_star (concat L).
Proof.
  induction 1 as [|q L Hq _ IH]; [exact I|]. cbn [concat]. destruct Hq as [-> |Hq]; [reflexivity|].
  destruct (bcgood_inv q Hq) as (r & -> & _). reflexivity.
Qed.

Lemma not_in_concat (c : list N) (L : list (list N)) : bcgood c = true -> Forall piece L -> ~ In c L -> contains c (concat L) = false.
Proof.
  intros Hc HL Hn. destruct (bcgood_inv c Hc) as (r & Ec & _).
  induction HL as [|q L Hq HL IH]; [rewrite Ec; reflexivity|].
  cbn [concat]. rewrite contains_skip.
  - apply IH. intros Hin. apply Hn. right. exact Hin.
  - destruct Hq as [-> |Hq].
    + intros i Hi. cbn [length] in Hi. assert (i = 0%nat) by lia. subst i. cbn [drop_n app]. rewrite Ec. reflexivity.
    + apply ns_bc; [exact Hc|exact Hq| |apply piece_concat_hd; exact HL]. intros ->. apply Hn. left. reflexivity.
Qed.
