(* Proofs for C05 (expressions): on the text of an arithmetic expression over references, the library's
   textual substitution of resolved references is exactly "update the environment". *)
From Coq Require Import String NArith ZArith List Bool Lia.
From DictIO Require Import Chars Str Value Scalar KeyPath SDict Layout Lexer TokParser Reader Expr Eval MiscSpec EvalSpec FlatSpec ScalarProofs SemProofs.
From Coq Require Import ZifyBool ZifyN ZifyNat.
Import ListNotations.
Open Scope N_scope.

(* ================================================================================================ *)
(* characters of the rendered text                                                                  *)
(* ================================================================================================ *)
(* everything that is not part of an unresolved reference: blanks, digits, minus, operators, parentheses *)
Definition plainch (c : N) : Prop :=
  c = c_sp \/ c = c_tab \/ is_digit c = true \/ c = c_minus \/ c = c_plus \/ c = c_star \/ c = c_lpar \/ c = c_rpar.
Definition opch (c : N) : Prop :=
  c = c_minus \/ c = c_plus \/ c = c_star \/ c = c_lpar \/ c = c_rpar.
Definition nodollar (s : list N) : Prop := Forall (fun c => (c_dollar =? c) = false) s.

Lemma plainch_nodollar c : plainch c -> (c_dollar =? c) = false.
Proof. unfold plainch. intros H. chars. Qed.

Lemma plainch_not_upper c : plainch c -> is_upper c = false.
Proof. unfold plainch. intros H. chars. Qed.

Lemma word_nodollar c : is_word c = true -> (c_dollar =? c) = false.
Proof. unfold is_word. intros H. chars. Qed.

Lemma opch_not_space c : opch c -> is_space c = false.
Proof. unfold opch. intros H. chars. Qed.

Lemma opch_not_ref c : opch c -> is_ref_char c = false /\ c <> c_dollar.
Proof. unfold opch, is_ref_char, is_word. intros H. split; chars. Qed.

Lemma blank_not_ref c : is_blank c = true -> is_ref_char c = false.
Proof. unfold is_blank, is_ref_char, is_word. intros H. chars. Qed.

Lemma blank_plain c : is_blank c = true -> plainch c.
Proof. unfold is_blank, plainch. intros H. chars. Qed.

Lemma not_ref_not_word c : is_ref_char c = false -> is_word c = false /\ c <> c_lbrk.
Proof. unfold is_ref_char. intros H. split; chars. Qed.

Lemma not_ref_not_upper c : is_ref_char c = false -> is_upper c = false.
Proof. unfold is_ref_char, is_word. intros H. chars. Qed.

Lemma word_ref_char c : is_word c = true -> is_ref_char c = true.
Proof. unfold is_ref_char. intros H. rewrite H. reflexivity. Qed.

Lemma plain_nodollar s : Forall plainch s -> nodollar s.
Proof. intros H. eapply Forall_impl; [|exact H]. intros c Hc. apply plainch_nodollar. exact Hc. Qed.

Lemma words_nodollar s : Forall (fun c => is_word c = true) s -> nodollar s.
Proof. intros H. eapply Forall_impl; [|exact H]. intros c Hc. apply word_nodollar. exact Hc. Qed.

Lemma plain_N n : Forall plainch (N_to_dec n).
Proof.
  destruct (N_to_dec_spec n) as [[Hd _] _]. eapply Forall_impl; [|exact Hd].
  intros c Hc. unfold plainch. tauto.
Qed.

Lemma plain_Z z : Forall plainch (Z_to_dec z).
Proof.
  destruct z as [|p|p]; cbn [Z_to_dec].
  - constructor; [|constructor]. unfold plainch. right. right. left. reflexivity.
  - apply plain_N.
  - constructor; [|apply plain_N]. unfold plainch. tauto.
Qed.

Lemma blank_Forall g i : blank_fn g -> Forall (fun c => is_blank c = true) (g i).
Proof. intros Hg. apply Forall_forall. apply forallb_forall. apply Hg. Qed.

Lemma plain_blank g i : blank_fn g -> Forall plainch (g i).
Proof.
  intros Hg. eapply Forall_impl; [|apply blank_Forall; exact Hg]. intros c Hc. apply blank_plain. exact Hc.
Qed.

(* ================================================================================================ *)
(* token lists                                                                                      *)
(* ================================================================================================ *)
Definition atom (t : dtok) : bool := match t with DNum _ | DVar _ => true | _ => false end.
Definition hd_atom (ts : list dtok) : bool := match ts with t :: _ => atom t | [] => false end.
(* a number / reference is never directly followed by a number / reference *)
Fixpoint adj (ts : list dtok) : bool :=
  match ts with
  | [] => true
  | t :: ts' => negb (atom t && hd_atom ts') && adj ts'
  end.
Fixpoint tvars (ts : list dtok) : list str :=
  match ts with
  | [] => []
  | DVar x :: ts' => x :: tvars ts'
  | _ :: ts' => tvars ts'
  end.
(* the token is a reference that has no value yet *)
Definition unres (rho : str -> option Z) (t : dtok) : bool :=
  match t with DVar y => negb (is_some (rho y)) | _ => false end.

Lemma adj_cons_op op l : atom op = false -> adj l = true -> adj (op :: l) = true.
Proof. intros Ho Hl. cbn [adj]. rewrite Ho, Hl. reflexivity. Qed.

Lemma adj_mid : forall l1 op l2, adj l1 = true -> adj l2 = true -> atom op = false -> adj (l1 ++ op :: l2) = true.
Proof.
  induction l1 as [|t l1 IH]; intros op l2 H1 H2 Ho.
  - cbn [app]. apply adj_cons_op; assumption.
  - cbn [app adj] in *. apply andb_true_iff in H1. destruct H1 as [Ha Hr].
    rewrite (IH op l2 Hr H2 Ho), andb_true_r.
    destruct l1 as [|t' l1']; cbn [app hd_atom] in *.
    + rewrite Ho, andb_false_r. reflexivity.
    + exact Ha.
Qed.

Lemma adj_dwrap l a ts : adj ts = true -> adj (dwrap l a ts) = true.
Proof.
  intros H. unfold dwrap. destruct (Nat.ltb (alevel a) l); [|exact H].
  apply adj_cons_op; [reflexivity|]. apply adj_mid; [exact H|reflexivity|reflexivity].
Qed.

Lemma tx_adj_dtoks : forall a, adj (dtoks a) = true.
Proof.
  induction a as [n|x|a IH|a IH|a IHa b IHb|a IHa b IHb|a IHa b IHb|a IH]; cbn [dtoks].
  - reflexivity.
  - reflexivity.
  - apply adj_cons_op; [reflexivity|]. apply adj_dwrap. exact IH.
  - apply adj_cons_op; [reflexivity|]. apply adj_dwrap. exact IH.
  - apply adj_mid; [exact IHa|apply adj_dwrap; exact IHb|reflexivity].
  - apply adj_mid; [exact IHa|apply adj_dwrap; exact IHb|reflexivity].
  - apply adj_mid; [apply adj_dwrap; exact IHa|apply adj_dwrap; exact IHb|reflexivity].
  - apply adj_cons_op; [reflexivity|]. apply adj_mid; [exact IH|reflexivity|reflexivity].
Qed.

Lemma tvars_app : forall l1 l2, tvars (l1 ++ l2) = tvars l1 ++ tvars l2.
Proof.
  induction l1 as [|t l1 IH]; intro l2; [reflexivity|].
  destruct t; cbn [app tvars]; rewrite IH; reflexivity.
Qed.

Lemma tvars_dwrap l a ts : tvars (dwrap l a ts) = tvars ts.
Proof.
  unfold dwrap. destruct (Nat.ltb (alevel a) l); [|reflexivity].
  cbn [tvars]. rewrite tvars_app. cbn [tvars]. apply app_nil_r.
Qed.

Lemma tvars_dtoks : forall a, tvars (dtoks a) = avars a.
Proof.
  induction a as [n|x|a IH|a IH|a IHa b IHb|a IHa b IHb|a IHa b IHb|a IH]; cbn [dtoks avars].
  - reflexivity.
  - reflexivity.
  - cbn [tvars]. rewrite tvars_dwrap. exact IH.
  - cbn [tvars]. rewrite tvars_dwrap. exact IH.
  - rewrite tvars_app. cbn [tvars]. rewrite tvars_dwrap, IHa, IHb. reflexivity.
  - rewrite tvars_app. cbn [tvars]. rewrite tvars_dwrap, IHa, IHb. reflexivity.
  - rewrite tvars_app. cbn [tvars]. rewrite !tvars_dwrap, IHa, IHb. reflexivity.
  - cbn [tvars]. rewrite tvars_app. cbn [tvars]. rewrite app_nil_r. exact IH.
Qed.

(* ---- the text of one token ------------------------------------------------------------------------ *)
Lemma unres_false_plain rho t : unres rho t = false -> Forall plainch (dtext rho t).
Proof.
  destruct t as [n|y| | | | |]; cbn [unres dtext]; intros H.
  - apply plain_N.
  - destruct (rho y) as [z|]; [apply plain_Z|discriminate].
  - constructor; [|constructor]. unfold plainch. tauto.
  - constructor; [|constructor]. unfold plainch. tauto.
  - constructor; [|constructor]. unfold plainch. tauto.
  - constructor; [|constructor]. unfold plainch. tauto.
  - constructor; [|constructor]. unfold plainch. tauto.
Qed.

Lemma unres_true rho t : unres rho t = true -> exists y, t = DVar y /\ rho y = None.
Proof.
  destruct t as [n|y| | | | |]; cbn [unres]; intros H; try discriminate.
  exists y. split; [reflexivity|]. destruct (rho y); [discriminate|reflexivity].
Qed.

Lemma unres_false_known rho t ts :
  unres rho t = false ->
  filter (fun y => negb (is_some (rho y))) (tvars (t :: ts)) = filter (fun y => negb (is_some (rho y))) (tvars ts) /\
  forallb (fun y => is_some (rho y)) (tvars (t :: ts)) = forallb (fun y => is_some (rho y)) (tvars ts).
Proof.
  destruct t as [n|y| | | | |]; cbn [unres tvars]; intros H; try (split; reflexivity).
  cbn [filter forallb]. rewrite H. apply negb_false_iff in H. rewrite H. split; reflexivity.
Qed.

Lemma tvars_cons_word t ts : Forall word_name (tvars (t :: ts)) -> Forall word_name (tvars ts).
Proof.
  destruct t; cbn [tvars]; intros H; try exact H. inversion H; assumption.
Qed.

Lemma adj_tail t ts : adj (t :: ts) = true -> adj ts = true.
Proof. cbn [adj]. intros H. apply andb_true_iff in H. apply H. Qed.

Lemma adj_atom_next t ts : adj (t :: ts) = true -> atom t = true -> hd_atom ts = false.
Proof.
  cbn [adj]. intros H Ha. apply andb_true_iff in H. destruct H as [H _]. rewrite Ha in H.
  cbn [andb] in H. apply negb_true_iff in H. exact H.
Qed.

(* what follows a number or a reference: a blank, an operator, a parenthesis, or nothing *)
Lemma tx_layout_hd g rho i ts : blank_fn g -> hd_atom ts = false -> hd_not is_ref_char (layout g rho i ts).
Proof.
  intros Hg Hh. pose proof (blank_Forall g i Hg) as Hb.
  destruct ts as [|t ts']; cbn [layout].
  - destruct (g i) as [|c r]; [exact I|]. cbn [hd_not]. inversion Hb; subst. apply blank_not_ref. assumption.
  - destruct (g i) as [|c r].
    + cbn [app]. destruct t; cbn [hd_atom atom] in Hh; try discriminate; cbn [dtext app hd_not]; reflexivity.
    + cbn [app hd_not]. inversion Hb; subst. apply blank_not_ref. assumption.
Qed.

(* the text depends on the environment only through the references that occur *)
Lemma layout_ext g rho rho' : forall ts i,
  (forall y, In y (tvars ts) -> rho y = rho' y) -> layout g rho i ts = layout g rho' i ts.
Proof.
  induction ts as [|t ts IH]; intros i H; [reflexivity|].
  cbn [layout]. f_equal. f_equal.
  - destruct t; try reflexivity. cbn [dtext]. rewrite (H x); [reflexivity|]. cbn [tvars]. left. reflexivity.
  - apply IH. intros y Hy. apply H. destruct t; cbn [tvars]; try exact Hy. right. exact Hy.
Qed.

Lemma render_ext rho rho' g a :
  (forall y, In y (avars a) -> rho y = rho' y) -> render_in rho g a = render_in rho' g a.
Proof. intros H. unfold render_in. apply layout_ext. rewrite tvars_dtoks. exact H. Qed.

(* ================================================================================================ *)
(* T6                                                                                               *)
(* ================================================================================================ *)
Lemma ffb_words : forall y, Forall (fun c => is_word c = true) y -> from_first_bracket y = None.
Proof.
  induction y as [|c y IH]; intros H; [reflexivity|]. inversion H as [|? ? Hc Hy]; subst.
  cbn [from_first_bracket].
  assert (E : (c =? c_lbrk) = false) by (unfold is_word in Hc; chars).
  rewrite E. cbn [andb]. rewrite (IH Hy). reflexivity.
Qed.

Lemma ref_of_parts : forall y, word_name y -> ref_name (ref_of y) = y /\ ref_indexing (ref_of y) = [].
Proof.
  intros y [Hne Hw]. split.
  - unfold ref_name, ref_of. rewrite N.eqb_refl. rewrite (ffb_words y Hw). reflexivity.
  - unfold ref_indexing, ref_of. cbn [rev].
    match goal with |- context [rev ?z ++ _] => destruct (rev z) as [|c t] eqn:Er end.
    + exfalso. apply Hne. apply rev_nil_inv. exact Er.
    + cbn [app].
      assert (Hc : is_word c = true).
      { rewrite Forall_forall in Hw. apply Hw. apply (proj2 (in_rev y c)). rewrite Er. left. reflexivity. }
      assert (E : (c =? c_rbrk) = false) by (unfold is_word in Hc; chars).
      rewrite E. reflexivity.
Qed.

(* ================================================================================================ *)
(* subst_token                                                                                      *)
(* ================================================================================================ *)
Lemma subst_token_S f r v c e' :
  subst_token (S f) r v (c :: e') =
  if starts_with r (c :: e') &&
     negb (match drop_n (length r) (c :: e') with d :: _ => is_word d || (d =? c_lbrk) | [] => false end)
  then v ++ subst_token f r v (drop_n (length r) (c :: e'))
  else c :: subst_token f r v e'.
Proof. reflexivity. Qed.

Lemma drop_n_len {A} : forall n (l : list A), (length (drop_n n l) <= length l)%nat.
Proof.
  induction n as [|n IH]; intros [|a l]; cbn [drop_n length]; try lia. specialize (IH l). lia.
Qed.

(* any fuel above the length of the text gives the same result *)
Lemma subst_fuel : forall r val, r <> [] -> forall f1 f2 e, (length e < f1)%nat -> (length e < f2)%nat ->
  subst_token f1 r val e = subst_token f2 r val e.
Proof.
  intros r val Hr. induction f1 as [|f1 IH]; intros f2 e H1 H2; [lia|].
  destruct f2 as [|f2]; [lia|]. destruct e as [|c e']; [reflexivity|].
  rewrite !subst_token_S. cbn [length] in H1, H2.
  match goal with |- (if ?b then _ else _) = _ => destruct b end.
  - f_equal. destruct r as [|x r']; [contradiction|]. cbn [length drop_n].
    pose proof (drop_n_len (length r') e') as Hl. apply IH; lia.
  - f_equal. apply IH; lia.
Qed.

Definition sub (r val e : str) : str := subst_token (S (length e)) r val e.

Lemma sub_eq r val e fuel : r <> [] -> (length e < fuel)%nat -> subst_token fuel r val e = sub r val e.
Proof. intros Hr Hl. unfold sub. apply subst_fuel; [exact Hr|exact Hl|lia]. Qed.

Lemma sub_nil r val : sub r val [] = [].
Proof. reflexivity. Qed.

Lemma sub_skip x val c e : (c_dollar =? c) = false -> sub (c_dollar :: x) val (c :: e) = c :: sub (c_dollar :: x) val e.
Proof.
  intros Hc. unfold sub at 1. cbn [length]. rewrite subst_token_S. cbn [starts_with]. rewrite Hc. cbn [andb].
  reflexivity.
Qed.

Lemma sub_nodollar_app x val : forall p e, nodollar p ->
  sub (c_dollar :: x) val (p ++ e) = p ++ sub (c_dollar :: x) val e.
Proof.
  induction p as [|c p IH]; intros e Hp; [reflexivity|]. inversion Hp as [|? ? Hc Hp']; subst.
  cbn [app]. rewrite (sub_skip x val c (p ++ e) Hc). rewrite (IH e Hp'). reflexivity.
Qed.

Lemma sub_nodollar x val p : nodollar p -> sub (c_dollar :: x) val p = p.
Proof.
  intros Hp. rewrite <- (app_nil_r p) at 1. rewrite (sub_nodollar_app x val p [] Hp), sub_nil. apply app_nil_r.
Qed.

Lemma sub_hit x val post : word_name x -> hd_not is_ref_char post ->
  sub (ref_of x) val (ref_of x ++ post) = val ++ sub (ref_of x) val post.
Proof.
  intros Hx Hp. unfold sub at 1.
  rewrite (subst_whole_token x val post (S (length (ref_of x ++ post))) Hx).
  - f_equal. apply sub_eq; [unfold ref_of; discriminate|].
    rewrite app_length. unfold ref_of. cbn [length]. lia.
  - destruct post as [|c p]; [exact I|]. cbn [hd_not] in Hp. apply not_ref_not_word. exact Hp.
  - lia.
Qed.

(* at another reference: either the name does not match, or it goes on with a word character *)
Lemma miss_cond : forall x y post,
  Forall (fun c => is_word c = true) x -> Forall (fun c => is_word c = true) y -> y <> x ->
  hd_not is_ref_char post ->
  starts_with x (y ++ post) &&
  negb (match drop_n (length x) (y ++ post) with d :: _ => is_word d || (d =? c_lbrk) | [] => false end) = false.
Proof.
  induction x as [|a x IH]; intros y post Hx Hy Hne Hp.
  - destruct y as [|d y']; [contradiction|]. inversion Hy as [|? ? Hd _]; subst.
    cbn [starts_with length drop_n app]. rewrite Hd. reflexivity.
  - inversion Hx as [|? ? Ha Hx']; subst.
    destruct y as [|b y'].
    + cbn [app]. destruct post as [|c p]; [reflexivity|]. cbn [starts_with].
      destruct (a =? c) eqn:E; [|reflexivity]. apply N.eqb_eq in E. subst c.
      cbn [hd_not] in Hp. apply not_ref_not_word in Hp. destruct Hp as [Hp _]. congruence.
    + inversion Hy as [|? ? Hb Hy']; subst. cbn [app starts_with length drop_n].
      destruct (a =? b) eqn:E; [|reflexivity]. apply N.eqb_eq in E. subst b. cbn [andb].
      apply IH; try assumption. intros E. apply Hne. rewrite E. reflexivity.
Qed.

Lemma sub_miss x y val post : word_name x -> word_name y -> y <> x -> hd_not is_ref_char post ->
  sub (ref_of x) val (ref_of y ++ post) = ref_of y ++ sub (ref_of x) val post.
Proof.
  intros [_ Hx] [_ Hy] Hne Hp. unfold ref_of. cbn [app]. unfold sub at 1. cbn [length].
  rewrite subst_token_S. cbn [starts_with length drop_n]. rewrite N.eqb_refl. cbn [andb].
  match goal with |- (if ?b then _ else _) = _ =>
    assert (Hb : b = false) by (apply miss_cond; assumption); rewrite Hb end.
  f_equal. rewrite sub_eq; [|discriminate|lia].
  apply sub_nodollar_app. apply words_nodollar. exact Hy.
Qed.

(* ================================================================================================ *)
(* T2 : substitution = update of the environment                                                    *)
(* ================================================================================================ *)
Definition upd (rho : str -> option Z) (x : str) (v : Z) : str -> option Z :=
  fun y => if str_eqb y x then Some v else rho y.
(* the same, but a reference that already has a value keeps it *)
Definition updN (rho : str -> option Z) (x : str) (v : Z) : str -> option Z :=
  fun y => if str_eqb y x then (match rho y with Some w => Some w | None => Some v end) else rho y.

Lemma updN_same rho x v : rho x = None -> updN rho x v x = Some v.
Proof. intros H. unfold updN. rewrite str_eqb_refl, H. reflexivity. Qed.

Lemma updN_other rho x v y : str_eqb y x = false -> updN rho x v y = rho y.
Proof. intros H. unfold updN. rewrite H. reflexivity. Qed.

Lemma dtext_updN rho x v t : unres rho t = false -> dtext (updN rho x v) t = dtext rho t.
Proof.
  destruct t as [n|y| | | | |]; cbn [unres dtext]; intros H; try reflexivity.
  unfold updN. destruct (rho y) as [w|]; [|discriminate]. destruct (str_eqb y x); reflexivity.
Qed.

Lemma sub_layout g rho x v : blank_fn g -> word_name x -> forall ts i,
  adj ts = true -> Forall word_name (tvars ts) ->
  sub (ref_of x) (Z_to_dec v) (layout g rho i ts) = layout g (updN rho x v) i ts.
Proof.
  intros Hg Hx. induction ts as [|t ts IH]; intros i Ha Hw.
  - cbn [layout]. unfold ref_of. apply sub_nodollar. apply plain_nodollar. apply plain_blank. exact Hg.
  - cbn [layout]. pose proof (plain_nodollar _ (plain_blank g i Hg)) as Hgi.
    unfold ref_of at 1. rewrite (sub_nodollar_app x (Z_to_dec v) (g i) _ Hgi). f_equal.
    change (c_dollar :: x) with (ref_of x).
    specialize (IH (S i) (adj_tail _ _ Ha) (tvars_cons_word _ _ Hw)).
    destruct (unres rho t) eqn:Hu.
    + destruct (unres_true rho t Hu) as (y & -> & Hy).
      assert (Hpost : hd_not is_ref_char (layout g rho (S i) ts)).
      { apply tx_layout_hd; [exact Hg|]. apply (adj_atom_next _ _ Ha). reflexivity. }
      assert (Hwy : word_name y) by (cbn [tvars] in Hw; inversion Hw; assumption).
      cbn [dtext]. rewrite Hy. change (c_dollar :: y) with (ref_of y).
      destruct (str_eqb y x) eqn:E.
      * apply str_eqb_eq in E. subst y. rewrite (sub_hit x (Z_to_dec v) _ Hx Hpost). rewrite IH.
        rewrite (updN_same rho x v Hy). reflexivity.
      * assert (Hne : y <> x) by (apply str_eqb_neq; exact E).
        rewrite (sub_miss x y (Z_to_dec v) _ Hx Hwy Hne Hpost). rewrite IH.
        rewrite (updN_other rho x v y E), Hy. reflexivity.
    + rewrite (dtext_updN rho x v t Hu).
      pose proof (plain_nodollar _ (unres_false_plain rho t Hu)) as Hd.
      unfold ref_of at 1. rewrite (sub_nodollar_app x (Z_to_dec v) _ _ Hd). f_equal. exact IH.
Qed.

Lemma subst_render_gen : forall rho g a x v fuel, blank_fn g -> Forall word_name (avars a) -> word_name x ->
  (length (render_in rho g a) < fuel)%nat ->
  subst_token fuel (ref_of x) (Z_to_dec v) (render_in rho g a) = render_in (updN rho x v) g a.
Proof.
  intros rho g a x v fuel Hg Ha Hx Hl.
  rewrite sub_eq; [|unfold ref_of; discriminate|exact Hl].
  unfold render_in. apply sub_layout; [exact Hg|exact Hx|apply tx_adj_dtoks|rewrite tvars_dtoks; exact Ha].
Qed.

Lemma subst_render : forall rho g a x v fuel, blank_fn g -> Forall word_name (avars a) -> word_name x -> rho x = None ->
  (length (render_in rho g a) < fuel)%nat ->
  subst_token fuel (ref_of x) (Z_to_dec v) (render_in rho g a) = render_in (upd rho x v) g a.
Proof.
  intros rho g a x v fuel Hg Ha Hx Hr Hl. rewrite (subst_render_gen rho g a x v fuel Hg Ha Hx Hl).
  apply render_ext. intros y _. unfold updN, upd. destruct (str_eqb y x) eqn:E; [|reflexivity].
  apply str_eqb_eq in E. subst y. rewrite Hr. reflexivity.
Qed.

(* a reference that has a value already does not occur in the text *)
Lemma subst_render_known : forall rho g a x v w fuel, blank_fn g -> Forall word_name (avars a) -> word_name x ->
  rho x = Some w -> (length (render_in rho g a) < fuel)%nat ->
  subst_token fuel (ref_of x) (Z_to_dec v) (render_in rho g a) = render_in rho g a.
Proof.
  intros rho g a x v w fuel Hg Ha Hx Hr Hl. rewrite (subst_render_gen rho g a x v fuel Hg Ha Hx Hl).
  apply render_ext. intros y _. unfold updN. destruct (str_eqb y x) eqn:E; [|reflexivity].
  apply str_eqb_eq in E. subst y. rewrite Hr. reflexivity.
Qed.

(* ================================================================================================ *)
(* T1 : the references found in the text                                                            *)
(* ================================================================================================ *)
Lemma find_reference_eq acc d w r :
  find_reference acc (d :: w :: r) =
  if (d =? c_dollar) && is_word w
  then let (tl, rest) := span is_ref_char r in Some (rev acc, d :: w :: tl, rest)
  else find_reference (d :: acc) (w :: r).
Proof. reflexivity. Qed.

Lemma find_reference_acc : forall s acc,
  find_reference acc s =
  match find_reference [] s with
  | Some (b, r, a) => Some (rev acc ++ b, r, a)
  | None => None
  end.
Proof.
  induction s as [|d s IH]; intro acc; [reflexivity|].
  destruct s as [|w r]; [reflexivity|].
  rewrite !find_reference_eq.
  destruct ((d =? c_dollar) && is_word w).
  - destruct (span is_ref_char r) as [tl rest]. cbn [rev]. rewrite app_nil_r. reflexivity.
  - rewrite (IH (d :: acc)), (IH [d]).
    destruct (find_reference [] (w :: r)) as [[[b r'] a]|]; [|reflexivity].
    cbn [rev app]. rewrite <- app_assoc. reflexivity.
Qed.

(* the first reference and what follows it *)
Definition fr (s : str) : option (str * str) :=
  match find_reference [] s with Some (_, r, a) => Some (r, a) | None => None end.

Lemma find_refs_S f s :
  find_refs (S f) s = match fr s with Some (r, a) => r :: find_refs f a | None => [] end.
Proof. unfold fr. cbn [find_refs]. destruct (find_reference [] s) as [[[b r] a]|]; reflexivity. Qed.

Lemma fr_skip c s : (c_dollar =? c) = false -> fr (c :: s) = fr s.
Proof.
  intros Hc. unfold fr. destruct s as [|w r]; [reflexivity|].
  rewrite find_reference_eq. rewrite N.eqb_sym in Hc. rewrite Hc. cbn [andb].
  rewrite (find_reference_acc (w :: r) [c]).
  destruct (find_reference [] (w :: r)) as [[[b r'] a]|]; reflexivity.
Qed.

Lemma fr_nodollar_app : forall p s, nodollar p -> fr (p ++ s) = fr s.
Proof.
  induction p as [|c p IH]; intros s Hp; [reflexivity|]. inversion Hp as [|? ? Hc Hp']; subst.
  cbn [app]. rewrite (fr_skip c (p ++ s) Hc). apply IH. exact Hp'.
Qed.

Lemma fr_hit y post : word_name y -> hd_not is_ref_char post -> fr (ref_of y ++ post) = Some (ref_of y, post).
Proof.
  intros [Hne Hw] Hp. destruct y as [|w y']; [contradiction|]. inversion Hw as [|? ? Hw1 Hw2]; subst.
  unfold fr, ref_of. cbn [app]. rewrite find_reference_eq. rewrite N.eqb_refl, Hw1. cbn [andb].
  assert (Hs : span is_ref_char (y' ++ post) = (y', post)).
  { apply span_app; [|exact Hp]. eapply Forall_impl; [|exact Hw2]. intros c Hc. apply word_ref_char. exact Hc. }
  rewrite Hs. reflexivity.
Qed.

Lemma find_refs_nodollar_app fuel p s : nodollar p -> find_refs fuel (p ++ s) = find_refs fuel s.
Proof.
  intros Hp. destruct fuel as [|f]; [reflexivity|]. rewrite !find_refs_S. rewrite (fr_nodollar_app p s Hp). reflexivity.
Qed.

Lemma find_refs_nodollar fuel p : nodollar p -> find_refs fuel p = [].
Proof.
  intros Hp. rewrite <- (app_nil_r p). rewrite (find_refs_nodollar_app fuel p [] Hp).
  destruct fuel; reflexivity.
Qed.

Definition unknown (rho : str -> option Z) : str -> bool := fun y => negb (is_some (rho y)).

Lemma refs_layout g rho : blank_fn g -> forall ts i fuel,
  adj ts = true -> Forall word_name (tvars ts) -> (length (layout g rho i ts) < fuel)%nat ->
  find_refs fuel (layout g rho i ts) = map ref_of (filter (unknown rho) (tvars ts)).
Proof.
  intros Hg. induction ts as [|t ts IH]; intros i fuel Ha Hw Hl.
  - cbn [layout tvars filter map]. apply find_refs_nodollar. apply plain_nodollar. apply plain_blank. exact Hg.
  - cbn [layout] in *. pose proof (plain_nodollar _ (plain_blank g i Hg)) as Hgi.
    rewrite (find_refs_nodollar_app fuel (g i) _ Hgi).
    rewrite !app_length in Hl.
    pose proof (adj_tail _ _ Ha) as Ha'. pose proof (tvars_cons_word _ _ Hw) as Hw'.
    destruct (unres rho t) eqn:Hu.
    + destruct (unres_true rho t Hu) as (y & -> & Hy).
      assert (Hpost : hd_not is_ref_char (layout g rho (S i) ts)).
      { apply tx_layout_hd; [exact Hg|]. apply (adj_atom_next _ _ Ha). reflexivity. }
      assert (Hwy : word_name y) by (cbn [tvars] in Hw; inversion Hw; assumption).
      cbn [dtext] in *. rewrite Hy in *. change (c_dollar :: y) with (ref_of y).
      destruct fuel as [|f]; [lia|]. rewrite find_refs_S. rewrite (fr_hit y _ Hwy Hpost).
      cbn [tvars filter]. unfold unknown at 1. rewrite Hy. cbn [is_some negb map]. f_equal.
      apply IH; [exact Ha'|exact Hw'|]. cbn [length] in Hl. lia.
    + pose proof (plain_nodollar _ (unres_false_plain rho t Hu)) as Hd.
      rewrite (find_refs_nodollar_app fuel _ _ Hd).
      destruct (unres_false_known rho t ts Hu) as [Hf _]. unfold unknown. rewrite Hf.
      apply IH; [exact Ha'|exact Hw'|lia].
Qed.

Lemma refs_render : forall rho g a, blank_fn g -> Forall word_name (avars a) ->
  expr_refs_of (render_in rho g a) = map ref_of (filter (fun y => negb (is_some (rho y))) (avars a)).
Proof.
  intros rho g a Hg Ha. unfold expr_refs_of, render_in.
  rewrite (refs_layout g rho Hg (dtoks a) 0%nat); [|apply tx_adj_dtoks|rewrite tvars_dtoks; exact Ha|lia].
  rewrite tvars_dtoks. reflexivity.
Qed.

(* ================================================================================================ *)
(* T4 : a dollar is left exactly when some reference has no value                                   *)
(* ================================================================================================ *)
Lemma tx_has_char_app c a b : has_char c (a ++ b) = has_char c a || has_char c b.
Proof. unfold has_char. apply existsb_app. Qed.

Lemma has_dollar_nodollar p : nodollar p -> has_char c_dollar p = false.
Proof.
  intros Hp. induction Hp as [|c p Hc Hp IH]; [reflexivity|].
  unfold has_char in *. cbn [existsb]. rewrite Hc, IH. reflexivity.
Qed.

Lemma dollar_layout g rho : blank_fn g -> forall ts i,
  has_char c_dollar (layout g rho i ts) = negb (forallb (fun y => is_some (rho y)) (tvars ts)).
Proof.
  intros Hg. induction ts as [|t ts IH]; intro i.
  - cbn [layout tvars forallb negb]. apply has_dollar_nodollar. apply plain_nodollar. apply plain_blank. exact Hg.
  - cbn [layout]. rewrite !tx_has_char_app.
    rewrite (has_dollar_nodollar (g i) (plain_nodollar _ (plain_blank g i Hg))). cbn [orb].
    destruct (unres rho t) eqn:Hu.
    + destruct (unres_true rho t Hu) as (y & -> & Hy).
      cbn [dtext tvars forallb]. rewrite Hy. cbn [is_some andb negb].
      unfold has_char at 1. cbn [existsb]. rewrite N.eqb_refl. reflexivity.
    + rewrite (has_dollar_nodollar _ (plain_nodollar _ (unres_false_plain rho t Hu))). cbn [orb].
      destruct (unres_false_known rho t ts Hu) as [_ Hf]. rewrite Hf. apply IH.
Qed.

Lemma dollar_render : forall rho g a, blank_fn g -> Forall word_name (avars a) ->
  has_char c_dollar (render_in rho g a) = negb (known_all rho a).
Proof.
  intros rho g a Hg _. unfold render_in, known_all. rewrite (dollar_layout g rho Hg). rewrite tvars_dtoks. reflexivity.
Qed.

(* ================================================================================================ *)
(* T3 : the substitution pass                                                                       *)
(* ================================================================================================ *)
Definition join_env (rho r : str -> option Z) : str -> option Z :=
  fun y => match rho y with Some v => Some v | None => r y end.

(* one step of the pass, on environments *)
Definition env_step (r : str -> option Z) (rho : str -> option Z) (y : str) : str -> option Z :=
  match r y with Some v => updN rho y v | None => rho end.

Lemma env_fold_val r : forall l rho z,
  fold_left (env_step r) l rho z =
  match rho z with
  | Some w => Some w
  | None => if existsb (str_eqb z) l then r z else None
  end.
Proof.
  induction l as [|y l IH]; intros rho z.
  - cbn [fold_left existsb]. destruct (rho z); reflexivity.
  - cbn [fold_left existsb]. rewrite IH. unfold env_step.
    destruct (str_eqb z y) eqn:E.
    + apply str_eqb_eq in E. subst z. cbn [orb].
      destruct (r y) as [v|] eqn:Hr.
      * unfold updN. rewrite str_eqb_refl. destruct (rho y); reflexivity.
      * destruct (rho y); [reflexivity|]. destruct (existsb (str_eqb y) l); reflexivity.
    + cbn [orb]. destruct (r y) as [v|]; [|reflexivity].
      rewrite (updN_other rho y v z E). reflexivity.
Qed.

Lemma subst_fold res r g a : blank_fn g -> Forall word_name (avars a) -> forall l rho,
  Forall word_name l ->
  (forall y, In y l -> rlookup (ref_of y) res = option_map (fun v => Leaf (SInt v)) (r y)) ->
  fold_left (fun acc q =>
               match rlookup q res with
               | Some t => subst_token (S (length acc)) q (py_str_tree t) acc
               | None => acc
               end) (map ref_of l) (render_in rho g a)
  = render_in (fold_left (env_step r) l rho) g a.
Proof.
  intros Hg Ha. induction l as [|y l IH]; intros rho Hl Hres; [reflexivity|].
  inversion Hl as [|? ? Hy Hl']; subst.
  cbn [map fold_left]. rewrite (Hres y (or_introl eq_refl)).
  assert (Hres' : forall z, In z l -> rlookup (ref_of z) res = option_map (fun v => Leaf (SInt v)) (r z)).
  { intros z Hz. apply Hres. right. exact Hz. }
  unfold env_step at 2. destruct (r y) as [v|]; cbn [option_map].
  - change (py_str_tree (Leaf (SInt v))) with (Z_to_dec v).
    rewrite (subst_render_gen rho g a y v _ Hg Ha Hy); [|lia].
    apply IH; assumption.
  - apply IH; assumption.
Qed.

Lemma substitute_render : forall res rho r g a, blank_fn g -> Forall word_name (avars a) ->
  (forall y, In y (avars a) -> rho y = None -> rlookup (ref_of y) res = option_map (fun v => Leaf (SInt v)) (r y)) ->
  substitute res (render_in rho g a) = render_in (join_env rho r) g a.
Proof.
  intros res rho r g a Hg Ha Hres. unfold substitute. rewrite (refs_render rho g a Hg Ha).
  set (l := filter (fun y => negb (is_some (rho y))) (avars a)).
  assert (Hin : forall y, In y l -> In y (avars a) /\ rho y = None).
  { intros y Hy. apply filter_In in Hy. destruct Hy as [Hy1 Hy2]. split; [exact Hy1|].
    destruct (rho y); [discriminate|reflexivity]. }
  rewrite (subst_fold res r g a Hg Ha l rho).
  - apply render_ext. intros z Hz. rewrite env_fold_val. unfold join_env.
    destruct (rho z) as [w|] eqn:Hr; [reflexivity|].
    assert (Hz' : In z l).
    { apply filter_In. split; [exact Hz|]. rewrite Hr. reflexivity. }
    assert (He : existsb (str_eqb z) l = true).
    { apply existsb_exists. exists z. split; [exact Hz'|apply str_eqb_refl]. }
    rewrite He. reflexivity.
  - apply Forall_forall. intros y Hy. rewrite Forall_forall in Ha. apply Ha. apply (Hin y Hy).
  - intros y Hy. destruct (Hin y Hy) as [H1 H2]. apply Hres; assumption.
Qed.

(* ================================================================================================ *)
(* T5 : the text of a compound expression is not a plain reference                                  *)
(* ================================================================================================ *)
Lemma plain_ref_shape s : is_plain_reference s = true ->
  exists w tl, s = c_dollar :: w :: tl /\ is_word w = true /\ Forall (fun c => is_ref_char c = true) tl.
Proof.
  unfold is_plain_reference. destruct s as [|d [|w r]]; try (cbn [find_reference]; discriminate).
  rewrite find_reference_eq. destruct ((d =? c_dollar) && is_word w) eqn:E.
  - destruct (span is_ref_char r) as [tl rest] eqn:Hs. cbn [rev]. intros H.
    destruct rest as [|c rest']; [|discriminate].
    destruct (span_spec is_ref_char r tl [] Hs) as (Er & Ft & _).
    apply andb_true_iff in E. destruct E as [E1 E2]. apply N.eqb_eq in E1. subst d.
    exists w, tl. rewrite Er, app_nil_r. repeat split; assumption.
  - rewrite (find_reference_acc (w :: r) [d]).
    destruct (find_reference [] (w :: r)) as [[[b r'] a]|]; [|discriminate].
    cbn [rev app]. discriminate.
Qed.

Lemma plain_ref_chars s : is_plain_reference s = true -> forall c, In c s -> c = c_dollar \/ is_ref_char c = true.
Proof.
  intros H c Hc. destruct (plain_ref_shape s H) as (w & tl & -> & Hw & Ht).
  destruct Hc as [Hc|[Hc|Hc]].
  - left. symmetry. exact Hc.
  - right. subst c. apply word_ref_char. exact Hw.
  - right. rewrite Forall_forall in Ht. apply Ht. exact Hc.
Qed.

Lemma not_plain_op s c : In c s -> opch c -> is_plain_reference s = false.
Proof.
  intros Hc Ho. destruct (is_plain_reference s) eqn:E; [|reflexivity]. exfalso.
  destruct (opch_not_ref c Ho) as [H1 H2].
  destruct (plain_ref_chars s E c Hc) as [H|H]; [contradiction|congruence].
Qed.

Lemma not_plain_nodollar s : ~ In c_dollar s -> is_plain_reference s = false.
Proof.
  intros Hn. destruct (is_plain_reference s) eqn:E; [|reflexivity]. exfalso.
  destruct (plain_ref_shape s E) as (w & tl & -> & _). apply Hn. left. reflexivity.
Qed.

Lemma lstrip_in c : forall s, In c (lstrip s) -> In c s.
Proof.
  induction s as [|a s IH]; cbn [lstrip]; intros H; [exact H|].
  destruct (is_space a); [right; apply IH; exact H|exact H].
Qed.

Lemma lstrip_keep c : forall s, In c s -> is_space c = false -> In c (lstrip s).
Proof.
  induction s as [|a s IH]; intros H Hc; [contradiction|]. cbn [lstrip].
  destruct H as [H|H].
  - subst a. rewrite Hc. left. reflexivity.
  - destruct (is_space a); [apply IH; assumption|right; exact H].
Qed.

Lemma strip_in c s : In c (strip s) -> In c s.
Proof.
  unfold strip, rstrip. intros H. apply (proj2 (in_rev _ c)) in H. apply lstrip_in in H.
  apply (proj2 (in_rev _ c)) in H. apply lstrip_in in H. exact H.
Qed.

Lemma strip_keep c s : In c s -> is_space c = false -> In c (strip s).
Proof.
  unfold strip, rstrip. intros H Hc. apply (proj1 (in_rev _ c)). apply lstrip_keep; [|exact Hc].
  apply (proj1 (in_rev _ c)). apply lstrip_keep; assumption.
Qed.

Lemma dtext_op rho t : atom t = false -> exists c, dtext rho t = [c] /\ opch c.
Proof.
  destruct t; cbn [atom dtext]; intros H; try discriminate.
  - exists c_plus. split; [reflexivity|]. unfold opch. tauto.
  - exists c_minus. split; [reflexivity|]. unfold opch. tauto.
  - exists c_star. split; [reflexivity|]. unfold opch. tauto.
  - exists c_lpar. split; [reflexivity|]. unfold opch. tauto.
  - exists c_rpar. split; [reflexivity|]. unfold opch. tauto.
Qed.

Lemma layout_in_op g rho t : atom t = false -> forall ts i, In t ts ->
  exists c, In c (layout g rho i ts) /\ opch c.
Proof.
  intros Ht. induction ts as [|t' ts IH]; intros i Hin; [contradiction|].
  cbn [layout]. destruct Hin as [Hin|Hin].
  - subst t'. destruct (dtext_op rho t Ht) as (c & Ec & Hc). exists c. split; [|exact Hc].
    apply in_or_app. right. apply in_or_app. left. rewrite Ec. left. reflexivity.
  - destruct (IH (S i) Hin) as (c & Hc1 & Hc2). exists c. split; [|exact Hc2].
    apply in_or_app. right. apply in_or_app. right. exact Hc1.
Qed.

Lemma dtoks_shape a :
  (exists n, a = ANum n) \/ (exists x, a = AVar x) \/ (exists t, In t (dtoks a) /\ atom t = false).
Proof.
  destruct a as [n|x|a|a|a b|a b|a b|a]; cbn [dtoks].
  - left. exists n. reflexivity.
  - right. left. exists x. reflexivity.
  - right. right. exists DMinus. split; [left; reflexivity|reflexivity].
  - right. right. exists DPlus. split; [left; reflexivity|reflexivity].
  - right. right. exists DPlus. split; [apply in_elt|reflexivity].
  - right. right. exists DMinus. split; [apply in_elt|reflexivity].
  - right. right. exists DStar. split; [apply in_elt|reflexivity].
  - right. right. exists DLp. split; [left; reflexivity|reflexivity].
Qed.

Lemma plain_no_dollar s : Forall plainch s -> ~ In c_dollar s.
Proof.
  intros H Hin. rewrite Forall_forall in H. apply H in Hin. apply plainch_nodollar in Hin.
  rewrite N.eqb_refl in Hin. discriminate.
Qed.

Lemma render_not_plain : forall rho g a, blank_fn g -> Forall word_name (avars a) -> (forall x, a <> AVar x) ->
  is_plain_reference (strip (render_in rho g a)) = false /\ is_plain_reference (render_in rho g a) = false.
Proof.
  intros rho g a Hg _ Hv. destruct (dtoks_shape a) as [[n ->]|[[x ->]|(t & Hin & Ht)]].
  - assert (Hp : ~ In c_dollar (render_in rho g (ANum n))).
    { apply plain_no_dollar. unfold render_in. cbn [dtoks layout dtext].
      apply Forall_app. split; [apply plain_blank; exact Hg|].
      apply Forall_app. split; [apply plain_N|apply plain_blank; exact Hg]. }
    split; apply not_plain_nodollar; [|exact Hp]. intros H. apply Hp. apply strip_in. exact H.
  - exfalso. apply (Hv x). reflexivity.
  - destruct (layout_in_op g rho t Ht (dtoks a) 0%nat Hin) as (c & Hc & Ho).
    fold (render_in rho g a) in Hc. split.
    + apply (not_plain_op _ c); [|exact Ho]. apply strip_keep; [exact Hc|]. apply opch_not_space. exact Ho.
    + apply (not_plain_op _ c); assumption.
Qed.

(* ================================================================================================ *)
(* T7 : no expression placeholder in the text                                                       *)
(* ================================================================================================ *)
Lemma starts_with_app_l : forall p q s, starts_with (p ++ q) s = true -> starts_with p s = true.
Proof.
  induction p as [|x p IH]; intros q s H; [reflexivity|].
  destruct s as [|y s]; cbn [app starts_with] in *; [discriminate|].
  apply andb_true_iff in H. destruct H as [H1 H2]. rewrite H1. cbn [andb]. apply (IH q s H2).
Qed.

Lemma contains_app_l p q : forall s, contains p s = false -> contains (p ++ q) s = false.
Proof.
  induction s as [|c s IH]; intros H.
  - cbn [contains] in *. destruct p as [|x p]; [discriminate|reflexivity].
  - cbn [contains] in *. apply orb_false_iff in H. destruct H as [H1 H2].
    rewrite (IH H2), orb_false_r.
    destruct (starts_with (p ++ q) (c :: s)) eqn:E; [|reflexivity].
    apply starts_with_app_l in E. congruence.
Qed.

Section Upper.
  Variable p : str.
  Hypothesis Hup : Forall (fun c => is_upper c = true) p.
  Hypothesis Hne : p <> [].

  Lemma sw_nonupper (c : N) (s : list N) : is_upper c = false -> starts_with p (c :: s) = false.
  Proof.
    intros Hc. destruct p as [|u p']; [contradiction|]. inversion Hup as [|? ? Hu _]; subst.
    cbn [starts_with]. assert (E : (u =? c) = false).
    { apply N.eqb_neq. intros ->. congruence. }
    rewrite E. reflexivity.
  Qed.

  Lemma contains_nil : contains p (@nil N) = false.
  Proof. destruct p; [contradiction|reflexivity]. Qed.

  Lemma contains_nonupper_app : forall (q s : list N), Forall (fun c => is_upper c = false) q -> contains p (q ++ s) = contains p s.
  Proof.
    induction q as [|c q IH]; intros s Hq; [reflexivity|]. inversion Hq as [|? ? Hc Hq']; subst.
    cbn [app contains]. rewrite (sw_nonupper c (q ++ s) Hc). cbn [orb]. apply IH. exact Hq'.
  Qed.

  Lemma contains_nonupper (q : list N) : Forall (fun c => is_upper c = false) q -> contains p q = false.
  Proof. intros Hq. rewrite <- (app_nil_r q). rewrite (contains_nonupper_app q [] Hq). apply contains_nil. Qed.

  Lemma sw_split : forall (p0 : str), Forall (fun c => is_upper c = true) p0 -> forall (a : list N) (c : N) (b : list N),
    is_upper c = false -> starts_with p0 (a ++ c :: b) = starts_with p0 a.
  Proof.
    induction p0 as [|u p0 IH]; intros Hp0 a c b Hc; [reflexivity|]. inversion Hp0 as [|? ? Hu Hp0']; subst.
    destruct a as [|x a]; cbn [app starts_with].
    - assert (E : (u =? c) = false) by (apply N.eqb_neq; intros ->; congruence).
      rewrite E. reflexivity.
    - rewrite (IH Hp0' a c b Hc). reflexivity.
  Qed.

  (* a match of an all upper-case pattern does not straddle another character *)
  Lemma contains_split : forall (a : list N) (c : N) (b : list N), is_upper c = false ->
    contains p (a ++ c :: b) = contains p a || contains p b.
  Proof.
    induction a as [|x a IH]; intros c b Hc.
    - cbn [app]. rewrite contains_nil. cbn [contains]. rewrite (sw_nonupper c b Hc). reflexivity.
    - cbn [app contains]. change (x :: a ++ c :: b) with ((x :: a) ++ c :: b).
      rewrite (sw_split p Hup (x :: a) c b Hc). rewrite (IH c b Hc). apply orb_assoc.
  Qed.
End Upper.

Lemma tvars_cons_Forall (P : str -> Prop) t ts : Forall P (tvars (t :: ts)) -> Forall P (tvars ts).
Proof.
  destruct t; cbn [tvars]; intros H; try exact H. inversion H; assumption.
Qed.

Lemma plain_not_upper s : Forall plainch s -> Forall (fun c => is_upper c = false) s.
Proof. intros H. eapply Forall_impl; [|exact H]. intros c Hc. apply plainch_not_upper. exact Hc. Qed.

Lemma noexpr_layout g rho p : blank_fn g -> Forall (fun c => is_upper c = true) p -> p <> [] ->
  forall ts i, adj ts = true -> Forall (fun y => contains p y = false) (tvars ts) ->
  contains p (layout g rho i ts) = false.
Proof.
  intros Hg Hup Hne. induction ts as [|t ts IH]; intros i Ha Hc.
  - cbn [layout]. apply (contains_nonupper p Hup Hne). apply plain_not_upper. apply plain_blank. exact Hg.
  - cbn [layout].
    rewrite (contains_nonupper_app p Hup Hne (g i) _ (plain_not_upper _ (plain_blank g i Hg))).
    specialize (IH (S i) (adj_tail _ _ Ha) (tvars_cons_Forall _ _ _ Hc)).
    destruct (unres rho t) eqn:Hu.
    + destruct (unres_true rho t Hu) as (y & -> & Hy).
      assert (Hpost : hd_not is_ref_char (layout g rho (S i) ts)).
      { apply tx_layout_hd; [exact Hg|]. apply (adj_atom_next _ _ Ha). reflexivity. }
      assert (Hcy : contains p y = false) by (cbn [tvars] in Hc; inversion Hc; assumption).
      cbn [dtext]. rewrite Hy. cbn [app contains].
      rewrite (sw_nonupper p Hup Hne c_dollar _ eq_refl). cbn [orb].
      destruct (layout g rho (S i) ts) as [|c b].
      * rewrite app_nil_r. exact Hcy.
      * cbn [hd_not] in Hpost. apply not_ref_not_upper in Hpost.
        rewrite (contains_split p Hup Hne y c b Hpost). rewrite Hcy. cbn [orb].
        cbn [contains] in IH. apply orb_false_iff in IH. apply IH.
    + rewrite (contains_nonupper_app p Hup Hne _ _ (plain_not_upper _ (unres_false_plain rho t Hu))).
      exact IH.
Qed.

Lemma upper_EXPRESSION : Forall (fun c => is_upper c = true) w_EXPRESSION.
Proof. apply Forall_forall. apply forallb_forall. vm_compute. reflexivity. Qed.

Lemma render_no_placeholder : forall rho g a i, blank_fn g -> Forall word_name (avars a) ->
  Forall (fun y => contains w_EXPRESSION y = false) (avars a) ->
  contains (ph_of i) (render_in rho g a) = false.
Proof.
  intros rho g a i Hg _ Hc. unfold ph_of, placeholder. apply contains_app_l.
  unfold render_in. apply noexpr_layout.
  - exact Hg.
  - exact upper_EXPRESSION.
  - discriminate.
  - apply tx_adj_dtoks.
  - rewrite tvars_dtoks. exact Hc.
Qed.

(* ================================================================================================ *)
Print Assumptions refs_render.
Print Assumptions subst_render.
Print Assumptions substitute_render.
Print Assumptions dollar_render.
Print Assumptions render_not_plain.
Print Assumptions ref_of_parts.
Print Assumptions render_no_placeholder.
Print Assumptions render_ext.
